package main

// Thorough-tier cross-check of definite-edge reachability with the whole-program VTA call graph (DESIGN.md §2.2 REACH).
// VTA over-approximates interface dispatch; it has no say in any verdict:
//   * a VTA path to a forbidden callee that has no definite counterpart is printed as a NOTE with its dispatch points;
//   * a definite edge that is missing from the VTA graph would indicate a bug in the checker's call resolution and fails the run.

import (
	"fmt"
	"strings"

	"golang.org/x/tools/go/callgraph"
	"golang.org/x/tools/go/callgraph/cha"
	"golang.org/x/tools/go/callgraph/vta"
	"golang.org/x/tools/go/ssa"
	"golang.org/x/tools/go/ssa/ssautil"
)

var vtaGraph *callgraph.Graph

func VTA(p *Prog) *callgraph.Graph {
	if vtaGraph == nil {
		vtaGraph = vta.CallGraph(ssautil.AllFunctions(p.SSA), cha.CallGraph(p.SSA))
	}
	return vtaGraph
}

// vtaCrossCheck: entries and forbidden as in the definite analysis; definite = functions the definite walk reached.
func vtaCrossCheck(p *Prog, r *Report, key string, entries []*ssa.Function, forbidden func(*ssa.Function) (string, bool), definite *Reach, follow func(*ssa.Function) bool) {
	g := VTA(p)
	// 1. soundness of the checker's static-call edges w.r.t. VTA: every static callee edge taken by the definite walk exists in VTA
	missing := 0
	var firstMissing string
	for _, f := range definite.Order {
		parent := definite.Parent[f]
		via := definite.Via[f]
		if parent == nil || via == nil {
			continue
		}
		c, ok := via.(ssa.CallInstruction)
		if !ok || c.Common().IsInvoke() || c.Common().StaticCallee() != f {
			continue
		}
		n := g.Nodes[parent]
		found := false
		if n != nil {
			for _, e := range n.Out {
				if e.Callee.Func == f {
					found = true
					break
				}
			}
		}
		if !found {
			missing++
			if firstMissing == "" {
				firstMissing = FuncName(parent) + " -> " + FuncName(f)
			}
		}
	}
	r.Check(missing == 0, key+"#definite⊆vta", "every static call edge used by the definite-edge walk is present in the whole-program VTA call graph (sanity of callee resolution)", "vta",
		fmt.Sprintf("%d functions in the definite walk, all static edges confirmed by VTA (%d nodes)", len(definite.Order), len(g.Nodes)), fmt.Sprintf("%d definite edges missing from VTA, e.g. %s", missing, firstMissing))
	// 2. VTA-only paths to forbidden callees (notes)
	parent := map[*ssa.Function]*callgraph.Edge{}
	seen := map[*ssa.Function]bool{}
	var queue []*ssa.Function
	for _, e := range entries {
		if !seen[e] {
			seen[e] = true
			queue = append(queue, e)
		}
	}
	notes := 0
	visited := 0
	for len(queue) > 0 && visited < 200000 {
		f := queue[0]
		queue = queue[1:]
		visited++
		if what, bad := forbidden(f); bad && !definite.Has(f) {
			if notes < 3 {
				var chain []string
				for cur := f; cur != nil; {
					e := parent[cur]
					if e == nil {
						chain = append(chain, FuncName(cur))
						break
					}
					kind := "static"
					if e.Site != nil && e.Site.Common().IsInvoke() {
						kind = "dispatch " + shortPkg(e.Site.Common().Value.Type().String()) + "." + e.Site.Common().Method.Name()
					} else if e.Site != nil && e.Site.Common().StaticCallee() == nil {
						kind = "dynamic call"
					}
					chain = append(chain, FuncName(cur)+" ["+kind+"]")
					cur = e.Caller.Func
					if len(chain) > 12 {
						chain = append(chain, "…")
						break
					}
				}
				for i, j := 0, len(chain)-1; i < j; i, j = i+1, j-1 {
					chain[i], chain[j] = chain[j], chain[i]
				}
				r.Note("VTA-only path (over-approximated dispatch, not a verdict) to %s: %s", what, strings.Join(chain, " -> "))
			}
			notes++
			continue
		}
		n := g.Nodes[f]
		if n == nil {
			continue
		}
		for _, e := range n.Out {
			c := e.Callee.Func
			if c == nil || seen[c] {
				continue
			}
			seen[c] = true
			parent[c] = e
			queue = append(queue, c)
		}
	}
	r.Count("vta-functions-reachable", visited)
	r.Count("vta-only-paths-to-forbidden-callees", notes)
}
