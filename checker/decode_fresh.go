package main

// FRESH — a decode target used inside a loop is fresh in every iteration.
//
// The generated (gogoproto) Unmarshal methods and codec.Unmarshal MERGE into their target: fields that are absent from the
// wire bytes (zero values, empty strings, empty repeated fields are never written) keep whatever the target held before, and
// repeated fields are appended to. A listing / export loop that decodes every stored entry into one variable declared outside
// the loop therefore returns entries contaminated with the fields of earlier entries. The rule: for every decode call that
// lies on a cycle of its function's flow graph, the target is an allocation made on the same cycle (a variable declared in the
// loop body), or the loop resets it (a whole-value store or a Reset() call on the same cycle).

import (
	"fmt"
	"go/types"
	"strings"

	"golang.org/x/tools/go/ssa"
)

func isDecodeCallee(name string) bool {
	base := name
	if i := strings.LastIndex(base, "."); i >= 0 {
		base = base[i+1:]
	}
	base = strings.TrimSuffix(base, ")")
	switch {
	case strings.Contains(base, "Unmarshal"):
		// codec.(Must)Unmarshal*, generated XXX.Unmarshal, proto.Unmarshal, json.Unmarshal: all merge into the target.
		// compkey.Decode is not in the list: FromByteSlices assigns every field from freshly copied slices.
		return true
	}
	return false
}

// sccOf returns the set of blocks on a common cycle with b (empty when b is on no cycle).
func sccOf(b *ssa.BasicBlock) map[*ssa.BasicBlock]bool {
	fwd := map[*ssa.BasicBlock]bool{}
	var walk func(x *ssa.BasicBlock, seen map[*ssa.BasicBlock]bool, succ bool)
	walk = func(x *ssa.BasicBlock, seen map[*ssa.BasicBlock]bool, succ bool) {
		next := x.Preds
		if succ {
			next = x.Succs
		}
		for _, s := range next {
			if !seen[s] {
				seen[s] = true
				walk(s, seen, succ)
			}
		}
	}
	walk(b, fwd, true)
	if !fwd[b] {
		return nil
	}
	bwd := map[*ssa.BasicBlock]bool{}
	walk(b, bwd, false)
	out := map[*ssa.BasicBlock]bool{}
	for x := range fwd {
		if bwd[x] {
			out[x] = true
		}
	}
	return out
}

// allocBehind strips interface conversions and field/index addressing down to the allocation a pointer points into.
func allocBehind(v ssa.Value) *ssa.Alloc {
	for i := 0; i < 8; i++ {
		switch x := v.(type) {
		case *ssa.MakeInterface:
			v = x.X
		case *ssa.ChangeInterface:
			v = x.X
		case *ssa.ChangeType:
			v = x.X
		case *ssa.FieldAddr:
			v = x.X
		case *ssa.IndexAddr:
			v = x.X
		case *ssa.Alloc:
			return x
		default:
			return nil
		}
	}
	return nil
}

type loopDecode struct {
	cs    CallSite
	argI  int
	al    *ssa.Alloc
	fresh bool // allocated on the cycle
	reset bool // reset on the cycle
}

// loopDecodeTargets lists the (decode call, target allocation) pairs of fn whose call lies on a cycle.
func loopDecodeTargets(fn *ssa.Function) []loopDecode {
	var out []loopDecode
	for _, cs := range callSites(fn) {
		if !isDecodeCallee(cs.Name) {
			continue
		}
		in := cs.Instr.(ssa.Instruction)
		scc := sccOf(in.Block())
		if scc == nil {
			continue
		}
		cc := cs.Instr.Common()
		var cands []ssa.Value
		cands = append(cands, cc.Args...)
		if cc.IsInvoke() {
			cands = append(cands, cc.Value)
		}
		for ai, a := range cands {
			if _, ok := a.Type().Underlying().(*types.Pointer); !ok {
				if mi, ok := a.(*ssa.MakeInterface); !ok {
					continue
				} else if _, ok := mi.X.Type().Underlying().(*types.Pointer); !ok {
					continue
				}
			}
			al := allocBehind(a)
			if al == nil {
				continue
			}
			out = append(out, loopDecode{cs: cs, argI: ai, al: al, fresh: scc[al.Block()], reset: loopResets(al, scc)})
		}
	}
	return out
}

const freshFixture = `package freshfx

import "encoding/json"

type T struct{ A []int }

func Hoisted(bs [][]byte) []T {
	var v T
	var out []T
	for _, b := range bs {
		json.Unmarshal(b, &v)
		out = append(out, v)
	}
	return out
}

func Fresh(bs [][]byte) []T {
	var out []T
	for _, b := range bs {
		var v T
		json.Unmarshal(b, &v)
		out = append(out, v)
	}
	return out
}

func Reset(bs [][]byte) []T {
	var v T
	var out []T
	for _, b := range bs {
		v = T{}
		json.Unmarshal(b, &v)
		out = append(out, v)
	}
	return out
}
`

// freshControl: the matcher separates the hoisted, the fresh and the reset form of the same loop.
func freshControl(p *Prog, r *Report, clause string) {
	key := "FRESH:" + clause + ":control#fixture"
	fx, err := buildFixture(p, "freshfx", freshFixture)
	if err != nil {
		r.Undecided(key, "positive control for the loop-fresh decode rule", "checker/decode_fresh.go", "fixture does not build: "+err.Error())
		return
	}
	verdict := func(name string) string {
		ds := loopDecodeTargets(fx[name])
		if len(ds) != 1 {
			return fmt.Sprintf("%d sites", len(ds))
		}
		switch {
		case ds[0].fresh:
			return "fresh"
		case ds[0].reset:
			return "reset"
		}
		return "reused"
	}
	got := verdict("Hoisted") + "/" + verdict("Fresh") + "/" + verdict("Reset")
	r.Check(got == "reused/fresh/reset", key, "positive control: the matcher flags a decode target hoisted out of its loop and accepts the fresh and the reset form", "checker/decode_fresh.go (in-memory fixture, not executed)",
		"fixture verdicts "+got, "fixture verdicts "+got+", expected reused/fresh/reset: the matcher is broken")
}

// checkLoopFreshDecode applies FRESH to every module function selected by want; returns the number of in-loop decode sites.
func checkLoopFreshDecode(p *Prog, r *Report, clause string, want func(fn *ssa.Function) bool) int {
	rule := "a variable that entries are decoded into inside a loop is fresh (or reset) in every iteration: generated Unmarshal merges into its target"
	freshControl(p, r, clause)
	n := 0
	for _, fn := range p.ModFuncs {
		if !want(fn) || p.IsGenerated(fn) {
			continue
		}
		for _, d := range loopDecodeTargets(fn) {
			n++
			in := d.cs.Instr.(ssa.Instruction)
			key := fmt.Sprintf("FRESH:%s:%s→%s#%d:%s", clause, FuncName(fn), d.cs.Name, d.argI, d.al.Comment)
			switch {
			case d.fresh:
				r.OK(key, rule, p.Pos(in.Pos()), fmt.Sprintf("target %q is allocated inside the loop (block %d)", d.al.Comment, d.al.Block().Index))
			case d.reset:
				r.OK(key, rule, p.Pos(in.Pos()), fmt.Sprintf("target %q is declared outside the loop and reset inside it", d.al.Comment))
			default:
				r.Fail(key, rule, p.Pos(in.Pos()),
					fmt.Sprintf("%s decodes every loop iteration into the same variable %q (declared outside the loop at %s, never reset): fields absent from an entry's bytes (zero values, empty lists) keep the previous entry's content and repeated fields accumulate, so the entries returned differ from what is stored", FuncName(fn), d.al.Comment, p.Pos(d.al.Pos())))
			}
		}
	}
	return n
}

// loopResets: a whole-value store to al, or a Reset() call with al as receiver, on the cycle.
func loopResets(al *ssa.Alloc, scc map[*ssa.BasicBlock]bool) bool {
	refs := al.Referrers()
	if refs == nil {
		return false
	}
	for _, rf := range *refs {
		if !scc[rf.Block()] {
			continue
		}
		switch x := rf.(type) {
		case *ssa.Store:
			if x.Addr == al {
				return true
			}
		case ssa.CallInstruction:
			cc := x.Common()
			if cal := cc.StaticCallee(); cal != nil && cal.Name() == "Reset" && len(cc.Args) > 0 && cc.Args[0] == al {
				return true
			}
		case *ssa.MakeInterface:
			if xr := x.Referrers(); xr != nil {
				for _, r2 := range *xr {
					if c, ok := r2.(ssa.CallInstruction); ok && scc[r2.Block()] && c.Common().IsInvoke() && c.Common().Method.Name() == "Reset" && c.Common().Value == x {
						return true
					}
				}
			}
		}
	}
	return false
}
