package main

import "testing"

func TestLangEqual(t *testing.T) {
	cases := []struct {
		a, b LangSpec
		eq   bool
	}{
		{LangSpec{"^[A-Za-z0-9._-]+$", 0, 70}, LangSpec{"^[A-Za-z0-9._-]{1,70}$", 0, -1}, true},
		{LangSpec{"^[A-Za-z0-9._-]+$", 0, 71}, LangSpec{"^[A-Za-z0-9._-]{1,70}$", 0, -1}, false},
		{LangSpec{"^[A-Za-z0-9._-]*$", 0, 70}, LangSpec{"^[A-Za-z0-9._-]{1,70}$", 0, -1}, false},
		{LangSpec{"^[0-9A-Za-z_.-]{1,}$", 0, 70}, LangSpec{"^[A-Za-z0-9._-]{1,70}$", 0, -1}, true},
		{LangSpec{"^[A-Za-z0-9._]+$", 0, 70}, LangSpec{"^[A-Za-z0-9._-]{1,70}$", 0, -1}, false},
		{LangSpec{"", 0, 50}, LangSpec{"", 0, 50}, true},
		{LangSpec{"", 0, 50}, LangSpec{"", 0, 51}, false},
		{LangSpec{`^\S+$`, 0, -1}, LangSpec{`^[^\s]+$`, 1, -1}, true},
		{LangSpec{`^[a-z]+$`, 0, -1}, LangSpec{`^[a-z]*$`, 0, -1}, false},
		{LangSpec{`[a-z]`, 0, 5}, LangSpec{`^.*[a-z].*$`, 0, 5}, false}, // . does not match \n
		{LangSpec{`[a-z]`, 0, 5}, LangSpec{`(?s)^.*[a-z].*$`, 0, 5}, true},
	}
	for i, c := range cases {
		eq, w, err := LangEqual(c.a, c.b)
		if err != nil {
			t.Fatalf("case %d: %v", i, err)
		}
		if eq != c.eq {
			t.Errorf("case %d: %v vs %v: got %v (witness %q), want %v", i, c.a, c.b, eq, w, c.eq)
		}
	}
	if ok, _ := LangAdmitsByte(LangSpec{"^[A-Za-z0-9._-]+$", 0, 70}, '/'); ok {
		t.Error("topic language must not admit /")
	}
	if ok, _ := LangAdmitsByte(LangSpec{"^[A-Za-z0-9._-]+$", 0, 70}, '.'); !ok {
		t.Error("topic language admits .")
	}
	if ok, _ := LangAdmitsByte(LangSpec{"", 1, -1}, 0); !ok {
		t.Error("any-string admits NUL")
	}
}
