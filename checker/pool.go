package main

// POOL — memory taken from a sync.Pool does not outlive its return to the pool (C20 race freedom).
//
// A function that Puts an object back (directly or deferred) and also returns a value that aliases that object's memory — a slice
// of it, the []byte of a pooled buffer, the object itself — hands its caller bytes that the next Get in another goroutine
// overwrites. Single-threaded use never shows it. Copies (append to a fresh slice, string conversion, bytes.Clone, copy into a new
// buffer) end the aliasing.

import (
	"fmt"
	"go/token"

	"golang.org/x/tools/go/ssa"
)

func isPoolGet(v ssa.Value) bool {
	c, ok := v.(*ssa.Call)
	return ok && calleeName(&c.Call) == "(*sync.Pool).Get"
}

// pooledRoot: v aliases an object obtained from sync.Pool.Get in the same function; returns that Get call.
func pooledRoot(v ssa.Value, depth int, seen map[ssa.Value]bool) ssa.Value {
	if depth > 12 || v == nil || seen[v] {
		return nil
	}
	seen[v] = true
	switch x := v.(type) {
	case *ssa.Call:
		if isPoolGet(x) {
			return x
		}
		n := calleeName(&x.Call)
		if (n == "(*bytes.Buffer).Bytes" || n == "(*bytes.Buffer).Next") && len(x.Call.Args) > 0 {
			return pooledRoot(x.Call.Args[0], depth+1, seen)
		}
		return nil
	case *ssa.TypeAssert:
		return pooledRoot(x.X, depth+1, seen)
	case *ssa.Extract:
		return pooledRoot(x.Tuple, depth+1, seen)
	case *ssa.Slice:
		return pooledRoot(x.X, depth+1, seen)
	case *ssa.UnOp:
		if x.Op == token.MUL {
			return pooledRoot(x.X, depth+1, seen)
		}
	case *ssa.FieldAddr:
		return pooledRoot(x.X, depth+1, seen)
	case *ssa.IndexAddr:
		return pooledRoot(x.X, depth+1, seen)
	case *ssa.ChangeType:
		return pooledRoot(x.X, depth+1, seen)
	case *ssa.MakeInterface:
		return pooledRoot(x.X, depth+1, seen)
	case *ssa.Phi:
		for _, e := range x.Edges {
			if r := pooledRoot(e, depth+1, seen); r != nil {
				return r
			}
		}
	case *ssa.Alloc:
		// a local holding the pooled pointer (defer-spilled result, named local): any store into it
		if refs := x.Referrers(); refs != nil {
			for _, rf := range *refs {
				if st, ok := rf.(*ssa.Store); ok && st.Addr == x {
					if r := pooledRoot(st.Val, depth+1, seen); r != nil {
						return r
					}
				}
			}
		}
	}
	return nil
}

// pooledEscapes lists (return instruction, Get call) pairs of fn where a returned value aliases an object that fn also Puts back.
func pooledEscapes(fn *ssa.Function) [][2]ssa.Instruction {
	var puts []ssa.Value // roots that are Put back
	for _, b := range fn.Blocks {
		for _, in := range b.Instrs {
			if ci, ok := in.(ssa.CallInstruction); ok && calleeName(ci.Common()) == "(*sync.Pool).Put" && len(ci.Common().Args) == 2 {
				if r := pooledRoot(ci.Common().Args[1], 0, map[ssa.Value]bool{}); r != nil {
					puts = append(puts, r)
				}
			}
		}
	}
	if len(puts) == 0 {
		return nil
	}
	var out [][2]ssa.Instruction
	for _, ret := range returnsOf(fn) {
		for _, res := range ret.Results {
			root := pooledRoot(res, 0, map[ssa.Value]bool{})
			if root == nil {
				continue
			}
			for _, pr := range puts {
				if pr == root {
					out = append(out, [2]ssa.Instruction{ret, root.(ssa.Instruction)})
				}
			}
		}
	}
	return out
}

const poolFixture = `package poolfx

import (
	"bytes"
	"sync"
)

var bufs = sync.Pool{New: func() interface{} { return new(bytes.Buffer) }}
var raw = sync.Pool{New: func() interface{} { b := make([]byte, 0, 64); return &b }}

func BadBuffer(s string) []byte {
	b := bufs.Get().(*bytes.Buffer)
	defer bufs.Put(b)
	b.Reset()
	b.WriteString(s)
	return b.Bytes()
}

func BadSlice(n int) []byte {
	p := raw.Get().(*[]byte)
	defer raw.Put(p)
	out := (*p)[:n]
	return out
}

func GoodCopy(s string) []byte {
	b := bufs.Get().(*bytes.Buffer)
	defer bufs.Put(b)
	b.Reset()
	b.WriteString(s)
	return append([]byte(nil), b.Bytes()...)
}

func GoodString(s string) string {
	b := bufs.Get().(*bytes.Buffer)
	defer bufs.Put(b)
	b.Reset()
	b.WriteString(s)
	return b.String()
}
`

func checkPooledMemory(p *Prog, r *Report, clause string) {
	kp := func(rule, rest string) string { return rule + ":" + clause + ":" + rest }
	rule := "memory taken from a sync.Pool is not returned to the caller by a function that also puts it back into the pool"
	nGet, nBad := 0, 0
	for _, fn := range p.ModFuncs {
		if p.IsGenerated(fn) || InPkgs(fn, "types/testsuite") {
			continue
		}
		for _, cs := range callSites(fn) {
			if cs.Name == "(*sync.Pool).Get" {
				nGet++
			}
		}
		for _, e := range pooledEscapes(fn) {
			nBad++
			r.Fail(kp("POOL", FuncName(fn)+"#returns-pooled-memory"), rule, p.Pos(e[0].Pos()),
				fmt.Sprintf("%s returns a value that aliases the object it took from a sync.Pool at %s and hands back with Put: the caller still reads those bytes when the next Get (another goroutine validating, signing or answering a query) overwrites them", FuncName(fn), p.Pos(e[1].Pos())))
		}
	}
	r.Count("sync.Pool.Get-sites-in-module", nGet)
	if nBad == 0 {
		r.OK(kp("POOL", "returns-pooled-memory#none"), rule, "x/*, types/*, app/*", fmt.Sprintf("%d sync.Pool.Get sites in hand-written module code, none escapes", nGet))
	}
	key := kp("POOL", "returns-pooled-memory#control")
	fx, err := buildFixture(p, "poolfx", poolFixture)
	if err != nil {
		r.Undecided(key, "positive control for the pooled-memory rule", "checker/pool.go", "fixture does not build: "+err.Error())
		return
	}
	got := fmt.Sprintf("%d/%d/%d/%d", len(pooledEscapes(fx["BadBuffer"])), len(pooledEscapes(fx["BadSlice"])), len(pooledEscapes(fx["GoodCopy"])), len(pooledEscapes(fx["GoodString"])))
	r.Check(got == "1/1/0/0", key, "positive control: the matcher flags a returned Buffer.Bytes() / slice of a pooled object and accepts a copy and a string", "checker/pool.go (in-memory fixture, not executed)",
		"fixture escapes "+got, "fixture escapes "+got+", expected 1/1/0/0: the matcher is broken")
}

// ---------------------------------------------------------------------------------------------
// Reset discipline (C09): what a pooled object holds when it comes out of the pool depends on this process's history (which calls
// ran before, on which P, when the GC emptied the pool). Code whose results must not depend on that either resets the object
// after Get, before any other use, or hands it back reset on every path (every Put is preceded by a Reset; with a deferred Put,
// every return is).

type poolFinding struct {
	Get  ssa.Instruction
	At   ssa.Instruction
	What string
}

func isResetEvent(in ssa.Instruction, get ssa.Value) bool {
	switch x := in.(type) {
	case ssa.CallInstruction:
		cc := x.Common()
		if sc := cc.StaticCallee(); sc != nil && (sc.Name() == "Reset" || sc.Name() == "Truncate") && len(cc.Args) > 0 {
			return pooledRoot(cc.Args[0], 0, map[ssa.Value]bool{}) == get
		}
	case *ssa.Slice:
		if c, ok := x.High.(*ssa.Const); ok && c.Value != nil && c.Value.ExactString() == "0" {
			return pooledRoot(x.X, 0, map[ssa.Value]bool{}) == get
		}
	}
	return false
}

func poolResetDiscipline(fn *ssa.Function) []poolFinding {
	var out []poolFinding
	if fn == nil || fn.Blocks == nil {
		return nil
	}
	o := &Origin{fn: fn}
	for _, b := range fn.Blocks {
		for _, in := range b.Instrs {
			getV, ok := in.(ssa.Value)
			if !ok || !isPoolGet(getV) {
				continue
			}
			var resets, uses, puts []ssa.Instruction
			deferredPut := false
			closurePutResets := false
			for _, b2 := range fn.Blocks {
				for _, in2 := range b2.Instrs {
					if in2 == in {
						continue
					}
					if isResetEvent(in2, getV) {
						resets = append(resets, in2)
						continue
					}
					touches := false
					for _, op := range in2.Operands(nil) {
						if *op != nil && pooledRoot(*op, 0, map[ssa.Value]bool{}) == getV {
							touches = true
						}
					}
					if !touches {
						continue
					}
					switch x := in2.(type) {
					case *ssa.TypeAssert, *ssa.DebugRef, *ssa.Phi, *ssa.MakeInterface, *ssa.ChangeType, *ssa.Extract:
						continue
					case *ssa.Store:
						// spilling the pointer into a local
						if _, isAl := x.Addr.(*ssa.Alloc); isAl && pooledRoot(x.Val, 0, map[ssa.Value]bool{}) == getV {
							continue
						}
					case *ssa.UnOp:
						if _, isAl := x.X.(*ssa.Alloc); isAl {
							continue // reloading the spilled pointer
						}
					case *ssa.MakeClosure:
						// defer func() { buf.Reset(); pool.Put(buf) }()
						if cf, ok := x.Fn.(*ssa.Function); ok {
							hasReset, hasPut := false, false
							for _, cb := range cf.Blocks {
								for _, ci := range cb.Instrs {
									if c, ok := ci.(ssa.CallInstruction); ok {
										if sc := c.Common().StaticCallee(); sc != nil {
											if sc.Name() == "Reset" || sc.Name() == "Truncate" {
												hasReset = true
											}
											if FuncName(sc) == "(*sync.Pool).Put" {
												hasPut = true
											}
										}
									}
								}
							}
							if hasReset && hasPut {
								closurePutResets = true
								continue
							}
						}
					case ssa.CallInstruction:
						if calleeName(x.Common()) == "(*sync.Pool).Put" {
							puts = append(puts, in2)
							if _, isDefer := in2.(*ssa.Defer); isDefer {
								deferredPut = true
							}
							continue
						}
					}
					uses = append(uses, in2)
				}
			}
			// A: a reset after Get dominates every other use
			okA := len(resets) > 0
			for _, u := range uses {
				dom := false
				for _, rs := range resets {
					if o.dominates(rs, u) {
						dom = true
					}
				}
				if !dom {
					okA = false
				}
			}
			// B: handed back reset on every path
			okB := closurePutResets
			if !okB && len(puts) > 0 {
				okB = true
				if deferredPut {
					for _, ret := range returnsOf(fn) {
						dom := false
						for _, rs := range resets {
							if o.dominates(rs, ret) {
								dom = true
							}
						}
						if !dom {
							okB = false
						}
					}
				}
				for _, pt := range puts {
					if _, isDefer := pt.(*ssa.Defer); isDefer {
						continue
					}
					dom := false
					for _, rs := range resets {
						if o.dominates(rs, pt) {
							dom = true
						}
					}
					if !dom {
						okB = false
					}
				}
			}
			if !okA && !okB && len(uses) > 0 {
				out = append(out, poolFinding{Get: in, At: uses[0], What: fmt.Sprintf("%d uses of the pooled object, %d reset events; no reset dominates the uses, and the object is not reset on every path that hands it back", len(uses), len(resets))})
			}
		}
	}
	return out
}

const poolResetFixture = `package poolresetfx

import (
	"bytes"
	"errors"
	"sync"
)

var pool = sync.Pool{New: func() interface{} { return new(bytes.Buffer) }}

func Dirty(vals [][]byte) ([]byte, error) {
	buf := pool.Get().(*bytes.Buffer)
	defer pool.Put(buf)
	for _, v := range vals {
		if len(v) > 255 {
			return nil, errors.New("too long")
		}
		buf.WriteByte(byte(len(v)))
		buf.Write(v)
	}
	out := append([]byte(nil), buf.Bytes()...)
	buf.Reset()
	return out, nil
}

func ResetOnGet(vals [][]byte) []byte {
	buf := pool.Get().(*bytes.Buffer)
	buf.Reset()
	defer pool.Put(buf)
	for _, v := range vals {
		buf.Write(v)
	}
	return append([]byte(nil), buf.Bytes()...)
}

func ResetOnPut(vals [][]byte) []byte {
	buf := pool.Get().(*bytes.Buffer)
	defer func() { buf.Reset(); pool.Put(buf) }()
	for _, v := range vals {
		buf.Write(v)
	}
	return append([]byte(nil), buf.Bytes()...)
}
`

// checkPoolResetDiscipline applies the rule to the functions in scope.
func checkPoolResetDiscipline(p *Prog, r *Report, kp func(string, string) string, scope []*ssa.Function) {
	rule := "what block processing computes does not depend on what a sync.Pool object still holds from earlier calls: a pooled object is reset after Get before any other use, or handed back reset on every path"
	ckey := kp("STATE", "pool-reset-discipline:control#fixture")
	if fx, err := buildFixture(p, "poolresetfx", poolResetFixture); err != nil {
		r.Undecided(ckey, "positive control for the pool reset rule", "checker/pool.go", "fixture does not build: "+err.Error())
	} else {
		got := fmt.Sprintf("%d/%d/%d", len(poolResetDiscipline(fx["Dirty"])), len(poolResetDiscipline(fx["ResetOnGet"])), len(poolResetDiscipline(fx["ResetOnPut"])))
		r.Check(got == "1/0/0", ckey, "positive control: a buffer that is reset only on the success path is reported; reset-after-Get and reset-in-the-deferred-Put are not", "checker/pool.go (in-memory fixture, not executed)",
			"fixture findings "+got, "fixture findings "+got+", expected 1/0/0: the matcher is broken")
	}
	n := 0
	for _, fn := range scope {
		if fn.Blocks == nil || p.IsGenerated(fn) {
			continue
		}
		for _, f := range poolResetDiscipline(fn) {
			n++
			r.Fail(kp("STATE", "pool-reset-discipline:"+FuncName(fn)), rule, p.Pos(f.At.Pos()),
				fmt.Sprintf("%s takes an object from a sync.Pool (%s) and uses it without a dominating reset (%s): after a call that left it dirty (an error path), the next call on this node starts from that content — a node-local history that other nodes do not share", FuncName(fn), p.Pos(f.Get.Pos()), f.What))
		}
	}
	if n == 0 {
		r.OK(kp("STATE", "pool-reset-discipline#none"), rule, "x/*, types/*", fmt.Sprintf("%d functions in scope, no sync.Pool object used without the reset discipline", len(scope)))
	}
}
