package main

// POOL — memory taken from a sync.Pool does not outlive its return to the pool (C20 race freedom).
//
// A function that Puts an object back (directly or deferred) and also returns a value that aliases that object's memory — a slice
// of it, the []byte of a pooled buffer, the object itself — hands its caller bytes that the next Get in another goroutine
// overwrites. Single-threaded use never shows it. Copies (append to a fresh slice, string conversion, bytes.Clone, copy into a new
// buffer) end the aliasing.

import (
	"fmt"
	"go/token"

	"golang.org/x/tools/go/ssa"
)

func isPoolGet(v ssa.Value) bool {
	c, ok := v.(*ssa.Call)
	return ok && calleeName(&c.Call) == "(*sync.Pool).Get"
}

// pooledRoot: v aliases an object obtained from sync.Pool.Get in the same function; returns that Get call.
func pooledRoot(v ssa.Value, depth int, seen map[ssa.Value]bool) ssa.Value {
	if depth > 12 || v == nil || seen[v] {
		return nil
	}
	seen[v] = true
	switch x := v.(type) {
	case *ssa.Call:
		if isPoolGet(x) {
			return x
		}
		n := calleeName(&x.Call)
		if (n == "(*bytes.Buffer).Bytes" || n == "(*bytes.Buffer).Next") && len(x.Call.Args) > 0 {
			return pooledRoot(x.Call.Args[0], depth+1, seen)
		}
		return nil
	case *ssa.TypeAssert:
		return pooledRoot(x.X, depth+1, seen)
	case *ssa.Extract:
		return pooledRoot(x.Tuple, depth+1, seen)
	case *ssa.Slice:
		return pooledRoot(x.X, depth+1, seen)
	case *ssa.UnOp:
		if x.Op == token.MUL {
			return pooledRoot(x.X, depth+1, seen)
		}
	case *ssa.FieldAddr:
		return pooledRoot(x.X, depth+1, seen)
	case *ssa.IndexAddr:
		return pooledRoot(x.X, depth+1, seen)
	case *ssa.ChangeType:
		return pooledRoot(x.X, depth+1, seen)
	case *ssa.MakeInterface:
		return pooledRoot(x.X, depth+1, seen)
	case *ssa.Phi:
		for _, e := range x.Edges {
			if r := pooledRoot(e, depth+1, seen); r != nil {
				return r
			}
		}
	case *ssa.Alloc:
		// a local holding the pooled pointer (defer-spilled result, named local): any store into it
		if refs := x.Referrers(); refs != nil {
			for _, rf := range *refs {
				if st, ok := rf.(*ssa.Store); ok && st.Addr == x {
					if r := pooledRoot(st.Val, depth+1, seen); r != nil {
						return r
					}
				}
			}
		}
	}
	return nil
}

// pooledEscapes lists (return instruction, Get call) pairs of fn where a returned value aliases an object that fn also Puts back.
func pooledEscapes(fn *ssa.Function) [][2]ssa.Instruction {
	var puts []ssa.Value // roots that are Put back
	for _, b := range fn.Blocks {
		for _, in := range b.Instrs {
			if ci, ok := in.(ssa.CallInstruction); ok && calleeName(ci.Common()) == "(*sync.Pool).Put" && len(ci.Common().Args) == 2 {
				if r := pooledRoot(ci.Common().Args[1], 0, map[ssa.Value]bool{}); r != nil {
					puts = append(puts, r)
				}
			}
		}
	}
	if len(puts) == 0 {
		return nil
	}
	var out [][2]ssa.Instruction
	for _, ret := range returnsOf(fn) {
		for _, res := range ret.Results {
			root := pooledRoot(res, 0, map[ssa.Value]bool{})
			if root == nil {
				continue
			}
			for _, pr := range puts {
				if pr == root {
					out = append(out, [2]ssa.Instruction{ret, root.(ssa.Instruction)})
				}
			}
		}
	}
	return out
}

const poolFixture = `package poolfx

import (
	"bytes"
	"sync"
)

var bufs = sync.Pool{New: func() interface{} { return new(bytes.Buffer) }}
var raw = sync.Pool{New: func() interface{} { b := make([]byte, 0, 64); return &b }}

func BadBuffer(s string) []byte {
	b := bufs.Get().(*bytes.Buffer)
	defer bufs.Put(b)
	b.Reset()
	b.WriteString(s)
	return b.Bytes()
}

func BadSlice(n int) []byte {
	p := raw.Get().(*[]byte)
	defer raw.Put(p)
	out := (*p)[:n]
	return out
}

func GoodCopy(s string) []byte {
	b := bufs.Get().(*bytes.Buffer)
	defer bufs.Put(b)
	b.Reset()
	b.WriteString(s)
	return append([]byte(nil), b.Bytes()...)
}

func GoodString(s string) string {
	b := bufs.Get().(*bytes.Buffer)
	defer bufs.Put(b)
	b.Reset()
	b.WriteString(s)
	return b.String()
}
`

func checkPooledMemory(p *Prog, r *Report, clause string) {
	kp := func(rule, rest string) string { return rule + ":" + clause + ":" + rest }
	rule := "memory taken from a sync.Pool is not returned to the caller by a function that also puts it back into the pool"
	nGet, nBad := 0, 0
	for _, fn := range p.ModFuncs {
		if p.IsGenerated(fn) || InPkgs(fn, "types/testsuite") {
			continue
		}
		for _, cs := range callSites(fn) {
			if cs.Name == "(*sync.Pool).Get" {
				nGet++
			}
		}
		for _, e := range pooledEscapes(fn) {
			nBad++
			r.Fail(kp("POOL", FuncName(fn)+"#returns-pooled-memory"), rule, p.Pos(e[0].Pos()),
				fmt.Sprintf("%s returns a value that aliases the object it took from a sync.Pool at %s and hands back with Put: the caller still reads those bytes when the next Get (another goroutine validating, signing or answering a query) overwrites them", FuncName(fn), p.Pos(e[1].Pos())))
		}
	}
	r.Count("sync.Pool.Get-sites-in-module", nGet)
	if nBad == 0 {
		r.OK(kp("POOL", "returns-pooled-memory#none"), rule, "x/*, types/*, app/*", fmt.Sprintf("%d sync.Pool.Get sites in hand-written module code, none escapes", nGet))
	}
	key := kp("POOL", "returns-pooled-memory#control")
	fx, err := buildFixture(p, "poolfx", poolFixture)
	if err != nil {
		r.Undecided(key, "positive control for the pooled-memory rule", "checker/pool.go", "fixture does not build: "+err.Error())
		return
	}
	got := fmt.Sprintf("%d/%d/%d/%d", len(pooledEscapes(fx["BadBuffer"])), len(pooledEscapes(fx["BadSlice"])), len(pooledEscapes(fx["GoodCopy"])), len(pooledEscapes(fx["GoodString"])))
	r.Check(got == "1/1/0/0", key, "positive control: the matcher flags a returned Buffer.Bytes() / slice of a pooled object and accepts a copy and a string", "checker/pool.go (in-memory fixture, not executed)",
		"fixture escapes "+got, "fixture escapes "+got+", expected 1/1/0/0: the matcher is broken")
}
