package main

import (
	"fmt"
	"go/ast"
	"go/types"
	"os"
	"regexp"
	"sort"
	"strconv"
	"strings"

	"golang.org/x/tools/go/ssa"
)

func init() { register("C16", checkC16) }

// foldString constant-folds a string term: constants and fmt.Sprintf of constants with %s/%v verbs.
func foldString(t *Term) (string, bool) {
	if t == nil {
		return "", false
	}
	if t.Op == "const" {
		s, err := strconv.Unquote(t.Name)
		return s, err == nil
	}
	if t.Op == "binop" && t.Name == "+" && len(t.Args) == 2 {
		a, ok1 := foldString(t.Args[0])
		b, ok2 := foldString(t.Args[1])
		if ok1 && ok2 {
			return a + b, true
		}
		return "", false
	}
	if t.IsCall("fmt.Sprintf") && len(t.Args) == 2 && t.Args[1].Op == "slicelit" {
		f, ok := foldString(t.Args[0])
		if !ok {
			return "", false
		}
		var args []interface{}
		for _, a := range t.Args[1].Args {
			s, ok := foldString(a)
			if !ok {
				return "", false
			}
			args = append(args, s)
		}
		if strings.Count(f, "%s")+strings.Count(f, "%v") != len(args) || strings.Count(f, "%") != len(args) {
			return "", false
		}
		return fmt.Sprintf(f, args...), true
	}
	return "", false
}

// compiledPattern resolves a *regexp.Regexp term to its constant pattern: regexp.MustCompile(<const>) directly, or a
// package-level variable initialised that way and never reassigned.
func compiledPattern(t *Term) (string, bool) {
	if t == nil {
		return "", false
	}
	if t.IsCall("regexp.MustCompile") && len(t.Args) == 1 {
		return foldString(t.Args[0])
	}
	if t.Op == "gval" && progForFacts != nil {
		pp, name := splitGlobal(t.Name)
		pk := progForFacts.All[pp]
		if pk == nil {
			return "", false
		}
		obj := pk.Types.Scope().Lookup(name)
		pat, found, assigns := "", false, 0
		for _, f := range pk.Syntax {
			ast.Inspect(f, func(nd ast.Node) bool {
				switch x := nd.(type) {
				case *ast.ValueSpec:
					for i, id := range x.Names {
						if pk.TypesInfo.Defs[id] == obj && i < len(x.Values) {
							if c, ok := x.Values[i].(*ast.CallExpr); ok && len(c.Args) == 1 {
								if o := calleeObj(pk.TypesInfo, c); o != nil && objFull(o) == "regexp.MustCompile" {
									if s, ok := constStr(pk.TypesInfo, c.Args[0]); ok {
										pat, found = s, true
									}
								}
							}
						}
					}
				case *ast.AssignStmt:
					for _, l := range x.Lhs {
						if id, ok := l.(*ast.Ident); ok && pk.TypesInfo.Uses[id] == obj {
							assigns++
						}
					}
				}
				return true
			})
		}
		if found && assigns == 0 {
			return pat, true
		}
		// an initialiser that is not a literal (fmt.Sprintf over constants and pure helpers): evaluate the store in the
		// package initialiser's SSA
		if assigns == 0 {
			if sp := progForFacts.SSAPkg(pp); sp != nil {
				if initFn := sp.Func("init"); initFn != nil {
					var val ssa.Value
					n := 0
					for _, b := range initFn.Blocks {
						for _, in := range b.Instrs {
							if st, ok := in.(*ssa.Store); ok {
								if g, ok := st.Addr.(*ssa.Global); ok && g.Name() == name {
									val = st.Val
									n++
								}
							}
						}
					}
					if n == 1 {
						it := NewOrigin(progForFacts, initFn).Of(val)
						if it.IsCall("regexp.MustCompile") && len(it.Args) == 1 {
							return foldString(it.Args[0])
						}
					}
				}
			}
		}
		// assigned exactly once, lazily, inside the function handed to a package-level sync.Once (`once.Do(func() { re = MustCompile(…) })`)
		if assigns == 1 {
			if sp := progForFacts.SSAPkg(pp); sp != nil {
				var val ssa.Value
				var host *ssa.Function
				n := 0
				for _, fn := range progForFacts.ModFuncs {
					if fn.Pkg != sp && (fn.Parent() == nil || fn.Parent().Pkg != sp) {
						continue
					}
					for _, b := range fn.Blocks {
						for _, in := range b.Instrs {
							if st, ok := in.(*ssa.Store); ok {
								if g, ok := st.Addr.(*ssa.Global); ok && g.Name() == name && g.Pkg == sp {
									val, host = st.Val, fn
									n++
								}
							}
						}
					}
				}
				if n == 1 && host != nil && host.Parent() != nil && onlyRunBySyncOnce(host) {
					it := NewOrigin(progForFacts, host).Of(val)
					if it.IsCall("regexp.MustCompile") && len(it.Args) == 1 {
						return foldString(it.Args[0])
					}
				}
			}
		}
		return "", false
	}
	return "", false
}

// regexAtom: the atom is a successful match of a constant pattern against subject; returns pattern and subject.
func regexAtom(t *Term) (string, *Term, bool) {
	if t == nil {
		return "", nil, false
	}
	if t.IsCall("(*regexp.Regexp).MatchString") && len(t.Args) == 2 {
		if p, ok := compiledPattern(t.Args[0]); ok {
			return p, t.Args[1], true
		}
	}
	if t.Op == "res" && t.Name == "#0" && t.Args[0].IsCall("regexp.MatchString") && len(t.Args[0].Args) == 2 {
		if p, ok := foldString(t.Args[0].Args[0]); ok {
			return p, t.Args[0].Args[1], true
		}
	}
	return "", nil, false
}

// acceptFormula: the condition under which fn accepts (returns a nil error / true), over fn's own parameter terms.
func acceptFormula(p *Prog, fn *ssa.Function) *Formula {
	o := NewOrigin(p, fn)
	fa := NewFacts(p, fn, o)
	// a validator applied to one field stays an atom (it is summarised into length × language by classifyMsgAtom); any other
	// error-returning helper (an extracted group of checks) is replaced by its own accept condition
	fa.ErrExpand = func(atom *Formula) int {
		if cls, _, ok := classifyMsgAtom(p, atom.Term); ok {
			// a helper that only asks for presence / non-emptiness (no upper bound, no pattern) is not a length × language
			// validator: its own conditions are what the field expectations (non-nil, non-empty) are matched against
			if g := errHelperOfAtom(p, atom.Term); g != nil && (cls.Kind == "lang" && cls.Spec.Pat == "" && cls.Spec.Hi < 0 || strings.HasPrefix(cls.Kind, "validator?")) {
				return 2
			}
			return 1
		}
		return 2
	}
	res := fn.Signature.Results()
	isBool := res.Len() == 1 && types.Identical(res.At(0).Type().Underlying(), types.Typ[types.Bool])
	var disj []*Formula
	for _, ret := range returnsOf(fn) {
		F := fa.At(ret.Block())
		if isBool {
			// path-sensitive value: use the summary machinery
			continue
		}
		ev := unspill(ret.Results[len(ret.Results)-1])
		if isNilConst(ev) {
			disj = append(disj, F)
			continue
		}
		// pass-through: `return helper(...)` accepts when the helper does (not a `return err` under err != nil)
		isSuccess := false
		for _, sr := range successReturns(fn) {
			if sr == ret {
				isSuccess = true
			}
		}
		if !isSuccess {
			continue
		}
		if hc, g, ok := fa.errOfHelperCall(ev); ok {
			if S := fa.errorSummary(g, hc, o, 0); S != nil {
				disj = append(disj, fAnd(F, S))
			}
			continue
		}
		// `_, err := parse(x); return err`: accepts when that call's error is nil
		if isErrorType(ev.Type()) {
			switch ev.(type) {
			case *ssa.Call, *ssa.Extract:
				if at := cmpAtom("==", o.Of(ev), o.Of(ssa.NewConst(nil, ev.Type()))); at != nil {
					disj = append(disj, fAnd(F, at))
				}
			}
		}
	}
	if isBool {
		return boolAccept(fa, fn)
	}
	return fOr(disj...)
}

// boolAccept enumerates the paths of a bool function (no purity requirement) and ORs path-condition ∧ returned value.
func boolAccept(fa *Facts, fn *ssa.Function) *Formula {
	for _, b := range fn.Blocks {
		if inCycle(b) {
			return nil
		}
	}
	var disj []*Formula
	var path []*ssa.BasicBlock
	ok := true
	count := 0
	var dfs func(cur *ssa.BasicBlock, conj []*Formula)
	dfs = func(cur *ssa.BasicBlock, conj []*Formula) {
		if !ok {
			return
		}
		path = append(path, cur)
		defer func() { path = path[:len(path)-1] }()
		switch t := cur.Instrs[len(cur.Instrs)-1].(type) {
		case *ssa.Return:
			count++
			if count > maxPaths {
				ok = false
				return
			}
			rv := fa.valueFormula(t.Results[0], fa.o, path, 0)
			disj = append(disj, fAnd(append(append([]*Formula(nil), conj...), rv)...))
		case *ssa.If:
			c := fa.valueFormula(t.Cond, fa.o, path, 0)
			dfs(cur.Succs[0], append(append([]*Formula(nil), conj...), c))
			dfs(cur.Succs[1], append(append([]*Formula(nil), conj...), fNot(c)))
		case *ssa.Jump:
			dfs(cur.Succs[0], conj)
		default:
			ok = false
		}
	}
	dfs(fn.Blocks[0], nil)
	if !ok {
		return nil
	}
	return fOr(disj...)
}

// literals flattens a conjunction of literals; ok=false when the formula has another shape.
func literals(f *Formula) ([]*Formula, bool) {
	switch f.Kind {
	case FTrue:
		return nil, true
	case FAtom:
		return []*Formula{f}, true
	case FNot:
		if f.Sub[0].Kind == FAtom {
			return []*Formula{f}, true
		}
	case FAnd:
		var out []*Formula
		for _, s := range f.Sub {
			l, ok := literals(s)
			if !ok {
				return nil, false
			}
			out = append(out, l...)
		}
		return out, true
	}
	return nil, false
}

// summariseLengthRegexValidator: accept(fn) as a LangSpec over parameter `idx`; other = literals it could not interpret.
func summariseLengthRegexValidator(p *Prog, fn *ssa.Function, idx int) (LangSpec, []string, bool) {
	A := acceptFormula(p, fn)
	spec := LangSpec{Lo: 0, Hi: -1}
	if A == nil {
		return spec, []string{"validator has loops or too many paths"}, false
	}
	lits, ok := literals(A)
	if !ok {
		return spec, []string{"accept condition is not a conjunction: " + A.String()}, false
	}
	isParam := func(t *Term) bool {
		return t != nil && t.Op == "param" && strings.HasPrefix(t.Name, fmt.Sprintf("%d:", idx))
	}
	isLen := func(t *Term) bool { return t.IsCall("builtin:len") && len(t.Args) == 1 && isParam(t.Args[0]) }
	var other []string
	var pats []string
	for _, l := range lits {
		neg := l.Kind == FNot
		a := l
		if neg {
			a = l.Sub[0]
		}
		t := a.Term
		if t == nil {
			other = append(other, l.String())
			continue
		}
		if pat, subj, isRe := regexAtom(t); isRe && isParam(subj) && !neg {
			pats = append(pats, pat)
			continue
		}
		// firstInvalidByte(param) < 0: every byte of the parameter is in the scanner's class
		if t.Op == "lt" && len(t.Args) == 2 && t.Args[1].Op == "const" && t.Args[1].Name == "0" && t.Args[0].Op == "call" && len(t.Args[0].Args) == 1 && isParam(t.Args[0].Args[0]) && !neg {
			if g := staticCalleeOfTerm(p, t.Args[0]); g != nil {
				if set, isScan := byteScanAllowed(g); isScan {
					if pat, okP := byteClassPattern(set); okP {
						pats = append(pats, pat)
						continue
					}
				}
			}
		}
		var c int64
		switch {
		case t.Op == "lt" && t.Args[0].Op == "const" && isLen(t.Args[1]): // c < len
			fmt.Sscan(t.Args[0].Name, &c)
			if neg { // len <= c
				if spec.Hi < 0 || int(c) < spec.Hi {
					spec.Hi = int(c)
				}
			} else if int(c)+1 > spec.Lo {
				spec.Lo = int(c) + 1
			}
			continue
		case t.Op == "lt" && isLen(t.Args[0]) && t.Args[1].Op == "const": // len < c
			fmt.Sscan(t.Args[1].Name, &c)
			if !neg {
				if spec.Hi < 0 || int(c)-1 < spec.Hi {
					spec.Hi = int(c) - 1
				}
			} else if int(c) > spec.Lo {
				spec.Lo = int(c)
			}
			continue
		case t.Op == "eq" && neg && (t.Args[0].Op == "const" && (t.Args[0].Name == `""` && isParam(t.Args[1]) || t.Args[0].Name == "0" && isLen(t.Args[1]))):
			if spec.Lo < 1 {
				spec.Lo = 1
			}
			continue
		}
		other = append(other, l.String())
	}
	switch len(pats) {
	case 0:
	case 1:
		spec.Pat = pats[0]
	default:
		other = append(other, "several patterns: "+strings.Join(pats, " & "))
	}
	return spec, other, len(other) == 0
}

// ---- oracles ---------------------------------------------------------------------------------------

const topicClass = `[A-Za-z0-9._-]`
const base58Alphabet = "123456789ABCDEFGHJKLMNPQRSTUVWXYZabcdefghijkmnopqrstuvwxyz"

// statementOracle: the limits as written in the property statement.
func statementOracle() map[string]LangSpec {
	return map[string]LangSpec{
		"TopicName":   {Pat: `^` + topicClass + `{1,70}$`, Lo: 0, Hi: -1},
		"Moniker":     {Pat: `^` + topicClass + `{0,70}$`, Lo: 0, Hi: -1},
		"Description": {Pat: "", Lo: 0, Hi: 5000},
		"Key":         {Pat: "", Lo: 0, Hi: 70},
		"Value":       {Pat: "", Lo: 0, Hi: 5000},
		"Did":         {Pat: `^did:panacea:[` + base58Alphabet + `]{32,44}$`, Lo: 0, Hi: -1},
	}
}

// docOracle parses the Limits table of .gitbook/specifications/aol.md and the ABNF block of docs/did.md.
func docOracle(repo string) (map[string]LangSpec, []string) {
	out := map[string]LangSpec{}
	var problems []string
	bz, err := os.ReadFile(repo + "/.gitbook/specifications/aol.md")
	if err != nil {
		problems = append(problems, "cannot read aol.md: "+err.Error())
	} else {
		row := regexp.MustCompile("^\\|`(\\w+)`\\|([0-9,]+)\\|([0-9,]+)\\|(.*)\\|\\s*$")
		for _, line := range strings.Split(string(bz), "\n") {
			m := row.FindStringSubmatch(strings.TrimSpace(line))
			if m == nil {
				continue
			}
			lo, _ := strconv.Atoi(strings.ReplaceAll(m[2], ",", ""))
			hi, _ := strconv.Atoi(strings.ReplaceAll(m[3], ",", ""))
			cs := strings.TrimSpace(m[4])
			spec := LangSpec{Lo: lo, Hi: hi}
			if cs != "Any" {
				// "`a-z`, `A-Z`, `0-9`, `.`, `_` and `-`"
				var cls strings.Builder
				dash := false
				for _, it := range regexp.MustCompile("`([^`]+)`").FindAllStringSubmatch(cs, -1) {
					if it[1] == "-" {
						dash = true
						continue
					}
					if len(it[1]) == 3 && it[1][1] == '-' {
						cls.WriteString(it[1])
					} else {
						cls.WriteString(regexp.QuoteMeta(it[1]))
					}
				}
				if dash {
					cls.WriteString("-")
				}
				spec = LangSpec{Pat: fmt.Sprintf("^[%s]{%d,%d}$", cls.String(), lo, hi), Lo: 0, Hi: -1}
			}
			out[m[1]] = spec
		}
		if len(out) < 5 {
			problems = append(problems, fmt.Sprintf("aol.md Limits table: only %d rows parsed", len(out)))
		}
	}
	bz, err = os.ReadFile(repo + "/docs/did.md")
	if err != nil {
		problems = append(problems, "cannot read did.md: "+err.Error())
	} else {
		s := string(bz)
		idm := regexp.MustCompile(`idstring\s*=\s*(\d+)\*(\d+)\(base58\)`).FindStringSubmatch(s)
		pm := regexp.MustCompile(`panacea-did\s*=\s*"([^"]+)"\s*idstring`).FindStringSubmatch(s)
		bi := strings.Index(s, "base58 =")
		if idm == nil || pm == nil || bi < 0 {
			problems = append(problems, "did.md ABNF block not found")
		} else {
			end := strings.Index(s[bi:], "```")
			var alpha strings.Builder
			for _, c := range regexp.MustCompile(`"(.)"`).FindAllStringSubmatch(s[bi:bi+end], -1) {
				alpha.WriteString(c[1])
			}
			out["Did"] = LangSpec{Pat: fmt.Sprintf("^%s[%s]{%s,%s}$", regexp.QuoteMeta(pm[1]), alpha.String(), idm[1], idm[2]), Lo: 0, Hi: -1}
		}
	}
	return out, problems
}

// ---- message-level acceptance -------------------------------------------------------------------------

type atomClass struct {
	Field string
	Kind  string // lang | bech32 | nonempty | nonnil | valid | bound | addr-nonempty | nonul | nonzero-time | optional-empty
	Spec  LangSpec
}

func fieldOfSubject(t *Term) (string, bool) {
	if t == nil {
		return "", false
	}
	if t.Op == "deref" && len(t.Args) == 1 {
		t = t.Args[0]
	}
	return msgField(t)
}

// classifyMsgAtom maps one atom of a ValidateBasic accept formula to (field, kind); pos tells which polarity means "constraint satisfied".
func classifyMsgAtom(p *Prog, t *Term) (atomClass, bool, bool) {
	if t == nil {
		return atomClass{}, false, false
	}
	// regex on a field
	if pat, subj, ok := regexAtom(t); ok {
		if f, ok := fieldOfSubject(subj); ok {
			return atomClass{f, "lang", LangSpec{Pat: pat, Lo: 0, Hi: -1}}, true, true
		}
	}
	if t.Op == "eq" && len(t.Args) == 2 {
		a, b := t.Args[0], t.Args[1]
		if a.Op != "const" {
			a, b = b, a
		}
		if a.Op == "const" {
			switch {
			case a.Name == "nil" && b.Op == "call" && len(b.Args) == 1 && InModuleName(b.Name):
				// error-returning module validator applied to a field
				if f, ok := fieldOfSubject(b.Args[0]); ok {
					if fn := staticCalleeOfTerm(p, b); fn != nil {
						spec, other, okS := summariseLengthRegexValidator(p, fn, 0)
						if okS {
							return atomClass{f, "lang", spec}, true, true
						}
						return atomClass{f, "validator?" + FuncName(fn) + ":" + strings.Join(other, ";"), spec}, true, true
					}
				}
			case a.Name == "nil" && b.Op == "res" && b.Name == "#1" && b.Args[0].IsCall("sdk/types.AccAddressFromBech32"):
				if f, ok := fieldOfSubject(b.Args[0].Args[0]); ok {
					return atomClass{f, "bech32", LangSpec{}}, true, true
				}
			case a.Name == `""`:
				if f, ok := fieldOfSubject(b); ok {
					return atomClass{f, "nonempty", LangSpec{}}, false, true
				}
			case a.Name == "0" && b.IsCall("builtin:len"):
				if f, ok := fieldOfSubject(b.Args[0]); ok {
					return atomClass{f, "nonempty", LangSpec{}}, false, true
				}
			case a.Name == "nil":
				if f, ok := fieldOfSubject(b); ok {
					return atomClass{f, "nonnil", LangSpec{}}, false, true
				}
			}
		}
		// field == other field's sub-field  (Did == Document.Id)
		fa, oka := fieldOfSubject(t.Args[0])
		if oka {
			if t.Args[1].Op == "field" {
				if fb, okb := fieldOfSubject(t.Args[1].Args[0]); okb {
					return atomClass{fa + "=" + fb + "." + t.Args[1].Name, "bound", LangSpec{}}, true, true
				}
			}
		}
		fb, okb := fieldOfSubject(t.Args[1])
		if okb && t.Args[0].Op == "field" {
			if fa2, ok2 := fieldOfSubject(t.Args[0].Args[0]); ok2 {
				return atomClass{fb + "=" + fa2 + "." + t.Args[0].Name, "bound", LangSpec{}}, true, true
			}
		}
	}
	if t.Op == "call" {
		switch {
		case strings.HasSuffix(t.Name, "DIDDocument).Valid") && len(t.Args) == 1:
			if f, ok := fieldOfSubject(t.Args[0]); ok {
				return atomClass{f, "valid", LangSpec{}}, true, true
			}
		case t.Name == "(sdk/types.AccAddress).Empty" && t.Args[0].Op == "res" && t.Args[0].Args[0].IsCall("sdk/types.AccAddressFromBech32"):
			if f, ok := fieldOfSubject(t.Args[0].Args[0].Args[0]); ok {
				return atomClass{f, "addr-nonempty", LangSpec{}}, false, true
			}
		case t.Name == "strings.ContainsRune" && len(t.Args) == 2 && t.Args[1].Op == "const" && t.Args[1].Name == "0":
			if f, ok := fieldOfSubject(t.Args[0]); ok {
				return atomClass{f, "nonul", LangSpec{}}, false, true
			}
		case (t.Name == "strings.Contains" || t.Name == "strings.ContainsAny") && len(t.Args) == 2 && t.Args[1].Op == "const" && t.Args[1].Name == `"\x00"`:
			if f, ok := fieldOfSubject(t.Args[0]); ok {
				return atomClass{f, "nonul", LangSpec{}}, false, true
			}
		case t.Name == "unicode/utf8.ValidString" && len(t.Args) == 1:
			if f, ok := fieldOfSubject(t.Args[0]); ok {
				return atomClass{f, "utf8", LangSpec{}}, true, true
			}
		case t.Name == "(time.Time).IsZero":
			if f, ok := fieldOfSubject(t.Args[0]); ok {
				return atomClass{f, "nonzero-time", LangSpec{}}, false, true
			}
		}
	}
	return atomClass{}, false, false
}

func InModuleName(name string) bool {
	return strings.HasPrefix(name, "x/") || strings.HasPrefix(name, "(x/") || strings.HasPrefix(name, "(*x/") || strings.HasPrefix(name, "types/")
}

// expectation per field (role = field name and type), frozen from the property statement.
type fieldExpect struct {
	Lang     *LangSpec
	Bech32   bool
	NonEmpty bool
	Optional bool // empty allowed, otherwise the other constraints
	NonNil   bool
	Valid    bool
	AddrNE   bool   // parsed address not empty (redundant with bech32, allowed)
	NoNUL    string // "allowed" | "required" | ""
}

func expectationFor(msg, field string, ft types.Type, st map[string]LangSpec) (fieldExpect, bool) {
	mod := ""
	switch {
	case strings.Contains(msg, "Topic") || strings.Contains(msg, "Writer") || strings.Contains(msg, "Record"):
		mod = "aol"
	case strings.Contains(msg, "DID"):
		mod = "did"
	default:
		mod = "pnft"
	}
	isAddr := strings.HasSuffix(field, "Address")
	switch mod {
	case "aol":
		if l, ok := st[field]; ok {
			return fieldExpect{Lang: &l}, true
		}
		if field == "FeePayerAddress" {
			return fieldExpect{Bech32: true, Optional: true}, true
		}
		if isAddr {
			return fieldExpect{Bech32: true}, true
		}
	case "did":
		switch field {
		case "Did":
			l := st["Did"]
			return fieldExpect{Lang: &l}, true
		case "Document":
			return fieldExpect{NonNil: true, Valid: true}, true
		case "Signature":
			return fieldExpect{NonEmpty: true, NonNil: true}, true
		case "FromAddress":
			return fieldExpect{Bech32: true, AddrNE: true}, true
		case "VerificationMethodId":
			return fieldExpect{}, true // checked statefully against the stored document
		}
	case "pnft":
		switch field {
		case "Id", "DenomId":
			return fieldExpect{NonEmpty: true, NoNUL: "allowed"}, true
		case "Name":
			if strings.Contains(msg, "Update") {
				return fieldExpect{}, true
			}
			return fieldExpect{NonEmpty: true}, true
		case "Symbol":
			if strings.Contains(msg, "Create") {
				return fieldExpect{NonEmpty: true}, true
			}
			return fieldExpect{}, true
		case "Creator", "Updater", "Remover", "Sender", "Receiver", "Burner":
			return fieldExpect{NonEmpty: true, Bech32: true}, true
		case "Description", "Uri", "UriHash", "Data":
			return fieldExpect{}, true
		}
	}
	return fieldExpect{}, false
}

// C16 — stateless acceptance equals the documented limits.
func checkC16(p *Prog, r *Report) {
	checkPartialUpdates(p, r, func(rule, rest string) string { return rule + ":C16:" + rest }, "x/*/keeper", func(fn *ssa.Function) bool { return InPkgs(fn, "x/aol/keeper", "x/did/keeper", "x/pnft/keeper", "x/burn/keeper") })
	checkNoNilWrap(p, r, "C16", "x/<module>/types", func(fn *ssa.Function) bool {
		return inExactPkgs(fn, "x/aol/types", "x/did/types", "x/pnft/types", "x/burn/types")
	})
	r.Explain = "Decided statically: for each of the 14 messages the accept condition of ValidateBasic (disjunction of the path conditions of its nil returns, module validators summarised by abstract interpretation into length interval × regular language, patterns constant-folded through fmt.Sprintf) is propositionally EQUIVALENT to the conjunction of the documented per-field constraints: every expected constraint is entailed (nothing outside the limits passes) and the expected constraints entail acceptance (nothing inside is refused). Languages are compared exactly (product automaton over the partition of the rune space induced by both patterns, lengths up to one past every bound) against two oracles that must agree: the numbers in the property statement and the repository's own documents (Limits table of .gitbook/specifications/aol.md, ABNF of docs/did.md, parsed on every run). For the DID document: Valid() passes each of the five relationship lists to the relationship validator, validates every method and service in loops without skips; method ids are <did>#<1..128 non-space>, key material is base58+, key type non-empty. PNFT handlers re-run ValidateBasic before the keeper call."
	r.NotDec = []string{"AccAddressFromBech32 / bech32", "semantic validity of base58 key material", "rune vs byte length beyond ASCII (length is len(), i.e. bytes, compared as written)"}
	r.Trusted = []string{"regexp/syntax (parsing and compilation of the constant patterns)", "baseapp runs ValidateBasic before handlers"}
	kp := func(rule, rest string) string { return rule + ":C16:" + rest }
	st := statementOracle()
	doc, problems := docOracle(p.RepoDir)
	for _, pr := range problems {
		r.Fail(kp("CONST", "doc-oracle#"+pr), "the repository's limit documents are present and parseable", "docs", pr)
	}
	// the two oracles agree
	for _, f := range []string{"TopicName", "Moniker", "Description", "Key", "Value", "Did"} {
		d, ok := doc[f]
		if !ok {
			r.Fail(kp("CONST", "oracle-agreement:"+f), "the documented limit exists", "docs", "no row for "+f)
			continue
		}
		eq, w, err := LangEqual(st[f], d)
		if st[f].Pat == "" && d.Pat == "" {
			eq, err = st[f].Lo == d.Lo && st[f].Hi == d.Hi, nil
		}
		r.Check(err == nil && eq, kp("CONST", "oracle-agreement:"+f), "the limits in the property statement and in the repository's documents denote the same language", "docs",
			st[f].String()+" ≡ "+d.String(), fmt.Sprintf("statement %v vs document %v differ (witness %q, err %v)", st[f], d, w, err))
	}
	// the validated value is the stored value (AOL free-text fields): limits on the message mean nothing if the handler stores
	// a transformed value
	aolRules(p, r, "C16", func(tag string) bool { return tag == "content" })
	msgs := p.Msgs()
	r.Floor("messages", len(msgs), 14)
	nFields := 0
	for _, msg := range msgs {
		mn := msg.Obj().Name()
		vb := p.MethodOf(msg, "ValidateBasic")
		if vb == nil || vb.Blocks == nil {
			r.Fail(kp("FIELDS", mn+"#ValidateBasic"), "anchor", mn, "ValidateBasic not found")
			continue
		}
		site := p.FnPos(vb)
		A := acceptFormula(p, vb)
		if A == nil {
			r.Undecided(kp("FIELDS", mn+"#accept"), "ValidateBasic is loop-free", site, "accept condition not computable")
			continue
		}
		// classify atoms
		type catom struct {
			f   *Formula
			cls atomClass
			pos bool
		}
		byField := map[string][]catom{}
		unclassified := []string{}
		for _, a := range A.Atoms() {
			cls, pos, ok := classifyMsgAtom(p, a.Term)
			if !ok {
				unclassified = append(unclassified, a.String())
				continue
			}
			byField[cls.Field] = append(byField[cls.Field], catom{a, cls, pos})
		}
		if len(unclassified) > 0 {
			s := strings.Join(unclassified, " ; ")
			if len(s) > 400 {
				s = s[:400]
			}
			r.Undecided(kp("FIELDS", mn+"#unclassified-conditions"), "every condition ValidateBasic tests is one of the known constraint kinds", site, "conditions the checker cannot classify: "+s)
		}
		sat := func(c catom) *Formula {
			if c.pos {
				return c.f
			}
			return fNot(c.f)
		}
		// expected formula
		stc, _ := msg.Underlying().(*types.Struct)
		var exp []*Formula
		mentioned := map[string]bool{}
		for i := 0; i < stc.NumFields(); i++ {
			fld := stc.Field(i)
			if strings.HasPrefix(fld.Name(), "XXX_") {
				continue
			}
			nFields++
			e, known := expectationFor(mn, fld.Name(), fld.Type(), st)
			if !known {
				r.Note("%s.%s has no documented limit (new field?)", mn, fld.Name())
				continue
			}
			atoms := byField[fld.Name()]
			mentioned[fld.Name()] = true
			var conj []*Formula
			need := func(kind string, what string) {
				for _, c := range atoms {
					if c.cls.Kind == kind {
						conj = append(conj, sat(c))
						return
					}
				}
				r.Fail(kp("FIELDS", mn+"."+fld.Name()+"#"+kind), "field coverage: every constrained field is checked by ValidateBasic against its documented limit", site,
					fmt.Sprintf("%s.ValidateBasic never tests that %s %s: values outside the documented limits are accepted and stored", mn, fld.Name(), what))
			}
			if e.Lang != nil {
				found := false
				for _, c := range atoms {
					if c.cls.Kind == "lang" || strings.HasPrefix(c.cls.Kind, "validator?") {
						found = true
						okL := false
						why := ""
						for oname, oracle := range map[string]LangSpec{"statement": *e.Lang, "document": doc[fld.Name()]} {
							var eq bool
							var w string
							var err error
							if c.cls.Spec.Pat == "" && oracle.Pat == "" {
								eq = c.cls.Spec.Lo == oracle.Lo && c.cls.Spec.Hi == oracle.Hi
							} else {
								eq, w, err = LangEqual(c.cls.Spec, oracle)
							}
							if err != nil || !eq {
								why += fmt.Sprintf("code accepts %v, %s says %v (distinguishing input %q, err %v); ", c.cls.Spec, oname, oracle, w, err)
							}
						}
						okL = why == "" && c.cls.Kind == "lang"
						if strings.HasPrefix(c.cls.Kind, "validator?") {
							why += "validator not summarisable: " + c.cls.Kind
						}
						r.Check(okL, kp("CONST", mn+"."+fld.Name()+"#language"), "the set of values ValidateBasic admits for the field equals the documented limit (both oracles), decided exactly on the languages", site,
							c.cls.Spec.String(), why)
						conj = append(conj, sat(c))
					}
				}
				if !found {
					r.Fail(kp("FIELDS", mn+"."+fld.Name()+"#language"), "field coverage: every constrained field is checked by ValidateBasic against its documented limit", site,
						fmt.Sprintf("%s.ValidateBasic applies no length/charset validator to %s (expected %v)", mn, fld.Name(), *e.Lang))
				}
			}
			if e.NonNil {
				// for a byte slice `len(x) == 0` already covers nil: a separate nil test is redundant, not required
				hasNonEmpty := false
				for _, c := range atoms {
					if c.cls.Kind == "nonempty" {
						hasNonEmpty = true
					}
				}
				hasNonNil := false
				for _, c := range atoms {
					if c.cls.Kind == "nonnil" {
						hasNonNil = true
					}
				}
				if hasNonNil || !(e.NonEmpty && hasNonEmpty) {
					need("nonnil", "is present")
				}
			}
			if e.Valid {
				need("valid", "is a well-formed document")
			}
			if e.NonEmpty {
				need("nonempty", "is non-empty")
			}
			if e.Bech32 {
				need("bech32", "is a well-formed address")
			}
			f := fAnd(conj...)
			if e.Optional {
				// empty, or the constraints
				var empty *Formula
				for _, c := range atoms {
					if c.cls.Kind == "nonempty" {
						empty = c.f // eq("", x)
					}
				}
				if empty == nil {
					r.Fail(kp("FIELDS", mn+"."+fld.Name()+"#optional"), "an optional field is validated when present", site, "no emptiness test for the optional field "+fld.Name())
				} else {
					f = fOr(empty, fAnd(fNot(empty), f))
				}
			}
			// tolerated extra constraints
			for _, c := range atoms {
				if c.cls.Kind == "addr-nonempty" && (e.AddrNE || e.Bech32) || c.cls.Kind == "nonul" && e.NoNUL != "" {
					f = fAnd(f, sat(c))
				}
			}
			exp = append(exp, f)
		}
		// cross-field bindings that the properties require (C11) are part of the documented well-formedness for DID create/update
		for k, atoms := range byField {
			if strings.Contains(k, "=") {
				for _, c := range atoms {
					exp = append(exp, sat(c))
				}
				mentioned[k] = true
			}
		}
		for k := range byField {
			if !mentioned[k] {
				r.Note("%s.ValidateBasic constrains %s, which is not a field with a documented limit", mn, k)
			}
		}
		E := fAnd(exp...)
		fwd := Entails(A, E)
		bwd := Entails(E, A)
		r.Check(fwd, kp("FIELDS", mn+"#accept⇒limits"), "acceptance implies every documented constraint (nothing outside the limits passes stateless validation)", site,
			"accept ⊨ expected", "some accepting path of "+mn+".ValidateBasic does not establish all documented constraints: accept="+clip(A.String(), 300))
		r.Check(bwd, kp("FIELDS", mn+"#limits⇒accept"), "the documented constraints imply acceptance (nothing inside the limits is refused)", site,
			"expected ⊨ accept", mn+".ValidateBasic is stricter than the documented limits (an extra or stronger condition): accept="+clip(A.String(), 300))
	}
	r.Floor("message-fields", nFields, 59)
	checkDidDocumentValid(p, r, kp)
	// nothing outside these limits is stored: the document a DID handler stores is the message's (validated) document itself
	didRules(p, r, "C16", func(tag string) bool { return tag == "proof" })
	checkAddressConfig(p, r, kp)
	// D3: PNFT handlers re-run ValidateBasic before the keeper call
	for _, fn := range sortedFuncs(p.ServerHandlers("MsgServer")["x/pnft"]) {
		msg := handlerMsgType(fn)
		vb := p.MethodOf(msg, "ValidateBasic")
		o := NewOrigin(p, fn)
		fa := NewFacts(p, fn, o)
		ok := false
		for _, cs := range callSites(fn) {
			if cs.Callee != nil && InPkgs(resolveBound(cs.Callee), "x/pnft/keeper") && !p.IsGenerated(resolveBound(cs.Callee)) {
				_, ok = fa.DominatingFact(cs.Instr, true, func(t *Term) bool {
					if t.Op != "eq" {
						return false
					}
					a, b := t.Args[0], t.Args[1]
					if a.Op != "const" {
						a, b = b, a
					}
					return a.Name == "nil" && b.Op == "call" && vb != nil && b.Name == FuncName(vb)
				})
			}
		}
		r.Check(ok, kp("GUARD", FuncName(fn)+"#ValidateBasic-before-keeper"), "PNFT handlers re-run stateless validation before touching state", p.FnPos(fn), "dominated by request.ValidateBasic() == nil", "keeper call not dominated by a successful ValidateBasic")
	}
}

// checkAddressConfig: what a "well-formed address" is, is decided by the process-wide SDK configuration. The limits of the
// property are those of the SDK's own address check (bech32 with the account prefix, 1..255 bytes): a custom address verifier
// REPLACES that check (sdk.VerifyAddressFormat consults the configured verifier instead of its built-in non-empty/length test),
// and another prefix changes the accepted language.
func checkAddressConfig(p *Prog, r *Report, kp func(string, string) string) {
	const fixture = `package addrcfgfx

import sdk "github.com/cosmos/cosmos-sdk/types"

func Configure() {
	c := sdk.GetConfig()
	c.SetAddressVerifier(func(bz []byte) error { return nil })
}
`
	find := func(fns []*ssa.Function) []CallSite {
		var out []CallSite
		for _, fn := range fns {
			if fn == nil || fn.Blocks == nil {
				continue
			}
			for _, cs := range callSites(fn) {
				if cs.Name == "(*sdk/types.Config).SetAddressVerifier" {
					out = append(out, cs)
				}
			}
		}
		return out
	}
	ckey := kp("WIRE", "address-verifier:control#fixture")
	if fx, err := buildFixture(p, "addrcfgfx", fixture); err != nil {
		r.Undecided(ckey, "positive control for the address-verifier rule", "checker/c16.go", "fixture does not build: "+err.Error())
	} else {
		n := len(find([]*ssa.Function{fx["Configure"]}))
		r.Check(n == 1, ckey, "positive control: a call of Config.SetAddressVerifier is seen", "checker/c16.go (in-memory fixture, not executed)", "1 call found", fmt.Sprintf("%d calls found in the fixture, expected 1: the matcher is broken", n))
	}
	sites := find(p.ModFuncs)
	if len(sites) == 0 {
		r.OK(kp("WIRE", "address-verifier#none"), "addresses are checked by the SDK's built-in format check (non-empty, at most 255 bytes): no custom address verifier is installed", "app/, cmd/, x/",
			fmt.Sprintf("%d module functions, no call of Config.SetAddressVerifier", len(p.ModFuncs)))
	}
	for _, cs := range sites {
		in := cs.Instr.(ssa.Instruction)
		r.Fail(kp("WIRE", "address-verifier@"+FuncName(in.Parent())), "addresses are checked by the SDK's built-in format check (non-empty, at most 255 bytes): no custom address verifier is installed", p.Pos(in.Pos()),
			FuncName(in.Parent())+" installs a custom address verifier: the SDK then skips its own check (which is what rejects an empty address) and every AccAddressFromBech32 in ValidateBasic accepts exactly what the custom function accepts — the set of accepted addresses is no longer the documented one")
	}
	// the account prefix
	nPrefix := 0
	for _, fn := range p.ModFuncs {
		if fn.Blocks == nil || !InPkgs(fn, "app") && !InPkgs(fn, "cmd") {
			continue
		}
		var o *Origin
		for _, cs := range callSites(fn) {
			if cs.Name != "(*sdk/types.Config).SetBech32PrefixForAccount" {
				continue
			}
			nPrefix++
			if o == nil {
				o = NewOrigin(p, fn)
			}
			args := cs.Instr.Common().Args
			got := ""
			if len(args) >= 2 {
				got = o.Of(args[1]).String()
			}
			r.Check(got == `"panacea"`, kp("WIRE", "account-prefix@"+FuncName(fn)), "the account address prefix is panacea", p.Pos(cs.Instr.Pos()), got, "the account prefix is "+got+", not \"panacea\"")
		}
	}
	r.Floor("account-prefix-configuration-sites", nPrefix, 1)
}

func clip(s string, n int) string {
	if len(s) > n {
		return s[:n] + "…"
	}
	return s
}

// checkDidDocumentValid: structure of DIDDocument.Valid and of the method-id / method validators.
func checkDidDocumentValid(p *Prog, r *Report, kp func(string, string) string) {
	dd := p.Named(Rel(didTypesPkg), "DIDDocument")
	if dd == nil {
		r.Fail(kp("FIELDS", "DIDDocument#anchor"), "anchor", didTypesPkg, "DIDDocument not found")
		return
	}
	valid := p.MethodOf(dd, "Valid")
	if valid == nil {
		r.Fail(kp("FIELDS", "DIDDocument.Valid#anchor"), "anchor", didTypesPkg, "Valid not found")
		return
	}
	o := NewOrigin(p, valid)
	fa := NewFacts(p, valid, o)
	// true returns: the last one (after all checks) must be dominated by the five relationship validations
	rels := []string{"Authentications", "AssertionMethods", "KeyAgreements", "CapabilityInvocations", "CapabilityDelegations"}
	var finalTrue *ssa.Return
	for _, ret := range returnsOf(valid) {
		if c, ok := asConst(ret.Results[0]); ok && c.Value != nil && c.Value.String() == "true" {
			// the non-trivial one: not the early "empty document" return
			if _, isEarly := fa.DominatingFact(ret, true, func(t *Term) bool { return t.Op == "eq" && (t.Args[0].Name == `""` || t.Args[1].Name == `""`) }); !isEarly {
				finalTrue = ret
			}
		}
	}
	if finalTrue == nil {
		r.Undecided(kp("FIELDS", "DIDDocument.Valid#final-return"), "Valid has a final accepting return", p.FnPos(valid), "not found")
		return
	}
	site := p.Pos(finalTrue.Pos())
	for _, rel := range rels {
		_, ok := fa.DominatingFact(finalTrue, true, func(t *Term) bool {
			return t.Op == "call" && strings.HasSuffix(t.Name, "validVerificationRelationships") && len(t.Args) == 2 && t.Args[1].Op == "field" && t.Args[1].Name == rel
		})
		r.Check(ok, kp("FIELDS", "DIDDocument.Valid#relationships:"+rel), "each of the five relationship lists is validated (ids well-formed, references resolve)", site, rel+" validated", rel+" is not passed to the relationship validator on the accepting path")
	}
	// id, verification methods, authentications present
	_, okID := fa.DominatingFact(finalTrue, true, func(t *Term) bool {
		pat, subj, ok := regexAtom(t)
		return ok && strings.Contains(pat, "did:panacea") && subj.Op == "field" && subj.Name == "Id"
	})
	r.Check(okID, kp("FIELDS", "DIDDocument.Valid#id-is-a-DID"), "the document id is a well-formed DID", site, "ValidateDID(doc.Id)", "doc.Id is not validated")
	for _, f := range []string{"VerificationMethods", "Authentications"} {
		_, ok := fa.DominatingFact(finalTrue, false, func(t *Term) bool {
			return t.Op == "eq" && (t.Args[0].Name == "nil" && t.Args[1].Op == "field" && t.Args[1].Name == f || t.Args[1].Name == "nil" && t.Args[0].Op == "field" && t.Args[0].Name == f)
		})
		r.Check(ok, kp("FIELDS", "DIDDocument.Valid#present:"+f), "verification methods and authentication are present", site, f+" != nil", f+" may be absent")
	}
	// the relationship validator itself: every relationship is validated, a plain reference must resolve, and the walk is left
	// only by exhaustion or by rejecting
	if vvr := p.MethodOf(dd, "validVerificationRelationships"); vvr != nil && vvr.Blocks != nil {
		kLoop := kp("LOOP", "DIDDocument.validVerificationRelationships#every-relationship-validated")
		checkUnconditionalLoopEffect(p, r, kLoop, vvr, func(in ssa.Instruction) bool {
			c, ok := in.(*ssa.Call)
			if !ok {
				return false
			}
			sc := c.Call.StaticCallee()
			return sc != nil && strings.HasSuffix(FuncName(sc), "VerificationRelationship).Valid")
		}, "every relationship of a list is validated: none is skipped and the walk does not stop before the end")
		// a reference is looked up among the document's methods, and a failed lookup rejects
		resolves := false
		for _, cs := range callSites(vvr) {
			if cs.Callee == nil || !strings.HasSuffix(FuncName(cs.Callee), "DIDDocument).VerificationMethodByID") {
				continue
			}
			c, isCall := cs.Instr.(*ssa.Call)
			if !isCall || !inCycle(c.Block()) {
				continue
			}
			// the comma-ok result decides an If in the same block whose "not found" side rejects
			if refs := c.Referrers(); refs != nil {
				for _, rf := range *refs {
					ex, isEx := rf.(*ssa.Extract)
					if !isEx || ex.Index != 1 || ex.Referrers() == nil {
						continue
					}
					for _, er := range *ex.Referrers() {
						iff, isIf := er.(*ssa.If)
						if !isIf {
							continue
						}
						notFound := iff.Block().Succs[1]
						if len(notFound.Instrs) > 0 {
							if ret, isRet := notFound.Instrs[len(notFound.Instrs)-1].(*ssa.Return); isRet && len(ret.Results) == 1 {
								if cst, isC := ret.Results[0].(*ssa.Const); isC && cst.Value != nil && cst.Value.String() == "false" {
									resolves = true
								}
							}
						}
					}
				}
			}
		}
		r.Check(resolves, kp("GUARD", "DIDDocument.validVerificationRelationships#reference-resolves"), "a relationship that only references a method must name one of the document's verification methods", p.FnPos(vvr),
			"VerificationMethodByID(ref) not found ⇒ reject, inside the walk", "no lookup of the referenced method whose failure rejects the document was found in the walk over the relationships")
	} else {
		r.OKTrivial(kp("LOOP", "DIDDocument.validVerificationRelationships#anchor"), "the relationship validator is a method of the document", p.FnPos(valid), "no method of that name: its body is not examined here (the relationship lists are still required to be validated, see #relationships)")
	}
	// the validator of one relationship: whatever it accepts went through the method validator (embedded method) or the
	// method-id validator (plain reference) — "it is looked up later anyway" does not make a reference well-formed, since the
	// lookup is only as strict as the lookup function
	if vr := p.Named(Rel(didTypesPkg), "VerificationRelationship"); vr != nil {
		if rv := p.MethodOf(vr, "Valid"); rv != nil && rv.Blocks != nil {
			isValidator := func(f *ssa.Function) bool {
				n := FuncName(f)
				return strings.HasSuffix(n, "types.ValidateVerificationMethodID") || strings.HasSuffix(n, "VerificationMethod).Valid")
			}
			var viaValidator func(v ssa.Value, seen map[ssa.Value]bool) bool
			viaValidator = func(v ssa.Value, seen map[ssa.Value]bool) bool {
				if seen[v] {
					return true
				}
				seen[v] = true
				switch x := v.(type) {
				case *ssa.Const:
					return x.Value != nil && x.Value.String() == "false"
				case *ssa.Phi:
					for _, e := range x.Edges {
						if !viaValidator(e, seen) {
							return false
						}
					}
					return true
				case *ssa.Call:
					sc := x.Call.StaticCallee()
					if sc == nil {
						return false
					}
					sc = resolveBound(sc)
					if isValidator(sc) {
						return true
					}
					if !InModule(sc) || sc.Blocks == nil {
						return false
					}
					reach := p.ReachFrom([]*ssa.Function{sc}, func(f *ssa.Function) bool { return InModule(f) && !p.IsGenerated(f) })
					for _, g := range reach.Order {
						if isValidator(g) {
							return true
						}
					}
					return false
				case *ssa.BinOp:
					return viaValidator(x.X, seen) || viaValidator(x.Y, seen)
				}
				return false
			}
			bad := ""
			for _, ret := range returnsOf(rv) {
				if len(ret.Results) == 1 && !viaValidator(ret.Results[0], map[ssa.Value]bool{}) {
					bad = p.Pos(ret.Pos())
				}
			}
			r.Check(bad == "", kp("FIELDS", "VerificationRelationship.Valid#through-the-id-validators"), "a relationship is accepted only through the verification-method validator (embedded) or the method-id validator (reference)", p.FnPos(rv),
				"every accepting return is the verdict of VerificationMethod.Valid or ValidateVerificationMethodID", "the return at "+bad+" accepts a relationship on a test of its own: a reference that is not of the form <did>#<name> (a bare fragment, another DID's key) passes validation and is stored")
		} else {
			r.Fail(kp("FIELDS", "VerificationRelationship.Valid#anchor"), "anchor", didTypesPkg, "VerificationRelationship.Valid not found")
		}
	}
	// the plural predicates behind the optional list fields quantify over every element
	checkPluralPredicates(p, r, kp, didTypesPkg)
	// the optional list fields: when present, contexts pass ValidateContexts; a controller list is empty or made of DIDs
	{
		FT := fa.AtInstrX(finalTrue)
		for _, opt := range []struct {
			field string
			preds []string
			what  string
		}{
			{"Contexts", []string{"ValidateContexts"}, "contexts, when present, start with the W3C context and are unique"},
			{"Controller", []string{"EmptyDIDs", "ValidateDIDs"}, "a controller list is empty or names well-formed DIDs"},
		} {
			ok := optionalFieldValidated(p, FT, opt.field, opt.preds, 0)
			r.Check(ok, kp("FIELDS", "DIDDocument.Valid#optional:"+opt.field), opt.what, site,
				fmt.Sprintf("accepting ⇒ %s == nil ∨ %s(*%s)", opt.field, strings.Join(opt.preds, "(…) ∨ "), opt.field),
				fmt.Sprintf("the accepting path does not require %s == nil ∨ %s(*%s): a document whose %s list is present and malformed is accepted", opt.field, strings.Join(opt.preds, " ∨ "), opt.field, strings.ToLower(opt.field)))
		}
	}
	// loops over methods and services validate every element
	for _, what := range []struct{ callee, name string }{{"VerificationMethod).Valid", "verification-methods"}, {"Service).Valid", "services"}} {
		found := false
		// the loop sits in Valid itself or in a helper predicate of the document that the accepting return requires to hold
		hosts := []*ssa.Function{valid}
		F := fa.AtInstrX(finalTrue)
		for _, a := range F.Atoms() {
			if a.Term == nil || a.Term.Op != "call" || len(a.Term.Args) == 0 || a.Term.Args[0].Op != "param" || !Entails(F, a) {
				continue
			}
			for _, g := range p.ModFuncs {
				if FuncName(g) == a.Term.Name && g != valid && !p.IsGenerated(g) {
					hosts = append(hosts, g)
				}
			}
		}
		for _, host := range hosts {
			if found {
				break
			}
			for _, cs := range callSites(host) {
				if strings.HasSuffix(cs.Name, what.callee) && inCycle(cs.Instr.Block()) {
					found = true
					c := cs.Instr
					checkUnconditionalLoopEffect(p, r, kp("LOOP", "DIDDocument.Valid#every-"+what.name+"-validated"), host,
						func(in ssa.Instruction) bool { return in == c.(ssa.Instruction) }, "every element is validated (no conditional skip)")
				}
			}
		}
		if !found {
			r.Fail(kp("LOOP", "DIDDocument.Valid#every-"+what.name+"-validated"), "every element is validated", p.FnPos(valid), "no validation loop for "+what.name)
		}
	}
	// contexts: first is the W3C context, unique
	if vc := p.Func(Rel(didTypesPkg), "ValidateContexts"); vc != nil {
		co := NewOrigin(p, vc)
		cfa := NewFacts(p, vc, co)
		ctxC, _ := p.ConstVal(Rel(didTypesPkg), "ContextDIDV1")
		okFirst, nTrue := true, 0
		for _, ret := range returnsOf(vc) {
			c, isC := asConst(ret.Results[0])
			if isC && c.Value != nil && c.Value.String() == "false" {
				continue
			}
			// every accepting return (a constant true, or a computed value) lies behind contexts[0] == W3C
			nTrue++
			_, ok1 := cfa.DominatingFact(ret, true, func(t *Term) bool {
				return t.Op == "eq" && (t.Args[0].Name == ctxC || t.Args[1].Name == ctxC)
			})
			okFirst = okFirst && ok1 && ctxC == `"https://www.w3.org/ns/did/v1"`
		}
		okFirst = okFirst && nTrue > 0
		r.Check(okFirst, kp("CONST", "ValidateContexts#first=W3C-v1"), "the first context is https://www.w3.org/ns/did/v1", p.FnPos(vc), ctxC, "acceptance is not dominated by contexts[0] == "+ctxC)
		dup := false
		for _, b := range vc.Blocks {
			for _, in := range b.Instrs {
				// a membership test on a set that the loop fills under the same key: `_, dup := set[c]` / `if seen[c]` … `set[c] = …`
				if l, ok := in.(*ssa.Lookup); ok && inCycle(b) {
					if _, isMap := l.X.Type().Underlying().(*types.Map); !isMap || l.Referrers() == nil || len(*l.Referrers()) == 0 {
						continue
					}
					for _, b2 := range vc.Blocks {
						for _, in2 := range b2.Instrs {
							if mu, ok := in2.(*ssa.MapUpdate); ok && inCycle(b2) && sameMapValue(mu.Map, l.X) && mu.Key == l.Index {
								dup = true
							}
						}
					}
				}
			}
		}
		r.Check(dup, kp("FIELDS", "ValidateContexts#unique"), "contexts are checked for duplicates", p.FnPos(vc), "set membership test present", "no duplicate check")
	}
	// method id validator: prefix did#, suffix 1..128 non-space
	if mv := p.Func(Rel(didTypesPkg), "ValidateVerificationMethodID"); mv != nil {
		A := acceptFormula(p, mv)
		okPrefix, okLen, okRe := false, false, false
		if A != nil {
			lits, _ := literals(A)
			for _, l := range lits {
				neg := l.Kind == FNot
				a := l
				if neg {
					a = l.Sub[0]
				}
				t := a.Term
				if t == nil {
					continue
				}
				if !neg && t.IsCall("strings.HasPrefix") && t.Args[0].Op == "param" && t.Args[1].IsCall("fmt.Sprintf") {
					if f, ok := foldString(t.Args[1].Args[0]); ok && (f == "%v#" || f == "%s#") {
						okPrefix = true
					}
				}
				// the same prefix written as a concatenation: did + "#"
				if !neg && t.IsCall("strings.HasPrefix") && t.Args[0].Op == "param" && t.Args[1].Op == "binop" && t.Args[1].Name == "+" && len(t.Args[1].Args) == 2 {
					if t.Args[1].Args[0].Op == "param" && t.Args[1].Args[1].Op == "const" && t.Args[1].Args[1].Name == `"#"` {
						okPrefix = true
					}
				}
				if neg && t.Op == "lt" && t.Args[0].Op == "const" && t.Args[1].Op == "binop" && t.Args[1].Name == "-" {
					mx, _ := p.ConstVal(Rel(didTypesPkg), "MaxVerificationMethodIDLen")
					okLen = t.Args[0].Name == "128" && mx == "128"
				}
				// the same bound on the length of the part behind the prefix: len(id[len(prefix):]) <= 128
				if neg && t.Op == "lt" && t.Args[0].Op == "const" && t.Args[1].IsCall("builtin:len") && len(t.Args[1].Args) == 1 && t.Args[1].Args[0].Op == "slice" &&
					len(t.Args[1].Args[0].Args) >= 2 && t.Args[1].Args[0].Args[0].Op == "param" && t.Args[1].Args[0].Args[1].IsCall("builtin:len") {
					mx, _ := p.ConstVal(Rel(didTypesPkg), "MaxVerificationMethodIDLen")
					okLen = t.Args[0].Name == "128" && mx == "128"
				}
				if pat, subj, ok := regexAtom(t); ok && !neg && subj.Op == "slice" {
					eq, _, err := LangEqual(LangSpec{Pat: pat, Lo: 0, Hi: -1}, LangSpec{Pat: `^\S+$`, Lo: 0, Hi: -1})
					okRe = err == nil && eq
				}
			}
		}
		r.Check(okPrefix && okLen && okRe, kp("CONST", "ValidateVerificationMethodID#<did>#<1..128 non-space>"), "method ids are '<did>#' followed by 1..128 non-space characters", p.FnPos(mv),
			"prefix, length bound and \\S+ all present", fmt.Sprintf("prefix=%v length≤128=%v suffix-language=%v", okPrefix, okLen, okRe))
	}
	// verification method: id, key type, base58 key
	if vm := p.Named(Rel(didTypesPkg), "VerificationMethod"); vm != nil {
		if vv := p.MethodOf(vm, "Valid"); vv != nil {
			A := acceptFormula(p, vv)
			okID, okType, okKey := false, false, false
			if A != nil {
				lits, _ := literals(A)
				for _, l := range lits {
					if l.Kind == FNot || l.Term == nil {
						continue
					}
					t := l.Term
					if t.Op == "call" && strings.HasSuffix(t.Name, "ValidateVerificationMethodID") && len(t.Args) == 2 && t.Args[0].Op == "field" && t.Args[0].Name == "Id" {
						// … against the DID handed in by the document (the parameter itself), not a DID computed from the method
						okID = t.Args[1].Op == "param"
					}
					// the id validator expanded in place (it became a pure function): its prefix test against <did parameter>#
					if t.IsCall("strings.HasPrefix") && len(t.Args) == 2 && t.Args[0].Op == "field" && t.Args[0].Name == "Id" {
						hasPrm, hasHash, foreign := false, false, false
						t.Args[1].Walk(func(x *Term) {
							if x.Op == "param" {
								hasPrm = true
							}
							if x.Op == "const" && (x.Name == `"#"` || x.Name == `"%v#"` || x.Name == `"%s#"`) {
								hasHash = true
							}
							// the DID must be the parameter itself, not something computed from it (or from the method)
							if x.Op == "call" && !x.IsCall("fmt.Sprintf") || x.Op == "field" || x.Op == "phi" || x.Op == "unknown" {
								foreign = true
							}
						})
						if hasPrm && hasHash && !foreign {
							okID = true
						}
					}
					if t.Op == "call" && strings.HasSuffix(t.Name, "ValidateKeyType") && t.Args[0].Op == "field" && t.Args[0].Name == "Type" {
						okType = true
					}
					if pat, subj, ok := regexAtom(t); ok && subj.Op == "field" && subj.Name == "PublicKeyBase58" {
						eq, _, err := LangEqual(LangSpec{Pat: pat, Lo: 0, Hi: -1}, LangSpec{Pat: `^[` + base58Alphabet + `]+$`, Lo: 0, Hi: -1})
						okKey = err == nil && eq
					}
				}
			}
			r.Check(okID && okType && okKey, kp("CONST", "VerificationMethod.Valid#id+type+base58"), "a verification method has a well-formed id, a named key type and base58 key material", p.FnPos(vv),
				"all three", fmt.Sprintf("id=%v type=%v base58-key=%v", okID, okType, okKey))
		}
	}
	// key type: empty rejected
	if kt := p.Func(Rel(didTypesPkg), "ValidateKeyType"); kt != nil {
		ko := NewOrigin(p, kt)
		kfa := NewFacts(p, kt, ko)
		ok := true
		for _, ret := range returnsOf(kt) {
			if c, isC := asConst(ret.Results[0]); isC && c.Value != nil && c.Value.String() == "true" {
				// must not be reachable with keyType == ""
				F := kfa.At(ret.Block())
				for _, a := range F.Atoms() {
					if a.Term != nil && a.Term.Op == "eq" && (a.Term.Args[0].Name == `""` || a.Term.Args[1].Name == `""`) {
						if !Entails(F, fNot(a)) && !Satisfiable(fAnd(F, a)) {
							ok = false
						}
					}
				}
			}
		}
		r.Check(ok, kp("FIELDS", "ValidateKeyType#non-empty"), "key types are named (empty rejected)", p.FnPos(kt), "empty key type is rejected", "an empty key type is accepted")
	}
	// service: three non-empty fields
	if sv := p.Named(Rel(didTypesPkg), "Service"); sv != nil {
		if fn := p.MethodOf(sv, "Valid"); fn != nil {
			A := acceptFormula(p, fn)
			n := 0
			if A != nil {
				if lits, ok := literals(A); ok {
					seen := map[string]bool{}
					for _, l := range lits {
						if l.Kind == FNot && l.Sub[0].Term != nil && l.Sub[0].Term.Op == "eq" {
							t := l.Sub[0].Term
							for i := 0; i < 2; i++ {
								if t.Args[i].Name == `""` && t.Args[1-i].Op == "field" {
									seen[t.Args[1-i].Name] = true
								}
							}
						}
					}
					n = len(seen)
					var names []string
					for k := range seen {
						names = append(names, k)
					}
					sort.Strings(names)
					r.Check(n == 3 && strings.Join(names, ",") == "Id,ServiceEndpoint,Type", kp("FIELDS", "Service.Valid#complete"), "service entries are complete (id, type, endpoint non-empty)", p.FnPos(fn), strings.Join(names, ","), "non-empty fields: "+strings.Join(names, ","))
				}
			}
		}
	}
}

// optionalFieldValidated: the accept condition A entails `field == nil ∨ pred_1(*field) ∨ … ∨ pred_n(*field)` — directly, or
// because A requires a bool predicate of the module over the same document to hold whose own accept condition (the disjunction,
// over its returns, of path condition ∧ returned value) entails it (a check method the validator was split into).
func optionalFieldValidated(p *Prog, A *Formula, field string, preds []string, depth int) bool {
	if A == nil || depth > 2 {
		return false
	}
	isFld := func(t *Term) bool { return t != nil && t.Op == "field" && t.Name == field }
	var alts []*Formula
	nPred := map[string]bool{}
	hasNil := false
	for _, a := range A.Atoms() {
		t := a.Term
		if t == nil {
			continue
		}
		if t.Op == "eq" && len(t.Args) == 2 && (isFld(t.Args[0]) && t.Args[1].Name == "nil" || isFld(t.Args[1]) && t.Args[0].Name == "nil") {
			alts = append(alts, a)
			hasNil = true
			continue
		}
		ct := t
		if ct.Op == "res" && len(ct.Args) == 1 {
			ct = ct.Args[0]
		}
		if ct.Op == "call" {
			for _, pn := range preds {
				if strings.HasSuffix(ct.Name, didTypesPkg+"."+pn) && len(ct.Args) >= 1 && ct.Args[len(ct.Args)-1].Op == "deref" && isFld(ct.Args[len(ct.Args)-1].Args[0]) {
					alts = append(alts, a)
					nPred[pn] = true
				}
			}
		}
	}
	if hasNil && len(nPred) == len(preds) && Entails(A, fOr(alts...)) {
		return true
	}
	// a required predicate of the document
	for _, a := range A.Atoms() {
		t := a.Term
		if t == nil || t.Op != "call" || !Entails(A, a) {
			continue
		}
		var g *ssa.Function
		if c, isCall := t.Val.(*ssa.Call); isCall && c.Call.StaticCallee() != nil {
			g = resolveBound(c.Call.StaticCallee())
		} else {
			// a call resolved through a table of bound methods: by name
			for _, f := range p.ModFuncs {
				if FuncName(f) == t.Name && !p.IsGenerated(f) {
					g = f
				}
			}
		}
		if g == nil || !InModule(g) || g.Blocks == nil || p.IsGenerated(g) {
			continue
		}
		res := g.Signature.Results()
		if res.Len() != 1 || !types.Identical(res.At(0).Type().Underlying(), types.Typ[types.Bool]) {
			continue
		}
		go2 := NewOrigin(p, g)
		gfa := NewFacts(p, g, go2)
		var acc []*Formula
		for _, ret := range returnsOf(g) {
			rv := unspill(ret.Results[0])
			if cst, isC := rv.(*ssa.Const); isC {
				if cst.Value != nil && cst.Value.String() == "true" {
					acc = append(acc, gfa.At(ret.Block()))
				}
				continue
			}
			acc = append(acc, fAnd(gfa.At(ret.Block()), gfa.ValueFormula(rv)))
		}
		if len(acc) > 0 && optionalFieldValidated(p, fOr(acc...), field, preds, depth+1) {
			return true
		}
	}
	return false
}


// onlyRunBySyncOnce: the anonymous function is used only as the argument of (*sync.Once).Do.
func onlyRunBySyncOnce(fn *ssa.Function) bool {
	par := fn.Parent()
	if par == nil {
		return false
	}
	n := 0
	for _, b := range par.Blocks {
		for _, in := range b.Instrs {
			c, ok := in.(ssa.CallInstruction)
			if !ok {
				continue
			}
			for _, a := range c.Common().Args {
				v := a
				if mc, isMC := v.(*ssa.MakeClosure); isMC {
					v = mc.Fn
				}
				if v == ssa.Value(fn) {
					if calleeName(c.Common()) != "(*sync.Once).Do" {
						return false
					}
					n++
				}
			}
		}
	}
	return n == 1
}


// errHelperOfAtom: the module function h in an atom of the form h(args…) == nil / res#k(h(args…)) == nil.
func errHelperOfAtom(p *Prog, t *Term) *ssa.Function {
	if t == nil || t.Op != "eq" || len(t.Args) != 2 {
		return nil
	}
	x := t.Args[0]
	if x.Op == "const" {
		x = t.Args[1]
	}
	if x.Op == "res" && len(x.Args) == 1 {
		x = x.Args[0]
	}
	if x.Op != "call" {
		return nil
	}
	if c, ok := x.Val.(*ssa.Call); ok {
		if g := c.Call.StaticCallee(); g != nil && InModule(g) {
			return g
		}
	}
	return nil
}
