package main

import (
	"fmt"
	"go/types"
	"strings"

	"golang.org/x/tools/go/ssa"
)

// genesisUnit is a function whose body is part of a module's genesis import or export: the entry point itself, or an unexported
// helper of the same package that only the entry point calls, once, on every run (a per-family importer or exporter). A helper is
// analysed with its parameters bound to the entry point's argument terms, so its terms are in the entry point's vocabulary.
type genesisUnit struct {
	fn   *ssa.Function
	o    *Origin
	call *ssa.Call // nil for the entry point
	// the genesis-state field the helper's result is stored into by the entry point ("" when it is not)
	resultField string
}

func genesisUnits(p *Prog, entry *ssa.Function) []genesisUnit {
	eo := NewOrigin(p, entry)
	units := []genesisUnit{{fn: entry, o: eo}}
	nCalls := map[*ssa.Function]int{}
	for _, cs := range callSites(entry) {
		if cs.Callee != nil {
			nCalls[cs.Callee]++
		}
	}
	for _, cs := range callSites(entry) {
		g := cs.Callee
		c, isCall := cs.Instr.(*ssa.Call)
		if g == nil || !isCall || g.Blocks == nil || g == entry || nCalls[g] != 1 {
			continue
		}
		if g.Signature.Recv() != nil || g.Parent() != nil || pkgPathOf(g) != pkgPathOf(entry) || p.IsGenerated(g) {
			continue
		}
		if n := g.Name(); n == "" || !(n[0] >= 'a' && n[0] <= 'z') {
			continue
		}
		callers, uses := p.CallersOf(g)
		only := len(callers) > 0
		for _, cc := range callers {
			if cc != entry {
				only = false
			}
		}
		for _, u := range uses {
			if !u.Call {
				only = false
			}
		}
		if !only {
			continue
		}
		// executed on every run of the entry point
		every := true
		for _, b := range entry.Blocks {
			if len(b.Instrs) == 0 {
				continue
			}
			if _, isRet := b.Instrs[len(b.Instrs)-1].(*ssa.Return); isRet && !c.Block().Dominates(b) {
				every = false
			}
		}
		if !every {
			continue
		}
		u := genesisUnit{fn: g, o: eo.subOrigin(c, g), call: c}
		if refs := c.Referrers(); refs != nil {
			for _, ref := range *refs {
				if st, ok := ref.(*ssa.Store); ok && st.Val == ssa.Value(c) {
					if fa, ok := st.Addr.(*ssa.FieldAddr); ok {
						u.resultField = fieldName(fa.X.Type(), fa.Field)
					}
				}
			}
		}
		units = append(units, u)
	}
	return units
}

// isGenesisUnit: fn is the entry point or one of its per-family helpers.
func isGenesisUnit(p *Prog, entry, fn *ssa.Function) bool {
	if entry == nil || fn == nil {
		return false
	}
	for _, u := range genesisUnits(p, entry) {
		if u.fn == fn {
			return true
		}
	}
	return false
}

// returnedFreshMap: v is a map made in fn that every return of fn hands back as its only result.
func returnedFreshMap(fn *ssa.Function, v ssa.Value) bool {
	if _, ok := v.(*ssa.MakeMap); !ok {
		return false
	}
	n := 0
	for _, b := range fn.Blocks {
		if len(b.Instrs) == 0 {
			continue
		}
		if ret, ok := b.Instrs[len(b.Instrs)-1].(*ssa.Return); ok {
			if len(ret.Results) != 1 || ret.Results[0] != v {
				return false
			}
			n++
		}
	}
	return n > 0
}

// keysOfFunc: fn returns every key of its map parameter, in some order: its only loop ranges over the parameter, the only
// branch is the loop's own exhaustion test, each iteration appends the iteration key to the one slice that is returned, and
// beyond that it only sorts.
func keysOfFunc(fn *ssa.Function) bool {
	if fn == nil || fn.Blocks == nil || len(fn.Params) != 1 || len(fn.Blocks) > 6 {
		return false
	}
	if _, ok := fn.Params[0].Type().Underlying().(*types.Map); !ok {
		return false
	}
	var rng *ssa.Range
	var next *ssa.Next
	nIf, nAppendKey := 0, 0
	for _, b := range fn.Blocks {
		for _, in := range b.Instrs {
			switch x := in.(type) {
			case *ssa.Range:
				if rng != nil || x.X != ssa.Value(fn.Params[0]) {
					return false
				}
				rng = x
			case *ssa.Next:
				if next != nil {
					return false
				}
				next = x
			case *ssa.If:
				nIf++
				ex, ok := x.Cond.(*ssa.Extract)
				if !ok || ex.Index != 0 {
					return false
				}
				if _, ok := ex.Tuple.(*ssa.Next); !ok {
					return false
				}
			case *ssa.Call:
				if bi, ok := x.Call.Value.(*ssa.Builtin); ok {
					switch bi.Name() {
					case "len", "cap":
					case "append":
						// append(keys, key): the second operand is a one-element slice holding the iteration key
						if !inCycle(b) {
							return false
						}
						nAppendKey++
					default:
						return false
					}
					continue
				}
				sc := x.Call.StaticCallee()
				if sc == nil || sc.Pkg == nil && sc.Origin() == nil {
					return false
				}
				pk := pkgPathOf(sc)
				if sc.Origin() != nil {
					pk = pkgPathOf(sc.Origin())
				}
				if pk != "sort" && pk != "slices" {
					return false
				}
			case *ssa.Store:
				// the store into the one-element backing array of append's variadic operand must be the iteration key
				ex, ok := x.Val.(*ssa.Extract)
				if !ok || ex.Index != 1 {
					return false
				}
				if _, ok := ex.Tuple.(*ssa.Next); !ok {
					return false
				}
			case *ssa.Go, *ssa.Defer, *ssa.MapUpdate, *ssa.Send, *ssa.Panic:
				return false
			}
		}
	}
	if rng == nil || next == nil || nIf != 1 || nAppendKey != 1 {
		return false
	}
	if _, ok := fn.Signature.Results().At(0).Type().Underlying().(*types.Slice); !ok || fn.Signature.Results().Len() != 1 {
		return false
	}
	return true
}

// sortedKeyWalk: val is *M[K] with K = keysOf(M)[i] — the entry of the genesis map M under the key K of a walk over all of M's
// keys (keysOf verified by keysOfFunc). Returns M and K.
func sortedKeyWalk(val *Term) (M, K *Term, ok bool) {
	if val == nil || val.Op != "deref" || len(val.Args) != 1 || val.Args[0].Op != "lookup" || len(val.Args[0].Args) != 2 {
		return nil, nil, false
	}
	M, K = val.Args[0].Args[0], val.Args[0].Args[1]
	// the key list built in place: `for k := range M { ks = append(ks, k) }; sort.Strings(ks); for _, k := range ks { … M[k] … }` —
	// every element of the list is a key of M (that every key is visited is the every-entry-imported rule's business)
	if K.Op == "index" && len(K.Args) == 2 && K.Args[0].Op != "call" {
		fromM := K.Args[0].Contains(func(x *Term) bool {
			return x.Op == "range" && len(x.Args) == 1 && x.Args[0].Eq(M)
		})
		onlyAppends := true
		K.Args[0].Walk(func(x *Term) {
			if x.Op == "call" && !x.IsCall("builtin:append") {
				onlyAppends = false
			}
		})
		if fromM && onlyAppends {
			return M, K, true
		}
	}
	if K.Op != "index" || len(K.Args) != 2 || K.Args[0].Op != "call" || len(K.Args[0].Args) == 0 {
		return nil, nil, false
	}
	ct := K.Args[0]
	if !ct.Args[len(ct.Args)-1].Eq(M) {
		return nil, nil, false
	}
	c, isCall := ct.Val.(*ssa.Call)
	if !isCall || !keysOfFunc(c.Call.StaticCallee()) {
		return nil, nil, false
	}
	return M, K, true
}

// checkAolExportLoopBounds: every export loop that fills a genesis map walks exactly the list it indexes — the loop's bound is
// the length of a result of the very GetAll* call whose parallel results give the key and the value. (`for i := range topicKeys {
// …writerKeys[i]… }` exports only the first len(topics) writers, or runs off the end.)
func checkAolExportLoopBounds(p *Prog, r *Report, kp func(string, string) string) {
	exp := p.Func(Rel("x/aol"), "ExportGenesis")
	if exp == nil {
		return
	}
	m := buildAolModel(p)
	n := 0
	for _, eu := range genesisUnits(p, exp) {
		for _, b := range eu.fn.Blocks {
			for _, in := range b.Instrs {
				mu, ok := in.(*ssa.MapUpdate)
				if !ok || !inCycle(b) {
					continue
				}
				// the GetAll* call behind the key
				var call *Term
				eu.o.Of(mu.Key).Walk(func(x *Term) {
					if x.Op == "call" && m.accessorByName(x.Name) != nil {
						call = x
					}
				})
				if call == nil {
					continue
				}
				// the loop header and its bound
				var header *ssa.BasicBlock
				for d := b; d != nil && header == nil; d = d.Idom() {
					for _, pr := range d.Preds {
						if d.Dominates(pr) {
							header = d
						}
					}
				}
				if header == nil || len(header.Instrs) == 0 {
					continue
				}
				iff, ok := header.Instrs[len(header.Instrs)-1].(*ssa.If)
				if !ok {
					continue
				}
				bo, ok := iff.Cond.(*ssa.BinOp)
				if !ok {
					continue
				}
				lc, ok := bo.Y.(*ssa.Call)
				if !ok {
					continue
				}
				if bi, isB := lc.Call.Value.(*ssa.Builtin); !isB || bi.Name() != "len" || len(lc.Call.Args) != 1 {
					continue
				}
				n++
				bound := eu.o.Of(lc.Call.Args[0])
				same := bound.Contains(func(x *Term) bool { return x.Eq(call) })
				fld, _ := rawFieldLoad(mu.Map)
				if eu.resultField != "" {
					fld = eu.resultField
				}
				r.Check(same, kp("LOOP", "x/aol.ExportGenesis#"+fld+"-loop-walks-the-list-it-indexes"), "an export loop's bound is the length of the list whose entries it exports", p.Pos(mu.Pos()),
					"bound ≡ len(result of "+call.Name+")", fmt.Sprintf("the loop that exports %s runs up to len(%s) but indexes the results of %s: entries beyond that length are not exported (or the loop runs off the end)", fld, clip(bound.String(), 80), call.Name))
			}
		}
	}
	r.Count("aol-export-loops-with-a-length-bound", n)
}

// checkParallelResultsUntouched: fn returns two (or more) slices that its loop fills by paired appends; outside the loop no
// call receives one of the returned slice values (directly, boxed, re-sliced or captured by a closure) and no store goes through
// them: what is returned is what the loop built, in the loop's order.
func checkParallelResultsUntouched(p *Prog, r *Report, key string, fn *ssa.Function) {
	rule := "the parallel result lists of a list accessor are returned as the loop built them: nothing reorders, filters or rewrites one of them afterwards"
	results := map[ssa.Value]bool{}
	nSlices := 0
	for _, ret := range returnsOf(fn) {
		for _, rv := range ret.Results {
			if _, isSl := rv.Type().Underlying().(*types.Slice); isSl {
				results[rv] = true
				results[unspill(rv)] = true // a result spilled into a result variable (deferred calls): what was stored there
				nSlices++
			}
		}
	}
	if nSlices < 2 {
		r.OKTrivial(key, rule, p.FnPos(fn), "fewer than two slice results")
		return
	}
	// a result that lives in a local variable (captured by a closure, hence spilled): every load of that variable is the result
	cells := map[ssa.Value]bool{}
	for rv := range results {
		if u, ok := rv.(*ssa.UnOp); ok {
			if al, isAl := u.X.(*ssa.Alloc); isAl {
				cells[al] = true
			}
		}
	}
	derived := func(v ssa.Value) bool {
		for i := 0; i < 4; i++ {
			if results[v] || cells[v] {
				return true
			}
			if u, ok := v.(*ssa.UnOp); ok && cells[u.X] {
				return true
			}
			switch x := v.(type) {
			case *ssa.MakeInterface:
				v = x.X
			case *ssa.ChangeType:
				v = x.X
			case *ssa.Slice:
				v = x.X
			case *ssa.Convert:
				v = x.X
			default:
				return false
			}
		}
		return false
	}
	bad := ""
	for _, b := range fn.Blocks {
		if inCycle(b) {
			continue
		}
		for _, in := range b.Instrs {
			switch x := in.(type) {
			case ssa.CallInstruction:
				cc := x.Common()
				if bi, isB := cc.Value.(*ssa.Builtin); isB && (bi.Name() == "len" || bi.Name() == "cap") {
					continue
				}
				for _, a := range cc.Args {
					if derived(a) {
						bad = fmt.Sprintf("%s receives a result list at %s", calleeName(cc), p.Pos(x.Pos()))
					}
				}
			case *ssa.MakeClosure:
				for _, bnd := range x.Bindings {
					if derived(bnd) {
						bad = "a closure captures a result list at " + p.Pos(x.Pos())
					}
				}
			case *ssa.IndexAddr:
				if derived(x.X) {
					if refs := x.Referrers(); refs != nil {
						for _, rf := range *refs {
							if st, ok := rf.(*ssa.Store); ok && st.Addr == ssa.Value(x) {
								bad = "an element of a result list is overwritten at " + p.Pos(st.Pos())
							}
						}
					}
				}
			}
		}
	}
	r.Check(bad == "", key, rule, p.FnPos(fn), fmt.Sprintf("%d slice results, untouched after the loop", nSlices),
		bad+": keys[i] and values[i] no longer belong to the same store entry, and everything built on the pairing (the genesis export, the listings) pairs entries with each other's data")
}

// checkExportLoadsRequestedHeight: the `export --height H` command exports the state committed at H: the height handed to
// LoadHeight is the command's own height argument, unchanged. (H-1 exports the state before block H: a DID deactivated, a token
// transferred or a record appended in block H is exported as it was before.)
func checkExportLoadsRequestedHeight(p *Prog, r *Report, kp func(string, string) string) {
	n := 0
	for _, fn := range p.ModFuncs {
		// the export command and the application's own height loader behind it
		if !(InPkgs(fn, "cmd") || InPkgs(fn, "app") && !InPkgs(fn, "app/upgrades")) || fn.Blocks == nil {
			continue
		}
		var o *Origin
		for _, cs := range callSites(fn) {
			if !strings.HasSuffix(cs.Name, "baseapp.BaseApp).LoadVersion") && !strings.HasSuffix(cs.Name, "app.App).LoadHeight") {
				continue
			}
			if o == nil {
				o = NewOrigin(p, fn)
			}
			args := cs.Instr.Common().Args
			t := o.Of(args[len(args)-1])
			n++
			r.Check(t.Op == "param", kp("ORIGIN", FuncName(fn)+"#exports-the-requested-height"), "an export at a given height loads exactly that height", p.Pos(cs.Instr.Pos()),
				"LoadHeight(height)", fmt.Sprintf("%s loads %s instead of the height it was asked for: what happened in the last block before the requested height (a deactivation, a transfer, an append) is missing from the exported genesis", FuncName(fn), clip(t.String(), 80)))
		}
	}
	r.Count("export-height-loads", n)
}

// entriesOfFunc: fn returns, in some order, one struct per entry of the one map it ranges over, holding the entry's key in field
// keyField and its value in field valField: a single range over a map, the loop's exhaustion test as only branch, one
// unconditional append of a struct literal built from the iteration's key and value; beyond that it only sorts.
func entriesOfFunc(fn *ssa.Function) (keyField, valField string, ok bool) {
	if fn == nil || fn.Blocks == nil || len(fn.Blocks) > 8 || fn.Signature.Results().Len() != 1 {
		return "", "", false
	}
	if _, isSl := fn.Signature.Results().At(0).Type().Underlying().(*types.Slice); !isSl {
		return "", "", false
	}
	var next *ssa.Next
	nRange, nIf, nAppend := 0, 0, 0
	var lit *ssa.Alloc
	for _, b := range fn.Blocks {
		for _, in := range b.Instrs {
			switch x := in.(type) {
			case *ssa.Range:
				if _, isMap := x.X.Type().Underlying().(*types.Map); !isMap {
					return "", "", false
				}
				nRange++
			case *ssa.Next:
				if next != nil {
					return "", "", false
				}
				next = x
			case *ssa.If:
				nIf++
				ex, isEx := x.Cond.(*ssa.Extract)
				if !isEx || ex.Index != 0 {
					return "", "", false
				}
				if _, isNext := ex.Tuple.(*ssa.Next); !isNext {
					return "", "", false
				}
			case *ssa.Call:
				if bi, isB := x.Call.Value.(*ssa.Builtin); isB {
					switch bi.Name() {
					case "len", "cap":
					case "append":
						if !inCycle(b) {
							return "", "", false
						}
						nAppend++
					default:
						return "", "", false
					}
					continue
				}
				sc := x.Call.StaticCallee()
				if sc == nil {
					return "", "", false
				}
				pk := ""
				if sc.Pkg != nil {
					pk = sc.Pkg.Pkg.Path()
				} else if og := sc.Origin(); og != nil && og.Pkg != nil {
					pk = og.Pkg.Pkg.Path()
				}
				if pk != "sort" && pk != "slices" {
					return "", "", false
				}
			case *ssa.Alloc:
				if _, isSt := x.Type().Underlying().(*types.Pointer).Elem().Underlying().(*types.Struct); isSt && inCycle(b) {
					if lit != nil {
						return "", "", false
					}
					lit = x
				}
			case *ssa.Go, *ssa.Defer, *ssa.MapUpdate, *ssa.Send, *ssa.Panic:
				return "", "", false
			}
		}
	}
	if nRange != 1 || next == nil || nIf != 1 || nAppend != 1 || lit == nil || lit.Referrers() == nil {
		return "", "", false
	}
	for _, rf := range *lit.Referrers() {
		fa, isFA := rf.(*ssa.FieldAddr)
		if !isFA || fa.Referrers() == nil {
			continue
		}
		for _, r2 := range *fa.Referrers() {
			st, isSt := r2.(*ssa.Store)
			if !isSt || st.Addr != ssa.Value(fa) {
				continue
			}
			ex, isEx := st.Val.(*ssa.Extract)
			if !isEx || ex.Tuple != ssa.Value(next) {
				return "", "", false // a field filled with something else than the iteration's key or value
			}
			switch ex.Index {
			case 1:
				keyField = fieldName(fa.X.Type(), fa.Field)
			case 2:
				valField = fieldName(fa.X.Type(), fa.Field)
			}
		}
	}
	return keyField, valField, keyField != "" && valField != ""
}

// pairWalk: key = pairs[i].K and val = *pairs[i].V for the same element of the result of an entries-of function (entriesOfFunc),
// K and V being the fields it fills with the map key and the map value.
func pairWalk(key, val *Term) bool {
	if key == nil || val == nil || key.Op != "field" || len(key.Args) != 1 || val.Op != "deref" || len(val.Args) != 1 {
		return false
	}
	vf := val.Args[0]
	if vf.Op != "field" || len(vf.Args) != 1 || !vf.Args[0].Eq(key.Args[0]) {
		return false
	}
	elem := key.Args[0]
	if elem.Op == "deref" && len(elem.Args) == 1 {
		elem = elem.Args[0]
	}
	if (elem.Op != "index" && elem.Op != "indexaddr") || len(elem.Args) != 2 || elem.Args[0].Op != "call" {
		return false
	}
	c, isCall := elem.Args[0].Val.(*ssa.Call)
	if !isCall {
		return false
	}
	if c.Call.StaticCallee() == nil {
		return false
	}
	kf, vfn, ok := entriesOfFunc(resolveBound(c.Call.StaticCallee()))
	return ok && kf == key.Name && vfn == vf.Name
}
