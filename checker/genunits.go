package main

import (
	"go/types"

	"golang.org/x/tools/go/ssa"
)

// genesisUnit is a function whose body is part of a module's genesis import or export: the entry point itself, or an unexported
// helper of the same package that only the entry point calls, once, on every run (a per-family importer or exporter). A helper is
// analysed with its parameters bound to the entry point's argument terms, so its terms are in the entry point's vocabulary.
type genesisUnit struct {
	fn   *ssa.Function
	o    *Origin
	call *ssa.Call // nil for the entry point
	// the genesis-state field the helper's result is stored into by the entry point ("" when it is not)
	resultField string
}

func genesisUnits(p *Prog, entry *ssa.Function) []genesisUnit {
	eo := NewOrigin(p, entry)
	units := []genesisUnit{{fn: entry, o: eo}}
	nCalls := map[*ssa.Function]int{}
	for _, cs := range callSites(entry) {
		if cs.Callee != nil {
			nCalls[cs.Callee]++
		}
	}
	for _, cs := range callSites(entry) {
		g := cs.Callee
		c, isCall := cs.Instr.(*ssa.Call)
		if g == nil || !isCall || g.Blocks == nil || g == entry || nCalls[g] != 1 {
			continue
		}
		if g.Signature.Recv() != nil || g.Parent() != nil || pkgPathOf(g) != pkgPathOf(entry) || p.IsGenerated(g) {
			continue
		}
		if n := g.Name(); n == "" || !(n[0] >= 'a' && n[0] <= 'z') {
			continue
		}
		callers, uses := p.CallersOf(g)
		only := len(callers) > 0
		for _, cc := range callers {
			if cc != entry {
				only = false
			}
		}
		for _, u := range uses {
			if !u.Call {
				only = false
			}
		}
		if !only {
			continue
		}
		// executed on every run of the entry point
		every := true
		for _, b := range entry.Blocks {
			if len(b.Instrs) == 0 {
				continue
			}
			if _, isRet := b.Instrs[len(b.Instrs)-1].(*ssa.Return); isRet && !c.Block().Dominates(b) {
				every = false
			}
		}
		if !every {
			continue
		}
		u := genesisUnit{fn: g, o: eo.subOrigin(c, g), call: c}
		if refs := c.Referrers(); refs != nil {
			for _, ref := range *refs {
				if st, ok := ref.(*ssa.Store); ok && st.Val == ssa.Value(c) {
					if fa, ok := st.Addr.(*ssa.FieldAddr); ok {
						u.resultField = fieldName(fa.X.Type(), fa.Field)
					}
				}
			}
		}
		units = append(units, u)
	}
	return units
}

// isGenesisUnit: fn is the entry point or one of its per-family helpers.
func isGenesisUnit(p *Prog, entry, fn *ssa.Function) bool {
	if entry == nil || fn == nil {
		return false
	}
	for _, u := range genesisUnits(p, entry) {
		if u.fn == fn {
			return true
		}
	}
	return false
}

// returnedFreshMap: v is a map made in fn that every return of fn hands back as its only result.
func returnedFreshMap(fn *ssa.Function, v ssa.Value) bool {
	if _, ok := v.(*ssa.MakeMap); !ok {
		return false
	}
	n := 0
	for _, b := range fn.Blocks {
		if len(b.Instrs) == 0 {
			continue
		}
		if ret, ok := b.Instrs[len(b.Instrs)-1].(*ssa.Return); ok {
			if len(ret.Results) != 1 || ret.Results[0] != v {
				return false
			}
			n++
		}
	}
	return n > 0
}

// keysOfFunc: fn returns every key of its map parameter, in some order: its only loop ranges over the parameter, the only
// branch is the loop's own exhaustion test, each iteration appends the iteration key to the one slice that is returned, and
// beyond that it only sorts.
func keysOfFunc(fn *ssa.Function) bool {
	if fn == nil || fn.Blocks == nil || len(fn.Params) != 1 || len(fn.Blocks) > 6 {
		return false
	}
	if _, ok := fn.Params[0].Type().Underlying().(*types.Map); !ok {
		return false
	}
	var rng *ssa.Range
	var next *ssa.Next
	nIf, nAppendKey := 0, 0
	for _, b := range fn.Blocks {
		for _, in := range b.Instrs {
			switch x := in.(type) {
			case *ssa.Range:
				if rng != nil || x.X != ssa.Value(fn.Params[0]) {
					return false
				}
				rng = x
			case *ssa.Next:
				if next != nil {
					return false
				}
				next = x
			case *ssa.If:
				nIf++
				ex, ok := x.Cond.(*ssa.Extract)
				if !ok || ex.Index != 0 {
					return false
				}
				if _, ok := ex.Tuple.(*ssa.Next); !ok {
					return false
				}
			case *ssa.Call:
				if bi, ok := x.Call.Value.(*ssa.Builtin); ok {
					switch bi.Name() {
					case "len", "cap":
					case "append":
						// append(keys, key): the second operand is a one-element slice holding the iteration key
						if !inCycle(b) {
							return false
						}
						nAppendKey++
					default:
						return false
					}
					continue
				}
				sc := x.Call.StaticCallee()
				if sc == nil || sc.Pkg == nil && sc.Origin() == nil {
					return false
				}
				pk := pkgPathOf(sc)
				if sc.Origin() != nil {
					pk = pkgPathOf(sc.Origin())
				}
				if pk != "sort" && pk != "slices" {
					return false
				}
			case *ssa.Store:
				// the store into the one-element backing array of append's variadic operand must be the iteration key
				ex, ok := x.Val.(*ssa.Extract)
				if !ok || ex.Index != 1 {
					return false
				}
				if _, ok := ex.Tuple.(*ssa.Next); !ok {
					return false
				}
			case *ssa.Go, *ssa.Defer, *ssa.MapUpdate, *ssa.Send, *ssa.Panic:
				return false
			}
		}
	}
	if rng == nil || next == nil || nIf != 1 || nAppendKey != 1 {
		return false
	}
	if _, ok := fn.Signature.Results().At(0).Type().Underlying().(*types.Slice); !ok || fn.Signature.Results().Len() != 1 {
		return false
	}
	return true
}

// sortedKeyWalk: val is *M[K] with K = keysOf(M)[i] — the entry of the genesis map M under the key K of a walk over all of M's
// keys (keysOf verified by keysOfFunc). Returns M and K.
func sortedKeyWalk(val *Term) (M, K *Term, ok bool) {
	if val == nil || val.Op != "deref" || len(val.Args) != 1 || val.Args[0].Op != "lookup" || len(val.Args[0].Args) != 2 {
		return nil, nil, false
	}
	M, K = val.Args[0].Args[0], val.Args[0].Args[1]
	if K.Op != "index" || len(K.Args) != 2 || K.Args[0].Op != "call" || len(K.Args[0].Args) == 0 {
		return nil, nil, false
	}
	ct := K.Args[0]
	if !ct.Args[len(ct.Args)-1].Eq(M) {
		return nil, nil, false
	}
	c, isCall := ct.Val.(*ssa.Call)
	if !isCall || !keysOfFunc(c.Call.StaticCallee()) {
		return nil, nil, false
	}
	return M, K, true
}
