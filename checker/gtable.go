package main

import (
	"go/constant"
	"go/token"
	"go/types"

	"golang.org/x/tools/go/ssa"
)

// Global tables — `var table = []T{ … }` at package level, walked by `for _, e := range table { f(e.a, e.b) }`.
//
// A table-driven registration is the unrolled sequence of calls, one per element, provided that (all checked):
//   - the variable is assigned exactly once, by its package initialiser, from a slice of a fresh array whose elements (or element
//     fields) are stored once each at constant indices;
//   - everywhere else in the module it is only loaded, and a loaded value is only measured (len) and indexed for reading;
//   - the call sits in a loop whose index runs over 0..len(table)-1 and is executed on every iteration.

type gTable struct {
	g      *ssa.Global
	initFn *ssa.Function
	// per element: field index -> stored value (-1: the whole element)
	elems []map[int]ssa.Value
}

var gTableMemo = map[*ssa.Global]*gTable{}

func globalTable(g *ssa.Global) *gTable {
	if t, ok := gTableMemo[g]; ok {
		return t
	}
	gTableMemo[g] = nil
	if g == nil || g.Pkg == nil || !InModulePkg(g.Pkg) || progForFacts == nil {
		return nil
	}
	initFn := g.Pkg.Func("init")
	if initFn == nil {
		return nil
	}
	var val ssa.Value
	stores := 0
	for _, b := range initFn.Blocks {
		for _, in := range b.Instrs {
			if st, ok := in.(*ssa.Store); ok && st.Addr == ssa.Value(g) {
				stores++
				val = st.Val
			}
		}
	}
	if stores != 1 {
		return nil
	}
	sl, ok := val.(*ssa.Slice)
	if !ok || sl.Low != nil || sl.High != nil || sl.Max != nil {
		return nil
	}
	al, ok := sl.X.(*ssa.Alloc)
	if !ok || !al.Heap {
		return nil
	}
	arr, ok := al.Type().(*types.Pointer).Elem().Underlying().(*types.Array)
	if !ok {
		return nil
	}
	t := &gTable{g: g, initFn: initFn, elems: make([]map[int]ssa.Value, arr.Len())}
	for i := range t.elems {
		t.elems[i] = map[int]ssa.Value{}
	}
	refs := al.Referrers()
	if refs == nil {
		return nil
	}
	for _, rf := range *refs {
		switch x := rf.(type) {
		case *ssa.Slice:
			if x != sl {
				return nil
			}
		case *ssa.IndexAddr:
			c, ok := x.Index.(*ssa.Const)
			if !ok || c.Value == nil {
				return nil
			}
			i64, exact := constant.Int64Val(c.Value)
			if !exact || i64 < 0 || int(i64) >= len(t.elems) {
				return nil
			}
			i := int(i64)
			irefs := x.Referrers()
			if irefs == nil {
				return nil
			}
			for _, ir := range *irefs {
				switch y := ir.(type) {
				case *ssa.Store:
					if y.Addr != ssa.Value(x) {
						return nil
					}
					if _, dup := t.elems[i][-1]; dup || len(t.elems[i]) > 0 {
						return nil
					}
					if fields, isLit := localStructLiteral(y.Val); isLit {
						// the element is a struct literal built in a local and copied in: its fields, one by one
						for f, fv := range fields {
							t.elems[i][f] = fv
						}
						if len(fields) == 0 {
							t.elems[i][-1] = y.Val
						}
					} else {
						t.elems[i][-1] = y.Val
					}
				case *ssa.FieldAddr:
					frefs := y.Referrers()
					if frefs == nil {
						return nil
					}
					for _, fr := range *frefs {
						st, ok := fr.(*ssa.Store)
						if !ok || st.Addr != ssa.Value(y) {
							return nil
						}
						if _, dup := t.elems[i][y.Field]; dup {
							return nil
						}
						if _, whole := t.elems[i][-1]; whole {
							return nil
						}
						t.elems[i][y.Field] = st.Val
					}
				default:
					return nil
				}
			}
		default:
			return nil
		}
	}
	// the slice value itself goes nowhere but into the variable
	if srefs := sl.Referrers(); srefs != nil {
		for _, sr := range *srefs {
			if st, ok := sr.(*ssa.Store); !ok || st.Addr != ssa.Value(g) {
				return nil
			}
		}
	}
	// everywhere else the variable is only loaded, and the loaded slice only measured and read
	for _, fn := range append([]*ssa.Function{initFn}, progForFacts.ModFuncs...) {
		if fn.Pkg != g.Pkg && fnPkg(fn) != g.Pkg && !token.IsExported(g.Name()) {
			continue
		}
		for _, b := range fn.Blocks {
			for _, in := range b.Instrs {
				for _, op := range in.Operands(nil) {
					if op == nil || *op != ssa.Value(g) {
						continue
					}
					if st, ok := in.(*ssa.Store); ok && st.Addr == ssa.Value(g) && fn == initFn {
						continue
					}
					u, ok := in.(*ssa.UnOp)
					if !ok || u.Op != token.MUL {
						return nil
					}
					if !readOnlySliceUses(u, 0) {
						return nil
					}
				}
			}
		}
	}
	gTableMemo[g] = t
	return t
}

// readOnlySliceUses: the slice value v is only measured, ranged over, indexed for loads, or merged by a phi that is used so.
func readOnlySliceUses(v ssa.Value, depth int) bool {
	refs := v.Referrers()
	if refs == nil || depth > 3 {
		return refs == nil && depth <= 3
	}
	for _, rf := range *refs {
		switch x := rf.(type) {
		case *ssa.DebugRef:
		case *ssa.Call:
			bi, ok := x.Call.Value.(*ssa.Builtin)
			if !ok || (bi.Name() != "len" && bi.Name() != "cap") {
				return false
			}
		case *ssa.IndexAddr:
			if x.X != v {
				return false
			}
			if !readOnlyAddrUses(x, 0) {
				return false
			}
		case *ssa.Phi:
			if !readOnlySliceUses(x, depth+1) {
				return false
			}
		default:
			return false
		}
	}
	return true
}

func readOnlyAddrUses(a ssa.Value, depth int) bool {
	refs := a.Referrers()
	if refs == nil || depth > 3 {
		return refs == nil
	}
	for _, rf := range *refs {
		switch x := rf.(type) {
		case *ssa.DebugRef:
		case *ssa.UnOp:
			if x.Op != token.MUL {
				return false
			}
		case *ssa.FieldAddr:
			if !readOnlyAddrUses(x, depth+1) {
				return false
			}
		default:
			return false
		}
	}
	return true
}

// tableElemRef: v is the field `field` (or, field == -1, the whole) of the element of a global table at the loop index idx:
// e.f with e := table[idx], or table[idx].f, or table[idx].
func tableElemRef(v ssa.Value) (t *gTable, field int, idx ssa.Value, slice ssa.Value, ok bool) {
	for {
		switch x := v.(type) {
		case *ssa.MakeInterface:
			v = x.X
			continue
		case *ssa.ChangeInterface:
			v = x.X
			continue
		case *ssa.ChangeType:
			v = x.X
			continue
		}
		break
	}
	field = -1
	var ia *ssa.IndexAddr
	switch x := v.(type) {
	case *ssa.Field:
		u, isU := x.X.(*ssa.UnOp)
		if !isU || u.Op != token.MUL {
			return nil, 0, nil, nil, false
		}
		ia, _ = u.X.(*ssa.IndexAddr)
		field = x.Field
	case *ssa.UnOp:
		if x.Op != token.MUL {
			return nil, 0, nil, nil, false
		}
		switch y := x.X.(type) {
		case *ssa.FieldAddr:
			ia, _ = y.X.(*ssa.IndexAddr)
			field = y.Field
			if al, isAl := y.X.(*ssa.Alloc); isAl {
				// e := table[idx] copied into a local that is only read afterwards
				if src, isCopy := readOnlyCopyOf(al); isCopy {
					if u, isU := src.(*ssa.UnOp); isU && u.Op == token.MUL {
						ia, _ = u.X.(*ssa.IndexAddr)
					}
				}
			}
		case *ssa.IndexAddr:
			ia = y
		}
	}
	if ia == nil {
		return nil, 0, nil, nil, false
	}
	ld, isLd := ia.X.(*ssa.UnOp)
	if !isLd || ld.Op != token.MUL {
		return nil, 0, nil, nil, false
	}
	g, isG := ld.X.(*ssa.Global)
	if !isG {
		return nil, 0, nil, nil, false
	}
	t = globalTable(g)
	if t == nil {
		return nil, 0, nil, nil, false
	}
	return t, field, ia.Index, ld, true
}

// fullRangeIndex: idx is the index of a loop that visits 0, 1, …, len(slice)-1: the range form (phi(-1, ·)+1 tested against
// len(slice) in the header) or the three-clause form (phi(0, ·+1) tested against len(slice)).
func fullRangeIndex(idx ssa.Value, slice ssa.Value) bool {
	isLen := func(v ssa.Value) bool {
		c, ok := v.(*ssa.Call)
		if !ok {
			return false
		}
		bi, ok := c.Call.Value.(*ssa.Builtin)
		return ok && bi.Name() == "len" && len(c.Call.Args) == 1 && c.Call.Args[0] == slice
	}
	constIs := func(v ssa.Value, want int64) bool {
		c, ok := v.(*ssa.Const)
		if !ok || c.Value == nil {
			return false
		}
		i, exact := constant.Int64Val(c.Value)
		return exact && i == want
	}
	testedAgainstLen := func(v ssa.Value, hdr *ssa.BasicBlock) bool {
		if len(hdr.Instrs) == 0 {
			return false
		}
		iff, ok := hdr.Instrs[len(hdr.Instrs)-1].(*ssa.If)
		if !ok {
			return false
		}
		cmp, ok := iff.Cond.(*ssa.BinOp)
		return ok && cmp.Op == token.LSS && cmp.X == v && isLen(cmp.Y)
	}
	switch x := idx.(type) {
	case *ssa.BinOp: // range form: t3 = phi(-1, t3) + 1
		ph, ok := x.X.(*ssa.Phi)
		if !ok || x.Op != token.ADD || !constIs(x.Y, 1) || len(ph.Edges) != 2 {
			return false
		}
		okEdges := (constIs(ph.Edges[0], -1) && ph.Edges[1] == ssa.Value(x)) || (constIs(ph.Edges[1], -1) && ph.Edges[0] == ssa.Value(x))
		return okEdges && testedAgainstLen(x, ph.Block())
	case *ssa.Phi: // three-clause form: i = phi(0, i+1)
		if len(x.Edges) != 2 {
			return false
		}
		var inc ssa.Value
		switch {
		case constIs(x.Edges[0], 0):
			inc = x.Edges[1]
		case constIs(x.Edges[1], 0):
			inc = x.Edges[0]
		default:
			return false
		}
		b, ok := inc.(*ssa.BinOp)
		if !ok || b.Op != token.ADD || b.X != ssa.Value(x) || !constIs(b.Y, 1) {
			return false
		}
		return testedAgainstLen(x, x.Block())
	}
	return false
}

// everyIteration: the instruction sits in a loop and its block dominates every back edge of the innermost loop around it.
func everyIteration(in ssa.Instruction) bool {
	eb := in.Block()
	if !inCycle(eb) {
		return false
	}
	var header *ssa.BasicBlock
	for d := eb; d != nil && header == nil; d = d.Idom() {
		for _, pr := range d.Preds {
			if d.Dominates(pr) {
				header = d
			}
		}
	}
	if header == nil {
		return false
	}
	for _, pr := range header.Preds {
		if header.Dominates(pr) && !eb.Dominates(pr) {
			return false
		}
	}
	return true
}

// tableDrivenArgs: the call's arguments args[k] are fields of the current element of one global table walked completely, the call
// running on every iteration. Returns, per table element, the stored values of those arguments (values of the table's package
// initialiser).
func tableDrivenArgs(call ssa.CallInstruction, argIdx []int) (rows [][]ssa.Value, t *gTable, ok bool) {
	in, isIn := call.(ssa.Instruction)
	if !isIn || !everyIteration(in) {
		return nil, nil, false
	}
	args := call.Common().Args
	fields := make([]int, len(argIdx))
	for k, ai := range argIdx {
		if ai >= len(args) {
			return nil, nil, false
		}
		tt, f, idx, sl, isRef := tableElemRef(args[ai])
		if !isRef || !fullRangeIndex(idx, sl) {
			return nil, nil, false
		}
		if t != nil && tt != t {
			return nil, nil, false
		}
		t = tt
		fields[k] = f
	}
	if t == nil {
		return nil, nil, false
	}
	for _, e := range t.elems {
		row := make([]ssa.Value, len(fields))
		for k, f := range fields {
			v, has := e[f]
			if !has {
				return nil, nil, false // a field left at its zero value
			}
			row[k] = v
		}
		rows = append(rows, row)
	}
	return rows, t, true
}

// appendedTableColumn: v is a slice built by appending, on every iteration of a complete walk over a global table, one field of
// the current element — in place (v is the loop's phi or the append itself) or in a module function that v is the result of.
// Returns the stored values of that field, one per table element.
func appendedTableColumn(v ssa.Value) ([]ssa.Value, bool) {
	var fn *ssa.Function
	var result ssa.Value
	switch x := v.(type) {
	case *ssa.Call:
		if _, isB := x.Call.Value.(*ssa.Builtin); isB {
			fn, result = x.Parent(), x
			break
		}
		h := x.Call.StaticCallee()
		if h == nil || h.Blocks == nil || !InModule(h) {
			return nil, false
		}
		fn = h
		for _, ret := range returnsOf(h) {
			if len(ret.Results) != 1 || (result != nil && ret.Results[0] != result) {
				return nil, false
			}
			result = ret.Results[0]
		}
	case *ssa.Phi:
		fn, result = x.Parent(), x
	case *ssa.UnOp:
		// the table itself: a global []T handed over whole
		if g, ok := x.X.(*ssa.Global); ok && x.Op == token.MUL {
			if t := globalTable(g); t != nil {
				var out []ssa.Value
				for _, e := range t.elems {
					w, has := e[-1]
					if !has {
						return nil, false
					}
					out = append(out, w)
				}
				return out, true
			}
		}
		return nil, false
	default:
		return nil, false
	}
	if fn == nil || result == nil {
		return nil, false
	}
	var app *ssa.Call
	for _, b := range fn.Blocks {
		for _, in := range b.Instrs {
			if c, ok := in.(*ssa.Call); ok {
				if bi, isB := c.Call.Value.(*ssa.Builtin); isB && bi.Name() == "append" && c.Type() == result.Type() {
					if app != nil {
						return nil, false
					}
					app = c
				}
			}
		}
	}
	if app == nil || !everyIteration(app) || len(app.Call.Args) != 2 {
		return nil, false
	}
	// the result is the append chain: the append itself or a phi merging it with the empty start
	reaches := false
	var walk func(x ssa.Value, d int)
	walk = func(x ssa.Value, d int) {
		if x == ssa.Value(app) {
			reaches = true
			return
		}
		if ph, ok := x.(*ssa.Phi); ok && d < 3 {
			for _, e := range ph.Edges {
				walk(e, d+1)
			}
		}
	}
	walk(result, 0)
	if !reaches {
		return nil, false
	}
	// the appended operand: a one-element slice holding the element's field
	sl, ok := app.Call.Args[1].(*ssa.Slice)
	if !ok {
		return nil, false
	}
	al, ok := sl.X.(*ssa.Alloc)
	if !ok {
		return nil, false
	}
	var elem ssa.Value
	n := 0
	if refs := al.Referrers(); refs != nil {
		for _, rf := range *refs {
			if ia, ok := rf.(*ssa.IndexAddr); ok {
				if irefs := ia.Referrers(); irefs != nil {
					for _, ir := range *irefs {
						if st, ok := ir.(*ssa.Store); ok && st.Addr == ssa.Value(ia) {
							elem = st.Val
							n++
						}
					}
				}
			}
		}
	}
	if n != 1 {
		return nil, false
	}
	t, f, idx, tsl, isRef := tableElemRef(elem)
	if !isRef || !fullRangeIndex(idx, tsl) {
		return nil, false
	}
	var out []ssa.Value
	for _, e := range t.elems {
		w, has := e[f]
		if !has {
			return nil, false
		}
		out = append(out, w)
	}
	return out, true
}

// localStructLiteral: v is the load of a local that holds a struct literal — the local is written field by field, once each, and
// read only by that load. Returns the stored field values.
func localStructLiteral(v ssa.Value) (map[int]ssa.Value, bool) {
	u, ok := v.(*ssa.UnOp)
	if !ok || u.Op != token.MUL {
		return nil, false
	}
	al, ok := u.X.(*ssa.Alloc)
	if !ok {
		return nil, false
	}
	if _, isSt := al.Type().(*types.Pointer).Elem().Underlying().(*types.Struct); !isSt {
		return nil, false
	}
	refs := al.Referrers()
	if refs == nil {
		return nil, false
	}
	out := map[int]ssa.Value{}
	for _, rf := range *refs {
		switch x := rf.(type) {
		case *ssa.DebugRef:
		case *ssa.UnOp:
			if x != u {
				return nil, false
			}
		case *ssa.FieldAddr:
			frefs := x.Referrers()
			if frefs == nil {
				return nil, false
			}
			for _, fr := range *frefs {
				st, ok := fr.(*ssa.Store)
				if !ok || st.Addr != ssa.Value(x) {
					return nil, false
				}
				if _, dup := out[x.Field]; dup {
					return nil, false
				}
				// the literal is complete before it is copied
				if st.Block() != u.Block() {
					return nil, false
				}
				out[x.Field] = st.Val
			}
		default:
			return nil, false
		}
	}
	return out, true
}

// readOnlyCopyOf: the local is assigned once, as a whole, and afterwards only read (whole or field by field). Returns the
// value it was assigned.
func readOnlyCopyOf(al *ssa.Alloc) (ssa.Value, bool) {
	refs := al.Referrers()
	if refs == nil {
		return nil, false
	}
	var src ssa.Value
	for _, rf := range *refs {
		switch x := rf.(type) {
		case *ssa.DebugRef:
		case *ssa.Store:
			if x.Addr != ssa.Value(al) || src != nil {
				return nil, false
			}
			src = x.Val
		case *ssa.UnOp:
			if x.Op != token.MUL {
				return nil, false
			}
		case *ssa.FieldAddr:
			if !readOnlyAddrUses(x, 0) {
				return nil, false
			}
		default:
			return nil, false
		}
	}
	return src, src != nil
}
