package main

import (
	"fmt"
	"go/token"
	"go/types"
	"sort"
	"strings"

	"golang.org/x/tools/go/ssa"
)

// COMPOSITE MAP KEYS — a map that stands for a set of tuples ("seen (denom, id)", "imported (owner, topic)") keyed by the plain
// concatenation of two variable strings identifies ("ward","10") with ("ward1","0"): a second entry is taken for a duplicate of the
// first and skipped or refused. The key of every map update / lookup in the module's genesis and validation code is flattened into
// its concatenated parts; two adjacent parts that are both variable (no constant between them) are reported.

// concatParts flattens a string concatenation into its operands.
func concatParts(v ssa.Value, depth int) []ssa.Value {
	if bo, ok := v.(*ssa.BinOp); ok && bo.Op == token.ADD && depth < 8 {
		if b, isB := bo.Type().Underlying().(*types.Basic); isB && b.Info()&types.IsString != 0 {
			return append(concatParts(bo.X, depth+1), concatParts(bo.Y, depth+1)...)
		}
	}
	return []ssa.Value{v}
}

func unseparatedKeyIn(fn *ssa.Function) (ssa.Instruction, bool) {
	for _, b := range fn.Blocks {
		for _, in := range b.Instrs {
			var key ssa.Value
			switch x := in.(type) {
			case *ssa.MapUpdate:
				key = x.Key
			case *ssa.Lookup:
				if _, isMap := x.X.Type().Underlying().(*types.Map); isMap {
					key = x.Index
				}
			}
			if key == nil {
				continue
			}
			parts := concatParts(key, 0)
			if len(parts) < 2 {
				continue
			}
			for i := 0; i+1 < len(parts); i++ {
				_, c1 := parts[i].(*ssa.Const)
				_, c2 := parts[i+1].(*ssa.Const)
				if !c1 && !c2 {
					return in, true
				}
			}
		}
	}
	return nil, false
}

func checkNoUnseparatedCompositeMapKeys(p *Prog, r *Report, kp func(string, string) string, pkgs ...string) {
	rule := "a map keyed by several variable strings keeps them apart (a constant separator between the parts, or a struct key): plain concatenation identifies different tuples"
	nFn, nBad := 0, 0
	var bad []string
	for _, fn := range p.ModFuncs {
		if fn.Blocks == nil || p.IsGenerated(fn) || !InPkgs(fn, pkgs...) || InPkgs(fn, "client") {
			continue
		}
		nFn++
		if in, isBad := unseparatedKeyIn(fn); isBad {
			nBad++
			bad = append(bad, FuncName(fn))
			r.Fail(kp("LIN", FuncName(fn)+"#map-key-parts-separated"), rule, p.Pos(in.Pos()),
				fmt.Sprintf("%s keys a map by the plain concatenation of two variable strings: (\"ab\",\"c\") and (\"a\",\"bc\") share the key, so one of two different entries is taken for the other (skipped as already seen, or refused as a duplicate)", FuncName(fn)))
		}
	}
	sort.Strings(bad)
	if nBad == 0 {
		r.OK(kp("LIN", "map-key-parts-separated#none"), rule, strings.Join(pkgs, ", "), fmt.Sprintf("%d functions, no map keyed by an unseparated concatenation of variable strings", nFn))
	}
	// positive control: the matcher sees the construct
	fx, err := buildFixture(p, "cmkfx", "package cmkfx\n\nfunc Bad(a, b string, m map[string]bool) { m[a+b] = true }\n\nfunc Good(a, b string, m map[string]bool) bool { return m[a+\"/\"+b] }\n")
	if err != nil {
		r.Undecided(kp("LIN", "map-key-parts-separated#control"), "positive control for the composite-key matcher", "checker/compositemapkey.go", "fixture does not build: "+err.Error())
		return
	}
	_, b1 := unseparatedKeyIn(fx["Bad"])
	_, b2 := unseparatedKeyIn(fx["Good"])
	r.Check(b1 && !b2, kp("LIN", "map-key-parts-separated#control"), "positive control: a+b is reported, a+\"/\"+b is not", "checker/compositemapkey.go", "1 of 1 / 0 of 1", fmt.Sprintf("bad=%v good=%v", b1, b2))
}
