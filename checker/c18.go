package main

import (
	"fmt"
	"go/token"
	"go/types"
	"sort"
	"strings"

	"golang.org/x/tools/go/ssa"
)

func init() { register("C18", checkC18) }

const compkeyPkg = "types/compkey"

// blockFails: every path from b reaches a return whose error result is definitely non-nil, without passing `avoid`.
func blockFails(b *ssa.BasicBlock, depth int) bool {
	if depth > 6 || len(b.Instrs) == 0 {
		return false
	}
	switch last := b.Instrs[len(b.Instrs)-1].(type) {
	case *ssa.Return:
		if len(last.Results) == 0 {
			return false
		}
		return definitelyError(last.Results[len(last.Results)-1], 0)
	case *ssa.Panic:
		return true
	case *ssa.Jump:
		return blockFails(b.Succs[0], depth+1)
	}
	return false
}

// C18 — composite keys: lossless, collision-free and prefix-exact.
func checkC18(p *Prog, r *Report) {
	checkNoDroppedErrors(p, r, "C18", "types/compkey, x/aol, x/aol/types", func(fn *ssa.Function) bool { return inExactPkgs(fn, "types/compkey", "x/aol", "x/aol/types") })
	checkNoNilWrap(p, r, "C18", "types/compkey, x/aol/types", func(fn *ssa.Function) bool { return inExactPkgs(fn, "types/compkey", "x/aol/types") })
	r.Explain = "Decided statically: D1 encoder — every narrowing of a length to one byte is dominated by length <= 255 (error return otherwise); per value exactly one length byte is stored at the running index and the whole value is copied right after it; the running index advances by 1 + bytes copied; the buffer size is the sum of (1 + len) over the same values; Encode/PartialEncode feed it ByteSlices() / its first numValues elements under numValues <= len. D2 decoder — in linear normal form the only accept condition is idx+1+n <= len(bz) with n the byte at idx, the value copied is bz[idx+1 : idx+1+n] into a buffer of length n, the next index is idx+1+copied, the loop continues while idx < len(bz), every value is appended. D3 per typed key (4) — component count, component order and field binding agree between ByteSlices/FromByteSlices and Strings/FromStrings; address components are format-checked on decode; fixed-width components are length-checked before big-endian decoding. D4 round trip / injectivity / prefix-exactness of [len][value]... with one-byte lengths then follow on paper from D1–D3 (standard argument for length-prefixed encodings: by induction on the component index, equal encodings force equal first length bytes, hence equal first components, hence equal remainders; a proper prefix of an encoding ending inside a component cannot be decoded because the accept condition fails). D5 the genesis separator is a one-character constant outside the topic-name language, the bech32 alphabet/HRP and the decimal digits, and FromStrings checks the component count."
	r.NotDec = []string{"byte-level behaviour beyond the stated shape (nothing is executed)", "copy / strings.Split / strconv semantics"}
	r.Trusted = []string{"Go built-ins copy/append/len, strings.Split, strconv, cosmos-sdk address parsing"}
	kp := func(rule, rest string) string { return rule + ":C18:" + rest }
	// the string forms of the genesis keys are parsed by GenesisState.Validate: its verdict is what ValidateGenesis returns
	checkValidateGenesisPropagates(p, r, kp, []string{"x/aol"})

	sp := p.SSAPkg(Rel(compkeyPkg))
	if sp == nil {
		r.Fail(kp("LIN", "compkey#anchor"), "anchor", compkeyPkg, "package not loaded")
		return
	}
	checkCompkeyEncoder(p, r, kp, sp)
	// ---- D2: decoder ---------------------------------------------------------------------------
	if dec := sp.Func("Decode"); dec != nil {
		checkDecoderShape(p, r, kp, dec)
	} else {
		r.Fail(kp("LIN", "compkey.Decode#anchor"), "anchor", compkeyPkg, "Decode not found")
	}
	// ---- D2d: the genesis import stores every entry under the key its string form decodes to, untransformed (no recomputation by
	// string prefixes of the key strings)
	aolRules(p, r, "C18", func(tag string) bool { return tag == "genesis" })
	// ---- D2c: prefix-exact listings: a listing iterates under PartialEncode of exactly the components that name its parent -----
	aolListings(p, r, buildAolModel(p), "C18")
	// ---- D3: typed keys ------------------------------------------------------------------------
	ck := p.Iface(Rel(compkeyPkg), "CompositeKey")
	impls := p.ImplementersOf(ck)
	r.Floor("composite-key-types", len(impls), 4)
	for _, kt := range impls {
		checkTypedKey(p, r, kp, kt)
		// a decoded key owns its components: FromByteSlices / FromStrings assign each field, they never write into the storage the
		// receiver's slices already have (append(k.Addr[:0], …), copy(k.Addr, …)) — a key variable that is decoded again (a loop
		// over store entries) would otherwise change the keys already handed out, which share that storage
		for _, mn := range []string{"FromByteSlices", "FromStrings"} {
			fn := p.MethodOf(kt, mn)
			if fn == nil {
				continue
			}
			var reuse *msgWrite
			for _, w := range writesThrough(p, fn, 0, 0, "", map[string]bool{}) {
				if strings.HasPrefix(w.How, "append onto") || strings.HasPrefix(w.How, "copy into") {
					w := w
					reuse = &w
				}
			}
			key := kp("AGREE", shortPkg(kt.String())+"#"+mn+"-assigns-fresh-components")
			if reuse == nil {
				r.OK(key, "decoding assigns the key's fields; it does not write into storage earlier copies of the key share", p.FnPos(fn), "no append onto / copy into the receiver's existing slices")
			} else {
				r.Fail(key, "decoding assigns the key's fields; it does not write into storage earlier copies of the key share", p.Pos(reuse.Instr.Pos()),
					fmt.Sprintf("%s.%s reuses the receiver's storage (%s in %s): copies of the key made before the next decode (keys = append(keys, key) in a listing loop) share that backing array and silently change to the last decoded value", shortPkg(kt.String()), mn, reuse.How, FuncName(reuse.Fn)))
			}
		}
	}
	// the string form of a key round-trips only for addresses the decoder accepts: the SDK's own address format check (which rejects
	// the empty address) must be in force — a custom verifier installed through the SDK config replaces it (shared with C16)
	checkAddressConfig(p, r, kp)
	// ---- D5: separator -------------------------------------------------------------------------
	sepC, okSep := p.ConstVal(Rel(aolTypesPkg), "GenesisKeySeparator")
	var sep string
	fmt.Sscanf(sepC, "%q", &sep)
	if !okSep || len(sep) != 1 {
		r.Fail(kp("CONST", "GenesisKeySeparator"), "the genesis key separator is a one-character constant", aolTypesPkg, "value "+sepC)
	} else {
		checkSeparatorOutsideComponents(p, r, kp, sep)
		// both sides use the same constant
		n := 0
		for _, fn := range p.ModFuncs {
			if !InPkgs(fn, "x/aol") || p.IsGenerated(fn) {
				continue
			}
			for _, cs := range callSites(fn) {
				if cs.Callee == nil || pkgPathOf(cs.Callee) != Rel(compkeyPkg) {
					continue
				}
				nm := cs.Callee.Name()
				if nm != "EncodeToString" && nm != "DecodeFromString" && nm != "MustDecodeFromString" {
					continue
				}
				n++
				args := cs.Instr.Common().Args
				var sa ssa.Value
				if nm == "EncodeToString" {
					sa = args[1]
				} else {
					sa = args[1]
				}
				c, isC := sa.(*ssa.Const)
				okc := isC && c.Value != nil && c.Value.ExactString() == sepC
				r.Check(okc, kp("CONST", FuncName(fn)+"→"+nm+"#separator@"+p.Pos(cs.Instr.Pos())), "export, import and validation all use the one separator constant", p.Pos(cs.Instr.Pos()), sepC, "a different separator is used here: "+sa.String())
			}
		}
		r.Floor("string-key-call-sites", n, 2)
		// every genesis map key the AOL export writes is compkey.EncodeToString(<typed key>, separator): the string form is
		// strings.Join(key.Strings(), sep), which FromStrings(strings.Split(s, sep)) inverts because no component contains sep.
		// Any other way of joining the components (path.Join cleans "." and ".." segments, fmt with another verb, …) is not inverted.
		if exp := p.Func(Rel("x/aol"), "ExportGenesis"); exp != nil {
			nKeys := 0
			for _, eu := range genesisUnits(p, exp) {
				eo := eu.o
				for _, b := range eu.fn.Blocks {
					for _, in := range b.Instrs {
						mu, ok := in.(*ssa.MapUpdate)
						if !ok {
							continue
						}
						if bt, isB := mu.Key.Type().Underlying().(*types.Basic); !isB || bt.Info()&types.IsString == 0 {
							continue
						}
						nKeys++
						kt := eo.Of(mu.Key)
						fld, _ := rawFieldLoad(mu.Map)
						if eu.resultField != "" && returnedFreshMap(eu.fn, mu.Map) {
							fld = eu.resultField
						}
						okKey := kt.IsCall("types/compkey.EncodeToString") && len(kt.Args) == 2 && kt.Args[1].Op == "const" && kt.Args[1].Name == sepC
						r.Check(okKey, kp("ORIGIN", "x/aol.ExportGenesis#"+fld+"-key=EncodeToString(key,sep)"), "the string form of an exported key is compkey.EncodeToString(key, GenesisKeySeparator), the form DecodeFromString inverts", p.Pos(mu.Pos()),
							clip(kt.String(), 120), "the exported map key is "+clip(kt.String(), 200)+", not compkey.EncodeToString(key, "+sepC+"): a key whose components the other joiner rewrites (\".\", \"..\", empty segments) cannot be parsed back")
					}
				}
			}
			r.Floor("aol-exported-string-keys", nKeys, 1)
		}
		checkStringDecoder(p, r, kp, sp)
	}
}

// regexConstsIn lists constant regex patterns used (MustCompile / MatchString) in fn.
func regexConstsIn(p *Prog, fn *ssa.Function) []string {
	var out []string
	for _, cs := range callSites(fn) {
		if cs.Name == "regexp.MustCompile" || cs.Name == "regexp.MatchString" || cs.Name == "regexp.Compile" {
			if c, ok := cs.Instr.Common().Args[0].(*ssa.Const); ok && c.Value != nil {
				var s string
				if _, err := fmt.Sscanf(c.Value.ExactString(), "%q", &s); err == nil {
					out = append(out, s)
				}
			}
		}
	}
	return out
}

// checkEncoderShape: the SSA def-use shape around the narrowing conversion (DESIGN C18-D1).
func checkEncoderShape(p *Prog, r *Report, kp func(string, string) string, fn *ssa.Function, cv *ssa.Convert) {
	fname := FuncName(fn)
	site := p.Pos(cv.Pos())
	// the converted operand is len(v)
	lenCall, ok := cv.X.(*ssa.Call)
	var val ssa.Value
	if ok {
		if b, isB := lenCall.Call.Value.(*ssa.Builtin); isB && b.Name() == "len" {
			val = lenCall.Call.Args[0]
		}
	}
	if val == nil {
		r.Undecided(kp("LIN", fname+"#encoder-shape"), "the byte stored is the length of the value being encoded", site, "converted operand is not len(value)")
		return
	}
	// store of the converted byte at buf[I]
	var store *ssa.Store
	if refs := cv.Referrers(); refs != nil {
		for _, u := range *refs {
			if st, ok := u.(*ssa.Store); ok && st.Val == ssa.Value(cv) {
				store = st
			}
		}
	}
	ia, _ := func() (*ssa.IndexAddr, bool) {
		if store == nil {
			return nil, false
		}
		x, ok := store.Addr.(*ssa.IndexAddr)
		return x, ok
	}()
	if ia != nil {
		if al, isAl := ia.X.(*ssa.Alloc); isAl && strings.Contains(al.Comment, "varargs") {
			checkAppendEncoderShape(p, r, kp, fn, cv, val, al)
			return
		}
	}
	if ia == nil {
		r.Fail(kp("LIN", fname+"#length-byte-store"), "exactly one length byte is stored at the running index", site, "the converted length is not stored into the buffer")
		return
	}
	buf, I := ia.X, ia.Index
	// copy(buf[I+1:], val) in the same block
	var cp *ssa.Call
	for _, in := range cv.Block().Instrs {
		if c, ok := in.(*ssa.Call); ok {
			if b, isB := c.Call.Value.(*ssa.Builtin); isB && b.Name() == "copy" {
				cp = c
			}
		}
	}
	okCopy := false
	why := "no copy of the value after the length byte"
	if cp != nil {
		if sl, ok := cp.Call.Args[0].(*ssa.Slice); ok && sl.X == buf && sl.Low != nil && sl.High == nil {
			d := LinOf(sl.Low).Sub(LinOf(I))
			srcSame := cp.Call.Args[1] == val
			okCopy = d.IsConst(1) && srcSame
			why = fmt.Sprintf("copy destination starts at index+(%s), source is the encoded value: %v", d, srcSame)
		}
	}
	r.Check(okCopy, kp("LIN", fname+"#value-copied-after-length-byte"), "the whole value is copied immediately after its length byte", site, "copy(buf[idx+1:], value)", why)
	// loop-carried index: phi with back edge = I + 1 + copied
	okNext := false
	whyN := "running index is not a loop-carried variable"
	if phi, ok := I.(*ssa.Phi); ok && cp != nil {
		for k, e := range phi.Edges {
			pred := phi.Block().Preds[k]
			if !phi.Block().Dominates(pred) {
				continue // entry edge
			}
			d := LinOf(e).Sub(LinOf(phi))
			want := Lin{Coef: map[string]int64{cp.Name(): 1}, C: 1}
			okNext = d.Eq(want)
			whyN = "index advances by " + d.String()
		}
	}
	r.Check(okNext, kp("LIN", fname+"#index-advances-by-1+copied"), "the running index advances by 1 + bytes copied", site, "idx' = idx + 1 + copy(...)", whyN)
	// buffer size
	okSize := false
	whyS := "buffer is not make([]byte, Σ(1+len))"
	if ms, ok := buf.(*ssa.MakeSlice); ok {
		if phi, ok := ms.Len.(*ssa.Phi); ok {
			for k, e := range phi.Edges {
				pred := phi.Block().Preds[k]
				if !phi.Block().Dominates(pred) {
					if c, isC := e.(*ssa.Const); !isC || c.Int64() != 0 {
						whyS = "size does not start at 0"
					}
					continue
				}
				d := LinOf(e).Sub(LinOf(phi))
				okSize = d.C == 1 && len(d.Coef) == 1
				for sym, c := range d.Coef {
					if !strings.HasPrefix(sym, "len(") || c != 1 {
						okSize = false
					}
				}
				whyS = "size grows by " + d.String() + " per value"
			}
		}
	}
	var pass *sizePass
	if ms, ok := buf.(*ssa.MakeSlice); ok && !okSize {
		{
			if c := sizeCallOf(ms.Len); c != nil && len(c.Call.Args) == 1 {
				// the size comes from the first pass over the very slice whose elements are encoded
				if u, ok := val.(*ssa.UnOp); ok {
					if ia2, ok := u.X.(*ssa.IndexAddr); ok && ia2.X == c.Call.Args[0] {
						if sp, call := sizePassBefore(fn, cv, ia2.X); sp != nil && call == c {
							pass = sp
							okSize = sp.PerC == 1
							whyS = fmt.Sprintf("size = %s(values): 0 + Σ(%d + len(value))", FuncName(c.Call.StaticCallee()), sp.PerC)
						}
					}
				}
			}
		}
	}
	if prm, isPrm := buf.(*ssa.Parameter); isPrm && !okSize {
		// the buffer is a parameter of an unexported writer: at every call site it is make([]byte, size) with size the result of the
		// size pass over the slice handed in as values
		if sp, callers := callerSizePass(p, fn, cv); sp != nil && callerBufferIsSizePass(p, fn, prm, cv) {
			pass = sp
			okSize = sp.PerC == 1
			whyS = fmt.Sprintf("at every call site (%s) the buffer is make([]byte, size) with size = 0 + Σ(%d + len(value)) over the same values", callers, sp.PerC)
		}
	}
	r.Check(okSize, kp("LIN", fname+"#buffer-size=Σ(1+len)"), "the buffer has exactly one length byte plus the value's bytes per component", site, whyS, whyS)
	// error branch: the block testing the bound has a failing successor
	okErr := false
	for _, b := range fn.Blocks {
		if iff, ok := b.Instrs[len(b.Instrs)-1].(*ssa.If); ok {
			if bo, ok := iff.Cond.(*ssa.BinOp); ok {
				if e, ok := CmpNormal(bo); ok && strings.Contains(e.String(), "len(") && (blockFails(b.Succs[0], 0) || blockFails(b.Succs[1], 0)) {
					okErr = true
				}
			}
		}
	}
	if !okErr && pass != nil && pass.HasErr {
		okErr = true // the first pass rejects the oversized component and the encoder returns that error (checked by sizePassBefore)
	}
	r.Check(okErr, kp("GUARD", fname+"#oversize-is-an-error"), "a component longer than 255 bytes is rejected with an error", site, "the bound test has an error-returning branch", "no error-returning branch on the length test")
}

// checkDecoderShape (DESIGN C18-D2).
// lengthByteRead: n = int(bz[I]) with bz the function's first parameter.
func lengthByteRead(fn *ssa.Function) *ssa.Convert {
	if fn == nil || len(fn.Params) == 0 {
		return nil
	}
	var nConv *ssa.Convert
	for _, b := range fn.Blocks {
		for _, in := range b.Instrs {
			if cv, ok := in.(*ssa.Convert); ok {
				if u, ok := cv.X.(*ssa.UnOp); ok && u.Op == token.MUL {
					if ia, ok := u.X.(*ssa.IndexAddr); ok && ia.X == ssa.Value(fn.Params[0]) {
						nConv = cv
					}
				}
			}
		}
	}
	return nConv
}

func checkDecoderShape(p *Prog, r *Report, kp func(string, string) string, entry *ssa.Function) {
	fn := entry
	// the loop may sit in a helper of the package that is handed the input bytes (Decode → splitValues(bz))
	var viaCall ssa.CallInstruction
	if lengthByteRead(entry) == nil {
		for _, cs := range callSites(entry) {
			g := cs.Callee
			if g == nil || g == entry || pkgPathOf(g) != pkgPathOf(entry) || len(cs.Instr.Common().Args) == 0 || cs.Instr.Common().Args[0] != ssa.Value(entry.Params[0]) {
				continue
			}
			if lengthByteRead(g) != nil {
				fn, viaCall = g, cs.Instr
			}
		}
	}
	fname := FuncName(fn)
	bz := fn.Params[0]
	// n = int(bz[I])
	nConv := lengthByteRead(fn)
	if nConv == nil {
		r.Fail(kp("LIN", fname+"#reads-length-byte"), "the decoder reads one length byte at the running index", p.FnPos(fn), "no int(bz[idx]) found")
		return
	}
	site := p.Pos(nConv.Pos())
	I := nConv.X.(*ssa.UnOp).X.(*ssa.IndexAddr).Index
	nSym := linSym(nConv)
	lenBz := "len(" + bz.Name() + ")"
	// accept condition
	blk := nConv.Block()
	iff, ok := blk.Instrs[len(blk.Instrs)-1].(*ssa.If)
	if !ok {
		r.Fail(kp("LIN", fname+"#accept"), "the decoder tests that the announced length fits", site, "no bounds test after reading the length byte")
		return
	}
	bo, ok := iff.Cond.(*ssa.BinOp)
	var cond Lin
	if ok {
		cond, ok = CmpNormal(bo)
	}
	if !ok {
		r.Undecided(kp("LIN", fname+"#accept"), "the accept condition is a linear integer comparison", site, "condition "+iff.Cond.String())
		return
	}
	var accept Lin
	var acceptBlk *ssa.BasicBlock
	switch {
	case blockFails(blk.Succs[0], 0):
		accept, acceptBlk = NegNormal(cond), blk.Succs[1]
	case blockFails(blk.Succs[1], 0):
		accept, acceptBlk = cond, blk.Succs[0]
	default:
		r.Fail(kp("LIN", fname+"#reject-returns-error"), "malformed input is rejected with an error", site, "neither branch of the bounds test returns an error")
		return
	}
	// expected: len(bz) - I - n - 1 >= 0
	want := Lin{Coef: map[string]int64{lenBz: 1, nSym: -1}, C: -1}
	want = want.Sub(LinOf(I))
	r.Check(accept.Eq(want), kp("LIN", fname+"#accept:idx+1+n-len(bz)<=0"), "linear normal form: a value is accepted iff idx + 1 + n <= len(bz) (any strengthening rejects valid keys, any weakening reads out of bounds / truncates)", site,
		"accept ≡ "+accept.String()+" >= 0", fmt.Sprintf("accept condition is %s >= 0, expected %s >= 0", accept, want))
	// copy(dst, bz[I+1 : I+1+n]) with dst = make([]byte, n)
	var cp *ssa.Call
	for _, in := range acceptBlk.Instrs {
		if c, ok := in.(*ssa.Call); ok {
			if b, isB := c.Call.Value.(*ssa.Builtin); isB && b.Name() == "copy" {
				cp = c
			}
		}
	}
	okCp, whyCp := false, "no copy on the accepting path"
	if cp == nil {
		// append form: value := append(make([]byte, 0, n), bz[I+1 : I+1+n]...) — a fresh buffer of capacity n filled with exactly those bytes
		for _, in := range acceptBlk.Instrs {
			c, ok := in.(*ssa.Call)
			if !ok {
				continue
			}
			if b, isB := c.Call.Value.(*ssa.Builtin); !isB || b.Name() != "append" || len(c.Call.Args) != 2 {
				continue
			}
			ms, ok1 := c.Call.Args[0].(*ssa.MakeSlice)
			sl, ok2 := c.Call.Args[1].(*ssa.Slice)
			if !ok1 || !ok2 || sl.X != ssa.Value(bz) || sl.Low == nil || sl.High == nil {
				continue
			}
			lo := LinOf(sl.Low).Sub(LinOf(I))
			hi := LinOf(sl.High).Sub(LinOf(sl.Low))
			okCp = LinOf(ms.Len).IsConst(0) && lo.IsConst(1) && hi.Eq(Lin{Coef: map[string]int64{nSym: 1}}) && LinOf(ms.Cap).Eq(Lin{Coef: map[string]int64{nSym: 1}})
			whyCp = fmt.Sprintf("append(make([]byte, 0, %s), bz[idx%s : low%s]...)", LinOf(ms.Cap), lo, hi)
			cp = c
		}
	} else {
		sl, ok1 := cp.Call.Args[1].(*ssa.Slice)
		ms, ok2 := cp.Call.Args[0].(*ssa.MakeSlice)
		if ok1 && ok2 && sl.X == ssa.Value(bz) && sl.Low != nil && sl.High != nil {
			lo := LinOf(sl.Low).Sub(LinOf(I))
			hi := LinOf(sl.High).Sub(LinOf(sl.Low))
			ln := LinOf(ms.Len)
			okCp = lo.IsConst(1) && hi.Eq(Lin{Coef: map[string]int64{nSym: 1}}) && ln.Eq(Lin{Coef: map[string]int64{nSym: 1}})
			whyCp = fmt.Sprintf("source = bz[idx%s : low%s], destination length %s", lo, hi, ln)
		}
	}
	r.Check(okCp, kp("LIN", fname+"#copies:bz[idx+1:idx+1+n]"), "the value is exactly the n bytes after the length byte", site, whyCp, whyCp)
	okNext, whyN := false, "running index is not loop-carried"
	if phi, ok := I.(*ssa.Phi); ok && cp != nil {
		for k, e := range phi.Edges {
			if !phi.Block().Dominates(phi.Block().Preds[k]) {
				if c, isC := e.(*ssa.Const); !isC || c.Int64() != 0 {
					whyN = "index does not start at 0"
				}
				continue
			}
			d := LinOf(e).Sub(LinOf(phi))
			okNext = d.Eq(Lin{Coef: map[string]int64{cp.Name(): 1}, C: 1}) || d.Eq(Lin{Coef: map[string]int64{nSym: 1}, C: 1})
			whyN = "index advances by " + d.String()
		}
		// loop condition
		hb := phi.Block()
		if lif, ok := hb.Instrs[len(hb.Instrs)-1].(*ssa.If); ok {
			if lb, ok := lif.Cond.(*ssa.BinOp); ok {
				if c, ok := CmpNormal(lb); ok {
					cont := c
					if !hb.Succs[0].Dominates(nConv.Block()) && hb.Succs[0] != nConv.Block() {
						cont = NegNormal(c)
					}
					wantC := Lin{Coef: map[string]int64{lenBz: 1}, C: -1}.Sub(LinOf(phi))
					r.Check(cont.Eq(wantC), kp("LIN", fname+"#loop:idx<len(bz)"), "the loop consumes the input exactly (continues while idx < len(bz))", p.Pos(lif.Pos()), cont.String()+" >= 0", fmt.Sprintf("loop continues while %s >= 0, expected %s >= 0", cont, wantC))
				}
			}
		}
	}
	r.Check(okNext, kp("LIN", fname+"#index-advances-by-1+n"), "the next length byte is read right after the value", site, whyN, whyN)
	// append on every iteration + FromByteSlices(values)
	okApp := false
	for _, in := range acceptBlk.Instrs {
		if c, ok := in.(*ssa.Call); ok {
			if b, isB := c.Call.Value.(*ssa.Builtin); isB && b.Name() == "append" {
				okApp = true
			}
		}
	}
	r.Check(okApp, kp("LIN", fname+"#appends-every-value"), "every decoded value is appended", site, "append on the accepting path", "decoded values are dropped")
	okOut := false
	for _, cs := range callSites(entry) {
		if strings.HasSuffix(cs.Name, "CompositeKey.FromByteSlices") {
			okOut = true
			if viaCall != nil {
				// … with the values the helper returned
				args := cs.Instr.Common().Args
				okOut = false
				if len(args) > 0 {
					if ex, isEx := args[len(args)-1].(*ssa.Extract); isEx && ex.Index == 0 && ex.Tuple == viaCall.Value() {
						okOut = true
					}
				}
			}
		}
	}
	r.Check(okOut, kp("ORIGIN", FuncName(entry)+"#delegates-to-FromByteSlices"), "the typed key validates and assigns the components", p.FnPos(entry), "out.FromByteSlices(values)", "FromByteSlices is not called with the decoded values")
}

// callerSizePass: fn is an unexported function whose values slice (the slice the converted length's element comes from) is a
// parameter; at every call site in the package the call is preceded by a successful size/bound pass over the argument. Returns
// the (weakest) pass and the callers' names.
func callerSizePass(p *Prog, fn *ssa.Function, cv *ssa.Convert) (*sizePass, string) {
	if token.IsExported(fn.Name()) {
		return nil, ""
	}
	lc, ok := cv.X.(*ssa.Call)
	if !ok || len(lc.Call.Args) != 1 {
		return nil, ""
	}
	u, ok := lc.Call.Args[0].(*ssa.UnOp)
	if !ok {
		return nil, ""
	}
	ia, ok := u.X.(*ssa.IndexAddr)
	if !ok {
		return nil, ""
	}
	prm, ok := ia.X.(*ssa.Parameter)
	if !ok {
		return nil, ""
	}
	idx := -1
	for i, q := range fn.Params {
		if q == prm {
			idx = i
		}
	}
	if idx < 0 {
		return nil, ""
	}
	var worst *sizePass
	var names []string
	n := 0
	for _, g := range p.ModFuncs {
		if g.Blocks == nil {
			continue
		}
		for _, cs := range callSites(g) {
			if cs.Callee != fn {
				continue
			}
			n++
			args := cs.Instr.Common().Args
			if idx >= len(args) {
				return nil, ""
			}
			sp, _ := sizePassBefore(g, cs.Instr.(ssa.Instruction), args[idx])
			if sp == nil {
				return nil, ""
			}
			if worst == nil || sp.Bound > worst.Bound {
				worst = sp
			}
			names = append(names, FuncName(g))
		}
	}
	if n == 0 {
		return nil, ""
	}
	return worst, strings.Join(names, ", ")
}

// callerBufferIsSizePass: at every call site of fn the argument for the buffer parameter is make([]byte, res#0 of the size pass
// over the argument for the values parameter).
func callerBufferIsSizePass(p *Prog, fn *ssa.Function, buf *ssa.Parameter, cv *ssa.Convert) bool {
	bi := -1
	for i, q := range fn.Params {
		if q == buf {
			bi = i
		}
	}
	lc, _ := cv.X.(*ssa.Call)
	if bi < 0 || lc == nil {
		return false
	}
	vprm, _ := lc.Call.Args[0].(*ssa.UnOp).X.(*ssa.IndexAddr).X.(*ssa.Parameter)
	vi := -1
	for i, q := range fn.Params {
		if q == vprm {
			vi = i
		}
	}
	if vi < 0 {
		return false
	}
	n := 0
	for _, g := range p.ModFuncs {
		if g.Blocks == nil {
			continue
		}
		for _, cs := range callSites(g) {
			if cs.Callee != fn {
				continue
			}
			n++
			args := cs.Instr.Common().Args
			ms, ok := args[bi].(*ssa.MakeSlice)
			if !ok {
				return false
			}
			c := sizeCallOf(ms.Len)
			if c == nil || len(c.Call.Args) != 1 || c.Call.Args[0] != args[vi] {
				return false
			}
			sp, call := sizePassBefore(g, cs.Instr.(ssa.Instruction), args[vi])
			if sp == nil || call != c {
				return false
			}
		}
	}
	return n > 0
}

type keyComp struct {
	Field string
	Kind  string // address | string | uint64
}

// checkTypedKey (DESIGN C18-D3).
func checkTypedKey(p *Prog, r *Report, kp func(string, string) string, kt *types.Named) {
	tn := shortPkg(kt.String())
	st, ok := kt.Underlying().(*types.Struct)
	if !ok {
		r.Undecided(kp("AGREE", tn), "composite keys are structs", tn, "not a struct")
		return
	}
	kindOf := func(field string) string {
		for i := 0; i < st.NumFields(); i++ {
			if st.Field(i).Name() == field {
				ts := st.Field(i).Type().String()
				switch {
				case strings.HasSuffix(ts, "types.AccAddress"):
					return "address"
				case ts == "string":
					return "string"
				case ts == "uint64":
					return "uint64"
				}
				return ts
			}
		}
		return "?"
	}
	comps, why := keyComponents(p, kt)
	if why != "" {
		r.Undecided(kp("AGREE", tn+"#ByteSlices"), "ByteSlices is a literal of per-field components", tn, why)
		return
	}
	// every struct field is a component exactly once
	seen := map[string]int{}
	for _, c := range comps {
		seen[c]++
	}
	allOnce := len(comps) == st.NumFields()
	for i := 0; i < st.NumFields(); i++ {
		if seen[st.Field(i).Name()] != 1 {
			allOnce = false
		}
	}
	r.Check(allOnce, kp("AGREE", tn+"#ByteSlices-covers-fields"), "every field of the key is encoded as exactly one component (no field dropped or duplicated: dropping one would make distinct keys collide)", tn,
		fmt.Sprintf("components %v", comps), fmt.Sprintf("components %v vs %d struct fields", comps, st.NumFields()))
	// encoder-side conversions per kind
	if bsFn := p.MethodOf(kt, "ByteSlices"); bsFn != nil {
		o := NewOrigin(p, bsFn)
		t := o.Of(returnsOf(bsFn)[0].Results[0])
		bsElems, _ := sliceLiteralElements(t)
		for i, e := range bsElems {
			if i >= len(comps) {
				break
			}
			k := kindOf(comps[i])
			okc := false
			switch k {
			case "address":
				okc = e.IsCall("(sdk/types.AccAddress).Bytes") || e.Op == "field"
			case "string":
				okc = e.Op == "conv" && e.Name == "[]byte"
			case "uint64":
				okc = e.IsCall("sdk/types.Uint64ToBigEndian")
			}
			r.Check(okc, kp("AGREE", fmt.Sprintf("%s#ByteSlices[%d]:%s", tn, i, comps[i])), "each component is the canonical byte form of its field (raw address bytes, string bytes, 8-byte big-endian integer)", p.FnPos(bsFn), e.String(), e.String())
		}
	}
	// decoder side
	checkFrom(p, r, kp, kt, tn, comps, kindOf, "FromByteSlices")
	// string form
	sFn := p.MethodOf(kt, "Strings")
	var scomps []string
	if sFn != nil {
		o := NewOrigin(p, sFn)
		t := o.Of(returnsOf(sFn)[0].Results[0])
		if sElems, okS := sliceLiteralElements(t); okS {
			for _, e := range sElems {
				var fs []string
				e.Walk(func(x *Term) {
					if x.Op == "field" && len(x.Args) == 1 && x.Args[0].Op == "param" {
						fs = append(fs, x.Name)
					}
				})
				if len(fs) == 1 {
					scomps = append(scomps, fs[0])
				} else {
					scomps = append(scomps, "?")
				}
			}
		}
	}
	r.Check(strings.Join(scomps, ",") == strings.Join(comps, ","), kp("AGREE", tn+"#Strings=ByteSlices-order"), "the string form lists the same fields in the same order as the byte form", tn, fmt.Sprint(scomps), fmt.Sprintf("Strings: %v, ByteSlices: %v", scomps, comps))
	checkFrom(p, r, kp, kt, tn, comps, kindOf, "FromStrings")
	checkTypedKeyAcceptsStored(p, r, kp, kt)
}

// checkTypedKeyAcceptsStored: the decoders of a typed key refuse nothing a message can store — for each string component, the
// upper bound that a successful FromByteSlices / FromStrings puts on its length is at least the limit ValidateBasic of the
// messages puts on the field of the same name (a name of exactly the maximum length must come back out of the store).
func checkTypedKeyAcceptsStored(p *Prog, r *Report, kp func(string, string) string, kt *types.Named) {
	tn := shortPkg(kt.String())
	st, ok := kt.Underlying().(*types.Struct)
	if !ok {
		return
	}
	msgMax := func(field string) (int, string) {
		best, who := -1, ""
		for _, m := range p.Msgs() {
			if m.Obj().Pkg() == nil || kt.Obj().Pkg() == nil || m.Obj().Pkg().Path() != kt.Obj().Pkg().Path() {
				continue
			}
			if v, ok := msgFieldMax(p, m, field); ok && v > best {
				best, who = v, m.Obj().Name()
			}
		}
		return best, who
	}
	for _, mn := range []string{"FromByteSlices", "FromStrings"} {
		fn := p.MethodOf(kt, mn)
		if fn == nil || fn.Blocks == nil || len(fn.Params) < 2 {
			continue
		}
		o := NewOrigin(p, fn)
		fa := NewFacts(p, fn, o)
		// component index of each string field: the store k.F = string(param[i]) / param[i]
		compOf := map[string]*Term{}
		for _, b := range fn.Blocks {
			for _, in := range b.Instrs {
				sto, ok := in.(*ssa.Store)
				if !ok {
					continue
				}
				fad, ok := sto.Addr.(*ssa.FieldAddr)
				if !ok {
					continue
				}
				fname := fieldAddrName(fad)
				isStr := false
				for i := 0; i < st.NumFields(); i++ {
					if st.Field(i).Name() == fname && st.Field(i).Type().String() == "string" {
						isStr = true
					}
				}
				if !isStr {
					continue
				}
				o.Of(sto.Val).Walk(func(x *Term) {
					if (x.Op == "index" || x.Op == "indexaddr") && len(x.Args) == 2 && x.Args[0].Op == "param" && x.Args[1].Op == "const" {
						compOf[fname] = x
					}
				})
			}
		}
		for _, fname := range keysOfSt(compOf) {
			lim, who := msgMax(fname)
			if lim < 0 {
				continue
			}
			comp := compOf[fname]
			if comp.Op == "indexaddr" {
				comp = &Term{Op: "index", Args: comp.Args}
			}
			for i, ret := range successReturns(fn) {
				b := lenBoundAt(p, fa, ret, comp)
				if b < 0 {
					// the element may be spelled as a load of its address
					b = lenBoundAt(p, fa, ret, &Term{Op: "deref", Args: []*Term{{Op: "indexaddr", Args: comp.Args}}})
				}
				r.Check(b < 0 || b >= int64(lim), kp("AGREE", fmt.Sprintf("%s#%s#return%d#accepts-stored:%s", tn, mn, i, fname)),
					"a typed key's decoder refuses no component a message can store (what was written must be readable: listings, export and import decode every key)", p.Pos(ret.Pos()),
					fmt.Sprintf("len(%s) ≤ %d on success; %s admits up to %d", fname, b, who, lim),
					fmt.Sprintf("%s.%s succeeds only for len(%s) ≤ %d, but %s.ValidateBasic admits %d bytes: an entry with a %s of that length is stored and can never be decoded again (listings fail, the export panics)", tn, mn, fname, b, who, lim, fname))
			}
		}
	}
}

// checkFrom analyses FromByteSlices / FromStrings of a key type.
func checkFrom(p *Prog, r *Report, kp func(string, string) string, kt *types.Named, tn string, comps []string, kindOf func(string) string, method string) {
	fn := p.MethodOf(kt, method)
	if fn == nil || fn.Blocks == nil {
		r.Fail(kp("AGREE", tn+"#"+method), "anchor", tn, method+" not found")
		return
	}
	o := NewOrigin(p, fn)
	fa := NewFacts(p, fn, o)
	in := fn.Params[1]
	inT := o.Of(in)
	// assignments k.F = conv(in[i])
	assigned := map[string]int{}
	srcTerm := map[string]*Term{}
	for _, b := range fn.Blocks {
		for _, ins := range b.Instrs {
			st, ok := ins.(*ssa.Store)
			if !ok {
				continue
			}
			faddr, ok := st.Addr.(*ssa.FieldAddr)
			if !ok || faddr.X != ssa.Value(fn.Params[0]) {
				continue
			}
			f := fieldName(faddr.X.Type(), faddr.Field)
			vt := o.Of(st.Val)
			idx := -1
			vt.Walk(func(x *Term) {
				if x.Op == "index" && len(x.Args) == 2 && x.Args[0].Eq(inT) && x.Args[1].Op == "const" {
					fmt.Sscan(x.Args[1].Name, &idx)
				}
			})
			assigned[f] = idx
			srcTerm[f] = vt
		}
	}
	var order []string
	for f := range assigned {
		order = append(order, f)
	}
	sort.Slice(order, func(i, j int) bool { return assigned[order[i]] < assigned[order[j]] })
	okOrder := len(order) == len(comps)
	for i := range comps {
		if i >= len(order) || order[i] != comps[i] || assigned[order[i]] != i {
			okOrder = false
		}
	}
	r.Check(okOrder, kp("AGREE", tn+"#"+method+"-binds-index-to-field"), "writer/reader agreement: component i is decoded into the field that component i was encoded from", p.FnPos(fn),
		fmt.Sprintf("%v ← indexes 0..%d", order, len(order)-1), fmt.Sprintf("decoder binds %v (indexes %v) but the encoder's component order is %v", order, assigned, comps))
	// success returns: count check, per-kind validation
	rets := successReturns(fn)
	r.Floor("success-returns-of-"+tn+"."+method, len(rets), 1)
	for ri, ret := range rets {
		site := p.Pos(ret.Pos())
		_, okN := fa.DominatingFact(ret, true, func(t *Term) bool {
			if t.Op != "eq" {
				return false
			}
			a, b := t.Args[0], t.Args[1]
			if a.Op != "const" {
				a, b = b, a
			}
			return a.Op == "const" && a.Name == fmt.Sprint(len(comps)) && b.IsCall("builtin:len") && b.Args[0].Eq(inT)
		})
		r.Check(okN, kp("AGREE", fmt.Sprintf("%s#%s#return%d#count=%d", tn, method, ri, len(comps))), "the decoder accepts exactly as many components as the encoder emits", site,
			fmt.Sprintf("len(input) == %d dominates", len(comps)), fmt.Sprintf("success is not dominated by len(input) == %d: a key of another family (more or fewer components) decodes as this type, or indexing panics", len(comps)))
		for i, f := range comps {
			k := kindOf(f)
			elem := func(t *Term) bool {
				return t.Op == "index" && len(t.Args) == 2 && t.Args[0].Eq(inT) && t.Args[1].Op == "const" && t.Args[1].Name == fmt.Sprint(i)
			}
			key := kp("AGREE", fmt.Sprintf("%s#%s#return%d#component%d:%s", tn, method, ri, i, f))
			switch {
			case method == "FromByteSlices" && k == "address":
				_, ok := fa.DominatingFact(ret, true, func(t *Term) bool {
					if t.Op != "eq" {
						return false
					}
					a, b := t.Args[0], t.Args[1]
					if a.Op != "const" {
						a, b = b, a
					}
					return a.Name == "nil" && b.IsCall("sdk/types.VerifyAddressFormat") && elem(b.Args[0])
				})
				r.Check(ok, key, "address components are format-checked on decode", site, "VerifyAddressFormat(in[i]) == nil dominates", "an address component of any length/content is accepted")
			case method == "FromByteSlices" && k == "uint64":
				_, ok := fa.DominatingFact(ret, true, func(t *Term) bool {
					if t.Op != "eq" {
						return false
					}
					a, b := t.Args[0], t.Args[1]
					if a.Op != "const" {
						a, b = b, a
					}
					return a.Name == "8" && b.IsCall("builtin:len") && elem(b.Args[0])
				})
				r.Check(ok, key, "fixed-width components are length-checked before big-endian decoding (shorter input panics in binary.BigEndian.Uint64, longer input is silently truncated)", site,
					"len(in[i]) == 8 dominates", "the 8-byte integer component is decoded without a length check: a 1..7-byte component panics, a longer one is truncated, an empty one decodes as 0 — malformed keys are accepted")
			case method == "FromStrings" && k == "address":
				_, ok := fa.DominatingFact(ret, true, func(t *Term) bool {
					if t.Op != "eq" {
						return false
					}
					a, b := t.Args[0], t.Args[1]
					if a.Op != "const" {
						a, b = b, a
					}
					c, kk := b.Res()
					return a.Name == "nil" && b.Op == "res" && kk == 1 && c.IsCall("sdk/types.AccAddressFromBech32") && elem(c.Args[0])
				})
				r.Check(ok, key, "address strings are parsed with error checking", site, "AccAddressFromBech32(in[i]) err == nil dominates", "address string is not validated")
			case method == "FromStrings" && k == "uint64":
				_, ok := fa.DominatingFact(ret, true, func(t *Term) bool {
					if t.Op != "eq" {
						return false
					}
					a, b := t.Args[0], t.Args[1]
					if a.Op != "const" {
						a, b = b, a
					}
					c, kk := b.Res()
					return a.Name == "nil" && b.Op == "res" && kk == 1 && c.IsCall("strconv.ParseUint") && elem(c.Args[0]) && c.Args[1].Name == "10" && c.Args[2].Name == "64"
				})
				r.Check(ok, key, "integer strings are parsed in base 10 / 64 bits with error checking (inverse of FormatUint(…, 10))", site, "ParseUint(in[i], 10, 64) err == nil dominates", "integer string is not parsed with ParseUint(…,10,64) under an error check")
			default:
				// string component: assigned by plain conversion
				t := srcTerm[f]
				ok := t != nil && (t.Op == "index" && elem(t) || t.Op == "conv" && elem(t.Args[0]))
				r.Check(ok, key, "string components are taken over unchanged", site, fmt.Sprint(t), fmt.Sprint(t))
			}
		}
	}
}

// ---- a first pass over the components in a helper ("compute the size, reject oversized components", then encode) ------------

// sizePass describes a function  f(vals [][]byte) (int, error)  consisting of one range loop over its slice parameter whose body
// rejects (error return) an element with len > Bound before adding  Per(len)  to the returned size, starting from 0.
type sizePass struct {
	Bound  int64 // every element has len <= Bound when the function returns a nil error
	PerC   int64 // size grows by PerC + len(element) per element
	HasErr bool
}

// sizePassOf recognises such a function (nil when fn is not one).
func sizePassOf(fn *ssa.Function) *sizePass {
	if fn == nil || fn.Blocks == nil || len(fn.Params) != 1 || fn.Signature.Results().Len() != 2 {
		return nil
	}
	prm := fn.Params[0]
	sp := &sizePass{Bound: -1}
	// element loads: *(&prm[i])
	isElemLen := func(v ssa.Value) bool {
		c, ok := v.(*ssa.Call)
		if !ok {
			return false
		}
		b, isB := c.Call.Value.(*ssa.Builtin)
		if !isB || b.Name() != "len" {
			return false
		}
		u, ok := c.Call.Args[0].(*ssa.UnOp)
		if !ok {
			return false
		}
		ia, ok := u.X.(*ssa.IndexAddr)
		return ok && ia.X == ssa.Value(prm) && isLoopIndexValue(ia.Index)
	}
	// the bound test inside the loop with a failing branch
	var test *ssa.BasicBlock
	for _, b := range fn.Blocks {
		if !inCycle(b) || len(b.Instrs) == 0 {
			continue
		}
		iff, ok := b.Instrs[len(b.Instrs)-1].(*ssa.If)
		if !ok {
			continue
		}
		bo, ok := iff.Cond.(*ssa.BinOp)
		if !ok {
			continue
		}
		var lenV ssa.Value
		var c *ssa.Const
		if isElemLen(bo.X) {
			lenV = bo.X
			c, _ = bo.Y.(*ssa.Const)
		}
		if lenV == nil || c == nil {
			continue
		}
		failT, failF := blockFails(b.Succs[0], 0), blockFails(b.Succs[1], 0)
		switch {
		case bo.Op == token.GTR && failT && !failF: // len > C fails
			sp.Bound = c.Int64()
		case bo.Op == token.GEQ && failT && !failF: // len >= C fails
			sp.Bound = c.Int64() - 1
		case bo.Op == token.LEQ && failF && !failT: // !(len <= C) fails
			sp.Bound = c.Int64()
		case bo.Op == token.LSS && failF && !failT:
			sp.Bound = c.Int64() - 1
		default:
			continue
		}
		sp.HasErr = true
		test = b
	}
	if test == nil {
		return nil
	}
	// the returned size: a phi in the loop header  [entry: 0, back edge: phi + PerC + len(elem)]  returned on the nil-error return;
	// the back edge must come from a block the bound test dominates (the element passed the test before it is counted)
	okRet := false
	for _, ret := range returnsOf(fn) {
		if !isNilConst(ret.Results[1]) {
			continue
		}
		phi, ok := ret.Results[0].(*ssa.Phi)
		if !ok || len(phi.Edges) != 2 {
			return nil
		}
		for k, e := range phi.Edges {
			pred := phi.Block().Preds[k]
			if !phi.Block().Dominates(pred) {
				if c, isC := e.(*ssa.Const); !isC || c.Int64() != 0 {
					return nil
				}
				continue
			}
			if !test.Dominates(pred) {
				return nil
			}
			d := LinOf(e).Sub(LinOf(phi))
			if len(d.Coef) != 1 {
				return nil
			}
			for sym, co := range d.Coef {
				if !strings.HasPrefix(sym, "len(") || co != 1 {
					return nil
				}
			}
			sp.PerC = d.C
			okRet = true
		}
	}
	if !okRet {
		return nil
	}
	return sp
}

// sizePassBefore: fn calls a size pass on the slice `vals`, returns an error when it fails, and `at` is dominated by its success.
func sizePassBefore(fn *ssa.Function, at ssa.Instruction, vals ssa.Value) (*sizePass, *ssa.Call) {
	for _, b := range fn.Blocks {
		for _, in := range b.Instrs {
			c, ok := in.(*ssa.Call)
			if !ok || c.Call.StaticCallee() == nil || len(c.Call.Args) != 1 || c.Call.Args[0] != vals {
				continue
			}
			sp := sizePassOf(c.Call.StaticCallee())
			if sp == nil {
				continue
			}
			// err != nil → failing return; the success edge dominates `at`
			for _, rf := range *c.Referrers() {
				ex, ok := rf.(*ssa.Extract)
				if !ok || ex.Index != 1 {
					continue
				}
				for _, rf2 := range *ex.Referrers() {
					bo, ok := rf2.(*ssa.BinOp)
					if !ok || bo.Op != token.NEQ || !isNilConst(bo.Y) {
						continue
					}
					blk := bo.Block()
					iff, ok := blk.Instrs[len(blk.Instrs)-1].(*ssa.If)
					if !ok || iff.Cond != ssa.Value(bo) {
						continue
					}
					// then-branch: returns the helper's error (non-nil there); else-branch dominates at
					thenRet, ok := blk.Succs[0].Instrs[len(blk.Succs[0].Instrs)-1].(*ssa.Return)
					if !ok || len(thenRet.Results) == 0 || thenRet.Results[len(thenRet.Results)-1] != ssa.Value(ex) {
						continue
					}
					if blk.Succs[1] == at.Block() || blk.Succs[1].Dominates(at.Block()) {
						return sp, c
					}
				}
			}
		}
	}
	// three phases: a bound-only pass (returns just the error) whose success dominates `at`, and a size-only function (returns
	// just Σ(c + len)) over the same slice
	var bound *sizePass
	for _, b := range fn.Blocks {
		for _, in := range b.Instrs {
			c, ok := in.(*ssa.Call)
			if !ok || c.Call.StaticCallee() == nil || len(c.Call.Args) != 1 || c.Call.Args[0] != vals || c.Referrers() == nil {
				continue
			}
			bp := boundPassOf(c.Call.StaticCallee())
			if bp == nil {
				continue
			}
			for _, rf := range *c.Referrers() {
				bo, ok := rf.(*ssa.BinOp)
				if !ok || bo.Op != token.NEQ || !isNilConst(bo.Y) || bo.X != ssa.Value(c) {
					continue
				}
				blk := bo.Block()
				iff, ok := blk.Instrs[len(blk.Instrs)-1].(*ssa.If)
				if !ok || iff.Cond != ssa.Value(bo) {
					continue
				}
				thenRet, ok := blk.Succs[0].Instrs[len(blk.Succs[0].Instrs)-1].(*ssa.Return)
				if !ok || len(thenRet.Results) == 0 || unspill(thenRet.Results[len(thenRet.Results)-1]) != ssa.Value(c) {
					continue
				}
				if blk.Succs[1] == at.Block() || blk.Succs[1].Dominates(at.Block()) {
					bound = bp
				}
			}
		}
	}
	if bound != nil {
		for _, b := range fn.Blocks {
			for _, in := range b.Instrs {
				c, ok := in.(*ssa.Call)
				if !ok || c.Call.StaticCallee() == nil || len(c.Call.Args) != 1 || c.Call.Args[0] != vals {
					continue
				}
				if perC, ok := sizeOnlyOf(c.Call.StaticCallee()); ok {
					return &sizePass{Bound: bound.Bound, HasErr: true, PerC: perC}, c
				}
			}
		}
	}
	return nil, nil
}

// sizeCallOf: v is the size a size pass computed: result #0 of a (size, error) pass or the only result of a size-only function.
func sizeCallOf(v ssa.Value) *ssa.Call {
	switch x := v.(type) {
	case *ssa.Extract:
		if x.Index == 0 {
			c, _ := x.Tuple.(*ssa.Call)
			return c
		}
	case *ssa.Call:
		if _, isB := x.Call.Value.(*ssa.Builtin); !isB {
			return x
		}
	}
	return nil
}

// boundPassOf: fn(values) error — a loop over the parameter that returns a non-nil error as soon as len(element) exceeds a
// constant, and nil after the loop.
func boundPassOf(fn *ssa.Function) *sizePass {
	if fn == nil || fn.Blocks == nil || len(fn.Params) != 1 || fn.Signature.Results().Len() != 1 || !isErrorType(fn.Signature.Results().At(0).Type()) {
		return nil
	}
	prm := fn.Params[0]
	sp := &sizePass{Bound: -1}
	var test *ssa.BasicBlock
	for _, b := range fn.Blocks {
		if !inCycle(b) || len(b.Instrs) == 0 {
			continue
		}
		iff, ok := b.Instrs[len(b.Instrs)-1].(*ssa.If)
		if !ok {
			continue
		}
		bo, ok := iff.Cond.(*ssa.BinOp)
		if !ok {
			continue
		}
		lc, ok := bo.X.(*ssa.Call)
		if !ok || len(lc.Call.Args) != 1 {
			continue
		}
		if bi, isB := lc.Call.Value.(*ssa.Builtin); !isB || bi.Name() != "len" {
			continue
		}
		u, ok := lc.Call.Args[0].(*ssa.UnOp)
		if !ok {
			continue
		}
		ia, ok := u.X.(*ssa.IndexAddr)
		if !ok || ia.X != ssa.Value(prm) || !isLoopIndexValue(ia.Index) {
			continue
		}
		c, ok := bo.Y.(*ssa.Const)
		if !ok {
			continue
		}
		failT, failF := blockFails(b.Succs[0], 0), blockFails(b.Succs[1], 0)
		switch {
		case bo.Op == token.GTR && failT && !failF:
			sp.Bound = c.Int64()
		case bo.Op == token.GEQ && failT && !failF:
			sp.Bound = c.Int64() - 1
		case bo.Op == token.LEQ && failF && !failT:
			sp.Bound = c.Int64()
		case bo.Op == token.LSS && failF && !failT:
			sp.Bound = c.Int64() - 1
		default:
			continue
		}
		sp.HasErr = true
		test = b
	}
	if test == nil {
		return nil
	}
	// the test runs for every element: it dominates the loop's back edges, and the loop is left early only by failing
	var header *ssa.BasicBlock
	for d := test; d != nil && header == nil; d = d.Idom() {
		for _, pr := range d.Preds {
			if d.Dominates(pr) {
				header = d
			}
		}
	}
	if header == nil || earlyLoopExit(header) != nil {
		return nil
	}
	for _, pr := range header.Preds {
		if header.Dominates(pr) && !test.Dominates(pr) {
			return nil
		}
	}
	return sp
}

// sizeOnlyOf: fn(values) int returning 0 + Σ(c + len(element)); the per-element constant c.
func sizeOnlyOf(fn *ssa.Function) (int64, bool) {
	if fn == nil || fn.Blocks == nil || len(fn.Params) != 1 || fn.Signature.Results().Len() != 1 {
		return 0, false
	}
	if bt, ok := fn.Signature.Results().At(0).Type().Underlying().(*types.Basic); !ok || bt.Info()&types.IsInteger == 0 {
		return 0, false
	}
	rets := returnsOf(fn)
	if len(rets) != 1 {
		return 0, false
	}
	phi, ok := rets[0].Results[0].(*ssa.Phi)
	if !ok || len(phi.Edges) != 2 {
		return 0, false
	}
	perC, found := int64(0), false
	for k, e := range phi.Edges {
		pred := phi.Block().Preds[k]
		if !phi.Block().Dominates(pred) {
			if c, isC := e.(*ssa.Const); !isC || c.Int64() != 0 {
				return 0, false
			}
			continue
		}
		d := LinOf(e).Sub(LinOf(phi))
		if len(d.Coef) != 1 {
			return 0, false
		}
		for sym, co := range d.Coef {
			if !strings.HasPrefix(sym, "len(") || co != 1 {
				return 0, false
			}
		}
		perC, found = d.C, true
	}
	// every element is counted: no branch in the loop other than the loop's own test
	if !found || earlyLoopExit(phi.Block()) != nil {
		return 0, false
	}
	for _, b := range fn.Blocks {
		if inCycle(b) && b != phi.Block() {
			if _, isIf := b.Instrs[len(b.Instrs)-1].(*ssa.If); isIf {
				return 0, false
			}
		}
	}
	return perC, true
}

// earlierBoundLoop: before the loop containing `at`, fn has a loop over the same slice whose body returns an error when
// len(element) > C (for every element), and every path from that loop's exit leads here; returns C.
func earlierBoundLoop(fn *ssa.Function, at ssa.Instruction, slice ssa.Value) (int64, bool) {
	for _, b := range fn.Blocks {
		if !inCycle(b) || len(b.Instrs) == 0 {
			continue
		}
		iff, ok := b.Instrs[len(b.Instrs)-1].(*ssa.If)
		if !ok {
			continue
		}
		bo, ok := iff.Cond.(*ssa.BinOp)
		if !ok {
			continue
		}
		lc, ok := bo.X.(*ssa.Call)
		if !ok || len(lc.Call.Args) != 1 {
			continue
		}
		if bi, isB := lc.Call.Value.(*ssa.Builtin); !isB || bi.Name() != "len" {
			continue
		}
		u, ok := lc.Call.Args[0].(*ssa.UnOp)
		if !ok {
			continue
		}
		ia, ok := u.X.(*ssa.IndexAddr)
		if !ok || ia.X != slice || !isLoopIndexValue(ia.Index) {
			continue // the element tested must be the one of the current iteration, not a fixed one
		}
		c, ok := bo.Y.(*ssa.Const)
		if !ok {
			continue
		}
		var bound int64 = -1
		failT, failF := blockFails(b.Succs[0], 0), blockFails(b.Succs[1], 0)
		switch {
		case bo.Op == token.GTR && failT && !failF:
			bound = c.Int64()
		case bo.Op == token.GEQ && failT && !failF:
			bound = c.Int64() - 1
		case bo.Op == token.LEQ && failF && !failT:
			bound = c.Int64()
		case bo.Op == token.LSS && failF && !failT:
			bound = c.Int64() - 1
		default:
			continue
		}
		// the test is executed for every element: it dominates the back edge of its loop; and that loop's header dominates `at`
		// while `at` is not inside that loop (a later loop)
		var header *ssa.BasicBlock
		for d := b; d != nil; d = d.Idom() {
			for _, pr := range d.Preds {
				if d.Dominates(pr) {
					header = d
				}
			}
			if header != nil {
				break
			}
		}
		if header == nil || !header.Dominates(at.Block()) {
			continue
		}
		inSameLoop := false
		for _, pr := range header.Preds {
			if header.Dominates(pr) {
				if !b.Dominates(pr) {
					header = nil // some iteration skips the test
					break
				}
				// is `at` inside this loop? (at's block reaches the back edge source without leaving)
				if at.Block() == pr || at.Block().Dominates(pr) && header.Dominates(at.Block()) && reachesAvoiding(at.Block(), pr, header) {
					inSameLoop = true
				}
			}
		}
		if header == nil {
			continue
		}
		if inSameLoop {
			// the conversion sits in the same loop after the test: the ordinary dominating-fact rule applies, not this one
			continue
		}
		return bound, true
	}
	return 0, false
}

// reachesAvoiding: b reaches target without passing through stop.
func reachesAvoiding(b, target, stop *ssa.BasicBlock) bool {
	seen := map[*ssa.BasicBlock]bool{}
	var st []*ssa.BasicBlock
	st = append(st, b)
	for len(st) > 0 {
		x := st[len(st)-1]
		st = st[:len(st)-1]
		if x == target {
			return true
		}
		if seen[x] || x == stop && x != b {
			continue
		}
		seen[x] = true
		st = append(st, x.Succs...)
	}
	return false
}

// checkAppendEncoderShape: the encoder builds its output by appending, per component, one length byte and then the whole value:
//
//	buf = append(buf, uint8(len(v))) ; buf = append(buf, v...)   with buf starting empty and carried round the loop.
func checkAppendEncoderShape(p *Prog, r *Report, kp func(string, string) string, fn *ssa.Function, cv *ssa.Convert, val ssa.Value, one *ssa.Alloc) {
	fname := FuncName(fn)
	site := p.Pos(cv.Pos())
	arr, _ := one.Type().Underlying().(*types.Pointer).Elem().Underlying().(*types.Array)
	okOne := arr != nil && arr.Len() == 1
	// the one-element slice is appended to the running buffer, then the value itself is appended to that result
	var first, second *ssa.Call
	if refs := one.Referrers(); refs != nil {
		for _, rf := range *refs {
			if sl, ok := rf.(*ssa.Slice); ok {
				if srefs := sl.Referrers(); srefs != nil {
					for _, u := range *srefs {
						if c, ok := u.(*ssa.Call); ok {
							if bi, isB := c.Call.Value.(*ssa.Builtin); isB && bi.Name() == "append" && len(c.Call.Args) == 2 && c.Call.Args[1] == ssa.Value(sl) {
								first = c
							}
						}
					}
				}
			}
		}
	}
	if first != nil {
		if refs := first.Referrers(); refs != nil {
			for _, u := range *refs {
				if c, ok := u.(*ssa.Call); ok {
					if bi, isB := c.Call.Value.(*ssa.Builtin); isB && bi.Name() == "append" && len(c.Call.Args) == 2 && c.Call.Args[0] == ssa.Value(first) && c.Call.Args[1] == val {
						second = c
					}
				}
			}
		}
	}
	r.Check(okOne && first != nil && second != nil && first.Block() == second.Block(), kp("LIN", fname+"#value-copied-after-length-byte"),
		"the whole value is appended immediately after its single length byte", site, "buf = append(append(buf, uint8(len(v))), v...)", "the length byte and the value are not appended back to back")
	// loop-carried buffer: phi [entry: empty buffer, back edge: second append]
	okCarry, okEmpty := false, false
	if first != nil && second != nil {
		if phi, ok := first.Call.Args[0].(*ssa.Phi); ok {
			for k, e := range phi.Edges {
				pred := phi.Block().Preds[k]
				if phi.Block().Dominates(pred) {
					okCarry = e == ssa.Value(second)
					continue
				}
				switch x := e.(type) {
				case *ssa.MakeSlice:
					if c, isC := x.Len.(*ssa.Const); isC && c.Int64() == 0 {
						okEmpty = true
					}
				case *ssa.Const:
					okEmpty = x.Value == nil // nil slice
				}
			}
		}
	}
	r.Check(okCarry, kp("LIN", fname+"#index-advances-by-1+copied"), "the running output is the previous output plus this component's length byte and bytes", site, "buf' = append(append(buf, n), v...)", "the buffer carried round the loop is not the result of the two appends")
	r.Check(okEmpty, kp("LIN", fname+"#buffer-size=Σ(1+len)"), "the output starts empty, so its length is Σ(1+len) over the components", site, "initial buffer has length 0", "the initial buffer is not empty")
	// error branch on the bound test exists somewhere in the function
	okErr := false
	for _, b := range fn.Blocks {
		if iff, ok := b.Instrs[len(b.Instrs)-1].(*ssa.If); ok {
			if bo, ok := iff.Cond.(*ssa.BinOp); ok {
				if e, ok := CmpNormal(bo); ok && strings.Contains(e.String(), "len(") && (blockFails(b.Succs[0], 0) || blockFails(b.Succs[1], 0)) {
					okErr = true
				}
			}
		}
	}
	r.Check(okErr, kp("GUARD", fname+"#oversize-is-an-error"), "a component longer than 255 bytes is rejected with an error", site, "the bound test has an error-returning branch", "no error-returning branch on the length test")
}

// checkSeparatorOutsideComponents (shared by C08 and C18): the one-character genesis key separator cannot occur inside a key
// component — not in an admitted topic name, not in a bech32 address, not in a decimal offset.
func checkSeparatorOutsideComponents(p *Prog, r *Report, kp func(string, string) string, sep string) {
	b := sep[0]
	// topic-name language
	tn := p.Func(Rel(aolTypesPkg), "validateTopicName")
	okT := false
	if tn != nil {
		if spec, _, okS := summariseLengthRegexValidator(p, tn, 0); okS && spec.Pat != "" {
			if admits, err := LangAdmitsByte(spec, b); err == nil && !admits {
				okT = true
			}
		}
	}
	r.Check(okT, kp("CONST", "separator∉topic-name-language"), "the separator cannot occur in an admitted topic name (so strings.Split cannot mis-split)", aolTypesPkg,
		fmt.Sprintf("%q is outside the topic-name regex", sep), fmt.Sprintf("the topic-name validator admits %q: a topic named \"a%sb\" exports to a key that splits into too many parts and the genesis cannot be imported", sep, sep))
	hrp, _ := p.ConstVal(Rel("app"), "AccountAddressPrefix")
	bech := "qpzry9x8gf2tvdw0s3jn54khce6mua7l1" + strings.Trim(hrp, `"`)
	r.Check(!strings.ContainsRune(bech, rune(b)) && !(b >= '0' && b <= '9'), kp("CONST", "separator∉bech32∪digits"), "the separator is outside the bech32 alphabet, the address prefix and the decimal digits", aolTypesPkg,
		fmt.Sprintf("%q ∉ {%s} ∪ digits", sep, bech), fmt.Sprintf("%q can occur inside an address or an offset string", sep))
}

// isLoopIndexValue: v is the running index of a loop (the header's phi, or that phi plus one — the range form), not a constant.
func isLoopIndexValue(v ssa.Value) bool {
	switch x := v.(type) {
	case *ssa.Phi:
		return inCycle(x.Block())
	case *ssa.BinOp:
		if ph, ok := x.X.(*ssa.Phi); ok && x.Op == token.ADD && inCycle(ph.Block()) {
			if c, isC := x.Y.(*ssa.Const); isC && c.Value != nil && c.Int64() == 1 {
				return true
			}
		}
	}
	return false
}

// checkCompkeyEncoder (C18-D1, shared with C13: a listing is exact only if a stored key's prefix is the encoding of its parent's
// components — a length byte that wraps puts an entry under another parent's prefix).
func checkCompkeyEncoder(p *Prog, r *Report, kp func(string, string) string, sp *ssa.Package) {
	// ---- D1: encoder ---------------------------------------------------------------------------
	nConv := 0
	var encFn *ssa.Function
	for _, fn := range p.ModFuncs {
		if pkgPathOf(fn) != Rel(compkeyPkg) {
			continue
		}
		o := NewOrigin(p, fn)
		fa := NewFacts(p, fn, o)
		for _, b := range fn.Blocks {
			for _, in := range b.Instrs {
				cv, ok := in.(*ssa.Convert)
				if !ok {
					continue
				}
				to, ok1 := cv.Type().Underlying().(*types.Basic)
				from, ok2 := cv.X.Type().Underlying().(*types.Basic)
				if !ok1 || !ok2 || to.Kind() != types.Uint8 || from.Info()&types.IsInteger == 0 || from.Kind() == types.Uint8 {
					continue
				}
				nConv++
				encFn = fn
				xt := o.Of(cv.X)
				w, okG := fa.DominatingFact(cv, false, func(t *Term) bool {
					// lt(c, X) with c <= 255  must be false
					if t.Op == "lt" && t.Args[0].Op == "const" && t.Args[1].Eq(xt) {
						var c int64
						fmt.Sscan(t.Args[0].Name, &c)
						return c <= 255
					}
					return false
				})
				if !okG {
					w, okG = fa.DominatingFact(cv, true, func(t *Term) bool {
						if t.Op == "lt" && t.Args[1].Op == "const" && t.Args[0].Eq(xt) {
							var c int64
							fmt.Sscan(t.Args[1].Name, &c)
							return c <= 256
						}
						return false
					})
				}
				if !okG {
					// the bound was established for every element by an earlier loop of this function over the same slice
					if lc, ok := cv.X.(*ssa.Call); ok && len(lc.Call.Args) == 1 {
						if u, ok := lc.Call.Args[0].(*ssa.UnOp); ok {
							if ia, ok := u.X.(*ssa.IndexAddr); ok {
								if c, ok := earlierBoundLoop(fn, cv, ia.X); ok && c <= 255 {
									okG, w = true, fmt.Sprintf("an earlier loop over the same slice returns an error for any element with len > %d, and dominates this loop", c)
								}
							}
						}
					}
				}
				if !okG {
					// the bound was established for every element by a first pass over the same slice (an extracted size/bound helper)
					if lc, ok := cv.X.(*ssa.Call); ok && len(lc.Call.Args) == 1 {
						if u, ok := lc.Call.Args[0].(*ssa.UnOp); ok {
							if ia, ok := u.X.(*ssa.IndexAddr); ok {
								if sp, call := sizePassBefore(fn, cv, ia.X); sp != nil && sp.Bound <= 255 && sp.Bound >= 0 {
									okG, w = true, fmt.Sprintf("%s returned a nil error for the same slice: every element has len <= %d", FuncName(call.Call.StaticCallee()), sp.Bound)
								}
							}
						}
					}
				}
				if !okG {
					// the values are a parameter of an unexported writer: the bound is a precondition, established at every call site by
					// a first pass over the same slice (encodedSize(values) succeeded before writeValues(buf, values) is called)
					if sp, callers := callerSizePass(p, fn, cv); sp != nil && sp.Bound <= 255 && sp.Bound >= 0 {
						okG, w = true, fmt.Sprintf("precondition discharged at every call site (%s): a size/bound pass over the same slice returned a nil error, every element has len <= %d", callers, sp.Bound)
					}
				}
				r.Check(okG, kp("CONV", FuncName(fn)+"#uint8(len)≤255"), "conversion guard: a length is narrowed to one byte only under a dominating length <= 255 fact (longer components are rejected, never truncated)", p.Pos(cv.Pos()), w,
					"the narrowing conversion "+cv.String()+" is not dominated by a <=255 bound: a 256-byte component is silently encoded with length 0")
				// the rejecting branch returns an error
				checkEncoderShape(p, r, kp, fn, cv)
			}
		}
	}
	r.Floor("narrowing-conversions-in-compkey", nConv, 1)
	// Encode / PartialEncode wrappers
	// the encoder as the wrappers see it: the function holding the conversion, or an unexported function of the package that hands
	// its own first parameter on to it (encode → writeValues)
	encChain := map[*ssa.Function]bool{}
	if encFn != nil {
		encChain[encFn] = true
		for _, g := range p.ModFuncs {
			if pkgPathOf(g) != Rel(compkeyPkg) || g == encFn || len(g.Params) == 0 || token.IsExported(g.Name()) {
				continue
			}
			for _, cs := range callSites(g) {
				if cs.Callee != encFn {
					continue
				}
				for _, a := range cs.Instr.Common().Args {
					if a == ssa.Value(g.Params[0]) {
						encChain[g] = true
					}
				}
			}
		}
	}
	if encFn != nil {
		for _, name := range []string{"Encode", "PartialEncode"} {
			fn := sp.Func(name)
			if fn == nil {
				r.Fail(kp("ORIGIN", "compkey."+name+"#anchor"), "anchor", compkeyPkg, name+" not found")
				continue
			}
			o := NewOrigin(p, fn)
			fa := NewFacts(p, fn, o)
			found := false
			for _, cs := range callSites(fn) {
				if cs.Callee == nil || !encChain[cs.Callee] {
					continue
				}
				found = true
				c := cs.Instr.(*ssa.Call)
				arg := o.Of(c.Call.Args[0])
				bs := func(t *Term) bool { return strings.HasSuffix(t.Name, "CompositeKey.ByteSlices") && t.Op == "call" }
				if name == "Encode" {
					r.Check(bs(arg), kp("ORIGIN", "compkey.Encode#encodes-all-components"), "Encode encodes exactly key.ByteSlices()", p.Pos(c.Pos()), arg.String(), arg.String())
				} else {
					ok := arg.Op == "slice" && bs(arg.Args[0]) && arg.Args[1].Name == "_" && arg.Args[2].Op == "param"
					r.Check(ok, kp("ORIGIN", "compkey.PartialEncode#encodes-first-n"), "PartialEncode encodes exactly the first numValues components", p.Pos(c.Pos()), arg.String(), arg.String())
					_, okG := fa.DominatingFact(c, false, func(t *Term) bool {
						return t.Op == "lt" && t.Args[0].IsCall("builtin:len") && bs(t.Args[0].Args[0]) && t.Args[1].Op == "param"
					})
					r.Check(okG, kp("GUARD", "compkey.PartialEncode#numValues≤len"), "numValues is bounded by the number of components", p.Pos(c.Pos()), "len(values) >= numValues dominates", "no bound check on numValues")
				}
			}
			if !found {
				r.Fail(kp("ORIGIN", "compkey."+name+"#calls-encode"), name+" delegates to the encoder", p.FnPos(fn), "no call to the encoder found")
			}
		}
	}
}


func fieldAddrName(fa *ssa.FieldAddr) string {
	t := fa.X.Type().Underlying()
	if pt, ok := t.(*types.Pointer); ok {
		t = pt.Elem().Underlying()
	}
	if st, ok := t.(*types.Struct); ok && fa.Field < st.NumFields() {
		return st.Field(fa.Field).Name()
	}
	return ""
}


// checkStringDecoder (C18-D4b; shared with C13: two topic names folded into one key share their listing and counters).
func checkStringDecoder(p *Prog, r *Report, kp func(string, string) string, sp *ssa.Package) {
	// the two directions of the string form apply no rewrite to a component, or rewrites that are each other's inverse: an escape
	// on the way out that another function undoes on the way in (PathEscape / QueryUnescape: '+' comes back as a space) moves
	// every entry whose component contains the character the two disagree on
	{
		rewriters := func(fn *ssa.Function) []string {
			var out []string
			if fn == nil {
				return out
			}
			for _, cs := range callSites(fn) {
				n := cs.Name
				for _, pfx := range []string{"net/url.", "strconv.Quote", "strconv.Unquote", "encoding/hex.", "encoding/base64.", "(*encoding/base64.", "html.", "path.", "path/filepath.",
					"strings.ToLower", "strings.ToUpper", "strings.Trim", "strings.Replace", "strings.Map", "strings.Title", "strings.ToValidUTF8", "(*strings.Replacer)."} {
					if strings.HasPrefix(n, pfx) {
						out = append(out, n)
						break
					}
				}
			}
			sort.Strings(out)
			return out
		}
		enc, dec := rewriters(sp.Func("EncodeToString")), rewriters(sp.Func("DecodeFromString"))
		inverse := map[string]string{"net/url.PathEscape": "net/url.PathUnescape", "net/url.QueryEscape": "net/url.QueryUnescape",
			"strconv.Quote": "strconv.Unquote", "encoding/hex.EncodeToString": "encoding/hex.DecodeString"}
		ok := len(enc) == 0 && len(dec) == 0
		if len(enc) == 1 && len(dec) == 1 && inverse[enc[0]] == dec[0] {
			ok = true
		}
		r.Check(ok, kp("AGREE", "compkey.EncodeToString/DecodeFromString#rewrites-are-inverse"), "the string form rewrites no component, or the decoder applies the exact inverse of the encoder's rewrite", p.FnPos(sp.Func("DecodeFromString")),
			fmt.Sprintf("encoder rewrites %v, decoder rewrites %v", enc, dec), fmt.Sprintf("the encoder applies %v to the components and the decoder %v: these are not a recognised inverse pair, so a component containing a character the two treat differently is read back as another key (its entry moves to another topic or owner on import)", enc, dec))
	}
	// the string decoder itself: Split with the separator handed in
	for name, want := range map[string]string{"DecodeFromString": "strings.Split"} {
		fn := sp.Func(name)
		if fn == nil {
			r.Fail(kp("AGREE", "compkey."+name+"#anchor"), "anchor", compkeyPkg, name+" not found")
			continue
		}
		var hit ssa.CallInstruction
		for _, cs := range callSites(fn) {
			if cs.Name == want {
				hit = cs.Instr
			}
		}
		okSep := false
		if hit != nil && len(hit.Common().Args) == 2 {
			if prm, isP := hit.Common().Args[1].(*ssa.Parameter); isP && prm == fn.Params[len(fn.Params)-1] || name == "DecodeFromString" && hit.Common().Args[1] == ssa.Value(fn.Params[1]) {
				okSep = true
			}
		}
		r.Check(hit != nil && okSep, kp("AGREE", "compkey."+name+"#"+want+"(·, sep)"), "the string form joins / splits the components with exactly the separator handed in", p.FnPos(fn),
			want+" with the separator parameter", name+" does not call "+want+" with its separator parameter")
		// … and what is split is the encoded string itself: a case fold, a trim or any other rewrite before the split changes
		// components the typed key compares byte for byte (two topic names that differ in case become one key)
		if name == "DecodeFromString" && hit != nil {
			r.Check(hit.Common().Args[0] == ssa.Value(fn.Params[0]), kp("ORIGIN", "compkey.DecodeFromString#splits-the-encoded-string-itself"), "the decoder splits the string it was given, untransformed", p.Pos(hit.Pos()),
				"strings.Split(encoded, sep)", "the string handed to strings.Split is not the encoded parameter itself (it was rewritten first): components that differ only in what the rewrite folds decode to the same key")
		}
	}
}
