package main

import (
	"go/types"
	"fmt"
	"go/token"
	"sort"
	"strings"

	"golang.org/x/tools/go/ssa"
)

func init() { register("C20", checkC20) }

func isStoreMutatorCall(cs CallSite) bool {
	cc := cs.Instr.Common()
	if cc.IsInvoke() {
		return isStoreType(shortPkg(cc.Value.Type().String())) && (cc.Method.Name() == "Set" || cc.Method.Name() == "Delete")
	}
	if cs.Callee != nil && cs.Callee.Signature.Recv() != nil && isStoreType(shortPkg(cs.Callee.Signature.Recv().Type().String())) {
		return cs.Callee.Name() == "Set" || cs.Callee.Name() == "Delete"
	}
	return false
}

// C20 — concurrency (the repository's share).
func checkC20(p *Prog, r *Report) {
	r.Explain = "Decided statically: D1 key store — no function that holds the store's mutex (read or write) calls, directly or through module callees, a function that acquires it (sync.RWMutex read locks are not re-entrant: a writer queued between two RLocks deadlocks); every Lock/RLock has a deferred unlock; every function that touches files under the store's directory either holds the mutex or is called only from functions that hold it; D2 queries are readers — no function reachable over definite edges from the 12 query handlers (module code, x/nft keeper, types/query, store/prefix) calls a store mutator, and each handler derives its sdk.Context from its own context parameter; D3 no shared mutable state — over the code reachable from consensus, query, validation, sign-bytes and key-store entry points, every write to a package-level variable or to a field of a long-lived module struct (outside init) happens under an exclusive mutex, an atomic or a sync.Map, and a location written by block processing or a query is never read by a query (query answers derive from the committed store only); every append whose first operand is a package-level slice requires that slice to be a never-reassigned composite literal (cap == len, so append must copy). D1b lock order: over all hand-written module code, mutexes and channel semaphores (send = acquire, receive = release; wrapper functions summarised) are acquired in one global order — no cycle in the held→acquired graph (fixture control); D1c no function returns a value aliasing an object it also puts back into a sync.Pool (fixture control)."
	r.NotDec = []string{"snapshot isolation of baseapp's query multistore", "data races inside the SDK/amino caches", "any actual schedule (no race detector, no interleaving exploration)"}
	r.Trusted = []string{"cosmos-sdk baseapp query contexts (height-bound cache multistore)", "sync primitives"}
	kp := func(rule, rest string) string { return rule + ":C20:" + rest }
	// D0 queries at a height read versioned stores only: a memory or transient store has one live content for all heights, so a
	// query pinned to a past height that consults one mixes that height with the present
	checkPersistentStoresOnly(p, r, kp, "a query at a fixed past height that reads it sees the store's present content (only committed IAVL stores are versioned by height): repeated queries at one height give different answers as later blocks execute")

	// ---------------- D1: key store lock discipline ----------------
	ks := p.Named(Rel("x/did/client/crypto"), "KeyStore")
	if ks == nil {
		r.Fail(kp("LOCK", "KeyStore#anchor"), "anchor", "x/did/client/crypto", "KeyStore not found")
	} else {
		var methods []*ssa.Function
		for _, fn := range p.ModFuncs {
			if fn.Signature.Recv() != nil && strings.HasSuffix(fn.Signature.Recv().Type().String(), "crypto.KeyStore") && !p.IsGenerated(fn) {
				methods = append(methods, fn)
			}
		}
		r.Floor("keystore-methods", len(methods), 7)
		acquires := map[*ssa.Function]string{}
		for _, fn := range methods {
			for _, cs := range callSites(fn) {
				switch cs.Name {
				case "(*sync.RWMutex).Lock", "(*sync.Mutex).Lock":
					acquires[fn] = "Lock"
				case "(*sync.RWMutex).RLock":
					if acquires[fn] == "" {
						acquires[fn] = "RLock"
					}
				}
			}
		}
		// transitive acquirers (through module calls)
		trans := map[*ssa.Function]string{}
		for f, m := range acquires {
			trans[f] = m + " in " + FuncName(f)
		}
		changed := true
		for changed {
			changed = false
			for _, fn := range methods {
				if trans[fn] != "" {
					continue
				}
				for _, cs := range callSites(fn) {
					if cs.Callee != nil && trans[resolveBound(cs.Callee)] != "" {
						trans[fn] = trans[resolveBound(cs.Callee)] + " via " + FuncName(resolveBound(cs.Callee))
						changed = true
					}
				}
			}
		}
		touchesFiles := map[*ssa.Function]string{}
		for _, fn := range methods {
			for _, cs := range callSites(fn) {
				switch cs.Name {
				case "os.Create", "os.Open", "os.OpenFile", "os.Stat", "os.Remove", "os.ReadFile", "os.WriteFile", "path/filepath.Glob", "os.ReadDir", "os.Rename":
					touchesFiles[fn] = cs.Name
				}
				if cs.Callee != nil && cs.Callee.Name() == "fileExists" {
					touchesFiles[fn] = "fileExists"
				}
			}
		}
		for _, fn := range methods {
			o := NewOrigin(p, fn)
			fname := FuncName(fn)
			// every lock has a deferred unlock
			locks, defers := 0, 0
			for _, b := range fn.Blocks {
				for _, in := range b.Instrs {
					switch x := in.(type) {
					case *ssa.Call:
						n := calleeName(&x.Call)
						if n == "(*sync.RWMutex).Lock" || n == "(*sync.RWMutex).RLock" || n == "(*sync.Mutex).Lock" {
							locks++
						}
					case *ssa.Defer:
						n := calleeName(&x.Call)
						if n == "(*sync.RWMutex).Unlock" || n == "(*sync.RWMutex).RUnlock" || n == "(*sync.Mutex).Unlock" {
							defers++
						}
					}
				}
			}
			if locks > 0 {
				r.Check(defers == locks, kp("LOCK", fname+"#released-on-all-exits"), "every acquisition is paired with a deferred release", p.FnPos(fn), fmt.Sprintf("%d lock(s), %d deferred unlock(s)", locks, defers),
					fmt.Sprintf("%d lock(s) but %d deferred unlock(s): some exit leaves the mutex held", locks, defers))
			}
			// no re-acquisition while held
			for _, cs := range callSites(fn) {
				if cs.Callee == nil {
					continue
				}
				callee := resolveBound(cs.Callee)
				if trans[callee] == "" || !InModule(callee) {
					continue
				}
				held := heldLocks(o, fn, cs.Instr)
				if len(held) > 0 {
					var hs []string
					for f, m := range held {
						hs = append(hs, f+"("+m+")")
					}
					r.Fail(kp("LOCK", fname+"→"+FuncName(callee)+"#reacquires:mtx"), "no lock of the key store is re-acquired while held", p.Pos(cs.Instr.Pos()),
						fmt.Sprintf("%s holds %v and calls %s, which acquires the mutex again (%s): with a writer queued in between, the nested acquisition waits for the writer, which waits for the outer lock — deadlock", fname, hs, FuncName(callee), trans[callee]))
				} else {
					r.OK(kp("LOCK", fname+"→"+FuncName(callee)+"#no-lock-held"), "no lock of the key store is re-acquired while held", p.Pos(cs.Instr.Pos()), "caller holds no lock at this call")
				}
			}
			// file access under the lock
			if what, ok := touchesFiles[fn]; ok {
				if acquires[fn] != "" {
					r.OK(kp("LOCK", fname+"#files-under-lock"), "every key-store function that touches the directory holds the mutex or is called only with it held", p.FnPos(fn), what+" under "+acquires[fn])
					continue
				}
				// precondition: every module caller holds the lock at the call site
				callers, uses := p.CallersOf(fn)
				_ = callers
				okAll, n := true, 0
				var bad []string
				for _, u := range uses {
					if !u.Call {
						okAll = false
						continue
					}
					n++
					co := NewOrigin(p, u.In)
					if len(heldLocks(co, u.In, u.Instr)) == 0 {
						okAll = false
						bad = append(bad, FuncName(u.In)+" at "+p.Pos(u.Instr.Pos()))
					}
				}
				r.Check(okAll && n > 0, kp("LOCK", fname+"#files-under-lock"), "every key-store function that touches the directory holds the mutex or is called only with it held", p.FnPos(fn),
					fmt.Sprintf("lock-free helper (%s); all %d call sites hold the mutex", what, n), fmt.Sprintf("%s touches the key directory (%s) without the mutex, and is called without it from: %v", fname, what, bad))
			}
		}
	}

	// ---------------- D1b: lock order (all module code) ----------------
	{
		var fns []*ssa.Function
		for _, fn := range p.ModFuncs {
			if !p.IsGenerated(fn) && !InPkgs(fn, "types/testsuite") {
				fns = append(fns, fn)
			}
		}
		edges, nAcq := lockOrderEdges(p, fns)
		cycles := lockCycles(edges)
		var ks []string
		for k := range cycles {
			ks = append(ks, k)
		}
		sort.Strings(ks)
		for _, k := range ks {
			r.Fail(kp("LOCK", "order-cycle:"+k), "blocking resources (mutexes, channel semaphores) are acquired in one global order", "x/*",
				"acquisition-order cycle: "+cycles[k]+" — two goroutines can each hold one of these and wait for the other (with a counting semaphore: once all its slots are taken by holders waiting for the mutex)")
		}
		r.Count("lock-acquisition-sites", nAcq)
		r.Floor("lock-acquisition-sites(control)", nAcq, 3)
		if len(ks) == 0 {
			r.OK(kp("LOCK", "order-cycle#none"), "blocking resources (mutexes, channel semaphores) are acquired in one global order", "x/*",
				fmt.Sprintf("%d functions, %d acquisition sites, %d order edges between different resources, no cycle", len(fns), nAcq, len(edges)))
		}
		lockOrderControl(p, r, kp("LOCK", "order-cycle#control"))
	}

	// ---------------- D1d: locks are not copied ----------------
	checkCopyLocks(p, r, "C20")
	// ---------------- D1f: store iterators are closed on every path (iterclose.go) ----------------
	checkIteratorsClosed(p, r, "C20")
	// ---------------- D1e: validation and signing code does not write into the message it is handed ----------------
	// (two goroutines — CheckTx and a query simulating the same decoded transaction, or two simulations — may run it on one message;
	// a plain append onto one of the message's own slices writes into the shared backing array when it has spare capacity)
	{
		strictAppend = true
		n := 0
		for _, m := range p.Msgs() {
			for _, mn := range []string{"ValidateBasic", "GetSigners", "GetSignBytes"} {
				fn := p.MethodOf(m, mn)
				if fn == nil {
					continue
				}
				n++
				key := kp("RACE", "message-memory:"+m.Obj().Name()+"."+mn)
				ws := writesThrough(p, fn, 0, 0, "", map[string]bool{})
				if len(ws) == 0 {
					r.OK(key, "validation, signer extraction and sign-bytes code only read the message (no write into its memory, no append onto its slices)", p.FnPos(fn), "no write into memory reachable from the receiver (call depth ≤ 3)")
				} else {
					w0 := ws[0]
					r.Fail(key, "validation, signer extraction and sign-bytes code only read the message (no write into its memory, no append onto its slices)", p.Pos(w0.Instr.Pos()),
						fmt.Sprintf("%s.%s writes into the message: %s in %s (reached via %s) — concurrent validations of one decoded message race on that memory, and a document that shares the backing array is silently changed", m.Obj().Name(), mn, w0.How, FuncName(w0.Fn), w0.Chain))
				}
			}
		}
		strictAppend = false
		r.Floor("message-entry-points-checked-for-writes", n, 42)
	}

	// ---------------- D1c: pooled memory does not escape ----------------
	checkPooledMemory(p, r, "C20")

	// ---------------- D2: queries are readers ----------------
	queries := p.AllHandlers("QueryServer")
	r.Floor("query-handlers", len(queries), 12)
	aol := buildAolModel(p)
	did := buildDidModel(p)
	follow := func(f *ssa.Function) bool {
		pp := pkgPathOf(f)
		return InModule(f) && !p.IsGenerated(f) || pp == nftKeeperPath || pp == SDK+"/types/query" || pp == SDK+"/store/prefix"
	}
	for _, q := range queries {
		qn := FuncName(q)
		reach := p.ReachFrom([]*ssa.Function{q}, follow)
		bad := ""
		for _, f := range reach.Order {
			if a := aol.acc[f]; a != nil && (a.Op == "Set" || a.Op == "Delete") {
				bad = "AOL mutator " + reach.Chain(f)
			}
			if did.setters[f] {
				bad = "DID setter " + reach.Chain(f)
			}
			if n, ok := isNftKeeperMethod(f); ok {
				if _, m := nftMutators[n]; m {
					bad = "x/nft mutator " + reach.Chain(f)
				}
			}
			if f.Blocks == nil || !follow(f) {
				continue
			}
			for _, cs := range callSites(f) {
				if isStoreMutatorCall(cs) {
					bad = "store write in " + reach.Chain(f) + " at " + p.Pos(cs.Instr.Pos())
				}
			}
		}
		r.Check(bad == "", kp("REACH", qn+"#read-only"), "no store mutator is reachable from a query handler (definite edges through module code, the x/nft keeper, types/query and store/prefix)", p.FnPos(q),
			fmt.Sprintf("%d functions reachable, no write", len(reach.Order)), "a query can write state: "+bad)
		// ctx from own parameter
		o := NewOrigin(p, q)
		okCtx := true
		n := 0
		for _, cs := range callSites(q) {
			if cs.Name == "sdk/types.UnwrapSDKContext" {
				n++
				t := o.Of(cs.Instr.Common().Args[0])
				if t.Op != "param" {
					okCtx = false
				}
			}
		}
		r.Check(okCtx, kp("ORIGIN", qn+"#ctx-from-own-parameter"), "each query derives its sdk.Context from its own context parameter (never from a field or global)", p.FnPos(q),
			fmt.Sprintf("%d UnwrapSDKContext call(s) on the handler's parameter", n), "the sdk.Context is taken from somewhere other than the request context")
	}

	if r.Tier == "thorough" {
		// cross-check of D2 with the whole-program VTA call graph (over-approximated dispatch; notes only, plus a sanity check of
		// the checker's own callee resolution)
		all := p.ReachFrom(queries, follow)
		vtaCrossCheck(p, r, kp("REACH", "queries#vta-cross-check"), queries, func(f *ssa.Function) (string, bool) {
			if a := aol.acc[f]; a != nil && (a.Op == "Set" || a.Op == "Delete") {
				return "AOL mutator " + FuncName(f), true
			}
			if did.setters[f] {
				return "DID setter " + FuncName(f), true
			}
			if n, ok := isNftKeeperMethod(f); ok {
				if _, m := nftMutators[n]; m {
					return "x/nft mutator " + n, true
				}
			}
			return "", false
		}, all, follow)
	}

	// ---------------- D3: shared mutable state ----------------
	cons, _ := moduleScope(p, consensusEntries(p))
	qs, _ := moduleScope(p, queries)
	var other []*ssa.Function
	for _, m := range p.Msgs() {
		if f := p.MethodOf(m, "GetSignBytes"); f != nil {
			other = append(other, f)
		}
	}
	if ks != nil {
		for _, n := range []string{"Save", "Load", "LoadByAddress"} {
			if f := p.MethodOf(ks, n); f != nil {
				other = append(other, f)
			}
		}
	}
	oth, _ := moduleScope(p, other)
	all := map[*ssa.Function]bool{}
	var wide []*ssa.Function
	for _, l := range [][]*ssa.Function{cons, qs, oth} {
		for _, f := range l {
			if !all[f] {
				all[f] = true
				wide = append(wide, f)
			}
		}
	}
	r.Count("functions-in-wide-scope", len(wide))
	acc := LAccesses(p, wide)
	nW := 0
	writtenUnderMutex := map[string]bool{}
	for _, a := range acc {
		if !a.Write || isInitFunc(a.Fn) {
			continue
		}
		nW++
		ok := a.Sync == "atomic" || a.Sync == "sync.Map" || a.Sync == "mutex-exclusive"
		if a.Sync == "mutex-exclusive" {
			writtenUnderMutex[a.Loc] = true
		}
		r.Check(ok, kp("RACE", a.Loc+"#write@"+FuncName(a.Fn)+":"+blockTag(a.Fn, a.Instr.Block())), "every write to shared long-lived memory after init is synchronised (exclusive mutex, atomic or sync.Map)", p.Pos(a.Instr.Pos()),
			a.How+" under "+a.Sync, fmt.Sprintf("%s: %s with synchronisation %q — concurrent queries / CheckTx / callers race on it (a read lock does not protect a write)", a.Loc, describeAccess(p, a), a.Sync))
	}
	for _, a := range acc {
		if a.Write || !writtenUnderMutex[a.Loc] {
			continue
		}
		ok := a.Sync == "mutex-exclusive" || a.Sync == "mutex-shared"
		r.Check(ok, kp("RACE", a.Loc+"#read@"+FuncName(a.Fn)+":"+blockTag(a.Fn, a.Instr.Block())), "a location written under a mutex is read under it", p.Pos(a.Instr.Pos()), "read under "+a.Sync,
			fmt.Sprintf("%s is written under a mutex but %s holds no lock", a.Loc, describeAccess(p, a)))
	}
	r.Count("post-init-writes-to-shared-memory", nW)
	// state written by block processing or a query and read by a query
	writers := append(append([]*ssa.Function(nil), cons...), qs...)
	ch, _ := hiddenStateChannels(p, writers, qs)
	var locs []string
	for l := range ch {
		locs = append(locs, l)
	}
	sort.Strings(locs)
	for _, l := range locs {
		ws, rs := ch[l][0], ch[l][1]
		r.Fail(kp("STATE", "query-reads-process-memory:"+l), "query answers derive from the committed store only: no memory written by block processing or by queries is read by a query", p.Pos(rs[0].Instr.Pos()),
			fmt.Sprintf("%s is written (%s) and read by a query (%s): the answer depends on what this process executed or served before — not on the committed state of the queried height", l, describeAccess(p, ws[0]), describeAccess(p, rs[0])))
	}
	if len(locs) == 0 {
		r.OK(kp("STATE", "query-reads-process-memory#none"), "query answers derive from the committed store only: no memory written by block processing or by queries is read by a query", "x/*",
			fmt.Sprintf("%d functions in query scope, no written-and-read long-lived location", len(qs)))
	}
	// nothing to deadlock on: validation, sign-bytes, query and genesis-validation code starts no goroutine and touches no channel
	{
		scopeG := append([]*ssa.Function(nil), wide...)
		for _, fn := range p.ModFuncs {
			if fn.Blocks != nil && !p.IsGenerated(fn) && !all[fn] && inExactPkgs(fn, "x/aol/types", "x/did/types", "x/pnft/types", "x/burn/types", "types/compkey") {
				scopeG = append(scopeG, fn)
			}
		}
		nBadG := 0
		for _, fn := range scopeG {
			if fn.Blocks == nil {
				continue
			}
			if what, at := goroutineOrChannelUse(fn); what != "" {
				nBadG++
				r.Fail(kp("RACE", FuncName(fn)+"#no-goroutines-or-channels"), "validation, sign-bytes, query and genesis-validation code is sequential: no goroutine, channel or WaitGroup (nothing to deadlock on or to race with)", p.Pos(at.Pos()),
					fmt.Sprintf("%s uses %s: with more producers than the channel buffers, or a wait before the receive, the call never returns; and what the goroutines share is unsynchronised", FuncName(fn), what))
			}
		}
		if nBadG == 0 {
			r.OK(kp("RACE", "no-goroutines-or-channels#none"), "validation, sign-bytes, query and genesis-validation code is sequential: no goroutine, channel or WaitGroup (nothing to deadlock on or to race with)", "x/*, types/compkey",
				fmt.Sprintf("%d functions, none starts a goroutine or uses a channel", len(scopeG)))
		}
		if fx, err := buildFixture(p, "gofx", "package gofx\n\nfunc Bad(xs []int) int {\n\tc := make(chan int, 1)\n\tfor _, x := range xs {\n\t\tgo func(v int) { c <- v }(x)\n\t}\n\treturn <-c\n}\n\nfunc Good(xs []int) int {\n\tn := 0\n\tfor _, x := range xs {\n\t\tn += x\n\t}\n\treturn n\n}\n"); err != nil {
			r.Undecided(kp("RACE", "no-goroutines-or-channels#control"), "positive control for the goroutine/channel matcher", "checker/c20.go", "fixture does not build: "+err.Error())
		} else {
			b1, _ := goroutineOrChannelUse(fx["Bad"])
			b2, _ := goroutineOrChannelUse(fx["Good"])
			r.Check(b1 != "" && b2 == "", kp("RACE", "no-goroutines-or-channels#control"), "positive control: a fan-out over a channel is reported, a plain loop is not", "checker/c20.go", "1 of 1 / 0 of 1", fmt.Sprintf("bad=%q good=%q", b1, b2))
		}
	}
	// a query answers from the entries of the item it was asked about: a listing's prefix fixes every component that names the parent
	aolListings(p, r, buildAolModel(p), "C20")
	// a query at a fixed height answers with the stored entry and nothing else: the read accessors the AOL queries go through
	// return the unmarshalled store value unconditionally — a field "filled in" from the context (block time, height) changes
	// with every block committed after the height the query was pinned to
	{
		am := buildAolModel(p)
		nGet := 0
		for _, f := range []string{"Owner", "Topic", "Writer", "Record"} {
			for _, a := range am.byFamily[f] {
				if a.Op == "Get" {
					nGet++
					checkAccessorShape(p, r, kp("SHAPE", FuncName(a.Fn)), "the read accessor returns the unmarshalled store value and nothing derived from the context", a.SO, 1)
				}
			}
		}
		r.Floor("aol-read-accessors", nGet, 4)
	}
	// repeated queries at a fixed height give identical answers: no query answer is assembled in map iteration order
	{
		nMapQ := 0
		for _, fn := range qs {
			if fn.Blocks == nil {
				continue
			}
			for _, b := range fn.Blocks {
				for _, in := range b.Instrs {
					rg, ok := in.(*ssa.Range)
					if !ok {
						continue
					}
					if _, isMap := rg.X.Type().Underlying().(*types.Map); !isMap {
						continue
					}
					nMapQ++
					why := mapLoopOrderSensitive(p, fn, rg)
					r.Check(why == "", kp("ORDER", FuncName(fn)+"#query-range-over-map@"+blockTag(fn, b)), "a range over a Go map on a query path has an order-insensitive body", p.Pos(rg.Pos()),
						"order-insensitive body", "the answer is assembled in map iteration order: "+why+" — the same query at the same height returns differently ordered (and differently paginated) answers from call to call")
				}
			}
		}
		r.Count("map-ranges-on-query-paths", nMapQ)
	}
	// append onto package-level slices
	nApp := 0
	for _, fn := range wide {
		for _, b := range fn.Blocks {
			for _, in := range b.Instrs {
				c, ok := in.(*ssa.Call)
				if !ok {
					continue
				}
				bi, ok := c.Call.Value.(*ssa.Builtin)
				if !ok || bi.Name() != "append" {
					continue
				}
				// the appended-to slice is a package-level variable — loaded directly, or carried through a local and a loop
				// (`vals := shared; for … { vals = append(vals, x) }`), or re-sliced (`shared[:0]`)
				g := sliceGlobalBehind(c.Call.Args[0], map[ssa.Value]bool{c: true})
				if g == nil || !InModulePkg(g.Pkg) {
					continue
				}
				nApp++
				_, lit, re, _ := globalByteSliceLit(p, g.Pkg.Pkg.Path(), g.Name())
				r.Check(lit && re == 0, kp("RACE", "append:"+shortPkg(g.Pkg.Pkg.Path())+"."+g.Name()+"@"+FuncName(fn)), "append onto a shared package-level slice is safe only if the slice has no spare capacity: it must be a never-reassigned composite literal", p.Pos(c.Pos()),
					"literal with cap == len, never reassigned: append always copies", fmt.Sprintf("%s.%s is not a never-reassigned literal (literal=%v, reassignments=%d): concurrent appends write into the shared backing array", shortPkg(g.Pkg.Pkg.Path()), g.Name(), lit, re))
			}
		}
	}
	r.Floor("appends-onto-package-level-slices", nApp, 2)
}


// sliceGlobalBehind: the package-level slice variable whose backing array v may still share (through phis, re-slicing and type
// changes; an append result is followed to its first operand, since append reuses the array while capacity lasts).
func sliceGlobalBehind(v ssa.Value, seen map[ssa.Value]bool) *ssa.Global {
	if v == nil || seen[v] || len(seen) > 40 {
		return nil
	}
	seen[v] = true
	switch x := v.(type) {
	case *ssa.UnOp:
		if x.Op == token.MUL {
			if g, ok := x.X.(*ssa.Global); ok {
				return g
			}
		}
	case *ssa.Phi:
		for _, e := range x.Edges {
			if g := sliceGlobalBehind(e, seen); g != nil {
				return g
			}
		}
	case *ssa.Slice:
		return sliceGlobalBehind(x.X, seen)
	case *ssa.ChangeType:
		return sliceGlobalBehind(x.X, seen)
	case *ssa.Call:
		if bi, ok := x.Call.Value.(*ssa.Builtin); ok && bi.Name() == "append" && len(x.Call.Args) > 0 {
			return sliceGlobalBehind(x.Call.Args[0], seen)
		}
	}
	return nil
}


// goroutineOrChannelUse: the first goroutine start, channel operation or WaitGroup wait in fn (closures included).
func goroutineOrChannelUse(fn *ssa.Function) (string, ssa.Instruction) {
	if fn == nil {
		return "", nil
	}
	for _, b := range fn.Blocks {
		for _, in := range b.Instrs {
			switch x := in.(type) {
			case *ssa.Go:
				return "a go statement", in
			case *ssa.Send:
				return "a channel send", in
			case *ssa.Select:
				return "a select", in
			case *ssa.MakeChan:
				return "a channel", in
			case *ssa.UnOp:
				if x.Op == token.ARROW {
					return "a channel receive", in
				}
			case ssa.CallInstruction:
				n := calleeName(x.Common())
				if strings.HasPrefix(n, "(*sync.WaitGroup).") || strings.HasPrefix(n, "(*golang.org/x/sync/errgroup.Group).") {
					return n, in
				}
			}
		}
	}
	for _, af := range fn.AnonFuncs {
		if w, at := goroutineOrChannelUse(af); w != "" {
			return w, at
		}
	}
	return "", nil
}
