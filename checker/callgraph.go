package main

// WMC (who-may-call) and REACH (definite-edge reachability) — DESIGN.md §2.2.

import (
	"go/types"
	"sort"
	"strings"

	"golang.org/x/tools/go/ssa"
)

// Use is one use of a function: a call site or a reference as a value.
type Use struct {
	In    *ssa.Function // enclosing function
	Instr ssa.Instruction
	Call  bool   // true: direct call; false: referenced as a value (method value, closure, argument)
	Kind  string // call | defer | go | ref
}

// UsesOf lists every use, inside module functions, of functions satisfying pred.
func (p *Prog) UsesOf(pred func(*ssa.Function) bool) map[*ssa.Function][]Use {
	out := map[*ssa.Function][]Use{}
	for _, fn := range p.ModFuncs {
		for _, b := range fn.Blocks {
			for _, in := range b.Instrs {
				var callee *ssa.Function
				if c, ok := in.(ssa.CallInstruction); ok {
					callee = c.Common().StaticCallee()
					if callee == nil {
						callee = devirt(c.Common()) // module interface with a single implementer
					}
					if callee != nil && pred(resolveBound(callee)) {
						kind := "call"
						switch in.(type) {
						case *ssa.Defer:
							kind = "defer"
						case *ssa.Go:
							kind = "go"
						}
						out[resolveBound(callee)] = append(out[resolveBound(callee)], Use{In: fn, Instr: in, Call: true, Kind: kind})
					}
				}
				for _, op := range in.Operands(nil) {
					if op == nil || *op == nil {
						continue
					}
					f, ok := (*op).(*ssa.Function)
					if !ok {
						continue
					}
					f = resolveBound(f)
					if !pred(f) {
						continue
					}
					if c, ok := in.(ssa.CallInstruction); ok && c.Common().Value == *op {
						continue // callee position, already counted
					}
					out[f] = append(out[f], Use{In: fn, Instr: in, Call: false, Kind: "ref"})
				}
			}
		}
	}
	return out
}

// resolveBound maps synthetic wrappers (bound-method closures, thunks, pointer-receiver wrappers)
// to the declared method they forward to.
func resolveBound(f *ssa.Function) *ssa.Function {
	for i := 0; i < 4 && f != nil && f.Synthetic != "" && f.Syntax() == nil; i++ {
		var next *ssa.Function
		for _, b := range f.Blocks {
			for _, in := range b.Instrs {
				if c, ok := in.(ssa.CallInstruction); ok {
					if sc := c.Common().StaticCallee(); sc != nil {
						next = sc
					}
				}
			}
		}
		if next == nil {
			break
		}
		f = next
	}
	return f
}

// CallersOf returns the distinct enclosing functions (top-level: closures are attributed to their parent)
// that use target.
func (p *Prog) CallersOf(target *ssa.Function) ([]*ssa.Function, []Use) {
	uses := p.UsesOf(func(f *ssa.Function) bool { return f == target })[target]
	seen := map[*ssa.Function]bool{}
	var fns []*ssa.Function
	for _, u := range uses {
		top := topLevel(u.In)
		if !seen[top] {
			seen[top] = true
			fns = append(fns, top)
		}
	}
	sort.Slice(fns, func(i, j int) bool { return fns[i].String() < fns[j].String() })
	return fns, uses
}

func topLevel(f *ssa.Function) *ssa.Function {
	for f.Parent() != nil {
		f = f.Parent()
	}
	return f
}

// ---------------------------------------------------------------------------------------------

// InvokeSite is an interface method call that REACH does not resolve.
type InvokeSite struct {
	In     *ssa.Function
	Instr  ssa.CallInstruction
	Iface  string
	Method string
}

// Reach is the result of a definite-edge reachability walk.
type Reach struct {
	p       *Prog
	Parent  map[*ssa.Function]*ssa.Function
	Via     map[*ssa.Function]ssa.Instruction
	Order   []*ssa.Function
	Invokes []InvokeSite
}

// ReachFrom walks static callees, closures, function-value references and interface invokes that
// resolve to module implementers. follow decides whether a function's body is entered.
func (p *Prog) ReachFrom(entries []*ssa.Function, follow func(*ssa.Function) bool) *Reach {
	r := &Reach{p: p, Parent: map[*ssa.Function]*ssa.Function{}, Via: map[*ssa.Function]ssa.Instruction{}}
	var queue []*ssa.Function
	push := func(f, parent *ssa.Function, via ssa.Instruction) {
		if f == nil {
			return
		}
		if _, ok := r.Parent[f]; ok {
			return
		}
		r.Parent[f] = parent
		r.Via[f] = via
		r.Order = append(r.Order, f)
		queue = append(queue, f)
	}
	for _, e := range entries {
		push(e, nil, nil)
	}
	for len(queue) > 0 {
		fn := queue[0]
		queue = queue[1:]
		if fn.Blocks == nil || (follow != nil && !follow(fn)) {
			continue
		}
		for _, b := range fn.Blocks {
			for _, in := range b.Instrs {
				if c, ok := in.(ssa.CallInstruction); ok {
					cc := c.Common()
					if cc.IsInvoke() {
						impls := p.moduleImplementers(cc.Value.Type(), cc.Method)
						for _, m := range impls {
							push(m, fn, in)
						}
						r.Invokes = append(r.Invokes, InvokeSite{In: fn, Instr: c,
							Iface: shortPkg(cc.Value.Type().String()), Method: cc.Method.Name()})
					} else if sc := cc.StaticCallee(); sc != nil {
						push(sc, fn, in)
					}
				}
				for _, op := range in.Operands(nil) {
					if op == nil || *op == nil {
						continue
					}
					switch f := (*op).(type) {
					case *ssa.Function:
						push(f, fn, in)
					case *ssa.MakeClosure:
						if cf, ok := f.Fn.(*ssa.Function); ok {
							push(cf, fn, in)
						}
					}
				}
				if mc, ok := in.(*ssa.MakeClosure); ok {
					if cf, ok := mc.Fn.(*ssa.Function); ok {
						push(cf, fn, in)
					}
				}
			}
		}
	}
	return r
}

func (r *Reach) Has(f *ssa.Function) bool { _, ok := r.Parent[f]; return ok }

// Chain renders the call chain from an entry point to f.
func (r *Reach) Chain(f *ssa.Function) string {
	var parts []string
	for cur := f; cur != nil; cur = r.Parent[cur] {
		s := FuncName(cur)
		if via := r.Via[cur]; via != nil {
			s += " (called at " + r.p.Pos(via.Pos()) + ")"
		}
		parts = append(parts, s)
		if len(parts) > 30 {
			break
		}
	}
	for i, j := 0, len(parts)-1; i < j; i, j = i+1, j-1 {
		parts[i], parts[j] = parts[j], parts[i]
	}
	return strings.Join(parts, " -> ")
}

var implCache = map[string][]*ssa.Function{}

// moduleImplementers resolves an interface method to the methods of module types implementing the interface.
func (p *Prog) moduleImplementers(recv types.Type, m *types.Func) []*ssa.Function {
	iface, ok := recv.Underlying().(*types.Interface)
	if !ok {
		return nil
	}
	key := recv.String() + "." + m.Name()
	if v, ok := implCache[key]; ok {
		return v
	}
	var out []*ssa.Function
	for _, root := range p.Roots {
		if !strings.HasPrefix(root.PkgPath, ModPath) || root.Types == nil {
			continue
		}
		sc := root.Types.Scope()
		for _, name := range sc.Names() {
			tn, ok := sc.Lookup(name).(*types.TypeName)
			if !ok || tn.IsAlias() {
				continue
			}
			T := tn.Type()
			if _, isIface := T.Underlying().(*types.Interface); isIface {
				continue
			}
			for _, cand := range []types.Type{T, types.NewPointer(T)} {
				if types.Implements(cand, iface) {
					sel := p.SSA.MethodSets.MethodSet(cand).Lookup(m.Pkg(), m.Name())
					if sel != nil {
						if f := p.SSA.MethodValue(sel); f != nil {
							out = append(out, resolveBound(f))
						}
					}
					break
				}
			}
		}
	}
	implCache[key] = out
	return out
}

// ---------------------------------------------------------------------------------------------
// Entry-point enumeration (ENUM)

// ImplementersOf lists module named types T such that T or *T implements iface.
func (p *Prog) ImplementersOf(iface *types.Interface) []*types.Named {
	var out []*types.Named
	for _, root := range p.Roots {
		if !strings.HasPrefix(root.PkgPath, ModPath) || root.Types == nil {
			continue
		}
		sc := root.Types.Scope()
		for _, name := range sc.Names() {
			tn, ok := sc.Lookup(name).(*types.TypeName)
			if !ok || tn.IsAlias() {
				continue
			}
			n, ok := tn.Type().(*types.Named)
			if !ok {
				continue
			}
			if _, isIface := n.Underlying().(*types.Interface); isIface {
				continue
			}
			if types.Implements(n, iface) || types.Implements(types.NewPointer(n), iface) {
				out = append(out, n)
			}
		}
	}
	sort.Slice(out, func(i, j int) bool { return out[i].String() < out[j].String() })
	return out
}

func (p *Prog) Iface(pkgPath, name string) *types.Interface {
	n := p.Named(pkgPath, name)
	if n == nil {
		return nil
	}
	i, _ := n.Underlying().(*types.Interface)
	return i
}

// MethodOf returns the SSA function for method `name` in the method set of T or *T.
func (p *Prog) MethodOf(T types.Type, name string) *ssa.Function {
	for _, cand := range []types.Type{T, types.NewPointer(T)} {
		ms := p.SSA.MethodSets.MethodSet(cand)
		for i := 0; i < ms.Len(); i++ {
			if ms.At(i).Obj().Name() == name {
				if f := p.SSA.MethodValue(ms.At(i)); f != nil {
					return resolveBound(f)
				}
			}
		}
	}
	return nil
}

// Msgs lists the module types implementing sdk.Msg (expected 14).
func (p *Prog) Msgs() []*types.Named {
	return p.ImplementersOf(p.Iface(SDK+"/types", "Msg"))
}

// LegacyMsgs lists the module types implementing legacytx.LegacyMsg (expected 7).
func (p *Prog) LegacyMsgs() []*types.Named {
	return p.ImplementersOf(p.Iface(SDK+"/x/auth/migrations/legacytx", "LegacyMsg"))
}

// ServerHandlers returns, for the generated interface `ifaceName` (MsgServer / QueryServer) of each custom module,
// the hand-written methods implementing it: module rel path -> method name -> function.
func (p *Prog) ServerHandlers(ifaceName string) map[string]map[string]*ssa.Function {
	out := map[string]map[string]*ssa.Function{}
	for _, mod := range []string{"x/aol", "x/did", "x/pnft", "x/burn"} {
		iface := p.Iface(Rel(mod+"/types"), ifaceName)
		if iface == nil {
			continue
		}
		hs := map[string]*ssa.Function{}
		for _, impl := range p.ImplementersOf(iface) {
			// skip generated client/unimplemented stubs
			if strings.HasPrefix(impl.Obj().Name(), "Unimplemented") {
				continue
			}
			for i := 0; i < iface.NumMethods(); i++ {
				m := iface.Method(i)
				f := p.MethodOf(impl, m.Name())
				if f != nil && !p.IsGenerated(f) && f.Blocks != nil {
					if ifaceName == "MsgServer" {
						f = p.thinHandlerBody(f)
					}
					hs[m.Name()] = f
				}
			}
		}
		if len(hs) > 0 {
			out[mod] = hs
		}
	}
	return out
}

func sortedFuncs(m map[string]*ssa.Function) []*ssa.Function {
	var ks []string
	for k := range m {
		ks = append(ks, k)
	}
	sort.Strings(ks)
	var out []*ssa.Function
	for _, k := range ks {
		out = append(out, m[k])
	}
	return out
}

// AllHandlers flattens ServerHandlers.
func (p *Prog) AllHandlers(ifaceName string) []*ssa.Function {
	var out []*ssa.Function
	hs := p.ServerHandlers(ifaceName)
	var mods []string
	for m := range hs {
		mods = append(mods, m)
	}
	sort.Strings(mods)
	for _, m := range mods {
		out = append(out, sortedFuncs(hs[m])...)
	}
	return out
}
