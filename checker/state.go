package main

// Shared-state analysis (DESIGN.md C10-D1, C20-D3): enumeration of reads and writes of memory that outlives one ABCI call /
// one API call and is not a KV store: package-level variables of the module, and fields of long-lived module structs
// (keepers, message servers, app modules, the key store) reached through a pointer.

import (
	"fmt"
	"go/token"
	"go/types"
	"sort"
	"strings"

	"golang.org/x/tools/go/ssa"
)

type LAccess struct {
	Fn    *ssa.Function
	Instr ssa.Instruction
	Loc   string // global:<pkg>.<name> | field:<type>.<field>
	Write bool
	How   string
	Sync  string // "" | atomic | sync.Map | mutex-exclusive | mutex-shared
}

func isInitFunc(fn *ssa.Function) bool {
	for f := fn; f != nil; f = f.Parent() {
		if f.Name() == "init" || strings.HasPrefix(f.Name(), "init#") {
			return true
		}
	}
	return runOnceByPackageLevelOnce(fn)
}

// runOnceByPackageLevelOnce: fn is a closure without captured variables whose only use is as the argument of Do on a PACKAGE-LEVEL
// sync.Once: it runs at most once per process, before any reader that goes through the same Do returns, and what it computes does
// not depend on the caller — a lazily run initialiser. (A Once declared as a local variable guards nothing: not accepted.)
func runOnceByPackageLevelOnce(fn *ssa.Function) bool {
	par := fn.Parent()
	if par == nil || len(fn.FreeVars) != 0 {
		return false
	}
	n := 0
	for _, b := range par.Blocks {
		for _, in := range b.Instrs {
			c, ok := in.(ssa.CallInstruction)
			if !ok {
				continue
			}
			cc := c.Common()
			for _, a := range cc.Args {
				v := a
				if mc, isMC := v.(*ssa.MakeClosure); isMC {
					v = mc.Fn
				}
				if v != ssa.Value(fn) {
					continue
				}
				if calleeName(cc) != "(*sync.Once).Do" || len(cc.Args) == 0 {
					return false
				}
				if _, isGlobal := cc.Args[0].(*ssa.Global); !isGlobal {
					return false
				}
				n++
			}
		}
	}
	return n == 1
}

// globalOf: v is a load of a package-level variable of the module (or the variable's address): returns it.
func globalOf(v ssa.Value) *ssa.Global {
	switch x := v.(type) {
	case *ssa.Global:
		return x
	case *ssa.UnOp:
		if x.Op == token.MUL {
			if g, ok := x.X.(*ssa.Global); ok {
				return g
			}
		}
	case *ssa.Slice:
		return globalOf(x.X)
	case *ssa.IndexAddr:
		return globalOf(x.X)
	case *ssa.FieldAddr:
		return globalOf(x.X)
	}
	return nil
}

// longLivedField: addr is &base.f where base is a pointer to a module struct that is not a local literal and not a wire type.
func longLivedField(p *Prog, addr ssa.Value) (string, bool) { return longLivedFieldX(p, addr, false) }

// longLivedFieldRef: like longLivedField, but also accepts a field of the local copy of a by-value receiver/parameter — for
// accesses that go THROUGH the field's reference (map, slice element, pointer), which the copy shares with the original.
func longLivedFieldRef(p *Prog, addr ssa.Value) (string, bool) { return longLivedFieldX(p, addr, true) }

func isParamSpill(al *ssa.Alloc) bool {
	if refs := al.Referrers(); refs != nil {
		for _, rf := range *refs {
			if st, ok := rf.(*ssa.Store); ok && st.Addr == ssa.Value(al) {
				if _, isP := st.Val.(*ssa.Parameter); isP {
					return true
				}
			}
		}
	}
	return false
}

func longLivedFieldX(p *Prog, addr ssa.Value, allowSpill bool) (string, bool) {
	fa, ok := addr.(*ssa.FieldAddr)
	if !ok {
		return "", false
	}
	base := fa.X
	// strip nested field addresses: &a.b.c -> root a
	for {
		if inner, ok := base.(*ssa.FieldAddr); ok {
			base = inner.X
			continue
		}
		break
	}
	if al, isAlloc := base.(*ssa.Alloc); isAlloc {
		if !(allowSpill && isParamSpill(al)) {
			return "", false // local value (literal under construction, or a by-value copy being assigned to)
		}
	}
	t := fa.X.Type()
	if pt, ok := t.Underlying().(*types.Pointer); ok {
		t = pt.Elem()
	}
	n, ok := t.(*types.Named)
	if !ok || n.Obj().Pkg() == nil || !strings.HasPrefix(n.Obj().Pkg().Path(), ModPath) {
		return "", false
	}
	if isWireStruct(p, n) || !longLivedTypes(p)[n.String()] {
		return "", false
	}
	return "field:" + shortPkg(n.String()) + "." + fieldName(fa.X.Type(), fa.Field), true
}

var llTypes map[string]bool

// longLivedTypes: module struct types whose values live as long as the application: the App, the keeper container, keepers,
// message servers, app modules, the key store — and every module struct type reachable through their fields.
func longLivedTypes(p *Prog) map[string]bool {
	if llTypes != nil {
		return llTypes
	}
	llTypes = map[string]bool{}
	var queue []*types.Named
	add := func(n *types.Named) {
		if n == nil || llTypes[n.String()] {
			return
		}
		if _, ok := n.Underlying().(*types.Struct); !ok {
			return
		}
		if n.Obj().Pkg() == nil || !strings.HasPrefix(n.Obj().Pkg().Path(), ModPath) || isWireStruct(p, n) {
			return
		}
		llTypes[n.String()] = true
		queue = append(queue, n)
	}
	add(p.Named(Rel("app"), "App"))
	add(p.Named(Rel("app/keepers"), "AppKeepersWithKey"))
	add(p.Named(Rel("x/did/client/crypto"), "KeyStore"))
	for _, n := range sdkFacingTypes(p) {
		add(n)
	}
	for _, root := range p.Roots {
		if !strings.HasPrefix(root.PkgPath, ModPath) || root.Types == nil {
			continue
		}
		sc := root.Types.Scope()
		for _, name := range sc.Names() {
			tn, ok := sc.Lookup(name).(*types.TypeName)
			if !ok {
				continue
			}
			n, ok := tn.Type().(*types.Named)
			if !ok {
				continue
			}
			switch {
			case name == "Keeper" || name == "msgServer" || name == "AppModule" || name == "AppModuleBasic" || name == "Migrator":
				add(n)
			}
		}
	}
	for len(queue) > 0 {
		n := queue[0]
		queue = queue[1:]
		st := n.Underlying().(*types.Struct)
		for i := 0; i < st.NumFields(); i++ {
			t := st.Field(i).Type()
			for k := 0; k < 4; k++ {
				switch x := t.Underlying().(type) {
				case *types.Pointer:
					t = x.Elem()
				case *types.Slice:
					t = x.Elem()
				case *types.Map:
					t = x.Elem()
				case *types.Array:
					t = x.Elem()
				}
			}
			if nn, ok := t.(*types.Named); ok {
				add(nn)
			}
		}
	}
	return llTypes
}

// mutatesReceiver: a module method that writes state reachable from its receiver (fields, maps, elements), directly or through
// module callees on the same receiver.
var mutRecvMemo = map[*ssa.Function]bool{}

func mutatesReceiver(fn *ssa.Function, depth int) bool {
	if fn == nil || fn.Blocks == nil || fn.Signature.Recv() == nil || depth > 3 {
		return false
	}
	if v, ok := mutRecvMemo[fn]; ok {
		return v
	}
	mutRecvMemo[fn] = false
	recv := fn.Params[0]
	derived := map[ssa.Value]bool{recv: true}
	cells := map[*ssa.Alloc]bool{} // locals the receiver (or something reached from it) was spilled into, e.g. because a closure captures it
	changed := true
	for changed {
		changed = false
		for _, b := range fn.Blocks {
			for _, in := range b.Instrs {
				if st, isSt := in.(*ssa.Store); isSt && derived[st.Val] {
					if al, isAl := st.Addr.(*ssa.Alloc); isAl && !cells[al] {
						cells[al], changed = true, true
					}
				}
				if ld, isLd := in.(*ssa.UnOp); isLd && ld.Op == token.MUL && !derived[ld] {
					if al, isAl := ld.X.(*ssa.Alloc); isAl && cells[al] {
						derived[ld], changed = true, true
					}
				}
				v, ok := in.(ssa.Value)
				if !ok || derived[v] {
					continue
				}
				switch x := in.(type) {
				case *ssa.FieldAddr:
					if derived[x.X] {
						derived[v], changed = true, true
					}
				case *ssa.UnOp:
					if x.Op == token.MUL && derived[x.X] {
						derived[v], changed = true, true
					}
				case *ssa.IndexAddr:
					if derived[x.X] {
						derived[v], changed = true, true
					}
				}
			}
		}
	}
	res := false
	for _, b := range fn.Blocks {
		for _, in := range b.Instrs {
			switch x := in.(type) {
			case *ssa.Store:
				if derived[x.Addr] {
					if _, isAlloc := x.Addr.(*ssa.Alloc); !isAlloc {
						res = true
					}
				}
			case *ssa.MapUpdate:
				if derived[x.Map] {
					res = true
				}
			case ssa.CallInstruction:
				cc := x.Common()
				if b, ok := cc.Value.(*ssa.Builtin); ok && b.Name() == "delete" && len(cc.Args) > 0 && derived[cc.Args[0]] {
					res = true
				}
				if sc := cc.StaticCallee(); sc != nil && len(cc.Args) > 0 && derived[cc.Args[0]] {
					if syncMutator(FuncName(sc)) != "" || (InModule(sc) && mutatesReceiver(sc, depth+1)) {
						res = true
					}
				}
			}
		}
	}
	mutRecvMemo[fn] = res
	return res
}

// syncMutator classifies library methods that mutate their receiver in a synchronised way.
func syncMutator(name string) string {
	switch {
	case strings.HasPrefix(name, "(*sync.Map).") && !strings.HasSuffix(name, ".Load") && !strings.HasSuffix(name, ".Range"):
		return "sync.Map"
	case strings.HasPrefix(name, "sync/atomic.") || strings.HasPrefix(name, "(*sync/atomic."):
		if strings.Contains(name, "Load") {
			return ""
		}
		return "atomic"
	}
	return ""
}

func syncReader(name string) string {
	switch {
	case name == "(*sync.Map).Load" || name == "(*sync.Map).Range":
		return "sync.Map"
	case (strings.HasPrefix(name, "sync/atomic.") || strings.HasPrefix(name, "(*sync/atomic.")) && strings.Contains(name, "Load"):
		return "atomic"
	}
	return ""
}

// heldLocks: which mutex fields are held at instruction `at` in fn: acquired by a dominating Lock/RLock and released only by a
// deferred unlock (or by an Unlock that does not dominate `at`).
func heldLocks(o *Origin, fn *ssa.Function, at ssa.Instruction) map[string]string {
	held := map[string]string{}
	for _, b := range fn.Blocks {
		for _, in := range b.Instrs {
			c, ok := in.(*ssa.Call)
			if !ok {
				continue
			}
			name := calleeName(&c.Call)
			mode := ""
			switch name {
			case "(*sync.RWMutex).Lock", "(*sync.Mutex).Lock":
				mode = "mutex-exclusive"
			case "(*sync.RWMutex).RLock":
				mode = "mutex-shared"
			}
			if mode == "" || !o.dominates(c, at) {
				continue
			}
			mf, _ := lockField(c.Call.Args[0])
			// released before `at` by a non-deferred unlock that dominates at?
			released := false
			for _, b2 := range fn.Blocks {
				for _, in2 := range b2.Instrs {
					if c2, ok := in2.(*ssa.Call); ok {
						n2 := calleeName(&c2.Call)
						if (n2 == "(*sync.RWMutex).Unlock" || n2 == "(*sync.Mutex).Unlock" || n2 == "(*sync.RWMutex).RUnlock") && o.dominates(c, c2) && o.dominates(c2, at) {
							if f2, _ := lockField(c2.Call.Args[0]); f2 == mf {
								released = true
							}
						}
					}
				}
			}
			if !released {
				held[mf] = mode
			}
		}
	}
	return held
}

func lockField(v ssa.Value) (string, bool) {
	if fa, ok := v.(*ssa.FieldAddr); ok {
		return fieldName(fa.X.Type(), fa.Field), true
	}
	return v.Name(), false
}

// LAccesses enumerates reads and writes of long-lived non-store memory in the given functions.
func LAccesses(p *Prog, fns []*ssa.Function) []LAccess {
	var out []LAccess
	for _, fn := range fns {
		if fn.Blocks == nil || p.IsGenerated(fn) {
			continue
		}
		var o *Origin
		syncOf := func(in ssa.Instruction, base string) string {
			if o == nil {
				o = NewOrigin(p, fn)
			}
			for _, mode := range heldLocks(o, fn, in) {
				return mode
			}
			return base
		}
		add := func(in ssa.Instruction, loc string, w bool, how, sy string) {
			out = append(out, LAccess{Fn: fn, Instr: in, Loc: loc, Write: w, How: how, Sync: syncOf(in, sy)})
		}
		for _, b := range fn.Blocks {
			for _, in := range b.Instrs {
				switch x := in.(type) {
				case *ssa.Store:
					if g := globalOf(x.Addr); g != nil && InModulePkg(g.Pkg) {
						add(in, "global:"+shortPkg(g.Pkg.Pkg.Path())+"."+g.Name(), true, "assignment", "")
					} else if loc, ok := longLivedField(p, x.Addr); ok {
						add(in, loc, true, "field assignment", "")
					} else if ia, ok := x.Addr.(*ssa.IndexAddr); ok {
						// element store through a long-lived slice/array
						if u, ok := ia.X.(*ssa.UnOp); ok && u.Op == token.MUL {
							if loc, ok := longLivedFieldRef(p, u.X); ok {
								add(in, loc, true, "element assignment", "")
							}
						}
					}
				case *ssa.MapUpdate:
					if g := globalOf(x.Map); g != nil && InModulePkg(g.Pkg) {
						add(in, "global:"+shortPkg(g.Pkg.Pkg.Path())+"."+g.Name(), true, "map assignment", "")
					} else if u, ok := x.Map.(*ssa.UnOp); ok && u.Op == token.MUL {
						if loc, ok := longLivedFieldRef(p, u.X); ok {
							add(in, loc, true, "map assignment", "")
							continue
						}
					}
					// the map is (part of) what a package-level variable holds, reached through a by-value copy of the variable
					// or a helper that hands such a copy out: a struct copy shares its maps with the original
					if o == nil {
						o = NewOrigin(p, fn)
					}
					if g := aliasedGlobal(p, o.Of(x.Map)); g != "" && !isInitFunc(fn) {
						add(in, "global:"+g, true, "map assignment through a copy of the variable (the copy shares the map)", "")
					}
				case *ssa.UnOp:
					if x.Op != token.MUL {
						continue
					}
					// loading a map only to assign into / delete from it is part of the write, not a read
					onlyWriteUse := false
					if refs := x.Referrers(); refs != nil && len(*refs) > 0 {
						onlyWriteUse = true
						for _, rf := range *refs {
							switch u := rf.(type) {
							case *ssa.MapUpdate:
								if u.Map != ssa.Value(x) {
									onlyWriteUse = false
								}
							case *ssa.DebugRef:
							case ssa.CallInstruction:
								cc := u.Common()
								if bi, ok := cc.Value.(*ssa.Builtin); ok && bi.Name() == "delete" && cc.Args[0] == ssa.Value(x) {
									continue
								}
								// receiver of a method that only mutates (sync.Map.Store/Delete, a module method writing its receiver)
								if sc := cc.StaticCallee(); sc != nil && len(cc.Args) > 0 && cc.Args[0] == ssa.Value(x) && syncMutator(FuncName(sc)) != "" && !strings.Contains(sc.Name(), "Load") && sc.Name() != "Swap" && sc.Name() != "CompareAndSwap" {
									continue
								}
								onlyWriteUse = false
							default:
								onlyWriteUse = false
							}
						}
					}
					if onlyWriteUse {
						continue
					}
					if g, ok := x.X.(*ssa.Global); ok && InModulePkg(g.Pkg) {
						add(in, "global:"+shortPkg(g.Pkg.Pkg.Path())+"."+g.Name(), false, "read", "")
					} else if fa, isFA := x.X.(*ssa.FieldAddr); isFA && globalOf(fa) != nil && InModulePkg(globalOf(fa).Pkg) {
						// a field of a package-level struct variable (`cur.store`, `cur.height`) is a read of that variable
						g := globalOf(fa)
						add(in, "global:"+shortPkg(g.Pkg.Pkg.Path())+"."+g.Name(), false, "read of a field", "")
					} else if loc, ok := longLivedFieldRef(p, x.X); ok {
						// reading a reference-typed field (map, slice, pointer) of a by-value copy still reads the shared object
						// … and a scalar field of the copy is the value the long-lived struct held when the method was called
						add(in, loc, false, "read", "")
					}
				case *ssa.Field:
					// field of a by-value receiver/parameter that was not spilled to a local
					if _, isPrm := x.X.(*ssa.Parameter); isPrm {
						if n, ok := x.X.Type().(*types.Named); ok && n.Obj().Pkg() != nil && strings.HasPrefix(n.Obj().Pkg().Path(), ModPath) && !isWireStruct(p, n) && longLivedTypes(p)[n.String()] {
							add(in, "field:"+shortPkg(n.String())+"."+fieldName(x.X.Type(), x.Field), false, "read", "")
						}
					}
				case *ssa.Lookup:
					// reads through a loaded map are covered by the load of the map itself
				case ssa.CallInstruction:
					cc := x.Common()
					if bi, ok := cc.Value.(*ssa.Builtin); ok && bi.Name() == "delete" && len(cc.Args) > 0 {
						if g := globalOf(cc.Args[0]); g != nil && InModulePkg(g.Pkg) {
							add(in, "global:"+shortPkg(g.Pkg.Pkg.Path())+"."+g.Name(), true, "map delete", "")
						} else if u, ok := cc.Args[0].(*ssa.UnOp); ok && u.Op == token.MUL {
							if loc, ok := longLivedFieldRef(p, u.X); ok {
								add(in, loc, true, "map delete", "")
							}
						}
					}
					if cc.IsInvoke() {
						// a method of the object behind an interface value that lives in a package-level variable of the module: the
						// object is shared by every caller and keeps whatever state its methods keep (a hash, a buffer, a cache)
						if u, ok := cc.Value.(*ssa.UnOp); ok && u.Op == token.MUL {
							if g, ok := u.X.(*ssa.Global); ok && InModulePkg(g.Pkg) && !statelessIfaceMethod(cc) {
								loc := "global:" + shortPkg(g.Pkg.Pkg.Path()) + "." + g.Name()
								add(in, loc, true, "call of "+cc.Method.Name()+" on the shared object behind the interface variable (it keeps state between calls)", "")
								add(in, loc, false, "call of "+cc.Method.Name()+" on the shared object behind the interface variable (it hands back state kept from other calls)", "")
							}
						}
						continue
					}
					if bi, isB := cc.Value.(*ssa.Builtin); isB && bi.Name() == "copy" && len(cc.Args) == 2 {
						// copy(dst, …) with dst a (re-slice of a) package-level slice value: writes the array every holder of that value shares
						d := cc.Args[0]
						for k := 0; k < 4; k++ {
							if sl, ok := d.(*ssa.Slice); ok {
								d = sl.X
								continue
							}
							if ct, ok := d.(*ssa.ChangeType); ok {
								d = ct.X
								continue
							}
							break
						}
						if u, ok := d.(*ssa.UnOp); ok && u.Op == token.MUL {
							if g, ok := u.X.(*ssa.Global); ok && InModulePkg(g.Pkg) && !isInitFunc(fn) {
								add(in, "global:"+shortPkg(g.Pkg.Pkg.Path())+"."+g.Name(), true, "copy into the array the package-level slice shares with every value taken from it", "")
								add(in, "global:"+shortPkg(g.Pkg.Pkg.Path())+"."+g.Name(), false, "read (the slice value handed out aliases that array)", "")
							}
						}
					}
					sc := cc.StaticCallee()
					if sc == nil || len(cc.Args) == 0 {
						continue
					}
					// method call whose receiver is (the address or the value of) a long-lived field or a global
					recv := cc.Args[0]
					loc := ""
					if l, ok := longLivedField(p, recv); ok {
						loc = l
					} else if u, ok := recv.(*ssa.UnOp); ok && u.Op == token.MUL {
						if l, ok := longLivedFieldRef(p, u.X); ok && isRefType(u.Type()) {
							loc = l
						} else if l, ok := longLivedField(p, u.X); ok {
							loc = l
						} else if g, ok := u.X.(*ssa.Global); ok && InModulePkg(g.Pkg) {
							loc = "global:" + shortPkg(g.Pkg.Pkg.Path()) + "." + g.Name()
						}
					} else if g, ok := recv.(*ssa.Global); ok && InModulePkg(g.Pkg) {
						loc = "global:" + shortPkg(g.Pkg.Pkg.Path()) + "." + g.Name()
					}
					if loc == "" || sc.Signature.Recv() == nil {
						continue
					}
					name := FuncName(sc)
					if sy := syncMutator(name); sy != "" {
						add(in, loc, true, "call "+name, sy)
						// read-modify-write methods hand back what another call stored
						// … when the caller looks at what they hand back (a counter that is only bumped is written, not read)
						if mn := sc.Name(); (strings.HasPrefix(mn, "Load") || strings.Contains(mn, "Swap") || strings.HasPrefix(mn, "Add") || strings.HasPrefix(mn, "CompareAnd")) && resultIsUsed(in) {
							add(in, loc, false, "call "+name+" (hands back the stored value)", sy)
						}
					} else if sy := syncReader(name); sy != "" {
						add(in, loc, false, "call "+name, sy)
					} else if InModule(sc) && mutatesReceiver(resolveBound(sc), 0) {
						add(in, loc, true, "call "+name+" (mutates its receiver)", "")
					} else if lib := statefulLibrary(name); lib != "" {
						// a library object that keeps state between calls (in-flight call table, cache): every use both writes and reads it
						add(in, loc, true, "call "+name+" ("+lib+" keeps state between calls)", "exclusive")
						add(in, loc, false, "call "+name+" ("+lib+" hands back state kept from other calls)", "exclusive")
					}
				}
			}
		}
	}
	sort.SliceStable(out, func(i, j int) bool {
		if out[i].Loc != out[j].Loc {
			return out[i].Loc < out[j].Loc
		}
		return out[i].Fn.String() < out[j].Fn.String()
	})
	return out
}

// aliasedGlobal: t denotes (a component of) the content of a module package-level variable — a chain of field selections,
// dereferences and value copies down to the variable, with no call in between. Returns the variable's name.
func aliasedGlobal(p *Prog, t *Term) string {
	for i := 0; i < 12 && t != nil; i++ {
		switch t.Op {
		case "gval", "global":
			if i := strings.LastIndex(t.Name, "."); i > 0 {
				if _, isMod := p.All[ModPath+"/"+t.Name[:i]]; isMod || strings.HasPrefix(t.Name, "pverif/fixture/") {
					return t.Name
				}
			}
			return ""
		case "field", "deref", "addr", "fieldaddr":
			if len(t.Args) == 0 {
				return ""
			}
			t = t.Args[0]
		default:
			return ""
		}
	}
	return ""
}

func InModulePkg(pk *ssa.Package) bool {
	return pk != nil && strings.HasPrefix(pk.Pkg.Path(), ModPath)
}

// consensusEntries: the functions block processing starts from.
func consensusEntries(p *Prog) []*ssa.Function {
	var out []*ssa.Function
	out = append(out, p.AllHandlers("MsgServer")...)
	for _, m := range p.Msgs() {
		for _, n := range []string{"ValidateBasic", "GetSigners"} {
			if f := p.MethodOf(m, n); f != nil {
				out = append(out, f)
			}
		}
	}
	for _, mod := range []string{"x/aol", "x/did", "x/pnft", "x/burn"} {
		if am := p.Named(Rel(mod), "AppModule"); am != nil {
			for _, n := range []string{"BeginBlock", "EndBlock", "InitGenesis"} {
				if f := p.MethodOf(am, n); f != nil {
					out = append(out, f)
				}
			}
		}
	}
	w := BuildWire(p)
	for _, fns := range upgradeHandlerFns(p, w) {
		out = append(out, fns...)
	}
	// every function of the application with the signature of an upgrade handler (a wrapper around the descriptors' handlers runs
	// inside the upgrade block too)
	for _, f := range p.ModFuncs {
		if f.Blocks == nil || p.IsGenerated(f) || !(InPkgs(f, "app") || InPkgs(f, "x")) {
			continue
		}
		sig := f.Signature
		if sig.Params().Len() == 3 && sig.Results().Len() == 2 &&
			strings.HasSuffix(sig.Params().At(0).Type().String(), "cosmos-sdk/types.Context") &&
			strings.HasSuffix(sig.Params().At(1).Type().String(), "x/upgrade/types.Plan") &&
			strings.HasSuffix(sig.Params().At(2).Type().String(), "types/module.VersionMap") {
			out = append(out, f)
		}
	}
	// methods of module types handed to the SDK as interfaces (parameter stores, hooks, decorators): those that take an
	// sdk.Context are called while blocks are processed
	for _, n := range sdkFacingTypes(p) {
		for _, T := range []types.Type{n, types.NewPointer(n)} {
			ms := p.SSA.MethodSets.MethodSet(T)
			for i := 0; i < ms.Len(); i++ {
				f := p.SSA.MethodValue(ms.At(i))
				if f == nil || f.Synthetic != "" || !InModule(f) || f.Blocks == nil {
					continue
				}
				takesCtx := false
				for _, prm := range f.Params {
					if strings.HasSuffix(prm.Type().String(), "cosmos-sdk/types.Context") {
						takesCtx = true
					}
				}
				if takesCtx {
					out = append(out, f)
				}
			}
		}
	}
	return out
}

func moduleScope(p *Prog, entries []*ssa.Function) ([]*ssa.Function, *Reach) {
	reach := p.ReachFrom(entries, func(f *ssa.Function) bool { return InModule(f) && !p.IsGenerated(f) })
	var scope []*ssa.Function
	for _, f := range reach.Order {
		if InModule(f) && !p.IsGenerated(f) && f.Blocks != nil {
			scope = append(scope, f)
		}
	}
	sort.Slice(scope, func(i, j int) bool { return scope[i].String() < scope[j].String() })
	return scope, reach
}

// hiddenStateChannels: locations of L that are written by a function in `writers` scope (outside init) and read by a function in `readers` scope.
func hiddenStateChannels(p *Prog, writers, readers []*ssa.Function) (channels map[string][2][]LAccess, allWrites []LAccess) {
	channels = map[string][2][]LAccess{}
	w := map[string][]LAccess{}
	for _, a := range LAccesses(p, writers) {
		if a.Write && !isInitFunc(a.Fn) {
			w[a.Loc] = append(w[a.Loc], a)
			allWrites = append(allWrites, a)
		}
	}
	rd := map[string][]LAccess{}
	for _, a := range LAccesses(p, readers) {
		if !a.Write {
			rd[a.Loc] = append(rd[a.Loc], a)
		}
	}
	for loc, ws := range w {
		if rs, ok := rd[loc]; ok {
			channels[loc] = [2][]LAccess{ws, rs}
		}
	}
	return
}

func describeAccess(p *Prog, a LAccess) string {
	return fmt.Sprintf("%s in %s at %s", a.How, FuncName(a.Fn), p.Pos(a.Instr.Pos()))
}

func isRefType(t types.Type) bool {
	switch t.Underlying().(type) {
	case *types.Map, *types.Slice, *types.Pointer, *types.Chan:
		return true
	}
	return false
}

var sdkFacing []*types.Named

// sdkFacingTypes: struct types of the module whose values the application wiring hands to code outside the module as an
// interface (a parameter store given to baseapp, a hook, an ante decorator …). The SDK keeps such a value for the life of the
// process and calls its methods during block processing.
func sdkFacingTypes(p *Prog) []*types.Named {
	if sdkFacing != nil {
		return sdkFacing
	}
	seen := map[string]bool{}
	sdkFacing = []*types.Named{}
	for _, fn := range p.ModFuncs {
		if !(InPkgs(fn, "app") || InPkgs(fn, "x")) || p.IsGenerated(fn) {
			continue
		}
		var mis []*ssa.MakeInterface
		for _, cs := range callSites(fn) {
			if cs.Callee != nil && InModule(cs.Callee) {
				continue
			}
			for _, a := range cs.Instr.Common().Args {
				if mi, ok := a.(*ssa.MakeInterface); ok {
					mis = append(mis, mi)
				}
			}
		}
		// … and values converted to an interface the SDK declares (elements of a decorator chain, hooks lists)
		for _, b := range fn.Blocks {
			for _, in := range b.Instrs {
				mi, ok := in.(*ssa.MakeInterface)
				if !ok {
					continue
				}
				if in, ok := mi.Type().(*types.Named); ok && in.Obj().Pkg() != nil && !strings.HasPrefix(in.Obj().Pkg().Path(), ModPath) &&
					(strings.Contains(in.Obj().Pkg().Path(), "cosmos-sdk") || strings.Contains(in.Obj().Pkg().Path(), "ibc-go")) {
					mis = append(mis, mi)
				}
			}
		}
		{
			for _, mi := range mis {
				t := mi.X.Type()
				if pt, isPtr := t.Underlying().(*types.Pointer); isPtr {
					t = pt.Elem()
				}
				n, ok := t.(*types.Named)
				if !ok || n.Obj().Pkg() == nil || !strings.HasPrefix(n.Obj().Pkg().Path(), ModPath) || seen[n.String()] {
					continue
				}
				if _, isStruct := n.Underlying().(*types.Struct); !isStruct {
					continue
				}
				name := n.Obj().Name()
				if strings.HasPrefix(name, "AppModule") || name == "App" || strings.HasPrefix(name, "Msg") || strings.HasPrefix(name, "Query") || strings.HasPrefix(name, "Genesis") || isWireStruct(p, n) {
					continue
				}
				seen[n.String()] = true
				sdkFacing = append(sdkFacing, n)
			}
		}
	}
	return sdkFacing
}

// statefulLibrary: pointer-receiver methods of well-known library types whose whole purpose is to remember things between calls.
func statefulLibrary(name string) string {
	for _, p := range []struct{ prefix, what string }{
		{"(*golang.org/x/sync/singleflight.Group).", "singleflight.Group"},
		{"(*github.com/hashicorp/golang-lru", "LRU cache"},
		{"(*github.com/patrickmn/go-cache.", "go-cache"},
		{"(*github.com/allegro/bigcache", "bigcache"},
		{"(*github.com/dgraph-io/ristretto.", "ristretto cache"},
		{"(*container/list.List).", "container/list"},
		{"(*github.com/golang/groupcache", "groupcache"},
	} {
		if strings.HasPrefix(name, p.prefix) {
			return p.what
		}
	}
	return ""
}

// ---------------------------------------------------------------------------------------------
// Foreign objects consulted without a context.
//
// Block-processing code reads consensus state through a Context (stores, block header). A method called on an object that a
// long-lived module struct holds (a keeper field), implemented outside the module and given no Context, cannot read the stores
// at the block being processed: whatever it answers comes from the process's own memory (wiring-time configuration at best, a
// value some earlier call left there at worst). The few such objects the module legitimately uses are listed with the reason.

var contextFreeForeign = map[string]string{
	"sdk/codec.Codec":                   "stateless (de)serialisation over the interface registry fixed at wiring time",
	"sdk/codec.BinaryCodec":             "stateless (de)serialisation over the interface registry fixed at wiring time",
	"sdk/codec.JSONCodec":               "stateless (de)serialisation over the interface registry fixed at wiring time",
	"*sdk/codec.LegacyAmino":            "stateless (de)serialisation over the type table sealed at start-up",
	"*sdk/codec.ProtoCodec":             "stateless (de)serialisation over the interface registry fixed at wiring time",
	"sdk/x/params/keeper.Keeper":        "Subspace/GetSubspaces hand out the subspace table built at wiring time; values are read with a Context",
	"*sdk/baseapp.MsgServiceRouter":     "route table fixed at wiring time (handler lookup by message type)",
	"*sdk/baseapp.GRPCQueryRouter":      "route table fixed at wiring time",
	"sdk/codec/types.InterfaceRegistry": "type registry fixed at wiring time (Any resolution)",
	"sdk/codec/types.AnyUnpacker":       "type registry fixed at wiring time (Any resolution)",
}

// contextFreeMethods: methods that answer from wiring-time constants whatever their receiver (reviewed by name).
var contextFreeMethods = map[string]string{
	"GetModuleAddress":               "address derived from the module name / the permission table fixed at wiring time",
	"GetModuleAddressAndPermissions": "permission table fixed at wiring time",
	"GetModulePermissions":           "permission table fixed at wiring time",
	"BlockedAddr":                    "blocked-address set fixed at wiring time",
	"GetBlockedAddresses":            "blocked-address set fixed at wiring time",
	"GetAuthority":                   "authority address fixed at wiring time",
	"Name":                           "store key / module name",
	"String":                         "rendering of a value",
}

type foreignCall struct {
	Fn    *ssa.Function
	Instr ssa.CallInstruction
	Loc   string
	Recv  string
	Name  string
}

// contextFreeForeignCalls lists the calls in fns on an object held in a long-lived field, implemented outside the module, that
// receive no Context. allowed tells whether the receiver type is in the reviewed table.
func contextFreeForeignCalls(p *Prog, fns []*ssa.Function) (bad, allowed []foreignCall) {
	for _, fn := range fns {
		if fn.Blocks == nil || p.IsGenerated(fn) || isInitFunc(fn) {
			continue
		}
		for _, cs := range callSites(fn) {
			cc := cs.Instr.Common()
			if cs.Callee != nil && InModule(cs.Callee) {
				continue
			}
			var recv ssa.Value
			if cc.IsInvoke() {
				recv = cc.Value
			} else if cs.Callee != nil && cs.Callee.Signature.Recv() != nil && len(cc.Args) > 0 {
				recv = cc.Args[0]
			}
			if recv == nil {
				continue
			}
			hasCtx := false
			for _, a := range cc.Args {
				if ts := a.Type().String(); strings.HasSuffix(ts, "/types.Context") || ts == "context.Context" {
					hasCtx = true
				}
			}
			if hasCtx {
				continue
			}
			loc := ""
			if u, ok := recv.(*ssa.UnOp); ok && u.Op == token.MUL {
				if l, ok := longLivedFieldRef(p, u.X); ok {
					loc = l
				}
			}
			if l, ok := longLivedField(p, recv); ok {
				loc = l
			}
			if loc == "" {
				continue
			}
			rt := shortPkg(recv.Type().String())
			fc := foreignCall{Fn: fn, Instr: cs.Instr, Loc: loc, Recv: rt, Name: cs.Name}
			mname := ""
			if cc.IsInvoke() {
				mname = cc.Method.Name()
			} else if cs.Callee != nil {
				mname = cs.Callee.Name()
			}
			if _, ok := contextFreeForeign[rt]; ok {
				allowed = append(allowed, fc)
			} else if _, ok := contextFreeMethods[mname]; ok {
				allowed = append(allowed, fc)
			} else {
				bad = append(bad, fc)
			}
		}
	}
	return
}

// statelessIfaceMethod: interface methods that by their contract only read the object (error values, codecs, loggers' level
// tests, Stringers) — calling them on a shared object is not a use of shared mutable state.
func statelessIfaceMethod(cc *ssa.CallCommon) bool {
	if cc.Method == nil {
		return true
	}
	recv := cc.Value.Type().String()
	switch cc.Method.Name() {
	case "Error", "String", "Is", "As", "Unwrap", "ABCICode", "Codespace", "Wrap", "Wrapf":
		return true
	}
	// codecs, interface registries, loggers: stateless or internally synchronised by contract
	for _, s := range []string{"/codec.", "/codec/types.", "log.Logger", "codec.Codec", "BinaryCodec", "JSONCodec", "InterfaceRegistry"} {
		if strings.Contains(recv, s) {
			return true
		}
	}
	return false
}

// resultIsUsed: the call's value has a use other than debug references.
func resultIsUsed(in ssa.Instruction) bool {
	v, ok := in.(ssa.Value)
	if !ok || v.Referrers() == nil {
		return false
	}
	for _, rf := range *v.Referrers() {
		if _, isDbg := rf.(*ssa.DebugRef); !isDbg {
			return true
		}
	}
	return false
}
