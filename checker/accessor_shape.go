package main

import (
	"fmt"
	"go/token"
	"strings"

	"golang.org/x/tools/go/ssa"
)

// checkAccessorShape: the meaning every handler-level rule attaches to an accessor call.
//
//	Set/Delete : the single store operation executes on every path (it dominates every return) and, for Set, the value
//	             written is the codec's marshalling of the accessor's own value parameter;
//	Get        : the value returned is what the codec unmarshals from the bytes read under the key parameter;
//	Has        : the result is the store's Has for the key parameter.
//
// fn must contain exactly the one store operation `so`.
func checkAccessorShape(p *Prog, r *Report, key, what string, so StoreOp, nOpsInFn int) {
	fn := so.Fn
	site := p.FnPos(fn)
	rule := "accessor shape: " + what
	if nOpsInFn != 1 {
		r.Fail(key, rule, site, fmt.Sprintf("%s performs %d store operations; an accessor performs exactly one (a read-before-write or a second write changes what a call to it means for every handler)", FuncName(fn), nOpsInFn))
		return
	}
	o := so.o
	if o == nil {
		o = NewOrigin(p, fn)
	}
	in := so.Instr.(ssa.Instruction)
	switch so.Op {
	case "Set", "Delete":
		for _, ret := range returnsOf(fn) {
			if !o.dominates(in, ret) {
				r.Fail(key, rule, p.Pos(ret.Pos()), fmt.Sprintf("%s can return without performing its %s (conditional write): handlers that rely on the write — counters, sequence bumps, tombstones — silently lose it on that path", FuncName(fn), so.Op))
				return
			}
		}
		if so.Op == "Set" {
			v := so.Val
			ok := v != nil && v.Op == "call" && strings.Contains(v.Name, "Marshal") && !strings.Contains(v.Name, "Unmarshal") &&
				v.Contains(func(x *Term) bool { return x.Op == "param" })
			hasParam := false
			if ok {
				// the marshalled object is (the address of) a parameter, untouched
				for _, a := range v.Args {
					t := a
					if t.Op == "addr" && len(t.Args) == 1 {
						t = t.Args[0]
					}
					if t.Op == "param" {
						hasParam = true
					}
				}
			}
			if !ok || !hasParam {
				r.Fail(key, rule, p.Pos(in.Pos()), fmt.Sprintf("%s does not store the marshalling of its own value parameter: stored value = %v", FuncName(fn), v))
				return
			}
		}
	case "Get":
		for _, ret := range returnsOf(fn) {
			t := o.Of(ret.Results[0])
			okZero := t.Op == "lit" && len(t.Args) == 0
			okVal := t.Op == "outparam" && strings.Contains(t.Name, "Unmarshal")
			if !okZero && !okVal && zeroOrUnmarshalled(p, fn, ret.Results[0], in) {
				okVal = true // `var v T; if bz != nil { Unmarshal(bz, &v) }; return v`: the zero value or the decoded entry, in one return
			}
			if !okZero && !okVal {
				r.Fail(key, rule, p.Pos(ret.Pos()), fmt.Sprintf("%s returns %v, not the value unmarshalled from the store (or the zero value for a missing key)", FuncName(fn), t))
				return
			}
			// the store read itself is unconditional: a value handed back without reading the store (a cache hit, a default)
			// is not the committed entry of the context the caller passed
			if !o.dominates(in, ret) {
				r.Fail(key, rule, p.Pos(ret.Pos()), fmt.Sprintf("%s can return without reading the store (the Get is conditional): what it returns on that path is not the entry of the store branch it was called with", FuncName(fn)))
				return
			}
		}
	case "Has":
		for _, ret := range returnsOf(fn) {
			t := o.Of(ret.Results[0])
			if !(t.Op == "call" && strings.HasSuffix(t.Name, ".Has")) {
				r.Fail(key, rule, p.Pos(ret.Pos()), fmt.Sprintf("%s returns %v, not the store's Has(key)", FuncName(fn), t))
				return
			}
		}
	}
	r.OK(key, rule, site, so.Op+" accessor has the canonical shape")
}

// zeroOrUnmarshalled: v is the load of a local that nothing writes except one Unmarshal call, which receives its address and is
// executed exactly when the bytes the store operation `get` returned are not nil.
func zeroOrUnmarshalled(p *Prog, fn *ssa.Function, v ssa.Value, get ssa.Instruction) bool {
	u, ok := unspill(v).(*ssa.UnOp)
	if !ok || u.Op != token.MUL {
		return false
	}
	al, ok := u.X.(*ssa.Alloc)
	if !ok || al.Referrers() == nil {
		return false
	}
	getV, ok := get.(ssa.Value)
	if !ok {
		return false
	}
	var call ssa.CallInstruction
	for _, rf := range *al.Referrers() {
		switch x := rf.(type) {
		case *ssa.DebugRef:
		case *ssa.UnOp:
			if x.Op != token.MUL {
				return false
			}
		case *ssa.MakeInterface:
			// &v boxed into the codec's interface parameter: its only use is the Unmarshal call
			if x.Referrers() == nil {
				return false
			}
			for _, r2 := range *x.Referrers() {
				ci, isCall := r2.(ssa.CallInstruction)
				if !isCall || !strings.Contains(calleeName(ci.Common()), "Unmarshal") || call != nil {
					return false
				}
				call = ci
			}
		case ssa.CallInstruction:
			if !strings.Contains(calleeName(x.Common()), "Unmarshal") || call != nil {
				return false
			}
			call = x
		default:
			return false
		}
	}
	if call == nil {
		return false
	}
	in, ok := call.(ssa.Instruction)
	if !ok {
		return false
	}
	// decoded exactly when the bytes are there: the call's path condition is `bz != nil` …
	o := NewOrigin(p, fn)
	fa := NewFacts(p, fn, o)
	notNil := fNot(cmpAtom("==", o.Of(getV), o.Of(ssa.NewConst(nil, getV.Type()))))
	F := fa.At(in.Block())
	if !Entails(F, notNil) {
		return false
	}
	// … and nothing else (under bz != nil the call always runs): the block is reached whenever bz != nil holds after the read
	return Entails(fAnd(fa.At(get.Block()), notNil), F)
}
