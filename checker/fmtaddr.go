package main

import (
	"go/types"
	"strings"

	"golang.org/x/tools/go/ssa"
)

// FMTADDR — fmt's default formats print a pointer that sits below the top level of an operand as its address, and the dynamic
// value of an interface field likewise when it is a pointer without a String/Error method (the generated oneof wrappers). Such
// text differs between processes; in an event, a store value or an error message it is consensus-visible.

var stringerIface, errorIface *types.Interface

func init() {
	errorIface = types.Universe.Lookup("error").Type().Underlying().(*types.Interface)
	sig := types.NewSignatureType(nil, nil, nil, nil, types.NewTuple(types.NewVar(0, nil, "", types.Typ[types.String])), false)
	stringerIface = types.NewInterfaceType([]*types.Func{types.NewFunc(0, nil, "String", sig)}, nil)
	stringerIface.Complete()
}

func formatsItself(t types.Type) bool {
	return types.Implements(t, stringerIface) || types.Implements(t, errorIface)
}

// printsAddress: formatting a value of type t with %v (at nesting depth d of fmt's printValue) prints a memory address.
func printsAddress(p *Prog, t types.Type, depth int, seen map[types.Type]bool) bool {
	if depth > 6 || seen[t] {
		return false
	}
	seen[t] = true
	defer delete(seen, t)
	if depth > 0 && formatsItself(t) {
		return false
	}
	switch u := t.Underlying().(type) {
	case *types.Basic:
		return u.Kind() == types.UnsafePointer
	case *types.Pointer:
		if depth == 0 {
			switch u.Elem().Underlying().(type) {
			case *types.Struct, *types.Array, *types.Slice, *types.Map:
				return printsAddress(p, u.Elem(), depth+1, seen)
			}
		}
		return true
	case *types.Chan, *types.Signature:
		return true
	case *types.Struct:
		for i := 0; i < u.NumFields(); i++ {
			if !u.Field(i).Exported() && strings.HasPrefix(u.Field(i).Name(), "XXX_") {
				continue
			}
			if printsAddress(p, u.Field(i).Type(), depth+1, seen) {
				return true
			}
		}
	case *types.Slice:
		if b, ok := u.Elem().Underlying().(*types.Basic); ok && b.Kind() == types.Byte {
			return false
		}
		return printsAddress(p, u.Elem(), depth+1, seen)
	case *types.Array:
		return printsAddress(p, u.Elem(), depth+1, seen)
	case *types.Map:
		return printsAddress(p, u.Key(), depth+1, seen) || printsAddress(p, u.Elem(), depth+1, seen)
	case *types.Interface:
		// a named interface of the module (a oneof): what its implementations print
		n, ok := t.(*types.Named)
		if !ok || n.Obj().Pkg() == nil || !strings.HasPrefix(n.Obj().Pkg().Path(), ModPath) {
			return false
		}
		for _, impl := range p.ImplementersOf(u) {
			var it types.Type = impl
			if !types.Implements(it, u) {
				it = types.NewPointer(impl)
			}
			if depth+1 > 0 && formatsItself(it) {
				continue
			}
			if _, isPtr := it.(*types.Pointer); isPtr {
				return true
			}
			if printsAddress(p, it, depth+1, seen) {
				return true
			}
		}
	}
	return false
}

// fmtOperandTypes: the static types of the operands of a variadic fmt call (the values wrapped into the ...any slice).
func fmtOperandTypes(c *ssa.Call) []types.Type {
	args := c.Call.Args
	if len(args) == 0 {
		return nil
	}
	sl, ok := args[len(args)-1].(*ssa.Slice)
	if !ok {
		return nil
	}
	al, ok := sl.X.(*ssa.Alloc)
	if !ok || al.Referrers() == nil {
		return nil
	}
	var out []types.Type
	for _, rf := range *al.Referrers() {
		ia, ok := rf.(*ssa.IndexAddr)
		if !ok || ia.Referrers() == nil {
			continue
		}
		for _, r2 := range *ia.Referrers() {
			st, ok := r2.(*ssa.Store)
			if !ok {
				continue
			}
			if mi, ok := st.Val.(*ssa.MakeInterface); ok {
				out = append(out, mi.X.Type())
			}
		}
	}
	return out
}

// fmtPrintsAddress: the call renders an operand whose default format contains a memory address.
func fmtPrintsAddress(p *Prog, c *ssa.Call) (types.Type, bool) {
	name := calleeName(&c.Call)
	switch name {
	case "fmt.Sprintf", "fmt.Errorf", "fmt.Sprint", "fmt.Sprintln", "fmt.Appendf", "fmt.Append":
	default:
		return nil, false
	}
	if name == "fmt.Sprintf" || name == "fmt.Errorf" || name == "fmt.Appendf" {
		fi := 0
		if name == "fmt.Appendf" {
			fi = 1
		}
		if k, ok := c.Call.Args[fi].(*ssa.Const); ok && k.Value != nil {
			f := k.Value.ExactString()
			if !strings.Contains(f, "%v") && !strings.Contains(f, "%+v") && !strings.Contains(f, "%#v") && !strings.Contains(f, "%s") {
				return nil, false
			}
		}
	}
	for _, t := range fmtOperandTypes(c) {
		if printsAddress(p, t, 0, map[types.Type]bool{}) {
			return t, true
		}
	}
	return nil, false
}
