package main

// Local time zone as a non-deterministic source (C09-D1).
//
// time.Unix/UnixMilli/UnixMicro, Time.Local, Time.In(loc) and time.Date(…, loc) with loc ≠ time.UTC yield a Time whose
// location is the node's configured zone (TZ, /etc/localtime). Every wall-clock rendering of such a value — Format, String,
// the calendar accessors, the text/JSON marshallers, fmt's %v/%s — differs between nodes in different zones. Unix*, Equal,
// Before/After, Sub, Compare and anything after .UTC() do not depend on the zone. ctx.BlockTime() is UTC by construction
// (the header time is converted with .UTC() by CometBFT), parameters and fields are not classified (no alarm).

import (
	"fmt"
	"strings"

	"golang.org/x/tools/go/ssa"
)

var zoneDependentTimeMethods = map[string]bool{
	"Format": true, "AppendFormat": true, "String": true, "GoString": true, "Date": true, "Clock": true, "Year": true, "Month": true, "Day": true,
	"Hour": true, "Minute": true, "Second": false, "Weekday": true, "YearDay": true, "ISOWeek": true, "Zone": true, "ZoneBounds": true, "Location": true,
	"MarshalJSON": true, "MarshalText": true, "MarshalBinary": true, "GobEncode": true, "IsDST": true,
}

func isUTCLoc(v ssa.Value) bool {
	if u, ok := v.(*ssa.UnOp); ok {
		if g, ok := u.X.(*ssa.Global); ok && g.Pkg != nil && g.Pkg.Pkg.Path() == "time" && g.Name() == "UTC" {
			return true
		}
	}
	return false
}

// localZoneTime: v is definitely a time.Time carrying the node's local (or another non-UTC, environment-resolved) location.
func localZoneTime(v ssa.Value, depth int) bool {
	if depth > 6 {
		return false
	}
	switch x := v.(type) {
	case *ssa.Call:
		name := calleeName(&x.Call)
		switch name {
		case "time.Unix", "time.UnixMilli", "time.UnixMicro", "(time.Time).Local":
			return true
		case "time.Date":
			n := len(x.Call.Args)
			return n > 0 && !isUTCLoc(x.Call.Args[n-1])
		case "(time.Time).In":
			return len(x.Call.Args) == 2 && !isUTCLoc(x.Call.Args[1])
		case "(time.Time).Add", "(time.Time).AddDate", "(time.Time).Truncate", "(time.Time).Round":
			return len(x.Call.Args) > 0 && localZoneTime(x.Call.Args[0], depth+1)
		}
	case *ssa.Phi:
		for _, e := range x.Edges {
			if localZoneTime(e, depth+1) {
				return true
			}
		}
	case *ssa.UnOp:
		// load of a local variable with a single store
		if al, ok := x.X.(*ssa.Alloc); ok {
			if refs := al.Referrers(); refs != nil {
				for _, rf := range *refs {
					if st, ok := rf.(*ssa.Store); ok && st.Addr == al && localZoneTime(st.Val, depth+1) {
						return true
					}
				}
			}
		}
	}
	return false
}

// zoneDependentUse: call x renders a local-zone Time (directly, or through a fmt-style variadic). Returns a description.
func zoneDependentUse(x *ssa.Call) string {
	name := calleeName(&x.Call)
	if strings.HasPrefix(name, "(time.Time).") {
		m := strings.TrimPrefix(name, "(time.Time).")
		if zoneDependentTimeMethods[m] && len(x.Call.Args) > 0 && localZoneTime(x.Call.Args[0], 0) {
			return name + " on a Time in the node's local zone"
		}
		return ""
	}
	if strings.HasPrefix(name, "fmt.") || strings.HasSuffix(name, "Wrapf") || strings.HasSuffix(name, "Errorf") || strings.HasSuffix(name, "NewAttribute") {
		for _, a := range x.Call.Args {
			// direct interface argument
			if mi, ok := a.(*ssa.MakeInterface); ok && isTimeType(mi.X) && localZoneTime(mi.X, 0) {
				return name + " formats a Time in the node's local zone"
			}
			// variadic slice
			if sl, ok := a.(*ssa.Slice); ok {
				if al, ok := sl.X.(*ssa.Alloc); ok {
					if refs := al.Referrers(); refs != nil {
						for _, rf := range *refs {
							if ia, ok := rf.(*ssa.IndexAddr); ok {
								if ir := ia.Referrers(); ir != nil {
									for _, r2 := range *ir {
										if st, ok := r2.(*ssa.Store); ok {
											if mi, ok := st.Val.(*ssa.MakeInterface); ok && isTimeType(mi.X) && localZoneTime(mi.X, 0) {
												return name + " formats a Time in the node's local zone"
											}
										}
									}
								}
							}
						}
					}
				}
			}
		}
	}
	return ""
}

func isTimeType(v ssa.Value) bool {
	s := v.Type().String()
	return s == "time.Time" || s == "*time.Time"
}

const zoneFixture = `package zonefx

import (
	"fmt"
	"time"
)

func Local(n int64) string { return time.Unix(0, n).Format(time.RFC3339) }

func UTC(n int64) string { return time.Unix(0, n).UTC().Format(time.RFC3339) }

func Sprint(n int64) string { return fmt.Sprintf("at %v", time.Unix(n, 0)) }

func Seconds(n int64) int64 { return time.Unix(0, n).Unix() }
`

// zoneControl: the matcher fires on local-zone renderings and stays silent after .UTC() and on zone-independent accessors.
func zoneControl(p *Prog, r *Report, key string) {
	fx, err := buildFixture(p, "zonefx", zoneFixture)
	if err != nil {
		r.Undecided(key, "positive control for the local-time-zone rule", "checker/c09_zone.go", "fixture does not build: "+err.Error())
		return
	}
	hits := func(name string) int {
		n := 0
		for _, b := range fx[name].Blocks {
			for _, in := range b.Instrs {
				if c, ok := in.(*ssa.Call); ok && zoneDependentUse(c) != "" {
					n++
				}
			}
		}
		return n
	}
	got := fmt.Sprintf("%d/%d/%d/%d", hits("Local"), hits("UTC"), hits("Sprint"), hits("Seconds"))
	r.Check(got == "1/0/1/0", key, "positive control: the matcher flags Format/%v of a time.Unix value and accepts .UTC() and Unix()", "checker/c09_zone.go (in-memory fixture, not executed)",
		"fixture hits "+got, "fixture hits "+got+", expected 1/0/1/0: the matcher is broken")
}
