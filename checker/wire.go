package main

// WIRE — evaluation of the literal application configuration in app/ (DESIGN.md §2.2):
// store keys, module-account permissions, module manager, block orders, upgrades, ante chain.

import (
	"fmt"
	"go/ast"
	"go/constant"
	"go/token"
	"go/types"
	"sort"
	"strings"

	"golang.org/x/tools/go/ssa"
)

type Wire struct {
	p           *Prog
	StoreKeys   []string // names passed to sdk.NewKVStoreKeys
	StoreKeyPos token.Pos
	StoreModule map[string]string // store key -> module name (ModuleName constant of the package the key constant comes from)
	MaccPerms   map[string][]string
	MaccPos     token.Pos
	Orders      map[string][]string // SetOrderBeginBlockers/EndBlockers/InitGenesis/ExportGenesis -> names
	Manager     []string            // package paths of the NewAppModule constructors passed to module.NewManager
	ManagerPos  token.Pos
	Basics      []string // package paths of the AppModuleBasic values in ModuleBasics
	Upgrades    []UpgradeDesc
	UpgradesPos token.Pos
	Ante        []string // constructor names in ChainAnteDecorators
	AntePos     token.Pos
	KeyUses     []KeyUse
	Problems    []string
}

type UpgradeDesc struct {
	Pkg     string // package path the element comes from
	Name    string
	Added   []string
	Deleted []string
	Renamed int
	Handler string // function assigned to CreateUpgradeHandler
	Pos     token.Pos
}

type KeyUse struct {
	Map    string // keys | tkeys | memKeys
	Name   string // constant key name
	Callee string // function the expression is an argument of ("" if none)
	Arg    int
	Pos    token.Pos
}

func constStr(info *types.Info, e ast.Expr) (string, bool) {
	tv, ok := info.Types[e]
	if !ok || tv.Value == nil || tv.Value.Kind() != constant.String {
		return "", false
	}
	return constant.StringVal(tv.Value), true
}

func calleeObj(info *types.Info, call *ast.CallExpr) types.Object {
	switch f := call.Fun.(type) {
	case *ast.Ident:
		return info.Uses[f]
	case *ast.SelectorExpr:
		return info.Uses[f.Sel]
	}
	return nil
}

func objFull(o types.Object) string {
	if o == nil {
		return ""
	}
	if f, ok := o.(*types.Func); ok {
		return shortPkg(f.FullName())
	}
	if o.Pkg() != nil {
		return shortPkg(o.Pkg().Path()) + "." + o.Name()
	}
	return o.Name()
}

// constList evaluates a list of expressions to string constants.
func (w *Wire) constList(info *types.Info, es []ast.Expr, what string) []string {
	var out []string
	for _, e := range es {
		s, ok := constStr(info, e)
		if !ok {
			w.Problems = append(w.Problems, fmt.Sprintf("%s: non-constant element at %s", what, w.p.Pos(e.Pos())))
			continue
		}
		out = append(out, s)
	}
	return out
}

// resolveSliceLit resolves an expression to the elements of a []string composite literal (following a local/package variable).
func (w *Wire) resolveSliceLit(info *types.Info, files []*ast.File, e ast.Expr) ([]ast.Expr, bool) {
	switch x := e.(type) {
	case *ast.CompositeLit:
		return x.Elts, true
	case *ast.Ident:
		obj := info.Uses[x]
		if obj == nil {
			obj = info.Defs[x]
		}
		if obj == nil {
			return nil, false
		}
		var found []ast.Expr
		ok := false
		n := 0
		for _, f := range files {
			ast.Inspect(f, func(nd ast.Node) bool {
				switch s := nd.(type) {
				case *ast.AssignStmt:
					for i, l := range s.Lhs {
						if id, isId := l.(*ast.Ident); isId && (info.Defs[id] == obj || info.Uses[id] == obj) && i < len(s.Rhs) {
							n++
							if cl, isCl := s.Rhs[i].(*ast.CompositeLit); isCl {
								found, ok = cl.Elts, true
							} else if _, isCall := s.Rhs[i].(*ast.CallExpr); isCall {
								found, ok = w.resolveSliceLit(info, files, s.Rhs[i]) // v := listHelper()
							}
						}
					}
				case *ast.ValueSpec:
					for i, id := range s.Names {
						if info.Defs[id] == obj && i < len(s.Values) {
							n++
							if cl, isCl := s.Values[i].(*ast.CompositeLit); isCl {
								found, ok = cl.Elts, true
							} else if _, isCall := s.Values[i].(*ast.CallExpr); isCall {
								found, ok = w.resolveSliceLit(info, files, s.Values[i])
							}
						}
					}
				}
				return true
			})
		}
		if n != 1 {
			return nil, false // reassigned: not a fixed configuration
		}
		return found, ok
	case *ast.CallExpr:
		// f(args) / recv.m(args) declared in these files whose body has exactly one return statement returning a composite
		// literal (an extracted "list of …" helper)
		obj := calleeObj(info, x)
		if obj == nil {
			return nil, false
		}
		for _, f := range files {
			for _, d := range f.Decls {
				fd, isFn := d.(*ast.FuncDecl)
				if !isFn || fd.Body == nil || info.Defs[fd.Name] != obj {
					continue
				}
				var rets []*ast.ReturnStmt
				ast.Inspect(fd.Body, func(nd ast.Node) bool {
					if _, isLit := nd.(*ast.FuncLit); isLit {
						return false
					}
					if rs, isRet := nd.(*ast.ReturnStmt); isRet {
						rets = append(rets, rs)
					}
					return true
				})
				if len(rets) == 1 && len(rets[0].Results) == 1 {
					if els, ok := w.resolveBuiltSlice(info, files, fd, rets[0].Results[0]); ok {
						return els, true
					}
					return w.resolveSliceLit(info, files, rets[0].Results[0])
				}
			}
		}
	}
	return nil, false
}

// resolveBuiltSlice: the function returns a local slice that its straight-line body builds by appending — `v := make(…)` (or a
// literal, or a bare declaration) followed only by `v = append(v, e…)` / `v = append(v, list…)` statements: the concatenation of the
// appended elements, lists resolved recursively. Any other statement in the body, or any control flow, gives up.
func (w *Wire) resolveBuiltSlice(info *types.Info, files []*ast.File, fd *ast.FuncDecl, ret ast.Expr) ([]ast.Expr, bool) {
	rid, ok := ret.(*ast.Ident)
	if !ok {
		return nil, false
	}
	obj := info.Uses[rid]
	if obj == nil {
		return nil, false
	}
	var out []ast.Expr
	defined := false
	for _, st := range fd.Body.List {
		switch x := st.(type) {
		case *ast.ReturnStmt:
			if !defined {
				return nil, false
			}
			return out, true
		case *ast.DeclStmt:
			gd, ok := x.Decl.(*ast.GenDecl)
			if !ok || len(gd.Specs) != 1 {
				return nil, false
			}
			vs, ok := gd.Specs[0].(*ast.ValueSpec)
			if !ok || len(vs.Names) != 1 || info.Defs[vs.Names[0]] != obj || len(vs.Values) > 1 {
				return nil, false
			}
			if len(vs.Values) == 1 {
				els, ok := w.resolveSliceLit(info, files, vs.Values[0])
				if !ok {
					return nil, false
				}
				out = append(out, els...)
			}
			defined = true
		case *ast.AssignStmt:
			if len(x.Lhs) != 1 || len(x.Rhs) != 1 {
				return nil, false
			}
			lid, ok := x.Lhs[0].(*ast.Ident)
			if !ok || (info.Defs[lid] != obj && info.Uses[lid] != obj) {
				return nil, false
			}
			if !defined {
				// v := make([]T, 0, n) | v := []T{…}
				if c, isCall := x.Rhs[0].(*ast.CallExpr); isCall {
					if fid, isId := c.Fun.(*ast.Ident); isId && fid.Name == "make" {
						if len(c.Args) >= 2 {
							if k, isC := constInt(info, c.Args[1]); !isC || k != 0 {
								return nil, false
							}
						}
						defined = true
						continue
					}
				}
				els, ok := w.resolveSliceLit(info, files, x.Rhs[0])
				if !ok {
					return nil, false
				}
				out = append(out, els...)
				defined = true
				continue
			}
			c, isCall := x.Rhs[0].(*ast.CallExpr)
			if !isCall {
				return nil, false
			}
			fid, isId := c.Fun.(*ast.Ident)
			if !isId || fid.Name != "append" || len(c.Args) < 1 {
				return nil, false
			}
			if a0, isId := c.Args[0].(*ast.Ident); !isId || info.Uses[a0] != obj {
				return nil, false
			}
			if c.Ellipsis.IsValid() {
				if len(c.Args) != 2 {
					return nil, false
				}
				els, ok := w.resolveSliceLit(info, files, c.Args[1])
				if !ok {
					return nil, false
				}
				out = append(out, els...)
			} else {
				out = append(out, c.Args[1:]...)
			}
		default:
			return nil, false
		}
	}
	return nil, false
}

func constInt(info *types.Info, e ast.Expr) (int64, bool) {
	if tv, ok := info.Types[e]; ok && tv.Value != nil {
		if v, exact := constant.Int64Val(tv.Value); exact {
			return v, true
		}
	}
	return 0, false
}

func BuildWire(p *Prog) *Wire {
	w := &Wire{p: p, MaccPerms: map[string][]string{}, Orders: map[string][]string{}}
	for _, pkgRel := range []string{"app", "app/keepers"} {
		pk := p.All[Rel(pkgRel)]
		if pk == nil {
			w.Problems = append(w.Problems, "package "+pkgRel+" not loaded")
			continue
		}
		info := pk.TypesInfo
		for _, f := range pk.Syntax {
			ast.Inspect(f, func(nd ast.Node) bool {
				switch x := nd.(type) {
				case *ast.CallExpr:
					name := objFull(calleeObj(info, x))
					switch {
					case name == "sdk/types.NewKVStoreKeys":
						keyArgs := x.Args
						if x.Ellipsis.IsValid() && len(keyArgs) == 1 {
							// NewKVStoreKeys(names...) with the names in a package-level slice or a list helper
							if elts, ok := w.resolveSliceLit(info, pk.Syntax, keyArgs[0]); ok {
								keyArgs = elts
							} else {
								w.Problems = append(w.Problems, "NewKVStoreKeys: argument list is not a fixed literal at "+p.Pos(x.Pos()))
							}
						}
						w.StoreKeys = append(w.StoreKeys, w.constList(info, keyArgs, "NewKVStoreKeys")...)
						w.StoreKeyPos = x.Pos()
						// module owning each store key: the ModuleName constant declared next to the StoreKey constant used
						for _, a := range keyArgs {
							k, ok := constStr(info, a)
							if !ok {
								continue
							}
							mod := k
							if sel, ok := a.(*ast.SelectorExpr); ok && sel.Sel.Name == "StoreKey" {
								// only the module's primary store key stands for the module; any other key (MemStoreKey, a literal) is its own store
								if o := info.Uses[sel.Sel]; o != nil && o.Pkg() != nil {
									if mn, ok := o.Pkg().Scope().Lookup("ModuleName").(*types.Const); ok && mn.Val().Kind() == constant.String {
										mod = constant.StringVal(mn.Val())
									}
								}
							}
							if w.StoreModule == nil {
								w.StoreModule = map[string]string{}
							}
							w.StoreModule[k] = mod
						}
					case strings.HasSuffix(name, "types/module.Manager).SetOrderBeginBlockers"),
						strings.HasSuffix(name, "types/module.Manager).SetOrderEndBlockers"),
						strings.HasSuffix(name, "types/module.Manager).SetOrderInitGenesis"),
						strings.HasSuffix(name, "types/module.Manager).SetOrderExportGenesis"):
						key := name[strings.LastIndex(name, ".")+1:]
						args := x.Args
						if x.Ellipsis.IsValid() && len(args) == 1 {
							if elts, ok := w.resolveSliceLit(info, pk.Syntax, args[0]); ok {
								args = elts
							} else {
								w.Problems = append(w.Problems, key+": argument list is not a fixed literal at "+p.Pos(x.Pos()))
							}
						}
						w.Orders[key] = w.constList(info, args, key)
					case name == "sdk/types/module.NewManager":
						w.ManagerPos = x.Pos()
						mgrArgs := x.Args
						if x.Ellipsis.IsValid() && len(mgrArgs) == 1 {
							// NewManager(list...) with the modules in a list helper
							if elts, ok := w.resolveSliceLit(info, pk.Syntax, mgrArgs[0]); ok {
								mgrArgs = elts
							}
						}
						for _, a := range mgrArgs {
							if c, ok := a.(*ast.CallExpr); ok {
								if o := calleeObj(info, c); o != nil && o.Pkg() != nil {
									w.Manager = append(w.Manager, o.Pkg().Path())
									continue
								}
							}
							w.Problems = append(w.Problems, "module.NewManager: argument is not a constructor call at "+p.Pos(a.Pos()))
						}
					case name == "sdk/types/module.NewBasicManager":
						for _, a := range x.Args {
							if tv, ok := info.Types[a]; ok {
								if n, ok := tv.Type.(*types.Named); ok && n.Obj().Pkg() != nil {
									w.Basics = append(w.Basics, n.Obj().Pkg().Path())
								}
							}
						}
					case name == "sdk/types.ChainAnteDecorators":
						w.AntePos = x.Pos()
						anteArgs := x.Args
						if x.Ellipsis.IsValid() && len(x.Args) == 1 {
							// ChainAnteDecorators(list...) — a variable or an extracted helper holding the literal list
							if els, ok := w.resolveSliceLit(info, pk.Syntax, x.Args[0]); ok {
								anteArgs = els
							}
						}
						for _, a := range anteArgs {
							if c, ok := a.(*ast.CallExpr); ok {
								w.Ante = append(w.Ante, objFull(calleeObj(info, c)))
							} else {
								w.Ante = append(w.Ante, "?")
								w.Problems = append(w.Problems, "ChainAnteDecorators: argument is not a constructor call at "+p.Pos(a.Pos()))
							}
						}
					}
					// keys[...] used as call arguments
					for i, a := range x.Args {
						if ku, ok := w.keyIndex(info, a); ok {
							ku.Callee = name
							ku.Arg = i
							w.KeyUses = append(w.KeyUses, ku)
						}
					}
				case *ast.ValueSpec:
					for i, id := range x.Names {
						if i >= len(x.Values) {
							continue
						}
						switch id.Name {
						case "maccPerms":
							if cl, ok := x.Values[i].(*ast.CompositeLit); ok {
								w.MaccPos = cl.Pos()
								for _, el := range cl.Elts {
									kv, ok := el.(*ast.KeyValueExpr)
									if !ok {
										continue
									}
									k, ok := constStr(info, kv.Key)
									if !ok {
										w.Problems = append(w.Problems, "maccPerms: non-constant key at "+p.Pos(kv.Pos()))
										continue
									}
									var perms []string
									if vl, ok := kv.Value.(*ast.CompositeLit); ok {
										perms = w.constList(info, vl.Elts, "maccPerms["+k+"]")
									}
									w.MaccPerms[k] = perms
								}
							}
						case "Upgrades":
							if cl, ok := x.Values[i].(*ast.CompositeLit); ok {
								w.UpgradesPos = cl.Pos()
								for _, el := range cl.Elts {
									w.Upgrades = append(w.Upgrades, w.upgradeOf(info, el))
								}
							}
						}
					}
				}
				return true
			})
		}
	}
	// every keys[...] index expression anywhere in app/ (also outside call arguments)
	return w
}

func (w *Wire) keyIndex(info *types.Info, e ast.Expr) (KeyUse, bool) {
	ix, ok := e.(*ast.IndexExpr)
	if !ok {
		return KeyUse{}, false
	}
	sel, ok := ix.X.(*ast.SelectorExpr)
	if !ok {
		return KeyUse{}, false
	}
	switch sel.Sel.Name {
	case "keys", "tkeys", "memKeys":
	default:
		return KeyUse{}, false
	}
	name, ok := constStr(info, ix.Index)
	if !ok {
		w.Problems = append(w.Problems, "store-key map indexed by a non-constant at "+w.p.Pos(ix.Pos()))
		return KeyUse{}, false
	}
	return KeyUse{Map: sel.Sel.Name, Name: name, Pos: ix.Pos()}, true
}

// upgradeOf resolves one element of the Upgrades slice (a package-level variable initialised by a literal).
func (w *Wire) upgradeOf(info *types.Info, el ast.Expr) UpgradeDesc {
	d := UpgradeDesc{Pos: el.Pos()}
	var obj types.Object
	switch x := el.(type) {
	case *ast.SelectorExpr:
		obj = info.Uses[x.Sel]
	case *ast.Ident:
		obj = info.Uses[x]
	}
	if obj == nil || obj.Pkg() == nil {
		w.Problems = append(w.Problems, "Upgrades: element is not a package-level variable at "+w.p.Pos(el.Pos()))
		return d
	}
	d.Pkg = obj.Pkg().Path()
	pk := w.p.All[d.Pkg]
	if pk == nil {
		w.Problems = append(w.Problems, "Upgrades: package not loaded: "+d.Pkg)
		return d
	}
	found := false
	for _, f := range pk.Syntax {
		ast.Inspect(f, func(nd ast.Node) bool {
			vs, ok := nd.(*ast.ValueSpec)
			if !ok {
				return true
			}
			for i, id := range vs.Names {
				if pk.TypesInfo.Defs[id] != obj || i >= len(vs.Values) {
					continue
				}
				cl, ok := vs.Values[i].(*ast.CompositeLit)
				if !ok {
					continue
				}
				found = true
				for _, e := range cl.Elts {
					kv, ok := e.(*ast.KeyValueExpr)
					if !ok {
						continue
					}
					k, _ := kv.Key.(*ast.Ident)
					if k == nil {
						continue
					}
					switch k.Name {
					case "UpgradeName":
						d.Name, _ = constStr(pk.TypesInfo, kv.Value)
					case "CreateUpgradeHandler":
						switch h := kv.Value.(type) {
						case *ast.Ident:
							d.Handler = objFull(pk.TypesInfo.Uses[h])
						case *ast.SelectorExpr:
							d.Handler = objFull(pk.TypesInfo.Uses[h.Sel])
						default:
							d.Handler = "<literal>"
						}
					case "StoreUpgrades":
						if su, ok := kv.Value.(*ast.CompositeLit); ok {
							for _, se := range su.Elts {
								skv, ok := se.(*ast.KeyValueExpr)
								if !ok {
									continue
								}
								sk, _ := skv.Key.(*ast.Ident)
								scl, _ := skv.Value.(*ast.CompositeLit)
								if sk == nil || scl == nil {
									continue
								}
								switch sk.Name {
								case "Added":
									d.Added = w.constList(pk.TypesInfo, scl.Elts, d.Name+".Added")
								case "Deleted":
									d.Deleted = w.constList(pk.TypesInfo, scl.Elts, d.Name+".Deleted")
								case "Renamed":
									d.Renamed = len(scl.Elts)
								}
							}
						}
					}
				}
			}
			return true
		})
	}
	if !found {
		w.Problems = append(w.Problems, "Upgrades: "+obj.Name()+" in "+shortPkg(d.Pkg)+" is not initialised by a literal")
	}
	return d
}

func has(list []string, s string) bool {
	for _, x := range list {
		if x == s {
			return true
		}
	}
	return false
}

func indexOf(list []string, suffix string) int {
	for i, x := range list {
		if strings.HasSuffix(x, suffix) {
			return i
		}
	}
	return -1
}

// ---------------------------------------------------------------------------------------------
// clauses shared by several properties

// upgradeHandlerClosures returns the closures returned by each registered upgrade's CreateUpgradeHandler.
func upgradeHandlerFns(p *Prog, w *Wire) map[string][]*ssa.Function {
	out := map[string][]*ssa.Function{}
	for _, u := range w.Upgrades {
		if u.Pkg == "" {
			continue
		}
		sp := p.SSAPkg(u.Pkg)
		if sp == nil {
			continue
		}
		for _, fn := range p.ModFuncs {
			if pkgPathOf(fn) == u.Pkg && !p.IsGenerated(fn) {
				out[u.Name] = append(out[u.Name], fn)
			}
		}
	}
	return out
}

// wireStoreOwnership: store key `name` is created, mounted, handed to exactly the expected constructor(s),
// never deleted/renamed by an upgrade, and no upgrade code reaches a mutator of the module.
func wireStoreOwnership(p *Prog, r *Report, w *Wire, clause, name string, allowedCallees []string, mutators func(*ssa.Function) bool, what string) {
	kp := func(rule, rest string) string { return rule + ":" + clause + ":" + rest }
	for _, pr := range w.Problems {
		r.Undecided(kp("WIRE", "config#"+pr), "application configuration must be a literal the checker can evaluate", "app/", pr)
	}
	r.Check(has(w.StoreKeys, name), kp("WIRE", "store:"+name+"#created"), "the module's store key is created by GenerateKeys", p.Pos(w.StoreKeyPos),
		fmt.Sprintf("%q ∈ NewKVStoreKeys(%d names)", name, len(w.StoreKeys)), fmt.Sprintf("%q is not passed to sdk.NewKVStoreKeys: the store is never mounted", name))
	n := 0
	for _, ku := range w.KeyUses {
		if ku.Map != "keys" || ku.Name != name {
			continue
		}
		n++
		ok := false
		for _, a := range allowedCallees {
			if strings.HasSuffix(ku.Callee, a) {
				ok = true
			}
		}
		r.Check(ok, kp("WIRE", "store:"+name+"→"+ku.Callee), "the store key is handed only to its own module's keeper constructor", p.Pos(ku.Pos),
			fmt.Sprintf("keys[%q] is argument %d of %s", name, ku.Arg, ku.Callee),
			fmt.Sprintf("keys[%q] is also given to %s: another keeper can write %s", name, ku.Callee, what))
	}
	r.Floor("uses-of-keys["+name+"]", n, 1)
	for _, u := range w.Upgrades {
		bad := has(u.Deleted, name) || u.Renamed > 0
		r.Check(!bad, kp("WIRE", "upgrade:"+u.Name+"#keeps:"+name), "no registered upgrade deletes or renames the store", p.Pos(u.Pos),
			"not in Deleted/Renamed", fmt.Sprintf("upgrade %s deletes or renames store %q (Deleted=%v, Renamed=%d entries)", u.Name, name, u.Deleted, u.Renamed))
	}
	// REACH from upgrade packages
	for uname, fns := range upgradeHandlerFns(p, w) {
		reach := p.ReachFrom(fns, func(f *ssa.Function) bool { return InModule(f) })
		var hit *ssa.Function
		for _, f := range reach.Order {
			if mutators(f) {
				hit = f
				break
			}
		}
		if hit != nil {
			r.Fail(kp("REACH", "upgrade:"+uname+"→"+FuncName(hit)), "upgrade handlers do not reach the module's store mutators", p.FnPos(hit),
				"definite call chain: "+reach.Chain(hit))
		} else {
			r.OK(kp("REACH", "upgrade:"+uname+"#no-"+name+"-mutator"), "upgrade handlers do not reach the module's store mutators", "app/upgrades",
				fmt.Sprintf("%d functions reachable from the %s upgrade package, none mutates %s", len(reach.Order), uname, what))
		}
	}
	r.Floor("registered-upgrades", len(w.Upgrades), 5)
}

func wireAolStore(p *Prog, r *Report, clause string) {
	w := BuildWire(p)
	m := buildAolModel(p)
	wireStoreOwnership(p, r, w, clause, "aol", []string{"x/aol/keeper.NewKeeper"}, func(f *ssa.Function) bool {
		a := m.acc[f]
		return a != nil && (a.Op == "Set" || a.Op == "Delete")
	}, "AOL data")
}

// wireAnte: the ante chain verifies signatures over GetSigners before any handler runs.
func wireAnte(p *Prog, r *Report, clause string) {
	w := BuildWire(p)
	kp := func(rule, rest string) string { return rule + ":" + clause + ":" + rest }
	for _, pr := range w.Problems {
		r.Undecided(kp("WIRE", "config#"+pr), "application configuration must be a literal the checker can evaluate", "app/", pr)
	}
	need := []string{"x/auth/ante.NewValidateBasicDecorator", "x/auth/ante.NewSetPubKeyDecorator",
		"x/auth/ante.NewSigVerificationDecorator", "x/auth/ante.NewIncrementSequenceDecorator"}
	last := -1
	for _, n := range need {
		i := indexOf(w.Ante, n)
		ok := i >= 0 && i > last
		why := fmt.Sprintf("position %d of %d", i, len(w.Ante))
		r.Check(ok, kp("WIRE", "ante#"+n[strings.LastIndex(n, ".")+1:]), "the ante chain contains, in this relative order, ValidateBasic, SetPubKey, SigVerification, IncrementSequence",
			p.Pos(w.AntePos), why, fmt.Sprintf("%s is missing from ChainAnteDecorators or out of order (chain: %v)", n, w.Ante))
		if i >= 0 {
			last = i
		}
	}
	// signature verification uses the tx config's own sign-mode handler (no wrapper that could substitute the signed bytes)
	okSMH := false
	if pk := p.All[Rel("app")]; pk != nil {
		for _, f := range pk.Syntax {
			ast.Inspect(f, func(nd ast.Node) bool {
				c, ok := nd.(*ast.CallExpr)
				if !ok || objFull(calleeObj(pk.TypesInfo, c)) != "sdk/x/auth/ante.NewSigVerificationDecorator" || len(c.Args) != 2 {
					return true
				}
				smh := c.Args[1]
				// the handler may reach the constructor through a parameter of a list helper: follow it to the helper's call sites
				for depth := 0; depth < 2; depth++ {
					id, isId := smh.(*ast.Ident)
					if !isId {
						break
					}
					arg, okArg := soleArgumentOfParam(pk.TypesInfo, pk.Syntax, id)
					if !okArg {
						break
					}
					smh = arg
				}
				if inner, ok := smh.(*ast.CallExpr); ok && len(inner.Args) == 0 {
					if sel, ok := inner.Fun.(*ast.SelectorExpr); ok && sel.Sel.Name == "SignModeHandler" {
						if id, ok := sel.X.(*ast.Ident); ok {
							if _, isParam := pk.TypesInfo.Uses[id].(*types.Var); isParam {
								okSMH = true
							}
						}
						// … or a field of the application that holds the tx config (app.txConfig): the receiver's static type
						// is the SDK's client.TxConfig interface itself
						if tv, ok := pk.TypesInfo.Types[sel.X]; ok && tv.Type != nil && strings.HasSuffix(tv.Type.String(), "cosmos-sdk/client.TxConfig") {
							if _, isSel := sel.X.(*ast.SelectorExpr); isSel {
								okSMH = true
							}
						}
					}
				}
				return true
			})
		}
	}
	r.Check(okSMH, kp("WIRE", "ante#SigVerification-uses-TxConfig.SignModeHandler"), "signatures are verified over the bytes produced by the tx config's own sign-mode handler (not by a substitute/wrapper)", p.Pos(w.AntePos),
		"NewSigVerificationDecorator(accountKeeper, txConfig.SignModeHandler())", "the sign-mode handler given to the signature verification decorator is not txConfig.SignModeHandler(): the bytes a signature is checked against may differ from the transaction's own sign bytes")
	r.Floor("ante-decorators", len(w.Ante), 13)
	// On every path through app.New, BaseApp.SetAnteHandler is given the decorator chain — in New itself or in a function New
	// calls unconditionally; the chain may be built in place or handed back by a constructor function.
	newFn := p.Func(Rel("app"), "New")
	okCall := false
	isChain := func(o *Origin, v ssa.Value) bool {
		t := o.Of(v)
		if t.IsCall("sdk/types.ChainAnteDecorators") {
			return true
		}
		if t.Op == "call" {
			if g := staticCalleeOfTerm(p, t); g != nil && InModule(g) && g.Blocks != nil {
				go2 := NewOrigin(p, g)
				all, n := true, 0
				for _, ret := range returnsOf(g) {
					n++
					if len(ret.Results) != 1 || !go2.Of(ret.Results[0]).IsCall("sdk/types.ChainAnteDecorators") {
						all = false
					}
				}
				return all && n > 0
			}
		}
		return false
	}
	if newFn != nil {
		no := NewOrigin(p, newFn)
		for _, fn := range p.ModFuncs {
			if !InPkgs(fn, "app") {
				continue
			}
			fo := NewOrigin(p, fn)
			for _, cs := range callSites(fn) {
				if !strings.HasSuffix(cs.Name, "baseapp.BaseApp).SetAnteHandler") || len(cs.Instr.Common().Args) < 2 {
					continue
				}
				if !isChain(fo, cs.Instr.Common().Args[1]) || !unconditionalOnSuccess(fn, cs.Instr, fo) {
					continue
				}
				if fn == newFn {
					okCall = true
					continue
				}
				for _, c2 := range callSites(newFn) {
					if c2.Callee != nil && resolveBound(c2.Callee) == fn && unconditionalOnSuccess(newFn, c2.Instr, no) {
						okCall = true
					}
				}
			}
		}
	}
	r.Check(okCall, kp("WIRE", "app.New→setAnteHandler"), "the ante handler is installed on every path through app.New", "app/app.go",
		"SetAnteHandler(ChainAnteDecorators(…)) is executed on every path through New", "app.New does not (always) install the decorator chain with SetAnteHandler: transactions would run without signature verification")
	// one RegisterMsgServer site per custom module, inside RegisterServices
	for _, mod := range []string{"x/aol", "x/did", "x/pnft"} {
		reg := p.Func(Rel(mod+"/types"), "RegisterMsgServer")
		if reg == nil {
			r.Fail(kp("WIRE", mod+"#RegisterMsgServer"), "anchor", mod, "generated RegisterMsgServer not found")
			continue
		}
		callers, _ := p.CallersOf(reg)
		var names []string
		for _, c := range callers {
			names = append(names, FuncName(c))
		}
		sort.Strings(names)
		ok := len(callers) == 1 && strings.HasSuffix(names[0], "AppModule).RegisterServices")
		if !ok && len(callers) == 1 && strings.Contains(names[0], "AppModule).") {
			// a helper method of the module that only RegisterServices calls
			up, _ := p.CallersOf(callers[0])
			ok = len(up) == 1 && strings.HasSuffix(FuncName(up[0]), "AppModule).RegisterServices")
		}
		r.Check(ok, kp("WIRE", mod+"#MsgServer-registered-once"), "the module's MsgServer is registered exactly once, through RegisterServices", mod+"/module.go",
			"registered in "+strings.Join(names, ","), "RegisterMsgServer is called from: "+strings.Join(names, ", "))
		// … and what is registered is the implementation whose handlers are analysed: the module has exactly one hand-written
		// implementer of its generated MsgServer interface, and the value given to RegisterMsgServer is of that type (a second
		// implementer — a decorating wrapper, an alternative server — would receive the messages instead)
		iface := p.Iface(Rel(mod+"/types"), "MsgServer")
		var impls []string
		if iface != nil {
			for _, n := range p.ImplementersOf(iface) {
				if !strings.HasPrefix(n.Obj().Name(), "Unimplemented") {
					impls = append(impls, n.String())
				}
			}
		}
		sort.Strings(impls)
		regType := ""
		if len(callers) == 1 {
			for _, cs := range callSites(callers[0]) {
				if cs.Callee == nil || resolveBound(cs.Callee) != reg {
					continue
				}
				args := cs.Instr.Common().Args
				if len(args) >= 2 {
					regType = dynamicTypeOf(args[1], 0)
				}
			}
		}
		r.Check(len(impls) == 1 && strings.TrimPrefix(regType, "*") == impls[0], kp("WIRE", mod+"#registered-MsgServer-is-the-analysed-one"),
			"the value registered as the module's MsgServer is the module's single hand-written implementation", mod+"/module.go",
			fmt.Sprintf("registered %s; implementers: %v", shortPkg(regType), impls),
			fmt.Sprintf("RegisterMsgServer is given a %q while the hand-written implementers of %s/types.MsgServer are %v: messages are handled by code other than (or wrapped around) the handlers the rules analyse", shortPkg(regType), mod, impls))
	}
}

// dynamicTypeOf: the concrete type behind an interface value built in place or returned by a module constructor on every path.
func dynamicTypeOf(v ssa.Value, depth int) string {
	if depth > 4 {
		return ""
	}
	switch x := v.(type) {
	case *ssa.MakeInterface:
		return x.X.Type().String()
	case *ssa.ChangeInterface:
		return dynamicTypeOf(x.X, depth+1)
	case *ssa.Call:
		g := x.Call.StaticCallee()
		if g == nil || g.Blocks == nil {
			return ""
		}
		t := ""
		for _, ret := range returnsOf(g) {
			if len(ret.Results) == 0 {
				return ""
			}
			d := dynamicTypeOf(ret.Results[0], depth+1)
			if d == "" || (t != "" && t != d) {
				return ""
			}
			t = d
		}
		return t
	}
	return ""
}

// wireKeyOwnership: the store key `name` is created and handed to its own module's keeper constructor only. A second keeper (or
// a second module) over the same store can write the module's entries behind its handlers, and exports/imports them a second time.
func wireKeyOwnership(p *Prog, r *Report, w *Wire, clause, name string, allowedCallees []string, what string) {
	kp := func(rule, rest string) string { return rule + ":" + clause + ":" + rest }
	r.Check(has(w.StoreKeys, name), kp("WIRE", "store:"+name+"#created"), "the module's store key is created by GenerateKeys", p.Pos(w.StoreKeyPos),
		fmt.Sprintf("%q ∈ NewKVStoreKeys(%d names)", name, len(w.StoreKeys)), fmt.Sprintf("%q is not passed to sdk.NewKVStoreKeys: the store is never mounted", name))
	n := 0
	for _, ku := range w.KeyUses {
		if ku.Map != "keys" || ku.Name != name {
			continue
		}
		n++
		ok := false
		for _, a := range allowedCallees {
			if strings.HasSuffix(ku.Callee, a) {
				ok = true
			}
		}
		r.Check(ok, kp("WIRE", "store:"+name+"→"+ku.Callee), "the store key is handed only to its own module's keeper constructor", p.Pos(ku.Pos),
			fmt.Sprintf("keys[%q] is argument %d of %s", name, ku.Arg, ku.Callee),
			fmt.Sprintf("keys[%q] is also given to %s: a second keeper over the same store can write %s behind the module's handlers, and a second module exports and imports the same entries", name, ku.Callee, what))
		if !ok {
			continue
		}
		// … and it lands in the field the keeper opens its KV store with (not in a neighbouring key slot of the constructor)
		field := constructorField(p, ku.Callee, ku.Arg)
		if field == "" {
			continue // handed on (e.g. to an embedded SDK keeper) rather than stored in a field of its own
		}
		i := strings.LastIndex(ku.Callee, ".")
		root := ku.Callee[:i] + ".Keeper." + field
		used := false
		for _, so := range p.StoreOps() {
			if so.KeyRoot == root {
				used = true
			}
		}
		r.Check(used && field != "<unused parameter>", kp("WIRE", "store:"+name+"→"+ku.Callee+"#opens-the-store"), "the module's committed store key is the key its keeper opens the KV store with", p.Pos(ku.Pos),
			fmt.Sprintf("keys[%q] is stored in %s, which the keeper passes to ctx.KVStore", name, root),
			fmt.Sprintf("keys[%q] is argument %d of %s and ends up in %q, which the keeper never opens a store with: the keeper's store operations go to whatever key sits in the slot it does use (a memory store loses %s at every restart)", name, ku.Arg, ku.Callee, field, what))
	}
	r.Floor("uses-of-keys["+name+"]", n, 1)
}

// checkInitGenesisCallers: the module's genesis import (which stores entries without any authorization) is called by the module's
// own AppModule.InitGenesis only — not by upgrade handlers, migrations or other keepers.
func checkInitGenesisCallers(p *Prog, r *Report, clause, mod string) {
	kp := func(rule, rest string) string { return rule + ":" + clause + ":" + rest }
	ig := p.Func(Rel(mod), "InitGenesis")
	if ig == nil {
		r.Fail(kp("WMC", mod+".InitGenesis#anchor"), "anchor", mod, "InitGenesis not found")
		return
	}
	callers, uses := p.CallersOf(ig)
	n := 0
	for _, c := range callers {
		n++
		ok := pkgPathOf(c) == Rel(mod) && c.Name() == "InitGenesis" && (c.Signature.Recv() != nil || p.delegateOf(c) == ig)
		key := kp("WMC", mod+".InitGenesis<-"+FuncName(c))
		switch {
		case ok:
			r.OK(key, "the genesis import is called by the module's own AppModule.InitGenesis only", p.FnPos(c), FuncName(c))
		case InPkgs(c, "types/testsuite"):
			r.OKTrivial(key, "test-support package", p.FnPos(c), "types/testsuite")
		default:
			r.Fail(key, "the genesis import is called by the module's own AppModule.InitGenesis only", p.FnPos(c),
				FuncName(c)+" runs "+mod+"'s genesis import: it overwrites entries (tombstones, counters, owners) without any of the handlers' checks")
		}
	}
	for _, u := range uses {
		if u.Kind == "ref" {
			r.Fail(kp("WMC", mod+".InitGenesis#value-use@"+FuncName(u.In)), "the genesis import is not passed around as a value", p.Pos(u.Instr.Pos()), "InitGenesis is referenced as a value in "+FuncName(u.In))
		}
	}
	r.Floor("callers-of-"+mod+".InitGenesis", n, 1)
	checkModuleGenesisGlue(p, r, kp, mod)
}

// checkModuleGenesisGlue: the AppModule methods between the JSON file and the module's import/export add nothing of their own —
// AppModule.InitGenesis hands the decoded state to the import on every path that returns (no "nothing to import" shortcut), and
// neither method assigns to a field, element or map entry of the state it passes on (an export that blanks tombstones, an import
// that drops a list).
func checkModuleGenesisGlue(p *Prog, r *Report, kp func(string, string) string, mod string) {
	am := p.Named(Rel(mod), "AppModule")
	if am == nil {
		return
	}
	writesThroughState := func(fn *ssa.Function) (string, bool) {
		for _, b := range fn.Blocks {
			for _, in := range b.Instrs {
				switch x := in.(type) {
				case *ssa.MapUpdate:
					return p.Pos(x.Pos()), true
				case *ssa.Store:
					switch a := x.Addr.(type) {
					case *ssa.IndexAddr:
						// the argument list of a variadic call (a logger's key/value pairs) is a fresh local array
						if _, local := a.X.(*ssa.Alloc); local {
							continue
						}
						return p.Pos(x.Pos()), true
					case *ssa.FieldAddr:
						// a literal of a type declared outside the module (an abci value under construction) is not the genesis state
						if al, local := a.X.(*ssa.Alloc); local {
							if pt, ok := al.Type().Underlying().(*types.Pointer); ok {
								if n, ok := pt.Elem().(*types.Named); ok && (n.Obj().Pkg() == nil || !strings.HasPrefix(n.Obj().Pkg().Path(), ModPath)) {
									continue
								}
							}
						}
						return p.Pos(x.Pos()), true
					}
				}
			}
		}
		return "", false
	}
	if ig := p.MethodOf(am, "InitGenesis"); ig != nil && ig.Blocks != nil {
		inner := p.Func(Rel(mod), "InitGenesis")
		var call ssa.Instruction
		for _, cs := range callSites(ig) {
			if cs.Callee != nil && inner != nil && (resolveBound(cs.Callee) == inner || p.delegateOf(resolveBound(cs.Callee)) == inner) {
				call = cs.Instr.(ssa.Instruction)
			}
		}
		if call == nil {
			// the import may sit behind a helper of the module: any module callee that reaches it
			for _, cs := range callSites(ig) {
				if cs.Callee != nil && InModule(cs.Callee) && inner != nil {
					if p.ReachFrom([]*ssa.Function{cs.Callee}, func(f *ssa.Function) bool { return InModule(f) }).Has(inner) {
						call = cs.Instr.(ssa.Instruction)
					}
				}
			}
		}
		if call != nil {
			ok := true
			at := ""
			for _, ret := range returnsOf(ig) {
				if !call.Block().Dominates(ret.Block()) {
					ok, at = false, p.Pos(ret.Pos())
				}
			}
			r.Check(ok, kp("MUSTCALL", mod+".AppModule.InitGenesis→InitGenesis"), "the module's InitGenesis hands the decoded genesis state to the import on every path that returns", p.FnPos(ig),
				"the import call dominates every return", "AppModule.InitGenesis can return (at "+at+") without having run the import: a genesis file whose state it judges empty is skipped whole — the entries it does hold are gone after the restart")
		}
		// … nor hands its address to a method of the module that rewrites it (a "sanitising" pass between decode and import)
		for _, cs := range callSites(ig) {
			g := cs.Callee
			if g == nil || !InModule(g) || g.Signature.Recv() == nil || len(cs.Instr.Common().Args) == 0 {
				continue
			}
			if al, isAl := cs.Instr.Common().Args[0].(*ssa.Alloc); isAl && mutatesReceiver(resolveBound(g), 0) {
				_ = al
				r.Fail(kp("ORIGIN", mod+".AppModule.InitGenesis#state-passed-on-unchanged"), "the module glue passes the genesis state on as it was decoded", p.Pos(cs.Instr.Pos()),
					"AppModule.InitGenesis calls "+FuncName(g)+" on the decoded state, which rewrites it, before the import: what is imported is not what the file says (entries dropped or merged by the rewrite are gone after a restart from the export)")
			}
		}
		if at, bad := writesThroughState(ig); bad {
			r.Fail(kp("ORIGIN", mod+".AppModule.InitGenesis#state-passed-on-unchanged"), "the module glue passes the genesis state on as it was decoded", at, "AppModule.InitGenesis assigns to a field, element or map entry before the import: what is imported is not what the file says")
		} else {
			r.OK(kp("ORIGIN", mod+".AppModule.InitGenesis#state-passed-on-unchanged"), "the module glue passes the genesis state on as it was decoded", p.FnPos(ig), "no field, element or map assignment in AppModule.InitGenesis")
		}
	}
	if eg := p.MethodOf(am, "ExportGenesis"); eg != nil && eg.Blocks != nil {
		if at, bad := writesThroughState(eg); bad {
			r.Fail(kp("ORIGIN", mod+".AppModule.ExportGenesis#state-passed-on-unchanged"), "the module glue marshals the exported state as the export built it", at, "AppModule.ExportGenesis assigns to a field, element or map entry of the exported state before marshalling it: the file does not say what the stores hold (a blanked tombstone reads as an absent entry on import)")
		} else {
			r.OK(kp("ORIGIN", mod+".AppModule.ExportGenesis#state-passed-on-unchanged"), "the module glue marshals the exported state as the export built it", p.FnPos(eg), "no field, element or map assignment in AppModule.ExportGenesis")
		}
	}
}

// soleArgumentOfParam: id names a parameter of a function declared in files; when every call of that function in files passes
// the same expression text for it and there is at least one call, that argument expression.
func soleArgumentOfParam(info *types.Info, files []*ast.File, id *ast.Ident) (ast.Expr, bool) {
	obj := info.Uses[id]
	if obj == nil {
		return nil, false
	}
	var fn types.Object
	idx := -1
	for _, f := range files {
		for _, d := range f.Decls {
			fd, ok := d.(*ast.FuncDecl)
			if !ok || fd.Type.Params == nil {
				continue
			}
			i := 0
			for _, fld := range fd.Type.Params.List {
				for _, nm := range fld.Names {
					if info.Defs[nm] == obj {
						fn, idx = info.Defs[fd.Name], i
					}
					i++
				}
			}
		}
	}
	if fn == nil || idx < 0 {
		return nil, false
	}
	var arg ast.Expr
	n, same := 0, true
	for _, f := range files {
		ast.Inspect(f, func(nd ast.Node) bool {
			c, ok := nd.(*ast.CallExpr)
			if !ok || calleeObj(info, c) != fn || idx >= len(c.Args) {
				return true
			}
			n++
			if arg != nil && types.ExprString(arg) != types.ExprString(c.Args[idx]) {
				same = false
			}
			arg = c.Args[idx]
			return true
		})
	}
	if n == 0 || !same {
		return nil, false
	}
	return arg, true
}
