package main

// GENJSON — the JSON form of the genesis types is the generated one, except for the reviewed hand-written pairs.
//
// The exported genesis is written by jsonpb and read back by jsonpb. jsonpb hands a value to its own MarshalJSON /
// MarshalJSONPB when the type has one, but on the way back it only honours UnmarshalJSONPB and pointer-receiver UnmarshalJSON of
// the exact message type — a marshaler added to a type inside the genesis state therefore changes what is written without
// (necessarily) changing what is read: the exported file no longer imports, or imports as something else (`null` for an empty
// sub-message, raw JSON for a string). The hand-written (un)marshalers that exist today are reviewed pairs; any other text-form
// method on a type reachable from a module's GenesisState is reported.

import (
	"fmt"
	"go/types"
	"sort"
	"strings"
)

var jsonFormMethods = []string{"MarshalJSON", "UnmarshalJSON", "MarshalJSONPB", "UnmarshalJSONPB", "MarshalAmino", "UnmarshalAmino",
	"MarshalAminoJSON", "UnmarshalAminoJSON", "MarshalText", "UnmarshalText"}

// reviewedJSONForms: type -> methods, with the reason the pair round-trips.
var reviewedJSONForms = map[string]map[string]string{
	"x/did/types.JSONStringOrStrings": {
		"MarshalJSON":   "one string or a list of strings, through json.Marshal",
		"UnmarshalJSON": "inverse of MarshalJSON through json.Unmarshal (string first, then list)",
	},
	"x/did/types.VerificationRelationship": {
		"MarshalJSON":   "the method id as a JSON string or the embedded method through json.Marshal",
		"UnmarshalJSON": "inverse of MarshalJSON through json.Unmarshal / jsonpb (C08 JSONDEC checks the decoding side)",
	},
}

// typesReachableFrom collects the named module types reachable from t through fields, pointers, slices, arrays and maps.
func typesReachableFrom(t types.Type, seen map[string]*types.Named, depth int) {
	if depth > 12 {
		return
	}
	switch x := t.(type) {
	case *types.Pointer:
		typesReachableFrom(x.Elem(), seen, depth+1)
	case *types.Slice:
		typesReachableFrom(x.Elem(), seen, depth+1)
	case *types.Array:
		typesReachableFrom(x.Elem(), seen, depth+1)
	case *types.Map:
		typesReachableFrom(x.Key(), seen, depth+1)
		typesReachableFrom(x.Elem(), seen, depth+1)
	case *types.Named:
		if x.Obj().Pkg() == nil || !strings.HasPrefix(x.Obj().Pkg().Path(), ModPath) {
			return
		}
		if _, ok := seen[x.String()]; ok {
			return
		}
		seen[x.String()] = x
		typesReachableFrom(x.Underlying(), seen, depth+1)
	case *types.Struct:
		for i := 0; i < x.NumFields(); i++ {
			if !strings.HasPrefix(x.Field(i).Name(), "XXX_") {
				typesReachableFrom(x.Field(i).Type(), seen, depth+1)
			}
		}
	case *types.Interface:
		// oneof wrappers: the implementers are generated types of the same package; follow the module's implementers
		if progForFacts != nil && x.NumMethods() > 0 {
			for _, impl := range progForFacts.ImplementersOf(x) {
				typesReachableFrom(impl, seen, depth+1)
			}
		}
	}
}

func checkGenesisJSONForms(p *Prog, r *Report, clause string, mods []string) {
	rule := "the JSON form of every type inside a genesis state is the generated one or a reviewed hand-written marshal/unmarshal pair (jsonpb writes with a type's own marshaler but does not read with its unmarshaler in general)"
	nTypes, nReviewed := 0, 0
	for _, mod := range mods {
		gs := p.Named(Rel(mod+"/types"), "GenesisState")
		if gs == nil {
			r.Fail("GENJSON:"+clause+":"+mod+"#anchor", "anchor", mod+"/types", "GenesisState not found")
			continue
		}
		seen := map[string]*types.Named{}
		typesReachableFrom(gs, seen, 0)
		var names []string
		for k := range seen {
			names = append(names, k)
		}
		sort.Strings(names)
		for _, k := range names {
			n := seen[k]
			nTypes++
			for _, mn := range jsonFormMethods {
				fn := p.MethodOf(n, mn)
				if fn == nil || fn.Blocks == nil || p.IsGenerated(fn) {
					continue
				}
				key := "GENJSON:" + clause + ":" + shortPkg(n.String()) + "." + mn
				if why, ok := reviewedJSONForms[shortPkg(n.String())][mn]; ok {
					nReviewed++
					r.OK(key, rule, p.FnPos(fn), "reviewed: "+why)
					continue
				}
				r.Fail(key, rule, p.FnPos(fn), fmt.Sprintf("%s.%s is a hand-written text form on a type inside %s's genesis state that is not one of the reviewed pairs: the genesis file is written through it but not (necessarily) read through its counterpart, so an exported state may not import, or import as a different state", shortPkg(n.String()), mn, mod))
			}
		}
	}
	r.Floor("types-inside-genesis-states("+clause+")", nTypes, 2)
	r.Count("reviewed-json-forms("+clause+")", nReviewed)
}
