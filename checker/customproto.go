package main

// CUSTOMPROTO — hand-written wire methods of a custom protobuf type delegate to generated code.
//
// gogoproto calls Size(), then MarshalTo() with a buffer of exactly that size, for a field declared with (gogoproto.customtype);
// the checker's reasoned table for the Must* codec calls ("unmarshal of what the same codec wrote cannot fail") rests on the two
// agreeing. The module's custom type (JSONStringOrStrings) gets both from the generated `Strings` message. A hand-computed Size()
// or encoding is arithmetic the checker does not verify: one byte off and a *valid* message is stored as bytes that every later
// read (query, handler, genesis export) panics on in MustUnmarshal*. Rule: Size/Marshal/MarshalTo/MarshalToSizedBuffer/Unmarshal
// written by hand on a module type return what a generated method or proto.Marshal/Unmarshal/Size returned.

import (
	"fmt"
	"go/types"
	"strings"

	"golang.org/x/tools/go/ssa"
)

var wireMethodNames = map[string]bool{"Size": true, "Marshal": true, "MarshalTo": true, "MarshalToSizedBuffer": true, "Unmarshal": true, "XXX_Size": true}

func checkCustomProtoDelegation(p *Prog, r *Report, clause string) {
	rule := "hand-written wire methods (Size, Marshal, MarshalTo, Unmarshal) of a custom protobuf type hand back what generated code or the proto library computed: size and encoding cannot disagree"
	n := 0
	for _, fn := range p.ModFuncs {
		if fn.Signature.Recv() == nil || !wireMethodNames[fn.Name()] || p.IsGenerated(fn) || fn.Blocks == nil || !InPkgs(fn, "x") {
			continue
		}
		// only types that follow gogoproto's custom-type contract (Size and MarshalTo next to Marshal/Unmarshal): a type with just
		// Marshal/Unmarshal of its own (a string key form) is not embedded in generated messages
		rn := recvNamedType(fn)
		if rn == nil || p.MethodOf(rn, "Size") == nil || p.MethodOf(rn, "MarshalTo") == nil {
			continue
		}
		n++
		key := "CUSTOMPROTO:" + clause + ":" + FuncName(fn)
		o := NewOrigin(p, fn)
		o.NoInline = true
		bad := ""
		for _, ret := range returnsOf(fn) {
			if len(ret.Results) == 0 {
				continue
			}
			// the value result (first) — an error result alone (Unmarshal) is judged by the calls in the body below
			t := o.Of(ret.Results[0])
			if fn.Name() == "Unmarshal" {
				continue
			}
			for t.Op == "res" && len(t.Args) == 1 {
				t = t.Args[0]
			}
			okT := false
			if t.Op == "call" {
				if c, isC := t.Val.(*ssa.Call); isC {
					if sc := c.Call.StaticCallee(); sc != nil && (p.IsGenerated(sc) || isProtoLibrary(FuncName(sc))) {
						okT = true
					}
				}
				if isProtoLibrary(t.Name) {
					okT = true
				}
			}
			if t.Op == "const" && t.Name == "nil" {
				okT = true
			}
			if !okT {
				bad = "returns " + clip(t.String(), 120) + " at " + p.Pos(ret.Pos())
			}
		}
		if fn.Name() == "Unmarshal" {
			hasLib := false
			for _, cs := range callSites(fn) {
				if isProtoLibrary(cs.Name) || cs.Callee != nil && p.IsGenerated(cs.Callee) {
					hasLib = true
				}
			}
			if !hasLib {
				bad = "decodes without calling generated code or proto.Unmarshal"
			}
		}
		if bad == "" {
			r.OK(key, rule, p.FnPos(fn), "delegates to generated code / the proto library")
		} else {
			r.Fail(key, rule, p.FnPos(fn), fmt.Sprintf("%s %s: the value is computed by hand — a Size() that disagrees with what MarshalTo writes (or an encoding the generated Unmarshal does not read back) stores bytes that every later MustUnmarshal of the entry panics on", FuncName(fn), bad))
		}
	}
	r.Floor("hand-written-wire-methods", n, 3)
}

func isProtoLibrary(name string) bool {
	return strings.HasSuffix(name, "proto.Marshal") || strings.HasSuffix(name, "proto.Unmarshal") || strings.HasSuffix(name, "proto.Size")
}

func recvNamedType(fn *ssa.Function) *types.Named {
	rv := fn.Signature.Recv()
	if rv == nil {
		return nil
	}
	t := rv.Type()
	if pt, ok := t.(*types.Pointer); ok {
		t = pt.Elem()
	}
	n, _ := t.(*types.Named)
	return n
}
