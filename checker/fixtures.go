package main

// Positive controls for rules whose expected count on the real tree is zero: a tiny source fixture is type-checked against the
// packages already loaded for /repo and built to SSA in memory on every run; the rule's matcher must fire on it. Nothing is
// executed. A matcher that silently stopped matching therefore fails the check instead of passing vacuously.

import (
	"fmt"
	"go/ast"
	"go/parser"
	"go/token"
	"go/types"

	"golang.org/x/tools/go/ssa"
	"golang.org/x/tools/go/ssa/ssautil"
)

type progImporter struct{ p *Prog }

func (pi progImporter) Import(path string) (*types.Package, error) {
	if pk, ok := pi.p.All[path]; ok && pk.Types != nil {
		return pk.Types, nil
	}
	return nil, fmt.Errorf("fixture import %q: package not loaded", path)
}

// fixtureMethods returns the methods of named type T of a fixture package built by buildFixture.
func fixtureMethods(fx map[string]*ssa.Function, T string) []*ssa.Function {
	var out []*ssa.Function
	for n, fn := range fx {
		if len(n) > len(T)+1 && n[:len(T)+1] == T+"." {
			out = append(out, fn)
		}
	}
	return out
}

// buildFixture returns the functions of the fixture package by name; methods are keyed "T.Method".
func buildFixture(p *Prog, name, src string) (map[string]*ssa.Function, error) {
	fset := p.Fset
	f, err := parser.ParseFile(fset, name+".go", src, 0)
	if err != nil {
		return nil, err
	}
	pkg := types.NewPackage("pverif/fixture/"+name, name)
	sp, _, err := ssautil.BuildPackage(&types.Config{Importer: progImporter{p}}, fset, pkg, []*ast.File{f}, ssa.InstantiateGenerics)
	if err != nil {
		return nil, err
	}
	out := map[string]*ssa.Function{}
	for n, m := range sp.Members {
		switch x := m.(type) {
		case *ssa.Function:
			out[n] = x
		case *ssa.Type:
			for _, T := range []types.Type{x.Type(), types.NewPointer(x.Type())} {
				ms := sp.Prog.MethodSets.MethodSet(T)
				for i := 0; i < ms.Len(); i++ {
					if fn := sp.Prog.MethodValue(ms.At(i)); fn != nil && fn.Synthetic == "" {
						out[n+"."+fn.Name()] = fn
					}
				}
			}
		}
	}
	return out, nil
}

var _ = token.NoPos
