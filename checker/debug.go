package main

import (
	"fmt"
	"os"
	"strings"

	"golang.org/x/tools/go/ssa"
)

func init() { register("DBG", dbg) }

var debugHooks []func(p *Prog)

func dbg(p *Prog, r *Report) {
	for _, h := range debugHooks {
		h(p)
	}
	what := os.Getenv("DBG")
	if strings.Contains(what, "errdrop") {
		for _, fn := range p.ModFuncs {
			if fn.Blocks == nil || p.IsGenerated(fn) {
				continue
			}
			_, bad := droppedErrorsIn(p, fn)
			for _, b := range bad {
				fmt.Println("ERRDROP", FuncName(fn), p.Pos(b.Ret.Pos()), b.Why)
			}
		}
	}
	if strings.Contains(what, "storeops") {
		for _, so := range p.StoreOps() {
			fmt.Printf("STOREOP %-50s %-8s root=%-40s prefix=%-40s key=%s\n", FuncName(so.Fn), so.Op, so.KeyRoot, PrefixName(so.Prefix), so.Key)
		}
	}
	if strings.Contains(what, "enum") {
		for _, m := range p.Msgs() {
			fmt.Println("MSG", m)
		}
		for _, m := range p.LegacyMsgs() {
			fmt.Println("LEGACY", m)
		}
		for _, k := range []string{"MsgServer", "QueryServer"} {
			for _, f := range p.AllHandlers(k) {
				fmt.Println(k, FuncName(f), p.FnPos(f))
			}
		}
	}
	if fnname := os.Getenv("DBGFN"); fnname != "" {
		for _, fn := range p.ModFuncs {
			if strings.HasSuffix(FuncName(fn), fnname) {
				o := NewOrigin(p, fn)
				fa := NewFacts(p, fn, o)
				fmt.Println("FUNC", FuncName(fn))
				for _, b := range fn.Blocks {
					fmt.Printf(" block %d cond: %s\n", b.Index, fa.At(b))
					for _, cs := range callSites(fn) {
						if cs.Instr.Block() != b {
							continue
						}
						if v := cs.Instr.Value(); v != nil {
							fmt.Printf("   call %s\n", o.Of(v))
						}
					}
					for range b.Instrs[:0] {
					}
				}
				for _, ret := range returnsOf(fn) {
					for i, rv := range ret.Results {
						fmt.Printf("   return[%d] %s\n", i, o.Of(rv))
					}
				}
			}
		}
	}
	r.Explain = "debug"
	r.OKTrivial("DBG", "debug", "-", "debug")
	r.OK("DBG2", "debug", "-", "debug")
	r.OK("DBG3", "debug", "-", "debug")
}

func init() {
	if os.Getenv("DBGPURE") != "" {
		debugPure = func(fn string, why string) { fmt.Fprintf(os.Stderr, "IMPURE %s: %s\n", fn, why) }
	}
}

func init() {
	debugHooks = append(debugHooks, func(p *Prog) {
		if !strings.Contains(os.Getenv("DBG"), "ctxless") {
			return
		}
		scope, _ := moduleScope(p, consensusEntries(p))
		seen := map[string]int{}
		for _, fn := range scope {
			if fn.Blocks == nil || p.IsGenerated(fn) {
				continue
			}
			for _, cs := range callSites(fn) {
				cc := cs.Instr.Common()
				if cs.Callee != nil && InModule(cs.Callee) {
					continue
				}
				hasCtx := false
				for _, a := range cc.Args {
					if strings.HasSuffix(a.Type().String(), "types.Context") || a.Type().String() == "context.Context" {
						hasCtx = true
					}
				}
				var recv ssa.Value
				if cc.IsInvoke() {
					recv = cc.Value
				} else if cs.Callee != nil && cs.Callee.Signature.Recv() != nil && len(cc.Args) > 0 {
					recv = cc.Args[0]
				}
				if recv == nil || hasCtx {
					continue
				}
				ll := ""
				if u, ok := recv.(*ssa.UnOp); ok {
					if l, ok := longLivedFieldRef(p, u.X); ok {
						ll = l
					}
				}
				if l, ok := longLivedField(p, recv); ok {
					ll = l
				}
				if ll == "" {
					continue
				}
				seen[ll+" :: "+cs.Name]++
			}
		}
		for k, v := range seen {
			fmt.Println("CTXLESS", v, k)
		}
	})
}
