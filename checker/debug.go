package main

import (
	"fmt"
	"os"
	"strings"
)

func init() { register("DBG", dbg) }

func dbg(p *Prog, r *Report) {
	what := os.Getenv("DBG")
	if strings.Contains(what, "storeops") {
		for _, so := range p.StoreOps() {
			fmt.Printf("STOREOP %-50s %-8s root=%-40s prefix=%-40s key=%s\n", FuncName(so.Fn), so.Op, so.KeyRoot, PrefixName(so.Prefix), so.Key)
		}
	}
	if strings.Contains(what, "enum") {
		for _, m := range p.Msgs() {
			fmt.Println("MSG", m)
		}
		for _, m := range p.LegacyMsgs() {
			fmt.Println("LEGACY", m)
		}
		for _, k := range []string{"MsgServer", "QueryServer"} {
			for _, f := range p.AllHandlers(k) {
				fmt.Println(k, FuncName(f), p.FnPos(f))
			}
		}
	}
	if fnname := os.Getenv("DBGFN"); fnname != "" {
		for _, fn := range p.ModFuncs {
			if strings.HasSuffix(FuncName(fn), fnname) {
				o := NewOrigin(p, fn)
				fa := NewFacts(p, fn, o)
				fmt.Println("FUNC", FuncName(fn))
				for _, b := range fn.Blocks {
					fmt.Printf(" block %d cond: %s\n", b.Index, fa.At(b))
					for _, cs := range callSites(fn) {
						if cs.Instr.Block() != b {
							continue
						}
						if v := cs.Instr.Value(); v != nil {
							fmt.Printf("   call %s\n", o.Of(v))
						}
					}
					for range b.Instrs[:0] {
					}
				}
				for _, ret := range returnsOf(fn) {
					for i, rv := range ret.Results {
						fmt.Printf("   return[%d] %s\n", i, o.Of(rv))
					}
				}
			}
		}
	}
	r.Explain = "debug"
	r.OKTrivial("DBG", "debug", "-", "debug")
	r.OK("DBG2", "debug", "-", "debug")
	r.OK("DBG3", "debug", "-", "debug")
}
