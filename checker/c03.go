package main

import "golang.org/x/tools/go/ssa"

func init() {
	register("C03", checkC03)
	register("C04", checkC04)
	register("C05", checkC05)
	register("C11", checkC11)
}

// C03 — DID control: only a holder of a current authentication key changes a DID.
func checkC03(p *Prog, r *Report) {
	checkNoDroppedErrors(p, r, "C03", "x/did/keeper, x/did/types", func(fn *ssa.Function) bool { return InPkgs(fn, "x/did/keeper", "x/did/types") })
	checkNoNilWrap(p, r, "C03", "x/did/keeper, x/did/types", func(fn *ssa.Function) bool { return InPkgs(fn, "x/did/keeper", "x/did/types") })
	r.Explain = "Decided statically: D1 every write to the DID store in a message handler is dominated on all paths by proof(...).err == nil, where `proof` is (by role) the module function from which PubKey.VerifySignature is reachable; D2 the proof's document argument is the *stored* document read under the key being written (update/deactivate) or the submitted, to-be-stored document (create), the signed datum is the document that gets stored (or DIDDocument{Id: did} for deactivation), key id and signature are the message's; D3 inside the proof function every nil-error return is dominated by: key found via doc.Authentications (no other relationship), key type ∈ {ES256K_2019, ES256K_2018} exactly, public key decoded from that method, verify(...).ok; D4 the verifier returns true only under VerifySignature(Marshal(DataWithSeq{Marshal(data), seq}), sig); D5 the lookup reports found only under id equality; D6 only handlers and InitGenesis call the setter. The did store key is handed to the did keeper constructor only."
	r.NotDec = []string{"secp256k1 verification itself (cometbft)", "base58 decoding", "gogoproto marshalling determinism"}
	r.Trusted = []string{"cometbft crypto/secp256k1", "btcutil/base58", "gogoproto"}
	m03 := didRules(p, r, "C03", func(tag string) bool {
		switch tag {
		case "store", "proof", "proofbody", "life", "bind":
			return true
		}
		return false
	})
	// control survives export/import: every entry — tombstones included — is imported under its key (a dropped tombstone lets anybody
	// create the DID again with keys of their own)
	didGenesisRules(p, r, m03, "C03")
	checkLookupBody(p, r, "C03")
	checkSignBytesBindMessage(p, r, "C03", "x/did")
	// stored documents are what handlers wrote: code that rewrites them in a loop (listing, export, migration) decodes each entry
	// into a fresh variable — a reused target merges one DID's keys into the next one's document
	r.Count("in-loop-decode-targets(x/did)", checkLoopFreshDecode(p, r, "C03", func(fn *ssa.Function) bool { return InPkgs(fn, "x/did") && !InPkgs(fn, "x/did/client") }))
	checkInitGenesisCallers(p, r, "C03", "x/did")
	wireKeyOwnership(p, r, BuildWire(p), "C03", "did", []string{"x/did/keeper.NewKeeper"}, "DID documents")
}

// C04 — DID sequence strictly monotonic; no replay.
func checkC04(p *Prog, r *Report) {
	checkNoDroppedErrors(p, r, "C04", "x/did/keeper, x/did/types", func(fn *ssa.Function) bool { return InPkgs(fn, "x/did/keeper", "x/did/types") })
	checkNoNilWrap(p, r, "C04", "x/did/keeper, x/did/types", func(fn *ssa.Function) bool { return InPkgs(fn, "x/did/keeper", "x/did/types") })
	r.Explain = "Decided statically: D1 the sequence stored by a creating handler is the constant 0 and the proof is made over 0; by a modifying handler it is proof(...)[0]; D2 the proof consumes the Sequence field of the entry read under the key being written, the proof function returns the verifier's result unchanged, the verifier returns seq+1 for the same seq that went into the signed bytes, and the signed bytes contain the sequence; D3 the query returns the stored entry unmodified; D4 entries are written only by handlers under this schema and by InitGenesis. Replay rejection follows on paper (see DESIGN.md C04). The did store key is handed to the did keeper constructor only."
	r.NotDec = []string{"signature unforgeability / non-malleability", "uint64 wrap-around"}
	r.Trusted = []string{"cometbft crypto/secp256k1"}
	m := didRules(p, r, "C04", func(tag string) bool {
		switch tag {
		case "store", "seq", "proofbody", "life":
			return true
		}
		return false
	})
	didQueryRules(p, r, m, "C04", false, true, false)
	// the sequence history survives a genesis export/import: every entry (tombstones included) is imported, unchanged, under its key
	didGenesisRules(p, r, m, "C04")
	checkExportLoadsRequestedHeight(p, r, func(rule, rest string) string { return rule + ":C04:" + rest })
	checkNoLanguageDowngrade(p, r, "C04")
	checkGenesisJSONForms(p, r, "C04", []string{"x/did"})
	checkModuleExtensionInterfaces(p, r, "C04", []string{"x/did"})
	checkInitGenesisCallers(p, r, "C04", "x/did")
	wireKeyOwnership(p, r, BuildWire(p), "C04", "did", []string{"x/did/keeper.NewKeeper"}, "DID documents and sequences")
}

// C05 — created at most once; deactivation permanent.
func checkC05(p *Prog, r *Report) {
	checkExportLoadsRequestedHeight(p, r, func(rule, rest string) string { return rule + ":C05:" + rest })
	checkDIDIdentifierLanguage(p, r, func(rule, rest string) string { return rule + ":C05:" + rest })
	checkNoDroppedErrors(p, r, "C05", "x/did/keeper, x/did/types", func(fn *ssa.Function) bool { return InPkgs(fn, "x/did/keeper", "x/did/types") })
	checkNoNilWrap(p, r, "C05", "x/did/keeper, x/did/types", func(fn *ssa.Function) bool { return InPkgs(fn, "x/did/keeper", "x/did/types") })
	r.Explain = "Decided statically: D1 with the emptiness/deactivation predicates expanded by path enumeration into the atoms {Document==nil, Document.Id==\"\", Sequence==0}, the path condition at the write of a creating handler excludes an active entry and a tombstone (truth table), and that of a modifying handler entails an active entry; D2 the tombstone's sequence is the proof's result (stored+1); D3 nothing deletes from the DID store and the query succeeds only for active entries; D4 export/import/list loops have no conditional skip and import stores entries untransformed. The did store key is handed to the did keeper only; the query looks up exactly the base64-decoded request field."
	r.NotDec = []string{"JSON/proto round trip of an empty sub-message", "restart persistence (C10)"}
	r.Trusted = []string{"cosmos-sdk store"}
	m := didRules(p, r, "C05", func(tag string) bool {
		switch tag {
		// proofbody: a tombstone differs from "absent" only by its non-zero sequence, which is the proof's result — the proof must hand
		// back the verifier's seq+1 on every key-type path
		case "store", "life", "seq", "proofbody", "bind":
			return true
		}
		return false
	})
	didQueryRules(p, r, m, "C05", true, false, true)
	didGenesisRules(p, r, m, "C05")
	checkNoLanguageDowngrade(p, r, "C05")
	checkGenesisJSONForms(p, r, "C05", []string{"x/did"})
	checkModuleExtensionInterfaces(p, r, "C05", []string{"x/did"})
	checkInitGenesisCallers(p, r, "C05", "x/did")
	wireKeyOwnership(p, r, BuildWire(p), "C05", "did", []string{"x/did/keeper.NewKeeper"}, "DID documents and tombstones")
}

// C11 — a DID resolves to a document about itself.
func checkC11(p *Prog, r *Report) {
	checkNoDroppedErrors(p, r, "C11", "x/did/keeper, x/did/types", func(fn *ssa.Function) bool { return InPkgs(fn, "x/did/keeper", "x/did/types") })
	checkNoNilWrap(p, r, "C11", "x/did/keeper, x/did/types", func(fn *ssa.Function) bool { return InPkgs(fn, "x/did/keeper", "x/did/types") })
	r.Explain = "Decided statically (presence on every path): D1 for every handler that stores a caller-supplied document under msg.Did, the fact msg.Did == msg.Document.Id is established before the write in the handler or on every nil-returning path of the message's ValidateBasic (which baseapp and the authz/gov/group wrappers run before any handler); a deactivation signs DIDDocument{Id: msg.Did} and stores a tombstone, so it is bound by construction; D2 the signed datum is the stored document, so the proof covers the id. D2 the query looks up exactly the base64-decoded request field (no transformation between the request and the store key); the did store key is handed to the did keeper only."
	r.NotDec = []string{"hand-written genesis files (key vs document id is not validated at import; reported as a note)"}
	r.Trusted = []string{"baseapp runs ValidateBasic before handlers (also for authz/gov/group wrapped messages)"}
	r.Assume = []string{"ValidateBasic-before-handler sequencing of baseapp"}
	m := didRules(p, r, "C11", func(tag string) bool {
		switch tag {
		// proof: an ownership proof is checked against the document stored under the DID being written, so a proof made with keys of
		// another document writes nothing here
		case "bind", "store", "proof":
			return true
		}
		return false
	})
	// the stored bytes of a document are its own: hand-written wire methods of the custom proto types delegate to generated code
	checkCustomProtoDelegation(p, r, "C11")
	// verification-method ids (which proofs name) are rooted at the document's own DID: '<did>#…'
	checkDidDocumentValid(p, r, func(rule, rest string) string { return rule + ":C11:" + rest })
	didQueryRules(p, r, m, "C11", true, false, true)
	// genesis import keeps the binding: every entry is stored whole under the very key it was exported under
	didGenesisRules(p, r, m, "C11")
	checkNoLanguageDowngrade(p, r, "C11")
	checkModuleExtensionInterfaces(p, r, "C11", []string{"x/did"})
	checkInitGenesisCallers(p, r, "C11", "x/did")
	wireKeyOwnership(p, r, BuildWire(p), "C11", "did", []string{"x/did/keeper.NewKeeper"}, "DID documents")
	r.Note("C11-D3: GenesisState.Validate checks key and document validity separately and does not compare the key with Document.Id (genesis files are trusted input; not a violation of the property as stated)")
}
