package main

import (
	"fmt"
	"go/constant"
	"go/token"
	"go/types"
	"os"
	"os/exec"
	"regexp"
	"sort"
	"strings"

	"golang.org/x/tools/go/ssa"
)

func init() { register("C17", checkC17) }

// c17Entries: the functions whose inputs an outsider controls.
func c17Entries(p *Prog) (entries []*ssa.Function, kinds map[*ssa.Function]string) {
	kinds = map[*ssa.Function]string{}
	add := func(f *ssa.Function, k string) {
		if f != nil && f.Blocks != nil {
			if _, ok := kinds[f]; !ok {
				entries = append(entries, f)
			}
			kinds[f] = k
		}
	}
	for _, m := range p.Msgs() {
		add(p.MethodOf(m, "ValidateBasic"), "validate")
		add(p.MethodOf(m, "GetSigners"), "signers")
		add(p.MethodOf(m, "GetSignBytes"), "signbytes")
	}
	for _, h := range p.AllHandlers("MsgServer") {
		add(h, "handler")
	}
	for _, h := range p.AllHandlers("QueryServer") {
		add(h, "query")
	}
	if ks := p.Named(Rel("x/did/client/crypto"), "KeyStore"); ks != nil {
		for _, n := range []string{"Load", "LoadByAddress", "Save"} {
			add(p.MethodOf(ks, n), "keystore")
		}
	}
	for _, mod := range []string{"x/aol", "x/did", "x/pnft", "x/burn"} {
		if am := p.Named(Rel(mod), "AppModule"); am != nil {
			add(p.MethodOf(am, "BeginBlock"), "block")
			add(p.MethodOf(am, "EndBlock"), "block")
		}
	}
	// hand-written codec callbacks invoked reflectively while decoding / sign-byte encoding a message
	for _, tn := range []string{"JSONStringOrStrings", "VerificationRelationship"} {
		if T := p.Named(Rel(didTypesPkg), tn); T != nil {
			for _, n := range []string{"Marshal", "MarshalTo", "Unmarshal", "Size", "MarshalJSON", "UnmarshalJSON"} {
				if f := p.MethodOf(T, n); f != nil && !p.IsGenerated(f) {
					add(f, "codec")
				}
			}
		}
	}
	return
}

// mayPanic: module functions containing an explicit panic, directly or through module callees (computed over the whole module).
func mayPanicSet(p *Prog) map[*ssa.Function]bool {
	direct := map[*ssa.Function]bool{}
	for _, fn := range p.ModFuncs {
		if p.IsGenerated(fn) {
			continue
		}
		for _, b := range fn.Blocks {
			for _, in := range b.Instrs {
				if _, ok := in.(*ssa.Panic); ok {
					direct[fn] = true
				}
			}
		}
	}
	out := map[*ssa.Function]bool{}
	for f := range direct {
		out[f] = true
	}
	changed := true
	for changed {
		changed = false
		for _, fn := range p.ModFuncs {
			if out[fn] || p.IsGenerated(fn) {
				continue
			}
			for _, cs := range callSites(fn) {
				if cs.Callee != nil && out[resolveBound(cs.Callee)] {
					out[fn] = true
					changed = true
				}
			}
		}
	}
	return out
}

// nillableWire: the value is loaded from a pointer-typed field of a wire (generated) struct, or returned by a generated
// one-of / pointer getter: it is nil whenever the field is absent from the decoded bytes.
// decodedPointer: v is the load of a local of pointer type whose address was handed to a decoder (json.Decoder.Decode(&p),
// json.Unmarshal(bz, &p), …): the JSON literal null leaves the pointer nil without any error.
func decodedPointer(v ssa.Value) bool {
	u, ok := v.(*ssa.UnOp)
	if !ok || u.Op != token.MUL {
		return false
	}
	al, ok := u.X.(*ssa.Alloc)
	if !ok {
		return false
	}
	if _, isPtr := al.Type().Underlying().(*types.Pointer).Elem().Underlying().(*types.Pointer); !isPtr {
		return false
	}
	refs := al.Referrers()
	if refs == nil {
		return false
	}
	for _, rf := range *refs {
		var holder ssa.Value = al
		if mi, ok := rf.(*ssa.MakeInterface); ok {
			holder = mi
			if mr := mi.Referrers(); mr != nil {
				for _, r2 := range *mr {
					if c, ok := r2.(ssa.CallInstruction); ok && isDecoderCall(c) {
						return true
					}
				}
			}
			continue
		}
		if c, ok := rf.(ssa.CallInstruction); ok && isDecoderCall(c) {
			for _, a := range c.Common().Args {
				if a == holder {
					return true
				}
			}
		}
	}
	return false
}

func isDecoderCall(c ssa.CallInstruction) bool {
	n := calleeName(c.Common())
	return strings.Contains(n, "Decode") || strings.Contains(n, "Unmarshal")
}

var nilReturnMemo = map[string]int{}

// mayReturnDecodedNil: some return of the module function g hands back, as its idx-th result, a pointer that a decoder may have
// left nil (directly or through another such function), without a dominating non-nil test.
func mayReturnDecodedNil(p *Prog, g *ssa.Function, idx int, depth int) bool {
	if g == nil || g.Blocks == nil || !InModule(g) || depth > 3 {
		return false
	}
	key := fmt.Sprintf("%p/%d", g, idx)
	if v := nilReturnMemo[key]; v != 0 {
		return v == 1
	}
	nilReturnMemo[key] = 2
	res := false
	for _, ret := range returnsOf(g) {
		if idx >= len(ret.Results) {
			continue
		}
		rv := unspill(ret.Results[idx])
		if decodedPointer(rv) {
			res = true
		}
		if ex, ok := rv.(*ssa.Extract); ok {
			if c, ok := ex.Tuple.(*ssa.Call); ok && mayReturnDecodedNil(p, resolveBoundOrNil(c.Call.StaticCallee()), ex.Index, depth+1) {
				res = true
			}
		}
		if c, ok := rv.(*ssa.Call); ok && mayReturnDecodedNil(p, resolveBoundOrNil(c.Call.StaticCallee()), 0, depth+1) {
			res = true
		}
	}
	if res {
		nilReturnMemo[key] = 1
	}
	return res
}

func resolveBoundOrNil(f *ssa.Function) *ssa.Function {
	if f == nil {
		return nil
	}
	return resolveBound(f)
}

func nillableWire(p *Prog, v ssa.Value) (string, bool) {
	if decodedPointer(v) {
		return "pointer filled by a decoder (null leaves it nil)", true
	}
	if ex, ok := v.(*ssa.Extract); ok {
		if _, isPtr := ex.Type().Underlying().(*types.Pointer); isPtr {
			if c, ok := ex.Tuple.(*ssa.Call); ok && mayReturnDecodedNil(p, resolveBoundOrNil(c.Call.StaticCallee()), ex.Index, 0) {
				return "result of " + FuncName(c.Call.StaticCallee()) + " (a decoded pointer: null leaves it nil)", true
			}
		}
	}
	switch x := v.(type) {
	case *ssa.UnOp:
		if x.Op != token.MUL {
			return "", false
		}
		if fa, ok := x.X.(*ssa.FieldAddr); ok {
			if _, isPtr := x.Type().Underlying().(*types.Pointer); isPtr && isWireStruct(p, fa.X.Type()) {
				return fieldName(fa.X.Type(), fa.Field), true
			}
		}
	case *ssa.Field:
		if _, isPtr := x.Type().Underlying().(*types.Pointer); isPtr && isWireStruct(p, x.X.Type()) {
			return fieldName(x.X.Type(), x.Field), true
		}
	case *ssa.Call:
		if sc := x.Call.StaticCallee(); sc != nil && p.IsGenerated(sc) && strings.HasPrefix(sc.Name(), "Get") {
			if _, isPtr := x.Type().Underlying().(*types.Pointer); isPtr {
				return sc.Name() + "()", true
			}
		}
	}
	return "", false
}

func isWireStruct(p *Prog, t types.Type) bool {
	if pt, ok := t.Underlying().(*types.Pointer); ok {
		t = pt.Elem()
	}
	n, ok := t.(*types.Named)
	if !ok || n.Obj().Pkg() == nil || !strings.HasPrefix(n.Obj().Pkg().Path(), ModPath) {
		return false
	}
	if _, ok := n.Underlying().(*types.Struct); !ok {
		return false
	}
	// generated types have a ProtoMessage method
	for i := 0; i < n.NumMethods(); i++ {
		if n.Method(i).Name() == "ProtoMessage" {
			return true
		}
	}
	return false
}

type nilPre struct {
	fn    *ssa.Function
	param int
	field string
	site  ssa.Instruction
}

// C17 — totality.
func checkC17(p *Prog, r *Report) {
	// each keeper reads only what it wrote: a store shared by two modules makes each decode the other's entries with its own
	// Must* decoder (a crafted query or an export then panics)
	{
		w17 := BuildWire(p)
		wireKeyOwnership(p, r, w17, "C17", "aol", []string{"x/aol/keeper.NewKeeper"}, "AOL data")
		wireKeyOwnership(p, r, w17, "C17", "did", []string{"x/did/keeper.NewKeeper"}, "DID documents")
		wireKeyOwnership(p, r, w17, "C17", "pnft", []string{"x/pnft/keeper.NewKeeper"}, "denoms and tokens")
		// addresses stay within the 255 bytes the key encoders and x/nft's length prefix can take (the SDK's own verifier)
		checkAddressConfig(p, r, func(rule, rest string) string { return rule + ":C17:" + rest })
		// end-of-block processing cannot be halted by a deposit: the bank's BurnCoins panics for a module account without the
		// Burner permission, inside the burn module's EndBlock
		modC, _ := p.ConstVal(Rel("x/burn/types"), "ModuleName")
		burnerC, _ := p.ConstVal(SDK+"/x/auth/types", "Burner")
		perms, present := w17.MaccPerms[strings.Trim(modC, `"`)]
		r.Check(present && has(perms, strings.Trim(burnerC, `"`)), "WIRE:C17:maccPerms[burn]∋burner", "the burn module account may burn (bank.BurnCoins panics otherwise — inside EndBlock)", p.Pos(w17.MaccPos), fmt.Sprint(perms),
			fmt.Sprintf("maccPerms[%s] = %v lacks the Burner permission: the first deposit to the burn address makes x/burn's EndBlock panic in bank.BurnCoins, and the chain halts", modC, perms))
	}
	r.Explain = "Decided statically, over every hand-written module function reachable (definite edges) from the entry points an outsider controls — ValidateBasic/GetSigners/GetSignBytes of the 14 messages, the 14 message and 12 query handlers, KeyStore.Load/LoadByAddress/Save, the four modules' Begin/EndBlock and the hand-written proto/JSON codec callbacks of x/did/types: every panic site has a discharged obligation. P-explicit: explicit panics in GetSigners are unreachable for any message that passed the same type's ValidateBasic (accept ∧ panic-path-condition is unsatisfiable); calls to functions that may panic (Must*) need their precondition at the call site — compkey.MustEncode: every string component is a message field bounded <=255 by validation, or the call is dominated by a successful compkey.Encode of the same key; remaining Must* sites are discharged by a reasoned table (marshal of generated structs, unmarshal of what the same codec wrote). P-nil: every dereference of a pointer loaded from a nillable wire field or returned by a generated getter is dominated by a non-nil fact, directly, through an expanded predicate, or as a precondition discharged at every call site (depth 2). P-bounds: constant indexes need a dominating length fact, loop indexes the loop bound; P-lib: cipher.NewCTR needs len(iv) == block size, slices of pbkdf2.Key's result need the key length bound, constant regex patterns must compile. P-lib also covers: math.Int/Uint narrowing (needs IsInt64/IsUint64), big-integer and machine-integer division (non-zero divisor fact or constant), []byte→crypto key type conversions (pinned length or constant-length buffer). Thorough tier: the compiler's unproven bounds checks in scope must all be enumerated sites."
	r.NotDec = []string{"panics inside the SDK/IAVL/protobuf on well-formed calls", "resource exhaustion (huge kdf parameters)", "gas-limit panics (converted to errors by baseapp)", "nil elements in repeated fields (gogoproto Unmarshal never produces them)"}
	r.Trusted = []string{"cosmos-sdk v0.47.12", "gogoproto generated Unmarshal", "go/ssa"}
	kp := func(rule, rest string) string { return rule + ":C17:" + rest }

	// a panic inside the SDK on a call the module makes every block: auth's GetModuleAccount panics when a plain account sits at the
	// burn module's address — the precondition (nobody can create one) is the blocked-address set (shared with C07)
	if modC, ok := p.ConstVal(Rel("x/burn/types"), "ModuleName"); ok {
		checkBurnAccountBlocked(p, r, kp, modC)
	}

	// the Must* table's premise "what the codec wrote, it can read" for the module's custom protobuf type (customproto.go)
	checkCustomProtoDelegation(p, r, "C17")

	entries, kinds := c17Entries(p)
	r.Floor("entry-points", len(entries), 14*3+14+12+3+8)
	reach := p.ReachFrom(entries, func(f *ssa.Function) bool { return InModule(f) && !p.IsGenerated(f) })
	var scope []*ssa.Function
	for _, f := range reach.Order {
		if InModule(f) && !p.IsGenerated(f) && f.Blocks != nil {
			scope = append(scope, f)
		}
	}
	sort.Slice(scope, func(i, j int) bool { return scope[i].String() < scope[j].String() })
	r.Count("functions-in-scope", len(scope))
	mayPanic := mayPanicSet(p)

	// accept formulas of ValidateBasic per message type (for GetSigners discharge and bounded fields)
	acceptOf := map[string]*Formula{}
	boundedField := map[string]map[string]int{} // msg type -> field -> max byte length established by validation
	for _, m := range p.Msgs() {
		vb := p.MethodOf(m, "ValidateBasic")
		if vb == nil {
			continue
		}
		A := acceptFormula(p, vb)
		acceptOf[m.Obj().Name()] = A
		bf := map[string]int{}
		if A != nil {
			for _, a := range A.Atoms() {
				cls, pos, ok := classifyMsgAtom(p, a.Term)
				if !ok || cls.Kind != "lang" {
					continue
				}
				lit := a
				if !pos {
					lit = fNot(a)
				}
				if Entails(A, lit) && cls.Spec.Hi >= 0 {
					bf[cls.Field] = cls.Spec.Hi
				}
			}
		}
		boundedField[m.Obj().Name()] = bf
	}

	nExplicit, nMust, nNil, nBounds, nLib, nNarrow, nDiv, nKeyConv := 0, 0, 0, 0, 0, 0, 0, 0
	boundSites := map[string]bool{}
	var pres []nilPre
	// vbNonNil: in a message handler (which baseapp runs only after the message's ValidateBasic), msg.<field> is non-nil when
	// every accepting path of ValidateBasic established it.
	vbNonNil := func(fn *ssa.Function, t *Term) bool {
		if kinds[fn] != "handler" {
			return false
		}
		f, ok := msgField(t)
		if !ok {
			return false
		}
		m := handlerMsgType(fn)
		if m == nil {
			return false
		}
		A := acceptOf[m.Obj().Name()]
		if A == nil {
			return false
		}
		for _, a := range A.Atoms() {
			cls, pos, ok := classifyMsgAtom(p, a.Term)
			if ok && cls.Field == f && cls.Kind == "nonnil" {
				lit := a
				if !pos {
					lit = fNot(a)
				}
				if Entails(A, lit) {
					return true
				}
			}
		}
		return false
	}

	// nillable parameters: a module function that is handed a wire pointer (nillable field / generated getter result) at some
	// call site in scope where the caller has not established non-nil-ness must guard its own dereferences of that parameter.
	nillableParam := map[*ssa.Function]map[int]string{}
	for round := 0; round < 2; round++ {
		for _, fn := range scope {
			o := NewOrigin(p, fn)
			fa := NewFacts(p, fn, o)
			for _, cs := range callSites(fn) {
				if cs.Callee == nil {
					continue
				}
				callee := resolveBound(cs.Callee)
				if !InModule(callee) || p.IsGenerated(callee) || callee.Blocks == nil {
					continue
				}
				for i, a := range cs.Instr.Common().Args {
					if i >= len(callee.Params) {
						break
					}
					what, isN := nillableWire(p, a)
					if !isN {
						if pm, ok := a.(*ssa.Parameter); ok && nillableParam[fn] != nil {
							for pi, w := range nillableParam[fn] {
								if fn.Params[pi] == pm {
									what, isN = w, true
								}
							}
						}
					}
					if !isN {
						continue
					}
					at := o.Of(a)
					if vbNonNil(fn, at) {
						continue
					}
					if _, guarded := fa.DominatingFact(cs.Instr, false, func(t *Term) bool {
						if t.Op != "eq" {
							return false
						}
						x, y := t.Args[0], t.Args[1]
						if x.Op != "const" {
							x, y = y, x
						}
						return x.Op == "const" && x.Name == "nil" && y.Eq(at)
					}); guarded {
						continue
					}
					if nillableParam[callee] == nil {
						nillableParam[callee] = map[int]string{}
					}
					nillableParam[callee][i] = what + " (passed by " + FuncName(fn) + ")"
				}
			}
		}
	}

	for _, fn := range scope {
		fname := FuncName(fn)
		o := NewOrigin(p, fn)
		fa := NewFacts(p, fn, o)
		for _, b := range fn.Blocks {
			for _, in := range b.Instrs {
				switch x := in.(type) {
				// ---------------- P-lib: machine-integer division by a variable ----------------
				case *ssa.BinOp:
					if (x.Op == token.QUO || x.Op == token.REM) && isIntegerType(x.Y.Type()) {
						if c, isC := x.Y.(*ssa.Const); isC && c.Value != nil && c.Int64() != 0 {
							break
						}
						nDiv++
						dt := o.Of(x.Y)
						wit, ok := fa.DominatingFact(in, false, func(t *Term) bool {
							return t.Op == "eq" && (t.Args[0].Op == "const" && t.Args[0].Name == "0" && t.Args[1].Eq(dt) || t.Args[1].Op == "const" && t.Args[1].Name == "0" && t.Args[0].Eq(dt))
						})
						if !ok {
							wit, ok = fa.DominatingFact(in, true, func(t *Term) bool {
								return t.Op == "lt" && t.Args[0].Op == "const" && !strings.HasPrefix(t.Args[0].Name, "-") && t.Args[1].Eq(dt)
							})
						}
						r.Check(ok, kp("PANIC", "P-lib:"+fname+"#integer-division@"+blockTag(fn, b)), "an integer division or remainder by a value that is not a non-zero constant is dominated by a test that the divisor is non-zero", p.Pos(x.Pos()),
							"divisor "+dt.String()+" guarded by "+wit, "division by "+dt.String()+" with no dominating non-zero test: a zero divisor is a run-time panic")
					}
				// ---------------- P-lib: []byte reinterpreted as a fixed-size key ----------------
				case *ssa.ChangeType, *ssa.Convert:
					var from ssa.Value
					if ct, ok := x.(*ssa.ChangeType); ok {
						from = ct.X
					} else {
						from = x.(*ssa.Convert).X
					}
					if kt := fixedSizeKeyType(x.(ssa.Value).Type()); kt != "" && isByteSlice(from.Type()) {
						nKeyConv++
						ft := o.Of(from)
						if fixedLenProducer(from) {
							r.OK(kp("PANIC", "P-lib:"+fname+"→"+kt+"(bytes)@"+blockTag(fn, b)), "bytes are reinterpreted as a fixed-size key type only after their length was pinned: the key's Verify/Address methods panic on any other length", p.Pos(x.Pos()),
								"the operand is a buffer made with a constant length")
							break
						}
						wit, ok := fa.DominatingFact(in, true, func(t *Term) bool {
							if t.Op != "eq" {
								return false
							}
							isLen := func(a *Term) bool { return a.IsCall("builtin:len") && len(a.Args) == 1 && a.Args[0].Eq(ft) }
							return t.Args[0].Op == "const" && isLen(t.Args[1]) || t.Args[1].Op == "const" && isLen(t.Args[0])
						})
						r.Check(ok, kp("PANIC", "P-lib:"+fname+"→"+kt+"(bytes)@"+blockTag(fn, b)), "bytes are reinterpreted as a fixed-size key type only after their length was pinned: the key's Verify/Address methods panic on any other length", p.Pos(x.Pos()),
							"dominated by "+wit, fmt.Sprintf("%s converts %v to %s with no dominating len(...) == constant: verification with a key of the wrong length panics (ed25519: bad public key length)", fname, ft, kt))
					}
				// ---------------- P-lib: make([]T, n, cap) with a size an outsider chooses ----------------
				case *ssa.MakeSlice:
					for _, sz := range []ssa.Value{x.Len, x.Cap} {
						if _, isC := sz.(*ssa.Const); isC {
							continue
						}
						st := o.Of(sz)
						ext := st.Contains(func(t *Term) bool {
							if t.Op != "field" || len(t.Args) != 1 {
								return false
							}
							_, _, isPF := paramField(t)
							return isPF || t.Args[0].Op == "field" || t.Args[0].Op == "call" || t.Args[0].Op == "deref"
						}) && !st.Contains(func(t *Term) bool { return t.IsCall("builtin:len") || t.IsCall("builtin:cap") })
						if !ext {
							continue
						}
						nLib++
						ub := int64(-1)
						F := fa.AtInstrX(x)
						for _, a := range F.Atoms() {
							t := a.Term
							if t == nil || t.Op != "lt" || len(t.Args) != 2 {
								continue
							}
							var c int64
							if t.Args[0].Op == "const" && t.Args[1].Eq(st) && Entails(F, fNot(a)) { // !(c < n): n <= c
								if _, err := fmt.Sscan(t.Args[0].Name, &c); err == nil {
									ub = c
								}
							}
							if t.Args[1].Op == "const" && t.Args[0].Eq(st) && Entails(F, a) { // n < c
								if _, err := fmt.Sscan(t.Args[1].Name, &c); err == nil {
									ub = c - 1
								}
							}
						}
						r.Check(ub >= 0, kp("PANIC", "P-lib:"+fname+"#make-size-from-request@"+blockTag(fn, b)), "a slice is never sized from a number an outsider chooses without an upper bound (make panics on a length or capacity out of range)", p.Pos(x.Pos()),
							fmt.Sprintf("size <= %d on this path", ub), fmt.Sprintf("%s sizes a slice with %s, taken from a request or message field with no dominating upper bound: a huge value (2^63) makes make() panic", fname, clip(st.String(), 120)))
					}
				// ---------------- P-explicit: panic(...) ----------------
				case *ssa.Panic:
					nExplicit++
					key := kp("PANIC", "P-explicit:"+fname+"#panic@"+blockTag(fn, b))
					site := p.Pos(x.Pos())
					// GetSigners: unreachable after successful validation
					if fn.Name() == "GetSigners" && fn.Signature.Recv() != nil {
						mt := recvNamed(fn)
						A := acceptOf[mt]
						cond := fa.At(b)
						if A != nil && !Satisfiable(fAnd(A, cond)) {
							r.OK(key, "GetSigners panics only on input its own ValidateBasic rejects (signer extraction is specified after successful validation)", site,
								"accept(ValidateBasic) ∧ "+clip(cond.String(), 160)+" is unsatisfiable")
						} else {
							r.Fail(key, "GetSigners panics only on input its own ValidateBasic rejects (signer extraction is specified after successful validation)", site,
								fmt.Sprintf("%s can panic on a message that passed %s.ValidateBasic: the panic's path condition %s is compatible with acceptance (the field is parsed with panic here but not validated — or validated differently — there)", fname, mt, clip(cond.String(), 200)))
						}
						continue
					}
					// Must*-style wrappers: the obligation is at their call sites (handled below)
					if strings.HasPrefix(fn.Name(), "Must") || strings.HasPrefix(fn.Name(), "must") || p.transparent(fn) && calledOnlyFromScope(p, fn, scope) {
						r.OKTrivial(key, "Must*-wrapper: obligation moves to each call site", site, "wrapper")
						continue
					}
					// a guard that contradicts a library postcondition (reviewed table) can never fire
					if why := contradictsLibraryFact(fa.At(b)); why != "" {
						r.OK(key, "no explicit panic is reachable from message, query, key-file or block entry points", site, "unreachable: "+why)
						continue
					}
					// init-time / constructor panics are outside the entry points; anything else is a finding
					r.Fail(key, "no explicit panic is reachable from message, query, key-file or block entry points", site,
						fmt.Sprintf("explicit panic in %s, reachable via %s", fname, reach.Chain(fn)))

				case *ssa.TypeAssert:
					if !x.CommaOk {
						nExplicit++
						r.Fail(kp("PANIC", "P-explicit:"+fname+"#unchecked-type-assertion@"+blockTag(fn, b)), "no unchecked type assertion on externally influenced values", p.Pos(x.Pos()),
							"x.(T) without the comma-ok form panics on a mismatching dynamic type: "+x.String())
					}

				case ssa.CallInstruction:
					cc := x.Common()
					callee := cc.StaticCallee()
					if callee != nil {
						callee = resolveBound(callee)
					}
					name := calleeName(cc)
					site := p.Pos(x.Pos())
					// ---------------- P-explicit: calls to module functions that may panic ----------------
					if callee != nil && mayPanic[callee] && InModule(callee) && (strings.HasPrefix(callee.Name(), "Must") || strings.HasPrefix(callee.Name(), "must") || p.transparent(callee) && hasPanic(callee)) {
						nMust++
						key := kp("PANIC", "P-explicit:"+fname+"→"+FuncName(callee)+"@"+blockTag(fn, b))
						if strings.HasPrefix(fn.Name(), "Must") && (strings.HasPrefix(callee.Name(), "must") || p.transparent(callee)) {
							// a Must* wrapper whose panic sits in a shared must-helper: the obligation is at the wrapper's call sites
							r.OKTrivial(key, "Must*-wrapper: obligation moves to each call site", site, "wrapper panicking through "+FuncName(callee))
							continue
						}
						switch callee.Name() {
						case "MustEncode", "MustPartialEncode":
							// inside an accessor the key is the accessor's parameter: the obligation is checked at the accessor's call sites
							c, _ := x.(*ssa.Call)
							var kt *Term
							if c != nil {
								kt = o.argAt(cc.Args[0], c)
							}
							if kt != nil && kt.Op == "addr" && kt.Args[0].Op == "param" {
								r.OKTrivial(key, "key is the accessor's own parameter: obligation moves to the accessor's call sites", site, "parameter")
								continue
							}
							ok, why := keyBounded(p, o, fa, x.(ssa.Instruction), kt, boundedFor(fn, kinds, boundedField))
							r.Check(ok, key, "compkey.MustEncode is called only with components that cannot exceed 255 bytes", site, why, why)
						case "mustGetSignBytesWithSeq":
							r.OK(key, "table: marshalling a generated gogoproto struct (DIDDocument / DataWithSeq) cannot fail — the Marshal methods only return the error of MarshalToSizedBuffer, which has no failing path for these message shapes", site, "reasoned table entry")
						case "MustDecode", "MustDecodeFromString":
							r.Fail(key, "decoding externally influenced bytes with a panicking decoder", site, FuncName(callee)+" is reachable from an outside entry point: "+reach.Chain(fn))
						default:
							// an extracted helper with a panic branch: the panic's condition, in this function's vocabulary, must be
							// unreachable here — for GetSigners: incompatible with the message's own ValidateBasic accepting
							pc := fa.panicSummary(callee, x, o, 0)
							if pc == nil {
								r.Undecided(key, "every Must* call in scope has a discharge rule", site, "no rule for "+FuncName(callee))
								break
							}
							cond := fAnd(fa.At(b), pc)
							if fn.Name() == "GetSigners" && fn.Signature.Recv() != nil {
								if A := acceptOf[recvNamed(fn)]; A != nil {
									cond = fAnd(A, cond)
								}
							}
							r.Check(!Satisfiable(cond), key, "a helper that can panic is called only where its panic condition cannot hold (for GetSigners: on no message its own ValidateBasic accepts)", site,
								"panic condition "+clip(pc.String(), 120)+" is unsatisfiable here", fmt.Sprintf("%s panics when %s, which is possible at this call", FuncName(callee), clip(pc.String(), 200)))
						}
						continue
					}
					// accessor calls whose body encodes the key with MustEncode: obligation at this call site
					if callee != nil && InPkgs(callee, aolKeeperPkg) && accessorEncodesParam(callee) {
						nMust++
						c, _ := x.(*ssa.Call)
						key := kp("PANIC", "P-explicit:"+fname+"→"+FuncName(callee)+"(MustEncode)@"+blockTag(fn, b))
						var kt *Term
						if c != nil && len(cc.Args) >= 3 {
							kt = o.Of(cc.Args[2])
						}
						ok, why := keyBounded(p, o, fa, x.(ssa.Instruction), kt, boundedFor(fn, kinds, boundedField))
						if !ok && p.transparent(fn) && calledOnlyFromScope(p, fn, scope) && c != nil {
							// an extracted helper of a handler: the key derives from the helper's parameters — discharge at each call site,
							// with the helper's parameters replaced by the caller's arguments
							callers, _ := p.CallersOf(fn)
							all, n := true, 0
							for _, cf := range callers {
								co := NewOrigin(p, cf)
								cfa := NewFacts(p, cf, co)
								for _, ccs := range callSites(cf) {
									if ccs.Callee == nil || resolveBound(ccs.Callee) != fn {
										continue
									}
									n++
									sub := co.subOrigin(ccs.Instr, fn)
									okc, whyc := keyBounded(p, co, cfa, ccs.Instr.(ssa.Instruction), sub.Of(cc.Args[2]), boundedFor(cf, kinds, boundedField))
									if !okc {
										all = false
										why = "at the call in " + FuncName(cf) + ": " + whyc
									} else {
										why = "discharged at the call in " + FuncName(cf) + ": " + whyc
									}
								}
							}
							ok = all && n > 0
						}
						r.Check(ok, key, "store accessors (which MustEncode their key) are called only with keys whose components cannot exceed 255 bytes", site, why, why)
						continue
					}
					// ---------------- P-lib ----------------
					switch {
					case name == "strings.Repeat" || name == "bytes.Repeat":
						nLib++
						cnt := cc.Args[1]
						okN := nonNegativeInt(cnt, 0)
						if !okN {
							ct := o.Of(cnt)
							_, okN = fa.DominatingFact(x.(ssa.Instruction), false, func(t *Term) bool {
								return t.Op == "lt" && t.Args[0].Eq(ct) && t.Args[1].Op == "const" && t.Args[1].Name == "0"
							})
						}
						r.Check(okN, kp("PANIC", "P-lib:"+fname+"→"+name+"#count≥0@"+blockTag(fn, b)), "strings.Repeat / bytes.Repeat panic on a negative count: the count is non-negative by construction or by a dominating test", site,
							"count is non-negative", fmt.Sprintf("%s calls %s with the count %s, which can be negative (Go's %% keeps the sign of the dividend): the call panics", fname, name, clip(o.Of(cnt).String(), 120)))
					case name == "crypto/cipher.NewCTR":
						nLib++
						iv := o.Of(cc.Args[1])
						ok, wit := ivLenFact(p, fn, x.(ssa.Instruction), iv, reach)
						r.Check(ok, kp("PANIC", "P-lib:"+fname+"→cipher.NewCTR#len(iv)=blocksize"), "cipher.NewCTR panics unless len(iv) equals the block size: the IV must be length-checked (it is file-supplied and not covered by the MAC)", site, wit,
							"no dominating len(iv) == aes.BlockSize fact on the path from the key-store entry points: a key file with a short IV panics with any password ["+wit+"]")
					case name == "golang.org/x/crypto/pbkdf2.Key":
						nLib++
						kl := o.Of(cc.Args[3])
						okc := kl.Op == "const"
						wit := "keyLen is the constant " + kl.Name
						if !okc {
							w, ok := fa.DominatingFact(x.(ssa.Instruction), true, func(t *Term) bool {
								return t.Op == "eq" && (t.Args[0].Op == "const" && t.Args[1].Eq(kl) || t.Args[1].Op == "const" && t.Args[0].Eq(kl))
							})
							okc, wit = ok, w
						}
						r.Check(okc, kp("PANIC", "P-lib:"+fname+"→pbkdf2.Key#keyLen-fixed"), "the derived key is later sliced at fixed offsets: the requested key length must be pinned (constant or == constant) before the call; a file-supplied dklen <= 0 or absent panics", site, wit,
							"keyLen = "+kl.String()+" is file-supplied and not pinned by a dominating equality: derivedKey[16:32] / pbkdf2 itself panic for dklen <= 0 (and the documented contract len = keyLen is violated for < 32)")
					case isBigDivisionCall(name):
						// math.Int / LegacyDec division: panics on a zero divisor
						nDiv++
						ok, wit, dv := bigDivisionGuard(o, fa, x.(ssa.Instruction), cc)
						r.Check(ok, kp("PANIC", "P-lib:"+fname+"→"+name+"@"+blockTag(fn, b)), "a big-integer / decimal division has a divisor that is a non-zero constant or is dominated by !IsZero() / IsPositive() on the same value", site,
							"divisor guarded: "+wit, fmt.Sprintf("%s divides by %v with no dominating non-zero test: a zero divisor (e.g. a supply that the same block burned completely) panics", name, dv))
					case isNarrowingIntCall(name) != "":
						// math.Int/Uint → machine integer: panics when the value does not fit; needs a dominating IsInt64()/IsUint64() on the same value
						nNarrow++
						guard := isNarrowingIntCall(name)
						var recv *Term
						if len(cc.Args) > 0 {
							recv = o.Of(cc.Args[0])
						}
						wit, ok := "", false
						if recv != nil {
							wit, ok = fa.DominatingFact(x.(ssa.Instruction), true, func(t *Term) bool {
								return t.Op == "call" && strings.HasSuffix(t.Name, ")."+guard) && len(t.Args) > 0 && t.Args[0].Eq(recv)
							})
						}
						r.Check(ok, kp("PANIC", "P-lib:"+fname+"→"+name+"@"+blockTag(fn, b)), "narrowing a big integer (amounts, supplies, balances are unbounded) to a machine integer panics when it does not fit: the call needs a dominating "+guard+"() on the same value", site,
							"dominated by "+wit, fmt.Sprintf("%s is called on %v with no dominating %s(): a balance or amount above the machine range (e.g. an 18-decimals asset) makes it panic", name, recv, guard))
					case name == "regexp.MustCompile":
						nLib++
						pat, ok := foldString(o.Of(cc.Args[0]))
						if ok {
							_, err := regexp.Compile(pat)
							ok = err == nil
						}
						r.Check(ok, kp("PANIC", "P-lib:"+fname+"→regexp.MustCompile@"+blockTag(fn, b)), "regexp.MustCompile is called with a constant pattern that compiles", site, pat, "pattern is not a compiling constant")
					}
				}
				// ---------------- P-nil ----------------
				var ptr ssa.Value
				switch x := in.(type) {
				case *ssa.UnOp:
					if x.Op == token.MUL {
						if _, isPtr := x.X.Type().Underlying().(*types.Pointer); isPtr {
							ptr = x.X
						}
					}
				case *ssa.FieldAddr:
					ptr = x.X
				}
				if ptr != nil {
					what, isN := nillableWire(p, ptr)
					if !isN && kinds[fn] == "query" && len(fn.Params) >= 3 && ptr == ssa.Value(fn.Params[2]) {
						what, isN = "request", true // a query handler may be handed a nil request
					}
					if !isN {
						if pm, ok := ptr.(*ssa.Parameter); ok {
							for pi, w := range nillableParam[fn] {
								if fn.Params[pi] == pm {
									what, isN = "parameter "+pm.Name()+" ← "+w, true
								}
							}
						}
					}
					if isN {
						nNil++
						pt := o.Of(ptr)
						key := kp("PANIC", "P-nil:"+fname+"#deref:"+what+"@"+blockTag(fn, b))
						site := p.Pos(in.Pos())
						_, ok := fa.DominatingFact(in, false, func(t *Term) bool {
							if t.Op != "eq" {
								return false
							}
							a, c := t.Args[0], t.Args[1]
							if a.Op != "const" {
								a, c = c, a
							}
							return a.Op == "const" && a.Name == "nil" && c.Eq(pt)
						})
						if !ok && vbNonNil(fn, pt) {
							r.OK(key, "a pointer decoded from the wire is dereferenced only under a dominating non-nil fact", site, what+" != nil is established by the message's ValidateBasic, which runs before the handler")
						} else if ok {
							r.OK(key, "a pointer decoded from the wire is dereferenced only under a dominating non-nil fact", site, what+" != nil dominates")
						} else if pi, fld, isPF := paramField(pt); isPF && kinds[fn] == "" {
							pres = append(pres, nilPre{fn, pi, fld, in})
							r.OKTrivial(key, "dereference of a parameter's wire field: precondition, discharged at every call site", site, fmt.Sprintf("precondition param%d.%s != nil", pi, fld))
						} else {
							r.Fail(key, "a pointer decoded from the wire is dereferenced only under a dominating non-nil fact", site,
								fmt.Sprintf("%s dereferences %s (= %s), which is nil when the field is absent from the decoded bytes, without a dominating nil check; reachable via %s", fname, what, clip(pt.String(), 120), reach.Chain(fn)))
						}
					}
				}
				// ---------------- P-bounds ----------------
				var bx ssa.Value   // indexed / sliced value
				var bidx ssa.Value // index (IndexAddr/Index) or nil
				var bsl *ssa.Slice
				switch x := in.(type) {
				case *ssa.IndexAddr:
					bx, bidx = x.X, x.Index
				case *ssa.Index:
					bx, bidx = x.X, x.Index
				case *ssa.Slice:
					if x.Low != nil || x.High != nil {
						bx, bsl = x.X, x
					}
				}
				if bx != nil {
					if _, isArr := derefType(bx.Type()).Underlying().(*types.Array); isArr && bsl == nil {
						if _, isC := bidx.(*ssa.Const); isC {
							continue // constant index into a fixed-size array: checked by the compiler
						}
					}
					if al, _ := rootAlloc(bx); al != nil {
						continue // local array / literal under construction
					}
					if sl0, isSl := bx.(*ssa.Slice); isSl {
						if _, isAl := sl0.X.(*ssa.Alloc); isAl && bsl == nil {
							continue
						}
					}
					nBounds++
					site := p.Pos(in.Pos())
					boundSites[fmt.Sprintf("%s:%d", p.File(in.Pos()), p.Fset.Position(in.Pos()).Line)] = true
					xt := o.Of(bx)
					what := "index"
					if bsl != nil {
						what = "slice"
					}
					key := kp("PANIC", fmt.Sprintf("P-bounds:%s#%s:%s@%s", fname, what, in.(ssa.Value).Name(), blockTag(fn, b)))
					rule := "every index / slice operation on externally influenced data has its bound established (dominating length fact, loop bound, pinned producer length, linear arithmetic on a freshly made buffer) — or lies in the composite-key codec whose arithmetic C18 decides"
					if pkgPathOf(fn) == Rel(compkeyPkg) {
						r.OK(key, rule, site, "types/compkey: index arithmetic decided in linear normal form by C18 (D1/D2)")
						continue
					}
					ok2, wit := false, ""
					switch {
					case bidx != nil:
						if c, isC := bidx.(*ssa.Const); isC {
							ok2, wit = lenFactAtLeast(fa, in, xt, c.Int64()+1)
						} else {
							// loop index: dominated by  idx < len(x)
							it := o.Of(bidx)
							wit, ok2 = fa.DominatingFact(in, true, func(t *Term) bool {
								return t.Op == "lt" && t.Args[0].Eq(it) && t.Args[1].IsCall("builtin:len") && t.Args[1].Args[0].Eq(xt)
							})
							if !ok2 {
								// range-over-slice lowering: idx = phi+1 tested against len computed before the loop from the same operand
								wit, ok2 = fa.DominatingFact(in, true, func(t *Term) bool {
									return t.Op == "lt" && t.Args[0].Eq(it) && t.Args[1].IsCall("builtin:len")
								})
								if ok2 {
									wit = "loop bound " + clip(wit, 80)
								}
							}
							if !ok2 && it.Op == "call" && len(it.Args) == 1 && it.Args[0].Eq(xt) {
								// a byte-class scanner of the module (bytescan.go): the result is -1 or the index of a byte of its argument
								if g := staticCalleeOfTerm(p, it); g != nil {
									if _, isScan := byteScanAllowed(g); isScan {
										isConst := func(t *Term, v string) bool { return t.Op == "const" && t.Name == v }
										wit, ok2 = fa.DominatingFact(in, false, func(t *Term) bool {
											return t.Op == "lt" && t.Args[0].Eq(it) && isConst(t.Args[1], "0")
										})
										if ok2 {
											wit = "index returned by the scanner " + FuncName(g) + " and tested >= 0: " + clip(wit, 60)
										}
									}
								}
							}
							if !ok2 && it.Op == "call" && (strings.HasPrefix(it.Name, "slices.IndexFunc[") || strings.HasPrefix(it.Name, "slices.Index[")) && len(it.Args) == 2 && it.Args[0].Eq(xt) {
								// library contract: the result is -1 or a valid index of the first argument
								isConst := func(t *Term, v string) bool { return t.Op == "const" && t.Name == v }
								wit, ok2 = fa.DominatingFact(in, false, func(t *Term) bool {
									return t.Op == "lt" && t.Args[0].Eq(it) && isConst(t.Args[1], "0") ||
										t.Op == "eq" && (t.Args[0].Eq(it) && isConst(t.Args[1], "-1") || t.Args[1].Eq(it) && isConst(t.Args[0], "-1"))
								})
								if !ok2 {
									wit, ok2 = fa.DominatingFact(in, true, func(t *Term) bool {
										return t.Op == "lt" && t.Args[1].Eq(it) && isConst(t.Args[0], "-1")
									})
								}
								if ok2 {
									wit = "slices.Index* result tested non-negative: " + clip(wit, 80)
								}
							}
						}
					case bsl != nil:
						if hi, okh := bsl.High.(*ssa.Const); bsl.High != nil && okh {
							ok2, wit = sliceBoundOK(p, o, fa, in, bsl, xt, hi.Int64())
							if !ok2 && xt.Op == "param" {
								// the operand is a parameter of an (extracted) helper: the bound is a precondition discharged at
								// every call site, all of which must be in scope
								ok2, wit = boundAtCallSites(p, fn, xt, scope, func(co *Origin, cfa *Facts, at ssa.Instruction, arg *Term) (bool, string) {
									return sliceBoundOK(p, co, cfa, at, bsl, arg, hi.Int64())
								})
							}
						} else if bsl.High == nil && bsl.Low != nil {
							// x[lo:] : freshly made buffer with len = lo + (non-negative lengths), or HasPrefix(x, p) with lo = len(p)
							if ms, isMS := bx.(*ssa.MakeSlice); isMS {
								d := LinOf(ms.Len).Sub(LinOf(bsl.Low))
								nonneg := d.C >= 0
								for sym, c := range d.Coef {
									if c < 0 || !strings.HasPrefix(sym, "len(") {
										nonneg = false
									}
								}
								ok2, wit = nonneg, "len(buffer) - low = "+d.String()+" >= 0"
							}
							if !ok2 {
								lt := o.Of(bsl.Low)
								wit, ok2 = fa.DominatingFact(in, true, func(t *Term) bool {
									return t.IsCall("strings.HasPrefix") && len(t.Args) == 2 && t.Args[0].Eq(xt) && lt.IsCall("builtin:len") && lt.Args[0].Eq(t.Args[1])
								})
							}
						}
					}
					r.Check(ok2, key, rule, site, wit, fmt.Sprintf("%s: %s on %s without an established bound (index/bounds: %v)", fname, what, clip(xt.String(), 80), in))
				}
			}
		}
	}
	// preconditions at call sites
	for _, pre := range pres {
		callers := 0
		for _, fn := range scope {
			o := NewOrigin(p, fn)
			o.NoInline = true
			fa := NewFacts(p, fn, o)
			for _, cs := range callSites(fn) {
				if cs.Callee == nil || resolveBound(cs.Callee) != pre.fn {
					continue
				}
				callers++
				c, ok := cs.Instr.(*ssa.Call)
				if !ok || pre.param >= len(c.Call.Args) {
					continue
				}
				arg := o.Of(c.Call.Args[pre.param])
				ft := mkField(arg, pre.field)
				key := kp("PANIC", "P-nil:"+FuncName(fn)+"→"+FuncName(pre.fn)+"#pre:"+pre.field+"!=nil@"+blockTag(fn, cs.Instr.Block()))
				F := fa.At(cs.Instr.Block())
				atom := cmpAtom("==", ft, &Term{Op: "const", Name: "nil"})
				okp := Entails(F, fNot(atom))
				if !okp {
					// the caller may itself pass the obligation up once more (its own parameter's field)
					if pi, fld, isPF := paramField(ft); isPF && kinds[fn] == "" && fld == pre.field {
						_ = pi
						okUp := true
						n := 0
						for _, g := range scope {
							go2 := NewOrigin(p, g)
							go2.NoInline = true
							gfa := NewFacts(p, g, go2)
							for _, cs2 := range callSites(g) {
								if cs2.Callee == nil || resolveBound(cs2.Callee) != fn {
									continue
								}
								n++
								c2, ok := cs2.Instr.(*ssa.Call)
								if !ok {
									okUp = false
									continue
								}
								a2 := go2.Of(c2.Call.Args[pi])
								at2 := cmpAtom("==", mkField(a2, fld), &Term{Op: "const", Name: "nil"})
								if !Entails(gfa.At(cs2.Instr.Block()), fNot(at2)) {
									okUp = false
								}
							}
						}
						okp = okUp && n > 0
					}
				}
				r.Check(okp, key, "precondition of the callee (its parameter's wire pointer is non-nil) holds at the call site", p.Pos(cs.Instr.Pos()),
					pre.field+" != nil established at the call site", fmt.Sprintf("%s calls %s, which dereferences %s.%s unconditionally, without establishing that it is non-nil (path condition: %s)", FuncName(fn), FuncName(pre.fn), clip(arg.String(), 60), pre.field, clip(F.String(), 160)))
			}
		}
		if callers == 0 {
			r.Note("precondition of %s (param%d.%s != nil) has no call site in scope", FuncName(pre.fn), pre.param, pre.field)
		}
	}
	r.Floor("P-explicit-panic-sites", nExplicit, 3)
	r.Floor("P-explicit-must-call-sites", nMust, 10)
	r.Floor("P-nil-sites", nNil, 5)
	r.Floor("P-bounds-sites", nBounds, 3)
	// P-lib: the SDK's stores panic on a nil or empty key ("key is nil"). A key that went through a function that can return an empty
	// slice for non-empty input (bytes.TrimSpace / Trim*, a sub-slice bounded by a computed index) needs a dominating non-emptiness test.
	{
		inScope := map[*ssa.Function]bool{}
		for _, f := range scope {
			inScope[f] = true
		}
		nKeys := 0
		for _, so := range p.StoreOps() {
			if !inScope[so.Fn] || so.Key == nil || so.Op == "Iterator" || so.Op == "ReverseIterator" {
				continue
			}
			nKeys++
			shrinking := shrinkingCallIn(p, so.Key, 0)
			if shrinking == "" {
				continue
			}
			in, isI := so.Instr.(ssa.Instruction)
			if !isI {
				continue
			}
			so2 := NewOrigin(p, so.Fn)
			sfa := NewFacts(p, so.Fn, so2)
			kt := so.Key
			okLen, wit := lenFactAtLeast(sfa, in, kt, 1)
			r.Check(okLen, kp("PANIC", "P-lib:"+FuncName(so.Fn)+"→store."+so.Op+"#key-non-empty"), "a store key that went through a trimming function is tested for emptiness before it reaches the store (the store panics on a nil key)", p.Pos(so.Instr.Pos()),
				"dominated by "+wit, fmt.Sprintf("%s hands the store a key that went through %s, which returns an empty (nil) slice for an all-blank input: %s on the prefix store panics with 'key is nil'", FuncName(so.Fn), shrinking, so.Op))
		}
		r.Count("store-keys-in-scope", nKeys)
	}
	r.Floor("P-lib-sites", nLib, 2)
	r.Count("P-lib-narrowing-sites", nNarrow)
	r.Count("P-lib-division-sites", nDiv)
	r.Floor("P-lib-key-conversion-sites", nKeyConv, 1)
	if r.Tier == "thorough" {
		bceCrossCheck(p, r, kp, scope, boundSites)
	}
	// end-block clause (shared with C07-D1)
	for _, mod := range []string{"x/aol", "x/did", "x/pnft", "x/burn"} {
		if am := p.Named(Rel(mod), "AppModule"); am != nil {
			for _, n := range []string{"BeginBlock", "EndBlock"} {
				f := p.MethodOf(am, n)
				if f == nil {
					continue
				}
				rb := p.ReachFrom([]*ssa.Function{f}, func(g *ssa.Function) bool { return InModule(g) && !p.IsGenerated(g) })
				bad := ""
				for _, g := range rb.Order {
					if !InModule(g) || g.Blocks == nil {
						continue
					}
					for _, b := range g.Blocks {
						for _, in := range b.Instrs {
							if _, ok := in.(*ssa.Panic); ok {
								bad = FuncName(g) + " at " + p.Pos(in.Pos())
							}
						}
					}
				}
				r.Check(bad == "", kp("PANIC", "block:"+mod+"."+n+"#no-explicit-panic"), "block processing of the custom modules contains no explicit panic", p.FnPos(f), "none reachable", "explicit panic reachable from "+n+": "+bad)
			}
		}
	}
}

func blockTag(fn *ssa.Function, b *ssa.BasicBlock) string {
	// stable-ish construct tag: ordinal of the block among blocks with the same comment
	n := 0
	for _, x := range fn.Blocks {
		if x == b {
			break
		}
		if x.Comment == b.Comment {
			n++
		}
	}
	return fmt.Sprintf("%s%d", b.Comment, n)
}

func recvNamed(fn *ssa.Function) string {
	t := fn.Signature.Recv().Type()
	if pt, ok := t.(*types.Pointer); ok {
		t = pt.Elem()
	}
	if n, ok := t.(*types.Named); ok {
		return n.Obj().Name()
	}
	return ""
}

func derefType(t types.Type) types.Type {
	if pt, ok := t.Underlying().(*types.Pointer); ok {
		return pt.Elem()
	}
	return t
}

// paramField: term is <param i>.F (possibly through deref).
func paramField(t *Term) (int, string, bool) {
	if t == nil || t.Op != "field" || len(t.Args) != 1 {
		return 0, "", false
	}
	b := t.Args[0]
	if b.Op == "deref" {
		b = b.Args[0]
	}
	if b.Op == "param" {
		var i int
		fmt.Sscanf(b.Name, "%d:", &i)
		return i, t.Name, true
	}
	return 0, "", false
}

// accessorEncodesParam: an AOL keeper accessor whose body calls compkey.MustEncode(&<its key parameter>).
func accessorEncodesParam(fn *ssa.Function) bool {
	for _, cs := range callSites(fn) {
		if cs.Callee != nil && (cs.Callee.Name() == "MustEncode" || cs.Callee.Name() == "MustPartialEncode") && pkgPathOf(cs.Callee) == Rel(compkeyPkg) {
			return true
		}
	}
	return false
}

// boundedFor: for a message handler, the byte-length bounds its message's ValidateBasic established per field (handlers run after
// validation); nil for other functions.
func boundedFor(fn *ssa.Function, kinds map[*ssa.Function]string, all map[string]map[string]int) map[string]int {
	if kinds[fn] == "handler" {
		if m := handlerMsgType(fn); m != nil {
			return all[m.Obj().Name()]
		}
	}
	return nil
}

// keyBounded: every component of the composite-key literal is bounded by 255 bytes.
func keyBounded(p *Prog, o *Origin, fa *Facts, at ssa.Instruction, key *Term, bounds map[string]int) (bool, string) {
	if key == nil {
		return false, "key term not resolved"
	}
	k := key
	if k.Op == "addr" {
		k = k.Args[0]
	}
	// dominated by a successful compkey.Encode / PartialEncode of the same key
	if _, ok := fa.DominatingFact(at, true, func(t *Term) bool {
		if t.Op != "eq" {
			return false
		}
		a, b := t.Args[0], t.Args[1]
		if a.Op != "const" {
			a, b = b, a
		}
		c, kk := b.Res()
		if a.Name != "nil" || b.Op != "res" || kk != 1 || !(c.IsCall("types/compkey.Encode") || c.IsCall("types/compkey.PartialEncode")) {
			return false
		}
		arg := c.Args[0]
		if arg.Op == "addr" {
			arg = arg.Args[0]
		}
		return arg.Eq(k)
	}); ok {
		return true, "dominated by compkey.Encode(&sameKey) err == nil"
	}
	if k.Op != "lit" {
		return false, "key is not a literal built here: " + clip(k.String(), 100)
	}
	var why []string
	for _, kv := range k.Args {
		v := kv.Args[0]
		switch {
		case v.Op == "res" && v.Args[0].IsCall("sdk/types.AccAddressFromBech32"):
			why = append(why, kv.Name+": bech32 address (<=255 by VerifyAddressFormat)")
		case v.Op == "const" || v.Op == "zero":
			why = append(why, kv.Name+": constant")
		case v.Val != nil && types.Identical(v.Val.Type().Underlying(), types.Typ[types.Uint64]):
			why = append(why, kv.Name+": 8-byte integer")
		default:
			f, ok := msgField(v)
			if ok && bounds != nil {
				if hi, has := bounds[f]; has && hi <= 255 {
					why = append(why, fmt.Sprintf("%s: msg.%s <= %d by ValidateBasic", kv.Name, f, hi))
					continue
				}
			}
			// explicit length guard
			if _, okL := fa.DominatingFact(at, false, func(t *Term) bool {
				return t.Op == "lt" && t.Args[0].Op == "const" && t.Args[1].IsCall("builtin:len") && t.Args[1].Args[0].Eq(v)
			}); okL {
				why = append(why, kv.Name+": guarded by a length test")
				continue
			}
			if ub := lenBoundAt(p, fa, at, v); ub >= 0 && ub <= 255 {
				why = append(why, fmt.Sprintf("%s: at most %d bytes here (length test on the path or in a validating helper)", kv.Name, ub))
				continue
			}
			return false, fmt.Sprintf("component %s = %s is externally supplied and unbounded here: a value longer than 255 bytes makes MustEncode panic", kv.Name, clip(v.String(), 80))
		}
	}
	return true, strings.Join(why, "; ")
}

// lenFactAtLeast: the path condition entails len(x) >= n (through ==k, !=0, >=, > forms).
func lenFactAtLeast(fa *Facts, at ssa.Instruction, x *Term, n int64) (bool, string) {
	F := fa.At(at.Block())
	isLen := func(t *Term) bool { return t.IsCall("builtin:len") && len(t.Args) == 1 && t.Args[0].Eq(x) }
	for _, a := range F.Atoms() {
		t := a.Term
		if t == nil {
			continue
		}
		var c int64
		switch {
		case t.Op == "eq" && t.Args[0].Op == "const" && isLen(t.Args[1]):
			fmt.Sscan(t.Args[0].Name, &c)
			if c >= n && Entails(F, a) {
				return true, a.String()
			}
			if c == 0 && n == 1 && Entails(F, fNot(a)) {
				return true, "!" + a.String()
			}
		case t.Op == "lt" && t.Args[0].Op == "const" && isLen(t.Args[1]): // c < len
			fmt.Sscan(t.Args[0].Name, &c)
			if c+1 >= n && Entails(F, a) {
				return true, a.String()
			}
		case n == 1 && t.Op == "call" && len(t.Args) == 1 && t.Args[0].Eq(x) &&
			(t.Name == "(sdk/types.Coins).Empty" || t.Name == "(sdk/types.DecCoins).Empty" || t.Name == "(sdk/types.AccAddress).Empty" || t.Name == "(sdk/types.Coins).IsZero"):
			// SDK emptiness predicates: Empty() ≡ len(x) == 0 (read from the loaded SDK source: single return of len(recv) == 0)
			if sdkEmptyIsLenZero(fa.p, t.Name) && Entails(F, fNot(a)) {
				return true, "!" + a.String()
			}
		case t.Op == "lt" && isLen(t.Args[0]) && t.Args[1].Op == "const": // len < c ; negated: len >= c
			fmt.Sscan(t.Args[1].Name, &c)
			if c >= n && Entails(F, fNot(a)) {
				return true, "!" + a.String()
			}
		}
	}
	return false, ""
}

// sliceBoundOK: x[..:hi] where x is the result of a producer with a pinned length, or guarded by a length fact.
func sliceBoundOK(p *Prog, o *Origin, fa *Facts, at ssa.Instruction, s *ssa.Slice, xt *Term, hi int64) (bool, string) {
	if ok, w := lenFactAtLeast(fa, at, xt, hi); ok {
		return true, w
	}
	// producer with a pinned length: pbkdf2.Key(..., keyLen, ...) with keyLen constant or == constant >= hi
	if xt.IsCall("golang.org/x/crypto/pbkdf2.Key") && len(xt.Args) == 5 {
		kl := xt.Args[3]
		if kl.Op == "const" {
			var c int64
			fmt.Sscan(kl.Name, &c)
			return c >= hi, "pbkdf2.Key with constant keyLen " + kl.Name
		}
		w, ok := fa.DominatingFact(at, true, func(t *Term) bool {
			if t.Op != "eq" {
				return false
			}
			a, b := t.Args[0], t.Args[1]
			if a.Op != "const" {
				a, b = b, a
			}
			var c int64
			fmt.Sscan(a.Name, &c)
			return a.Op == "const" && b.Eq(kl) && c >= hi
		})
		return ok, "pbkdf2.Key keyLen pinned: " + w
	}
	// strings sliced after HasPrefix(x, prefix) at len(prefix): low bound only (no high) is handled by the caller; constant high on other producers is undecided
	return false, ""
}

// ivLenFact: len(iv) == const block size is established on the way to cipher.NewCTR — in this function or, when iv is a parameter,
// at every call site in scope.
func ivLenFact(p *Prog, fn *ssa.Function, at ssa.Instruction, iv *Term, reach *Reach) (bool, string) {
	o := NewOrigin(p, fn)
	fa := NewFacts(p, fn, o)
	match := func(x *Term) func(t *Term) bool {
		return func(t *Term) bool {
			if t.Op != "eq" {
				return false
			}
			a, b := t.Args[0], t.Args[1]
			if a.Op != "const" {
				a, b = b, a
			}
			return a.Op == "const" && a.Name == "16" && b.IsCall("builtin:len") && b.Args[0].Eq(x)
		}
	}
	if w, ok := fa.DominatingFact(at, true, match(iv)); ok {
		return true, w
	}
	if iv.Op != "param" {
		return false, ""
	}
	var idx int
	fmt.Sscanf(iv.Name, "%d:", &idx)
	n, okAll := 0, true
	var wits []string
	for _, g := range reach.Order {
		if !InModule(g) || g.Blocks == nil {
			continue
		}
		gfa := NewFacts(p, g, nil)
		for _, cs := range callSites(g) {
			if cs.Callee == nil || resolveBound(cs.Callee) != fn {
				continue
			}
			n++
			arg := gfa.o.Of(cs.Instr.Common().Args[idx])
			// a freshly generated IV of constant size is fine too
			if arg.Op == "makeslice" && len(arg.Args) == 1 && arg.Args[0].Op == "const" && arg.Args[0].Name == "16" ||
				arg.Op == "slice" && len(arg.Args) == 4 && arg.Args[2].Op == "const" && arg.Args[2].Name == "16" && arg.Args[1].Name == "_" && arg.Args[0].Op == "addr" {
				wits = append(wits, FuncName(g)+": make([]byte, 16)")
				continue
			}
			if w, ok := gfa.DominatingFact(cs.Instr, true, match(arg)); ok {
				wits = append(wits, FuncName(g)+": "+w)
			} else {
				okAll = false
				wits = append(wits, "UNGUARDED in "+FuncName(g)+": iv="+clip(arg.String(), 120))
			}
		}
	}
	return okAll && n > 0, strings.Join(wits, " | ")
}

// bceCrossCheck (thorough tier): the compiler's list of bounds checks it could not eliminate is used to validate the
// *enumeration* of P-bounds obligations: every unproven check that sits on an index/slice instruction of an in-scope function must
// be a site the checker enumerated (and therefore discharged or reported). The verdicts stay the checker's own.
func bceCrossCheck(p *Prog, r *Report, kp func(string, string) string, scope []*ssa.Function, enumerated map[string]bool) {
	cmd := exec.Command("go", "build", "-a", "-gcflags=-d=ssa/check_bce/debug=1", "./types/compkey", "./x/aol/...", "./x/did/...", "./x/pnft/...", "./x/burn/...")
	cmd.Dir = p.RepoDir
	cmd.Env = append(os.Environ(), "GOFLAGS=-mod=mod", "GOPROXY=off", "GOSUMDB=off", "GOTOOLCHAIN=local", "GOWORK=off")
	out, _ := cmd.CombinedOutput()
	// in-scope index/slice instruction lines
	instrLines := map[string]string{}
	for _, fn := range scope {
		for _, b := range fn.Blocks {
			for _, in := range b.Instrs {
				switch in.(type) {
				case *ssa.IndexAddr, *ssa.Index, *ssa.Slice, *ssa.Lookup:
					if in.Pos().IsValid() {
						instrLines[fmt.Sprintf("%s:%d", p.File(in.Pos()), p.Fset.Position(in.Pos()).Line)] = FuncName(fn)
					}
				}
			}
		}
	}
	re := regexp.MustCompile(`^(?:\./)?([^:\s]+\.go):(\d+):\d+: Found (IsInBounds|IsSliceInBounds)`)
	total, inScope, missing := 0, 0, 0
	for _, line := range strings.Split(string(out), "\n") {
		m := re.FindStringSubmatch(strings.TrimSpace(line))
		if m == nil || strings.HasSuffix(m[1], ".pb.go") || strings.HasSuffix(m[1], ".pb.gw.go") {
			continue
		}
		total++
		k := m[1] + ":" + m[2]
		fn, ok := instrLines[k]
		if !ok {
			continue // outside the entry-reachable scope, or inside inlined library code
		}
		inScope++
		if !enumerated[k] {
			missing++
			r.Fail(kp("PANIC", "P-bounds:bce-cross-check:"+k), "every compiler-unproven bounds check on an index/slice instruction of an in-scope function is an obligation the checker enumerated", k,
				fmt.Sprintf("the compiler cannot prove the %s at %s (in %s) and the checker has no obligation for it", m[3], k, fn))
		}
	}
	if total == 0 {
		r.Fail(kp("PANIC", "P-bounds:bce-cross-check#ran"), "the compiler cross-check produced output", p.RepoDir, "go build -gcflags=-d=ssa/check_bce/debug=1 listed nothing: "+clip(string(out), 300))
		return
	}
	r.OK(kp("PANIC", "P-bounds:bce-cross-check#enumeration-complete"), "every compiler-unproven bounds check on an index/slice instruction of an in-scope function is an obligation the checker enumerated", "go build -gcflags=-d=ssa/check_bce/debug=1",
		fmt.Sprintf("%d unproven checks in hand-written module code, %d on in-scope index/slice instructions, %d not enumerated", total, inScope, missing))
	r.Count("bce-unproven-total", total)
	r.Count("bce-unproven-in-scope", inScope)
}

// isNarrowingIntCall: methods of cosmossdk.io/math Int/Uint/LegacyDec that panic when the value does not fit a machine integer;
// returns the name of the predicate that guards the call ("" when name is not such a method).
func isNarrowingIntCall(name string) string {
	if !strings.HasPrefix(name, "(cosmossdk.io/math.") && !strings.HasPrefix(name, "(sdk/types.Int)") && !strings.HasPrefix(name, "(sdk/math.") {
		return ""
	}
	switch {
	case strings.HasSuffix(name, "Int).Int64"), strings.HasSuffix(name, "Dec).TruncateInt64"), strings.HasSuffix(name, "Dec).RoundInt64"):
		return "IsInt64"
	case strings.HasSuffix(name, "Int).Uint64"), strings.HasSuffix(name, "Uint).Uint64"):
		return "IsUint64"
	}
	return ""
}

// sdkEmptyIsLenZero confirms, on the loaded SDK source, that the named method is `return len(recv) == 0`.
func sdkEmptyIsLenZero(p *Prog, name string) bool {
	var fn *ssa.Function
	// name is "(sdk/types.T).M"
	if i, j := strings.Index(name, "types."), strings.Index(name, ")."); i > 0 && j > i {
		if pk := p.All["github.com/cosmos/cosmos-sdk/types"]; pk != nil {
			if tn, ok := pk.Types.Scope().Lookup(name[i+len("types.") : j]).(*types.TypeName); ok {
				if sel := p.SSA.MethodSets.MethodSet(tn.Type()).Lookup(pk.Types, name[j+2:]); sel != nil {
					fn = p.SSA.MethodValue(sel)
				}
			}
		}
	}
	if fn == nil || len(fn.Blocks) != 1 {
		return false
	}
	rets := returnsOf(fn)
	if len(rets) != 1 || len(rets[0].Results) != 1 {
		return false
	}
	b, ok := rets[0].Results[0].(*ssa.BinOp)
	if !ok || b.Op != token.EQL {
		return false
	}
	c, okc := b.Y.(*ssa.Const)
	l, okl := b.X.(*ssa.Call)
	if !okc || !okl || c.Value == nil || c.Int64() != 0 {
		return false
	}
	bi, okb := l.Call.Value.(*ssa.Builtin)
	return okb && bi.Name() == "len" && len(fn.Params) == 1 && l.Call.Args[0] == fn.Params[0]
}

func isIntegerType(t types.Type) bool {
	b, ok := t.Underlying().(*types.Basic)
	return ok && b.Info()&types.IsInteger != 0
}

func isByteSlice(t types.Type) bool {
	sl, ok := t.Underlying().(*types.Slice)
	if !ok {
		return false
	}
	b, ok := sl.Elem().Underlying().(*types.Basic)
	return ok && b.Kind() == types.Byte
}

// fixedSizeKeyType: named []byte key types of the crypto packages whose methods panic on a wrong length.
func fixedSizeKeyType(t types.Type) string {
	n, ok := t.(*types.Named)
	if !ok || n.Obj().Pkg() == nil || !isByteSlice(t) {
		return ""
	}
	pp := n.Obj().Pkg().Path()
	if !(strings.Contains(pp, "/crypto/") || strings.HasPrefix(pp, "crypto/")) {
		return ""
	}
	switch n.Obj().Name() {
	case "PubKey", "PrivKey", "PublicKey", "PrivateKey":
		return shortPkg(n.String())
	}
	return ""
}

// isBigDivisionCall: division methods of cosmossdk.io/math Int / Uint / LegacyDec (panic on a zero divisor).
func isBigDivisionCall(name string) bool {
	if !strings.HasPrefix(name, "(cosmossdk.io/math.") {
		return false
	}
	i := strings.LastIndex(name, ").")
	if i < 0 {
		return false
	}
	m := name[i+2:]
	return strings.HasPrefix(m, "Quo") || strings.HasPrefix(m, "Mod")
}

// fixedLenProducer: make([]byte, const) — which go/ssa may lower to a slice of a new fixed-size array — possibly through phis.
func fixedLenProducer(v ssa.Value) bool {
	switch x := v.(type) {
	case *ssa.MakeSlice:
		_, ok := x.Len.(*ssa.Const)
		return ok
	case *ssa.Slice:
		if pt, ok := x.X.Type().Underlying().(*types.Pointer); ok {
			if _, isArr := pt.Elem().Underlying().(*types.Array); isArr && x.Low == nil && x.High == nil {
				return true
			}
			if _, isArr := pt.Elem().Underlying().(*types.Array); isArr {
				_, hc := x.High.(*ssa.Const)
				return x.Low == nil && hc
			}
		}
	case *ssa.Phi:
		for _, e := range x.Edges {
			if !fixedLenProducer(e) {
				return false
			}
		}
		return len(x.Edges) > 0
	}
	return false
}

// bigDivisionGuard: the divisor (last argument) of a math.Int/LegacyDec division is a non-zero constant or is dominated by
// !IsZero() / IsPositive() on the same value.
func bigDivisionGuard(o *Origin, fa *Facts, at ssa.Instruction, cc *ssa.CallCommon) (bool, string, *Term) {
	var dv *Term
	if n := len(cc.Args); n >= 2 {
		dv = o.Of(cc.Args[n-1])
	}
	if dv == nil {
		return false, "", nil
	}
	if dv.Op == "call" && (strings.HasSuffix(dv.Name, "math.NewInt") || strings.HasSuffix(dv.Name, "math.NewUint") || strings.HasSuffix(dv.Name, "NewDec")) && len(dv.Args) == 1 && dv.Args[0].Op == "const" && dv.Args[0].Name != "0" {
		return true, "constant divisor " + dv.Args[0].Name, dv
	}
	if dv.Op == "const" && dv.Name != "0" {
		return true, "constant divisor " + dv.Name, dv
	}
	if wit, ok := fa.DominatingFact(at, false, func(t *Term) bool {
		return t.Op == "call" && strings.HasSuffix(t.Name, ").IsZero") && len(t.Args) > 0 && t.Args[0].Eq(dv)
	}); ok {
		return true, "!" + wit, dv
	}
	if wit, ok := fa.DominatingFact(at, true, func(t *Term) bool {
		return t.Op == "call" && strings.HasSuffix(t.Name, ").IsPositive") && len(t.Args) > 0 && t.Args[0].Eq(dv)
	}); ok {
		return true, wit, dv
	}
	return false, "", dv
}

// calledOnlyFromScope: every use of fn is a static call from a function in scope (so the call-site rule sees each of them).
func calledOnlyFromScope(p *Prog, fn *ssa.Function, scope []*ssa.Function) bool {
	in := map[*ssa.Function]bool{}
	for _, f := range scope {
		in[f] = true
	}
	callers, _ := p.CallersOf(fn)
	if len(callers) == 0 {
		return false
	}
	for _, c := range callers {
		if !in[c] {
			return false
		}
	}
	return true
}

// boundAtCallSites: fn's parameter (term prm = "$i:name") satisfies check at every call site of fn; all callers must be in scope.
func boundAtCallSites(p *Prog, fn *ssa.Function, prm *Term, scope []*ssa.Function, check func(*Origin, *Facts, ssa.Instruction, *Term) (bool, string)) (bool, string) {
	var idx int
	if _, err := fmt.Sscanf(prm.Name, "%d:", &idx); err != nil {
		return false, ""
	}
	if !calledOnlyFromScope(p, fn, scope) {
		return false, ""
	}
	callers, _ := p.CallersOf(fn)
	n := 0
	wit := ""
	for _, c := range callers {
		co := NewOrigin(p, c)
		cfa := NewFacts(p, c, co)
		for _, cs := range callSites(c) {
			if cs.Callee == nil || resolveBound(cs.Callee) != fn {
				continue
			}
			args := cs.Instr.Common().Args
			if idx >= len(args) {
				return false, ""
			}
			n++
			ok, w := check(co, cfa, cs.Instr.(ssa.Instruction), co.Of(args[idx]))
			if !ok {
				return false, "not established at the call in " + FuncName(c)
			}
			wit = w
		}
	}
	return n > 0, fmt.Sprintf("precondition discharged at %d call site(s): %s", n, wit)
}

// nonEmptyProducers: library calls whose []byte result is never empty (reviewed): a length-prefixed encoding always carries at
// least the length byte.
var nonEmptyProducers = []string{"MustMarshalLengthPrefixed", "MarshalLengthPrefixed"}

// contradictsLibraryFact: the condition F requires len(X) == 0 (or len(X) < 1) for an X that a reviewed library call never
// returns empty. Returns the reason, or "".
func contradictsLibraryFact(F *Formula) string {
	for _, a := range F.Atoms() {
		t := a.Term
		if t == nil || len(t.Args) != 2 {
			continue
		}
		var ln *Term
		switch {
		case t.Op == "eq" && t.Args[0].Op == "const" && t.Args[0].Name == "0":
			ln = t.Args[1]
		case t.Op == "eq" && t.Args[1].Op == "const" && t.Args[1].Name == "0":
			ln = t.Args[0]
		case t.Op == "lt" && t.Args[1].Op == "const" && t.Args[1].Name == "1":
			ln = t.Args[0]
		}
		if ln == nil || !ln.IsCall("builtin:len") || len(ln.Args) != 1 || ln.Args[0].Op != "call" {
			continue
		}
		prod := ""
		for _, n := range nonEmptyProducers {
			if strings.HasSuffix(ln.Args[0].Name, "."+n) {
				prod = n
			}
		}
		if prod == "" || !Entails(F, a) {
			continue
		}
		return "the path requires " + clip(a.String(), 120) + ", but " + prod + " never returns an empty slice (the length prefix alone is one byte)"
	}
	return ""
}

// nonNegativeInt: the integer value is >= 0 by construction.
func nonNegativeInt(v ssa.Value, depth int) bool {
	if depth > 4 {
		return false
	}
	switch x := v.(type) {
	case *ssa.Const:
		return x.Value != nil && constant.Sign(x.Value) >= 0
	case *ssa.Call:
		if bi, ok := x.Call.Value.(*ssa.Builtin); ok && (bi.Name() == "len" || bi.Name() == "cap" || bi.Name() == "copy") {
			return true
		}
	case *ssa.BinOp:
		switch x.Op {
		case token.ADD, token.MUL, token.QUO, token.REM, token.AND, token.SHR:
			return nonNegativeInt(x.X, depth+1) && nonNegativeInt(x.Y, depth+1)
		}
	case *ssa.Convert:
		if bt, ok := x.X.Type().Underlying().(*types.Basic); ok && bt.Info()&types.IsUnsigned != 0 {
			return true
		}
		return nonNegativeInt(x.X, depth+1)
	case *ssa.Phi:
		for _, e := range x.Edges {
			if e != ssa.Value(x) && !nonNegativeInt(e, depth+1) {
				return false
			}
		}
		return len(x.Edges) > 0
	}
	return false
}

// shrinkingCallIn: the term goes through a function that can return an empty slice/string for a non-empty input (Trim*, Fields),
// directly or inside a module function it calls (its returned values are examined, two levels deep).
func shrinkingCallIn(p *Prog, t *Term, depth int) string {
	found := ""
	t.Walk(func(x *Term) {
		if found != "" || x.Op != "call" {
			return
		}
		if strings.HasPrefix(x.Name, "bytes.Trim") || strings.HasPrefix(x.Name, "strings.Trim") || x.Name == "bytes.Fields" || x.Name == "strings.Fields" {
			found = x.Name
			return
		}
		if depth < 2 {
			if c, ok := x.Val.(*ssa.Call); ok {
				if g := c.Call.StaticCallee(); g != nil && InModule(g) && g.Blocks != nil && !p.IsGenerated(g) {
					go2 := NewOrigin(p, g)
					for _, ret := range returnsOf(g) {
						for _, rv := range ret.Results {
							if f := shrinkingCallIn(p, go2.Of(rv), depth+1); f != "" {
								found = f + " (in " + FuncName(g) + ")"
							}
						}
					}
				}
			}
		}
	})
	return found
}
