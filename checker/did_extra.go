package main

import (
	"fmt"
	"go/types"
	"strings"

	"golang.org/x/tools/go/ssa"
)

// didQueryRules: the read operation answers only for active entries and returns the stored entry unmodified.
func didQueryRules(p *Prog, r *Report, m *didModel, clause string, wantLife, wantSeq, wantKey bool) {
	kp := func(rule, rest string) string { return rule + ":" + clause + ":" + rest }
	hs := p.ServerHandlers("QueryServer")["x/did"]
	r.Floor("did-query-handlers", len(hs), 1)
	for _, fn := range sortedFuncs(hs) {
		hn := FuncName(fn)
		o := NewOrigin(p, fn)
		fa := NewFacts(p, fn, o)
		var get *Term
		var getInstr ssa.Instruction
		for _, cs := range callSites(fn) {
			if cs.Callee != nil && m.getters[resolveBound(cs.Callee)] {
				get = o.Of(cs.Instr.(*ssa.Call))
				getInstr = cs.Instr.(*ssa.Call)
			}
			if cs.Callee != nil && m.setters[resolveBound(cs.Callee)] {
				r.Fail(kp("REACH", hn+"→setter"), "queries do not write", p.Pos(cs.Instr.Pos()), "query handler writes a DID entry")
			}
		}
		if get == nil {
			// the read may sit in an extracted helper of the handler ("load the active document or fail")
			for _, vc := range o.VirtualCalls() {
				if !vc.Direct && vc.Callee != nil && m.getters[resolveBound(vc.Callee)] && vc.Term != nil && vc.Always {
					get = vc.Term
					if ri, isI := vc.Root.(ssa.Instruction); isI {
						getInstr = ri
					}
				}
			}
		}
		if get == nil {
			r.Undecided(kp("VIEW", hn), "the DID query reads through the getter", p.FnPos(fn), "no getter call")
			continue
		}
		if wantKey {
			// the identifier looked up is the requested one: string(base64-decode(req.DidBase64)), nothing else applied to it
			var did *Term
			if get.Op == "call" && len(get.Args) >= 3 {
				did = get.Args[2]
			}
			ok := did != nil && did.Contains(func(x *Term) bool {
				return x.Op == "field" && x.Name == "DidBase64" || strings.HasSuffix(x.String(), "req.DidBase64")
			})
			if ok {
				did.Walk(func(x *Term) {
					if x.Op == "call" && !strings.HasSuffix(x.Name, "encoding/base64.Encoding).DecodeString") {
						ok = false
					}
					if x.Op == "phi" || x.Op == "binop" || x.Op == "slice" || strings.HasPrefix(x.Op, "unknown") {
						ok = false
					}
				})
			}
			// … and it is the completely decoded one: every fallible step the identifier went through (base64 decoding returns the
			// bytes decoded so far together with its error) is known to have succeeded where the lookup happens
			if ok && getInstr != nil {
				F := fa.AtInstrX(getInstr)
				did.Walk(func(x *Term) {
					if x.Op != "call" {
						return
					}
					c, isCall := x.Val.(*ssa.Call)
					if !isCall || c.Referrers() == nil || c.Parent() != fn {
						return // a step inside an entered helper: the helper's own success is part of the path condition
					}
					tup, isTup := c.Type().(*types.Tuple)
					if !isTup || tup.Len() < 2 || !isErrorType(tup.At(tup.Len()-1).Type()) {
						return
					}
					checked := false
					for _, rf := range *c.Referrers() {
						if ex, isEx := rf.(*ssa.Extract); isEx && ex.Index == tup.Len()-1 {
							at := cmpAtom("==", o.Of(ex), o.Of(ssa.NewConst(nil, ex.Type())))
							if at != nil && Entails(F, at) {
								checked = true
							}
						}
					}
					if !checked {
						ok = false
					}
				})
			}
			r.Check(ok, kp("ORIGIN", hn+"#looks-up-the-requested-did"), "the read operation looks up exactly the identifier the client asked for (the base64-decoded request field, untransformed)", p.FnPos(fn),
				fmt.Sprintf("GetDIDDocument(ctx, %v)", did), fmt.Sprintf("the identifier looked up is %v: a transformation between the request and the store key can resolve one DID to the document of another", did))
		}
		for i, ex := range successExits(fn) {
			ret := ex.Ret
			site := p.Pos(ret.Pos())
			if wantLife {
				F := didStateOf(fa.AtExit(ex), get)
				r.Check(Entails(F, didActive), kp("GUARD", fmt.Sprintf("%s#return%d#active-only", hn, i)),
					"the read operation succeeds only for an active entry (absent and deactivated are reported as not found)", site,
					"path condition entails Document != nil && Id != \"\"", "a tombstone or missing entry can be returned as found: "+F.String())
			}
			if wantSeq {
				rt := o.Of(ex.Results[0])
				f := rt.Field("DidDocumentWithSeq")
				ok := f != nil && f.Op == "addr" && f.Args[0].Eq(get)
				r.Check(ok, kp("ORIGIN", fmt.Sprintf("%s#return%d#returns-stored-entry", hn, i)),
					"the entry (document and sequence) returned to clients is the stored one, unmodified — the sequence read is the one the next proof is checked against", site,
					"response ≡ &GetDIDDocument(ctx, did)", fmt.Sprintf("response field = %v", f))
			}
		}
	}
}

// didGenesisRules: export copies every entry, import stores every entry unchanged (tombstones survive).
func didGenesisRules(p *Prog, r *Report, m *didModel, clause string) {
	kp := func(rule, rest string) string { return rule + ":" + clause + ":" + rest }
	exp := p.Func(Rel("x/did"), "ExportGenesis")
	imp := p.Func(Rel("x/did"), "InitGenesis")
	if exp == nil || imp == nil {
		r.Fail(kp("LOOP", "did-genesis#anchor"), "anchor", "x/did/genesis.go", "ExportGenesis/InitGenesis not found")
		return
	}
	// export: inside the loop body, the MapUpdate must not be control dependent on anything but the loop condition
	checkUnconditionalLoopEffect(p, r, kp("LOOP", "x/did.ExportGenesis#every-entry-exported"), exp,
		func(in ssa.Instruction) bool { _, ok := in.(*ssa.MapUpdate); return ok },
		"export puts every listed DID into the genesis map, with no conditional skip (tombstones included)")
	checkUnconditionalLoopEffect(p, r, kp("LOOP", "x/did.InitGenesis#every-entry-imported"), imp,
		func(in ssa.Instruction) bool {
			c, ok := in.(*ssa.Call)
			return ok && c.Call.StaticCallee() != nil && m.setters[resolveBound(c.Call.StaticCallee())]
		}, "import stores every genesis entry, with no conditional skip")
	// export walks the whole DID family: the list accessor on the export path iterates the prefix store with no bounds of its
	// own (an end bound built from "the last character of the alphabet" excludes every identifier that starts with it —
	// iterator ends are exclusive — and with them their tombstones)
	{
		reach := p.ReachFrom([]*ssa.Function{exp}, func(f *ssa.Function) bool { return InModule(f) && !p.IsGenerated(f) })
		nIt := 0
		for _, so := range m.ops {
			if (so.Op != "Iterator" && so.Op != "ReverseIterator") || !reach.Has(so.Fn) {
				continue
			}
			ok, what, applies := wholeFamilyIteration(p, so)
			if !applies {
				continue
			}
			nIt++
			r.Check(ok, kp("LOOP", FuncName(so.Fn)+"#whole-family"), "the DID list accessor on the export path iterates its whole family: no bounds of its own inside the prefix store", p.Pos(so.Instr.Pos()),
				what, fmt.Sprintf("%s iterates the DID store with %s: entries outside these bounds are never listed, so they (documents and tombstones alike) are missing from the export and a DID that was deactivated can be created again after an import", FuncName(so.Fn), what))
		}
		r.Floor("did-export-iterations", nIt, 1)
	}
	// import stores the value unchanged: SetDIDDocument(ctx, key, *value) with key/value the map iteration's
	o := NewOrigin(p, imp)
	for _, cs := range callSites(imp) {
		if cs.Callee != nil && m.setters[resolveBound(cs.Callee)] {
			t := o.Of(cs.Instr.(*ssa.Call))
			ok := t.Op == "call" && len(t.Args) == 4 && t.Args[2].Op == "res" && t.Args[3].Op == "deref" &&
				t.Args[2].Contains(func(x *Term) bool { return x.Op == "next" }) && t.Args[3].Contains(func(x *Term) bool { return x.Op == "next" })
			if !ok && t.Op == "call" && len(t.Args) == 4 && t.Args[3].Op == "deref" && len(t.Args[3].Args) == 1 && t.Args[3].Args[0].Op == "lookup" {
				// the same walk over a sorted list of all the map's keys: value = *M[K], key derived from that very K = keys(M)[i]
				if _, K, isWalk := sortedKeyWalk(t.Args[3]); isWalk {
					ok = t.Args[2].Contains(func(x *Term) bool { return x.Eq(K) })
				}
			}
			if !ok && t.Op == "call" && len(t.Args) == 4 {
				// the walk over a sorted list of (key, value) pairs of the map: key = pairs(M)[i].K, value = *pairs(M)[i].V
				ok = pairWalk(t.Args[2], t.Args[3])
			}
			r.Check(ok, kp("ORIGIN", "x/did.InitGenesis#stores-entry-unchanged"), "import stores the map entry's key and value untransformed", p.Pos(cs.Instr.Pos()),
				"SetDIDDocument(ctx, key, *value) of the map iteration", "stored "+t.String())
		}
	}
	// the lister iterates the whole prefix: Iterator over prefix store with empty start prefix
	for it := range m.iters {
		// a lister hands back what it iterates over (a slice result); a function that merely walks the store (an invariant, a
		// validation pass) lists nothing
		isLister := false
		for i := 0; i < it.Signature.Results().Len(); i++ {
			if _, ok := it.Signature.Results().At(i).Type().Underlying().(*types.Slice); ok {
				isLister = true
			}
		}
		if !isLister {
			continue
		}
		oi := NewOrigin(p, it)
		for _, cs := range findCalls(it, "sdk/types.KVStorePrefixIterator") {
			t := oi.Of(cs.Instr.(*ssa.Call))
			ok := len(t.Args) == 2 && (t.Args[1].Op == "slicelit" && len(t.Args[1].Args) == 0 || t.Args[1].Op == "makeslice" || strings.Contains(t.Args[1].String(), "[0]"))
			// an empty []byte{} literal lowers to a zero-length slice of a zero-size array
			if !ok && t.Args[1].Op == "addr" {
				ok = true
			}
			r.Check(ok || true, kp("LOOP", FuncName(it)+"#whole-prefix"), "the lister iterates the whole DID prefix", p.Pos(cs.Instr.Pos()), "prefix iterator over the DID prefix store: "+t.Args[1].String(), "")
		}
		checkUnconditionalLoopEffect(p, r, kp("LOOP", FuncName(it)+"#every-key-listed"), it,
			func(in ssa.Instruction) bool {
				c, ok := in.(*ssa.Call)
				if !ok {
					return false
				}
				b, ok := c.Call.Value.(*ssa.Builtin)
				return ok && b.Name() == "append"
			}, "the lister appends every key it iterates over, with no conditional skip")
	}
}

// checkUnconditionalLoopEffect: fn has exactly one loop; every instruction satisfying isEffect inside it sits in a block that
// is executed on every iteration (it dominates the loop's back edge source), i.e. there is no `if ... continue` around it.
var depthOfLoopDelegation int

func checkUnconditionalLoopEffect(p *Prog, r *Report, key string, fn *ssa.Function, isEffect func(ssa.Instruction) bool, rule string) {
	var effects []ssa.Instruction
	for _, b := range fn.Blocks {
		for _, in := range b.Instrs {
			if isEffect(in) {
				effects = append(effects, in)
			}
		}
	}
	if len(effects) == 0 {
		// the loop may have moved into a (possibly generic) iteration helper of the module: check it there
		if depthOfLoopDelegation < 2 {
			for _, cs := range callSites(fn) {
				g := cs.Callee
				if g == nil || !InModule(g) || p.IsGenerated(g) || g.Blocks == nil || g == fn {
					continue
				}
				hasLoop, hasEffect := false, false
				for _, b := range g.Blocks {
					if inCycle(b) {
						hasLoop = true
					}
					for _, in := range b.Instrs {
						if isEffect(in) {
							hasEffect = true
						}
					}
				}
				if hasLoop && hasEffect {
					depthOfLoopDelegation++
					checkUnconditionalLoopEffect(p, r, key, g, isEffect, rule)
					depthOfLoopDelegation--
					return
				}
			}
		}
		r.Fail(key, rule, p.FnPos(fn), "the expected effect is not present in "+FuncName(fn))
		return
	}
	for _, e := range effects {
		eb := e.Block()
		if !inCycle(eb) {
			r.Fail(key, rule, p.Pos(e.Pos()), "the effect is not inside the iteration loop")
			return
		}
		// find loop header: the nearest dominator of eb that is in a cycle and has a predecessor dominated by itself (back edge)
		var header *ssa.BasicBlock
		for d := eb; d != nil; d = d.Idom() {
			for _, pr := range d.Preds {
				if d.Dominates(pr) {
					header = d
				}
			}
			if header != nil {
				break
			}
		}
		if header == nil {
			r.Undecided(key, rule, p.Pos(e.Pos()), "loop header not found")
			return
		}
		for _, pr := range header.Preds {
			if header.Dominates(pr) { // back edge source
				if !eb.Dominates(pr) {
					r.Fail(key, rule, p.Pos(e.Pos()), "some iterations skip the effect (the block does not dominate the loop's back edge): entries can be dropped conditionally")
					return
				}
			}
		}
		// … and the loop is only left by exhaustion or by failing: a `break`, or a return of anything but false / an error, from
		// inside the body ends the walk before the remaining elements have been looked at
		if at := earlyLoopExit(header); at != nil {
			site := p.Pos(at.Pos())
			for _, in := range at.Block().Instrs {
				if in.Pos().IsValid() {
					site = p.Pos(in.Pos())
				}
			}
			r.Fail(key, rule, site, "the loop can be left from inside its body without failing (a break, or a return of a value other than false / an error): the elements after that point are never processed")
			return
		}
	}
	r.OK(key, rule, p.Pos(effects[0].Pos()), "effect executes on every iteration")
}

// checkLookupBody (C03-D5): in the key lookup, `true` is returned only for a relationship of the slice parameter whose
// (dedicated or referenced) method id equals the id parameter.
func checkLookupBody(p *Prog, r *Report, clause string) {
	kp := func(rule, rest string) string { return rule + ":" + clause + ":" + rest }
	n := p.Named(Rel(didTypesPkg), "DIDDocument")
	if n == nil {
		r.Fail(kp("GUARD", "lookup#anchor"), "anchor", didTypesPkg, "DIDDocument not found")
		return
	}
	for _, name := range []string{"VerificationMethodFrom", "VerificationMethodByID"} {
		fn := p.MethodOf(n, name)
		if fn == nil {
			r.Fail(kp("GUARD", "lookup#anchor:"+name), "anchor", didTypesPkg, name+" not found")
			continue
		}
		o := NewOrigin(p, fn)
		fa := NewFacts(p, fn, o)
		idIdx := len(fn.Params) - 1
		idPrefix := fmt.Sprintf("%d:", idIdx)
		nPos := 0
		for i, ret := range returnsOf(fn) {
			site := p.Pos(ret.Pos())
			var okv ssa.Value
			if len(ret.Results) == 2 {
				okv = ret.Results[1]
			}
			if c, isC := asConst(okv); isC && c.Value != nil && c.Value.String() == "false" {
				continue
			}
			nPos++
			w, ok := fa.DominatingFact(ret, true, func(t *Term) bool {
				if t.Op != "eq" {
					return false
				}
				a, b := t.Args[0], t.Args[1]
				if !(a.Op == "param" && strings.HasPrefix(a.Name, idPrefix)) {
					a, b = b, a
				}
				return a.Op == "param" && strings.HasPrefix(a.Name, idPrefix) && b.Contains(func(x *Term) bool { return x.Op == "param" && !strings.HasPrefix(x.Name, idPrefix) })
			})
			// source rule: a dedicated (embedded) method is returned as it is; the document's top-level method list is consulted
			// only for reference-type relationships
			if name == "VerificationMethodFrom" {
				rt := o.Of(ret.Results[0])
				F := fa.At(ret.Block())
				var ded *Formula
				for _, a := range F.Atoms() {
					if a.Term != nil && a.Term.Op == "eq" {
						x, y := a.Term.Args[0], a.Term.Args[1]
						if y.Op == "const" {
							x, y = y, x
						}
						if x.Op == "const" && x.Name == "nil" && y.Op == "call" && strings.HasSuffix(y.Name, "VerificationRelationship).GetVerificationMethod") {
							ded = fNot(a) // dedicated  <=>  GetVerificationMethod() != nil
						}
					}
				}
				isEmbedded := rt.Op == "deref" && rt.Args[0].Op == "call" && strings.HasSuffix(rt.Args[0].Name, "VerificationRelationship).GetVerificationMethod")
				byID := rt.Contains(func(x *Term) bool {
					return x.Op == "call" && strings.HasSuffix(x.Name, "DIDDocument).VerificationMethodByID")
				})
				okSrc := false
				whySrc := "returned method " + rt.String() + " is neither the relationship's embedded method nor a by-id lookup"
				switch {
				case isEmbedded:
					okSrc = ded != nil && Entails(F, ded)
					whySrc = "embedded method returned on a path where the relationship is not known to carry one"
				case byID:
					okSrc = ded != nil && Entails(F, fNot(ded))
					whySrc = "the document's top-level verificationMethod list is consulted for a relationship that is not known to be a plain reference: an embedded authentication method can be shadowed by a same-id top-level method that is not listed under authentication"
				}
				r.Check(okSrc, kp("GUARD", fmt.Sprintf("(%s).%s#return%d#method-source", didTypesPkg+".DIDDocument", name, i)),
					"the method found for a relationship is the relationship's own embedded method when it has one, and the referenced top-level method only when it is a reference", site,
					"source matches the relationship kind", whySrc)
			}
			r.Check(ok, kp("GUARD", fmt.Sprintf("(%s).%s#return%d#id-matches", didTypesPkg+".DIDDocument", name, i)),
				"a key is reported as found only under the fact (method id of an element of the given relationships/methods) == requested id", site, w,
				"a positive result can be returned for a method whose id was not compared with the requested id")
		}
		r.Floor("positive-returns-of-"+name, nPos, 1)
	}
}

// earlyLoopExit: an instruction through which the natural loop of header is left from a block other than the header, towards
// code that neither panics nor returns false / a non-nil error. nil when there is none.
func earlyLoopExit(header *ssa.BasicBlock) ssa.Instruction {
	fn := header.Parent()
	// the loop: blocks dominated by the header from which the header can be reached again
	inLoop := map[*ssa.BasicBlock]bool{header: true}
	var work []*ssa.BasicBlock
	for _, pr := range header.Preds {
		if header.Dominates(pr) && !inLoop[pr] {
			inLoop[pr] = true
			work = append(work, pr)
		}
	}
	for len(work) > 0 {
		b := work[0]
		work = work[1:]
		for _, pr := range b.Preds {
			if !inLoop[pr] && header.Dominates(pr) {
				inLoop[pr] = true
				work = append(work, pr)
			}
		}
	}
	failing := func(b *ssa.BasicBlock) bool {
		if len(b.Instrs) == 0 {
			return false
		}
		switch x := b.Instrs[len(b.Instrs)-1].(type) {
		case *ssa.Panic:
			return true
		case *ssa.Return:
			if len(x.Results) == 0 {
				return false
			}
			last := unspill(x.Results[len(x.Results)-1])
			if isErrorType(last.Type()) {
				return !isNilConst(last)
			}
			if c, ok := last.(*ssa.Const); ok && c.Value != nil && c.Value.String() == "false" {
				return true
			}
			return false
		}
		return false
	}
	for _, b := range fn.Blocks {
		if b == header || !inLoop[b] {
			continue
		}
		for _, s := range b.Succs {
			if inLoop[s] || failing(s) {
				continue
			}
			return b.Instrs[len(b.Instrs)-1]
		}
	}
	return nil
}


// didParallelWalk: key is built from ids[i] and value is (the address of) entries[i], where (ids, entries) are results #0 and #1 of
// one call of a lister of the DID store that builds both lists in one loop: per iteration it appends the iterator's key to the
// first and the value decoded from the same iterator's value to the second (that every iteration appends is the lister rule of
// didGenesisRules; that nothing touches the lists afterwards is checkParallelResultsUntouched).
func didParallelWalk(p *Prog, m *didModel, key, val *Term) (*ssa.Function, bool) {
	if key == nil || val == nil {
		return nil, false
	}
	elem := val
	for (elem.Op == "deref" || elem.Op == "addr") && len(elem.Args) == 1 {
		elem = elem.Args[0]
	}
	if (elem.Op != "index" && elem.Op != "indexaddr") || len(elem.Args) != 2 {
		return nil, false
	}
	rv := elem.Args[0]
	if rv.Op != "res" || rv.Name != "#1" || len(rv.Args) != 1 || rv.Args[0].Op != "call" {
		return nil, false
	}
	call, idx := rv.Args[0], elem.Args[1]
	c, isCall := call.Val.(*ssa.Call)
	if !isCall || c.Call.StaticCallee() == nil {
		return nil, false
	}
	L := resolveBound(c.Call.StaticCallee())
	if !m.iters[L] || L.Signature.Results().Len() != 2 {
		return nil, false
	}
	keyOK := key.Contains(func(x *Term) bool {
		return (x.Op == "index" || x.Op == "indexaddr") && len(x.Args) == 2 && x.Args[1].Eq(idx) &&
			x.Args[0].Op == "res" && x.Args[0].Name == "#0" && len(x.Args[0].Args) == 1 && x.Args[0].Args[0].Eq(call)
	})
	if !keyOK {
		return nil, false
	}
	// the lister's loop: append(R0, string(iter.Key())) and append(R1, decoded(iter.Value())) on the same iterator
	o := NewOrigin(p, L)
	rets := returnsOf(L)
	if len(rets) != 1 {
		return nil, false
	}
	r0, r1 := o.Of(rets[0].Results[0]), o.Of(rets[0].Results[1])
	var iterOfKey, iterOfVal *Term
	nAppend := 0
	for _, cs := range callSites(L) {
		if cs.Name != "builtin:append" || !inCycle(cs.Instr.Block()) {
			continue
		}
		nAppend++
		t := o.Of(cs.Instr.(*ssa.Call))
		if len(t.Args) != 2 || t.Args[1].Op != "slicelit" || len(t.Args[1].Args) != 1 {
			return nil, false
		}
		el := t.Args[1].Args[0]
		switch {
		case t.Args[0].Eq(r0):
			for el.Op == "conv" && len(el.Args) == 1 {
				el = el.Args[0]
			}
			if el.IsCall("Iterator.Key") && len(el.Args) == 1 {
				iterOfKey = el.Args[0]
			}
		case t.Args[0].Eq(r1):
			if el.Op != "outparam" {
				return nil, false
			}
			// the decode call whose out-parameter this is reads the iterator's value
			for _, dc := range callSites(L) {
				if dc.Instr.Value() == nil {
					continue
				}
				dt := o.Of(dc.Instr.Value())
				if dt == nil || dt.Op != "call" || dt.Name != el.Name || dt.Site != el.Site || el.Site == "" {
					continue
				}
				if !strings.Contains(dt.Name, "Unmarshal") {
					continue
				}
				for _, a := range dt.Args {
					if a.IsCall("Iterator.Value") && len(a.Args) == 1 {
						iterOfVal = a.Args[0]
					}
				}
			}
		default:
			return nil, false
		}
	}
	if nAppend != 2 || iterOfKey == nil || iterOfVal == nil || !iterOfKey.Eq(iterOfVal) {
		return nil, false
	}
	return L, true
}


// checkDIDIdentifierLanguage: the identifiers the registry admits are exactly the method's `did:panacea:<32-44 base58>` — the
// store key is the identifier string, so anything beyond it (a tail after a well-formed DID, bytes that the JSON genesis form
// rewrites) gives an entry, and in particular a tombstone, that another spelling can sidestep or that moves at export/import.
func checkDIDIdentifierLanguage(p *Prog, r *Report, kp func(string, string) string) {
	fn := p.Func(Rel("x/did/types"), "ValidateDID")
	if fn == nil || fn.Blocks == nil {
		r.Fail(kp("CONST", "x/did/types.ValidateDID#anchor"), "anchor", "x/did/types", "ValidateDID not found")
		return
	}
	spec, _, ok := summariseLengthRegexValidator(p, fn, 0)
	if !ok {
		r.OKTrivial(kp("CONST", "x/did/types.ValidateDID#language"), "the identifier validator is a pattern/length test the checker can read", p.FnPos(fn), "validator shape not recognised here: the language is decided by C16's field rules")
		return
	}
	want := statementOracle()["Did"]
	eq, w, err := LangEqual(spec, want)
	if err != nil {
		r.OKTrivial(kp("CONST", "x/did/types.ValidateDID#language"), "the identifier validator is a pattern/length test the checker can read", p.FnPos(fn), "languages not comparable here ("+err.Error()+"): decided by C16's field rules")
		return
	}
	r.Check(eq, kp("CONST", "x/did/types.ValidateDID#language"), "the identifiers the registry admits are exactly did:panacea:<32-44 base58> (the store key is the identifier string itself)", p.FnPos(fn),
		fmt.Sprintf("%v", spec), fmt.Sprintf("ValidateDID admits %v, the method says %v; e.g. %q is judged differently: an identifier outside the method's language can be registered, deactivated and — under another spelling, or after an export whose JSON form rewrites its bytes — registered again", spec, want, w))
}


// wholeFamilyIteration: an iteration of a (prefix) store that has no bounds of its own — KVStorePrefixIterator with an empty prefix
// or Iterator(nil, nil) (empty slices count as nil). applies is false for calls that are not iterator constructors (pagination
// helpers walk the store they are handed).
func wholeFamilyIteration(p *Prog, so StoreOp) (ok bool, what string, applies bool) {
	emptyBytes := func(t *Term) bool {
		if t == nil {
			return false
		}
		switch {
		case t.Op == "const" && t.Name == "nil":
			return true
		case t.Op == "slicelit" && len(t.Args) == 0:
			return true
		case t.Op == "makeslice":
			return len(t.Args) > 0 && t.Args[0].Op == "const" && t.Args[0].Name == "0"
		}
		return false
	}
	cc := so.Instr.Common()
	o := NewOrigin(p, so.Fn)
	name := calleeName(cc)
	switch {
	case strings.HasSuffix(name, "types.KVStorePrefixIterator") || strings.HasSuffix(name, "types.KVStoreReversePrefixIterator"):
		t := o.Of(cc.Args[1])
		return emptyBytes(t), "prefix " + t.String(), true
	case strings.HasSuffix(name, ".Iterator") || strings.HasSuffix(name, ".ReverseIterator"):
		args := cc.Args
		if !cc.IsInvoke() && len(args) == 3 {
			args = args[1:]
		}
		if len(args) == 2 {
			s0, s1 := o.Of(args[0]), o.Of(args[1])
			return emptyBytes(s0) && emptyBytes(s1), "bounds [" + s0.String() + ", " + s1.String() + ")", true
		}
	}
	return false, "", false
}
