package main

import (
	"fmt"
	"go/ast"
	"go/constant"
	"go/token"
	"go/types"
	"sort"
	"strings"

	"golang.org/x/tools/go/ssa"
)

func init() { register("C19", checkC19) }

// firstUpgradeBaseline returns the keys of the map literal (module name -> version) that the first upgrade's handler hands to
// RunMigrations: the module set that predates the first descriptor.
func firstUpgradeBaseline(p *Prog, pkgPath string) ([]string, string) {
	pk := p.All[pkgPath]
	if pk == nil {
		return nil, "package not loaded"
	}
	var out []string
	n := 0
	for _, f := range pk.Syntax {
		ast.Inspect(f, func(nd ast.Node) bool {
			cl, ok := nd.(*ast.CompositeLit)
			if !ok {
				return true
			}
			tv, ok := pk.TypesInfo.Types[cl]
			if !ok {
				return true
			}
			mt, ok := tv.Type.Underlying().(*types.Map)
			if !ok {
				return true
			}
			if b, ok := mt.Key().Underlying().(*types.Basic); !ok || b.Kind() != types.String {
				return true
			}
			if b, ok := mt.Elem().Underlying().(*types.Basic); !ok || b.Kind() != types.Uint64 {
				return true
			}
			n++
			for _, e := range cl.Elts {
				if kv, ok := e.(*ast.KeyValueExpr); ok {
					if ktv, ok := pk.TypesInfo.Types[kv.Key]; ok && ktv.Value != nil && ktv.Value.Kind() == constant.String {
						out = append(out, constant.StringVal(ktv.Value))
					}
				}
			}
			return true
		})
	}
	if n == 0 {
		// the map may be built from a list of names: exactly one list literal of constant strings, ranged over by a loop that
		// assigns into a map[string]uint64 under the loop variable
		var lists [][]string
		var listObjs []types.Object
		for _, f := range pk.Syntax {
			ast.Inspect(f, func(nd ast.Node) bool {
				vs, ok := nd.(*ast.ValueSpec)
				if !ok || len(vs.Names) != 1 || len(vs.Values) != 1 {
					return true
				}
				cl, ok := vs.Values[0].(*ast.CompositeLit)
				if !ok {
					return true
				}
				tv, ok := pk.TypesInfo.Types[cl]
				if !ok {
					return true
				}
				var elem types.Type
				switch u := tv.Type.Underlying().(type) {
				case *types.Slice:
					elem = u.Elem()
				case *types.Array:
					elem = u.Elem()
				default:
					return true
				}
				if b, ok := elem.Underlying().(*types.Basic); !ok || b.Kind() != types.String {
					return true
				}
				var names []string
				for _, e := range cl.Elts {
					etv, ok := pk.TypesInfo.Types[e]
					if !ok || etv.Value == nil || etv.Value.Kind() != constant.String {
						return true
					}
					names = append(names, constant.StringVal(etv.Value))
				}
				lists = append(lists, names)
				listObjs = append(listObjs, pk.TypesInfo.Defs[vs.Names[0]])
				return true
			})
		}
		if len(lists) == 1 && listObjs[0] != nil {
			fills := false
			for _, f := range pk.Syntax {
				ast.Inspect(f, func(nd ast.Node) bool {
					rs, ok := nd.(*ast.RangeStmt)
					if !ok {
						return true
					}
					id, ok := rs.X.(*ast.Ident)
					if !ok || pk.TypesInfo.Uses[id] != listObjs[0] {
						return true
					}
					val, _ := rs.Value.(*ast.Ident)
					if val == nil {
						return true
					}
					ast.Inspect(rs.Body, func(n2 ast.Node) bool {
						as, ok := n2.(*ast.AssignStmt)
						if !ok || len(as.Lhs) != 1 {
							return true
						}
						ix, ok := as.Lhs[0].(*ast.IndexExpr)
						if !ok {
							return true
						}
						mtv, ok := pk.TypesInfo.Types[ix.X]
						if !ok {
							return true
						}
						mt, ok := mtv.Type.Underlying().(*types.Map)
						if !ok {
							return true
						}
						kb, ok1 := mt.Key().Underlying().(*types.Basic)
						eb, ok2 := mt.Elem().Underlying().(*types.Basic)
						kid, ok3 := ix.Index.(*ast.Ident)
						if ok1 && ok2 && ok3 && kb.Kind() == types.String && eb.Kind() == types.Uint64 && pk.TypesInfo.Uses[kid] == pk.TypesInfo.Defs[val] {
							fills = true
						}
						return true
					})
					return true
				})
			}
			if fills {
				return lists[0], ""
			}
		}
	}
	if n != 1 {
		return nil, fmt.Sprintf("%d version-map literals in the first upgrade package (expected exactly 1)", n)
	}
	return out, ""
}

// C19 — upgrades.
func checkC19(p *Prog, r *Report) {
	r.Explain = "Decided statically (configuration evaluation): D1 every store the binary mounts (names passed to NewKVStoreKeys) either belongs to the module set that predates the first upgrade descriptor (keys of the version-map literal in the first upgrade's handler) or is Added by a registered descriptor and not Deleted by a later one; nothing mounted is Deleted without a later Added; nothing is Added twice; every Added store is mounted unless deleted later; D2 every element of Upgrades gets a handler and a store loader (both loops range over the whole Upgrades variable and are called unconditionally from New after the module manager and configurator are assigned), upgrade names are pairwise distinct, every package under app/upgrades is an element; D3 each custom module's ConsensusVersion n has migrations registered for 1..n-1; D4 no function of a registered upgrade package reaches a store mutator of the aol/did/pnft keepers. D2b the store loader is given &u.StoreUpgrades of the descriptor whose UpgradeName equals the plan name read from disk; D4b upgrade-package code that (transitively) reads aol/did/pnft entries creates no error and does not panic."
	r.NotDec = []string{"execution of the upgrade block on a populated chain", "SDK migrations", "upgrade-info.json handling", "restart around the upgrade height"}
	r.Trusted = []string{"cosmos-sdk v0.47.12 x/upgrade, store loader, module.Manager.RunMigrations"}
	kp := func(rule, rest string) string { return rule + ":C19:" + rest }
	w := BuildWire(p)
	for _, pr := range w.Problems {
		r.Undecided(kp("WIRE", "config#"+pr), "application configuration must be a literal the checker can evaluate", "app/", pr)
	}
	r.Floor("mounted-kv-stores", len(w.StoreKeys), 22)
	r.Floor("registered-upgrades", len(w.Upgrades), 5)
	if len(w.Upgrades) == 0 {
		return
	}
	if !checkStoreDescriptors(p, r, kp, w) {
		return
	}
	// D2 names distinct; handler present
	seen := map[string]bool{}
	for _, u := range w.Upgrades {
		r.Check(u.Name != "" && !seen[u.Name], kp("WIRE", "upgrade:"+u.Name+"#distinct-name"), "upgrade names are non-empty and pairwise distinct (a duplicate silently overwrites the other's handler)", p.Pos(u.Pos), u.Name, "duplicate or empty upgrade name "+u.Name)
		seen[u.Name] = true
		r.Check(u.Handler != "", kp("WIRE", "upgrade:"+u.Name+"#handler"), "every descriptor names a handler constructor", p.Pos(u.Pos), u.Handler, "CreateUpgradeHandler is not set")
	}
	// every package under app/upgrades/* is registered
	reg := map[string]bool{}
	for _, u := range w.Upgrades {
		reg[u.Pkg] = true
	}
	for _, root := range p.Roots {
		if strings.HasPrefix(root.PkgPath, Rel("app/upgrades")+"/") {
			if !reg[root.PkgPath] {
				r.Note("upgrade package %s is not an element of Upgrades (dead code)", shortPkg(root.PkgPath))
			}
		}
	}
	// both set-up loops range over the Upgrades global and are called unconditionally from New, after ModuleManager and configurator
	newFn := p.Func(Rel("app"), "New")
	for _, mname := range []string{"setupUpgradeHandlers", "setupUpgradeStoreLoaders"} {
		fn := p.Method(Rel("app"), "App", mname)
		if fn == nil || newFn == nil {
			r.Fail(kp("WIRE", "app."+mname+"#anchor"), "anchor", "app/app.go", mname+" not found")
			continue
		}
		rangesAll := upgradesLoopCoversAll(p, fn, mname == "setupUpgradeStoreLoaders")
		r.Check(rangesAll, kp("WIRE", "app."+mname+"#ranges-over-Upgrades"), "the set-up loop iterates the whole Upgrades slice", p.FnPos(fn), "for _, u := range Upgrades", mname+" does not range over the Upgrades variable")
		okCall := false
		var callI ssa.Instruction
		no := NewOrigin(p, newFn)
		for _, cs := range callSites(newFn) {
			if cs.Callee == fn && unconditionalOnSuccess(newFn, cs.Instr, no) {
				okCall = true
				callI = cs.Instr
			}
		}
		r.Check(okCall, kp("WIRE", "app.New→"+mname), "the set-up function is called on every path through app.New", "app/app.go", "unconditional call", "app.New does not (always) call "+mname)
		if okCall && mname == "setupUpgradeHandlers" {
			// after ModuleManager and configurator are stored
			okOrder := 0
			for _, b := range newFn.Blocks {
				for _, in := range b.Instrs {
					if st, ok := in.(*ssa.Store); ok {
						if fa, ok := st.Addr.(*ssa.FieldAddr); ok {
							fname := fieldName(fa.X.Type(), fa.Field)
							if (fname == "ModuleManager" || fname == "configurator") && no.dominates(st, callI) {
								okOrder++
							}
							if fname == "configurator" {
								// RunMigrations type-asserts the SDK's own (unexported) configurator type: a wrapper around it makes every
								// upgrade handler fail ("expected configurator") and the chain halts at the upgrade height
								t := no.Of(st.Val)
								okCfg := t.IsCall("sdk/types/module.NewConfigurator")
								if !okCfg {
									// built by a helper of the app that returns module.NewConfigurator(…) itself on every path
									if g := staticCalleeOfTerm(p, t); g != nil && InModule(g) && g.Blocks != nil {
										okCfg = true
										for _, ret := range returnsOf(g) {
											c, isCall := ret.Results[0].(*ssa.Call)
											if len(ret.Results) != 1 || !isCall || !strings.HasSuffix(calleeName(&c.Call), "types/module.NewConfigurator") {
												okCfg = false
											}
										}
									}
								}
								r.Check(okCfg, kp("WIRE", "app.New#configurator=module.NewConfigurator(…)"), "the configurator kept by the app (and captured by the upgrade handlers) is the value module.NewConfigurator returns, not a wrapper around it", p.Pos(st.Pos()),
									"app.configurator = module.NewConfigurator(…)", "app.configurator is assigned "+clip(t.String(), 160)+": module.Manager.RunMigrations accepts only the SDK's own configurator type, so every upgrade handler returns an error and the node halts in the upgrade block")
							}
						}
					}
				}
			}
			r.Check(okOrder >= 2, kp("WIRE", "app.New#handlers-after-manager+configurator"), "upgrade handlers are created after the module manager and the configurator exist (they capture both)", p.Pos(callI.Pos()),
				"both assignments dominate the call", "setupUpgradeHandlers runs before app.ModuleManager / app.configurator are assigned: handlers would capture nil")
		}
	}
	// the store loader hands `&u.StoreUpgrades` of the matched descriptor to x/upgrade: per-iteration loop variables (langver.go)
	checkNoLanguageDowngrade(p, r, "C19")
	checkModuleExtensionInterfaces(p, r, "C19", []string{"x/aol", "x/did", "x/pnft", "x/burn"})
	// module versions are recorded when the chain starts: InitChainer stores the module manager's version map through the upgrade
	// keeper before the modules' InitGenesis runs, on every path. (Without it the first upgrade sees an empty version map and
	// RunMigrations re-runs InitGenesis of every module on the populated chain.) x/upgrade's own InitGenesis stores the map only
	// when the genesis file carries an upgrade section, so SetInitVersionMap is not a substitute.
	if ic := p.Method(Rel("app"), "App", "InitChainer"); ic == nil {
		r.Fail(kp("WIRE", "app.InitChainer#anchor"), "anchor", "app/app.go", "InitChainer not found")
	} else {
		host := ic
		if d := p.delegateOf(ic); d != nil {
			host = d
		}
		io := NewOrigin(p, host)
		var setVM, initGen ssa.Instruction
		okArg := false
		for _, cs := range callSites(host) {
			switch {
			case strings.HasSuffix(cs.Name, "x/upgrade/keeper.Keeper).SetModuleVersionMap"):
				setVM = cs.Instr.(ssa.Instruction)
				args := cs.Instr.Common().Args
				if len(args) >= 3 {
					t := io.Of(args[2])
					okArg = t.Op == "call" && strings.HasSuffix(t.Name, "module.Manager).GetVersionMap")
				}
			case strings.HasSuffix(cs.Name, "module.Manager).InitGenesis"):
				initGen = cs.Instr.(ssa.Instruction)
			}
		}
		if setVM == nil && initGen != nil {
			// the recording may sit in a function InitChainer calls before InitGenesis (one level), on every path of that function
			for _, cs := range callSites(host) {
				g := cs.Callee
				if g == nil || !InModule(g) || g.Blocks == nil || !io.dominates(cs.Instr.(ssa.Instruction), initGen) {
					continue
				}
				gopts := NewOrigin(p, g)
				for _, cs2 := range callSites(g) {
					if !strings.HasSuffix(cs2.Name, "x/upgrade/keeper.Keeper).SetModuleVersionMap") {
						continue
					}
					always := true
					for _, ret := range returnsOf(g) {
						if !gopts.dominates(cs2.Instr.(ssa.Instruction), ret) {
							always = false
						}
					}
					args := cs2.Instr.Common().Args
					if always && len(args) >= 3 {
						t := gopts.Of(args[2])
						if t.Op == "call" && strings.HasSuffix(t.Name, "module.Manager).GetVersionMap") {
							setVM, okArg = cs.Instr.(ssa.Instruction), true
						}
					}
				}
			}
		}
		okDom := setVM != nil && initGen != nil && io.dominates(setVM, initGen)
		r.Check(okDom && okArg, kp("WIRE", "app.InitChainer#records-module-versions"), "a new chain records the consensus version of every module before the modules are initialised (the upgrade reads them back as fromVM)", p.FnPos(host),
			"UpgradeKeeper.SetModuleVersionMap(ctx, ModuleManager.GetVersionMap()) dominates ModuleManager.InitGenesis",
			fmt.Sprintf("InitChainer does not store the module manager's version map before InitGenesis (SetModuleVersionMap call found=%v, argument is GetVersionMap()=%v, dominates InitGenesis=%v): a chain started from a genesis without an upgrade section has an empty version map, and the first upgrade re-initialises every module on populated stores", setVM != nil, okArg, okDom))
	}
	// the store loader uses the matching descriptor's StoreUpgrades, the handler loop calls CreateUpgradeHandler of each element
	if fn := p.Method(Rel("app"), "App", "setupUpgradeHandlers"); fn != nil {
		n := 0
		for _, cs := range callSites(fn) {
			if strings.HasSuffix(cs.Name, "Keeper).SetUpgradeHandler") {
				n++
			}
		}
		r.Check(n >= 1, kp("WIRE", "setupUpgradeHandlers→SetUpgradeHandler"), "each descriptor's handler is registered with the upgrade keeper", p.FnPos(fn), "SetUpgradeHandler called in the loop", "no SetUpgradeHandler call")
	}
	if fn := p.Method(Rel("app"), "App", "setupUpgradeStoreLoaders"); fn != nil {
		n := 0
		for _, cs := range callSites(fn) {
			if strings.HasSuffix(cs.Name, "upgrade/types.UpgradeStoreLoader") {
				n++
			}
		}
		r.Check(n >= 1, kp("WIRE", "setupUpgradeStoreLoaders→UpgradeStoreLoader"), "the planned upgrade's StoreUpgrades are applied by the store loader", p.FnPos(fn), "UpgradeStoreLoader used", "no UpgradeStoreLoader call")
		// the loader gets exactly the matched descriptor's own StoreUpgrades: &u.StoreUpgrades under upgradeInfo.Name == u.UpgradeName.
		// Anything else (an accumulated or rebuilt set) re-adds stores that already hold data — the IAVL store refuses to load them.
		for _, cs := range callSites(fn) {
			if !strings.HasSuffix(cs.Name, "upgrade/types.UpgradeStoreLoader") {
				continue
			}
			args := cs.Instr.Common().Args
			okArg, why := false, "the second argument is not the address of a descriptor's StoreUpgrades field"
			if len(args) == 2 {
				fa2, ok := args[1].(*ssa.FieldAddr)
				if !ok {
					// a local copy of the field: `su := u.StoreUpgrades; … &su` (the only store into the local is that load)
					if al, isAl := args[1].(*ssa.Alloc); isAl && al.Referrers() != nil {
						nSt := 0
						for _, rf := range *al.Referrers() {
							if st, isSt := rf.(*ssa.Store); isSt && st.Addr == ssa.Value(al) {
								nSt++
								if ld, isLd := st.Val.(*ssa.UnOp); isLd && ld.Op == token.MUL {
									fa2, ok = ld.X.(*ssa.FieldAddr)
								}
							}
						}
						if nSt != 1 {
							ok = false
						}
					}
				}
				if ok && fa2 != nil && fieldName(fa2.X.Type(), fa2.Field) == "StoreUpgrades" {
					base := fa2.X
					why = "no dominating comparison of the same descriptor's UpgradeName with the plan name read from disk"
					for _, b := range fn.Blocks {
						for _, in := range b.Instrs {
							bo, ok := in.(*ssa.BinOp)
							if !ok || (bo.Op != token.EQL && bo.Op != token.NEQ) {
								continue
							}
							for _, opd := range []ssa.Value{bo.X, bo.Y} {
								if u, ok := opd.(*ssa.UnOp); ok && u.Op == token.MUL {
									if nf, ok := u.X.(*ssa.FieldAddr); ok && sameElementRef(nf.X, base) && fieldName(nf.X.Type(), nf.Field) == "UpgradeName" {
										if iff, ok := b.Instrs[len(b.Instrs)-1].(*ssa.If); ok && iff.Cond == bo {
											// `if name == u.UpgradeName { … }` or `if name != u.UpgradeName { continue }`
											eqSide := b.Succs[0]
											if bo.Op == token.NEQ {
												eqSide = b.Succs[1]
											}
											if eqSide == cs.Instr.Block() || eqSide.Dominates(cs.Instr.Block()) {
												okArg = true
											}
										}
									}
								}
							}
						}
					}
				}
			}
			if !okArg && len(args) == 2 {
				// the descriptor found by a lookup helper: u, found := Find(Upgrades, planName) … &u.StoreUpgrades (or a local copy of it)
				if why2, ok2 := storeUpgradesOfFoundDescriptor(p, fn, cs.Instr, args[1]); ok2 {
					okArg = true
				} else if why2 != "" {
					why = why2
				}
			}
			r.Check(okArg, kp("ORIGIN", "setupUpgradeStoreLoaders#loader-gets-the-matched-descriptor's-StoreUpgrades"), "the store loader is given the matched descriptor's own StoreUpgrades (not an accumulated or rebuilt set)", p.Pos(cs.Instr.Pos()),
				"UpgradeStoreLoader(height, &u.StoreUpgrades) under upgradeInfo.Name == u.UpgradeName", why+": stores that already exist would be added again at the upgrade height and the node cannot load its database")
		}
	}
	// D3 migrations
	for _, mod := range []string{"x/aol", "x/did", "x/burn", "x/pnft"} {
		am := p.Named(Rel(mod), "AppModule")
		if am == nil {
			r.Fail(kp("WIRE", mod+"#AppModule"), "anchor", mod, "AppModule not found")
			continue
		}
		cv := p.MethodOf(am, "ConsensusVersion")
		ver := int64(-1)
		if cv != nil {
			for _, ret := range returnsOf(cv) {
				if c, ok := asConst(ret.Results[0]); ok {
					ver = c.Int64()
				}
			}
		}
		regs := 0
		if rs := p.MethodOf(am, "RegisterServices"); rs != nil {
			reach := p.ReachFrom([]*ssa.Function{rs}, func(f *ssa.Function) bool { return InPkgs(f, mod) })
			for _, iv := range reach.Invokes {
				if iv.Method == "RegisterMigration" {
					regs++
				}
			}
		}
		r.Check(ver >= 1 && int64(regs) >= ver-1, kp("WIRE", mod+"#migrations-cover-versions"), "ConsensusVersion n requires migrations registered for 1..n-1 (otherwise RunMigrations fails and the upgrade block halts)", mod+"/module.go",
			fmt.Sprintf("ConsensusVersion=%d, RegisterMigration calls=%d", ver, regs),
			fmt.Sprintf("ConsensusVersion=%d but only %d RegisterMigration call(s): RunMigrations returns 'no migrations found' and the chain halts at the upgrade height", ver, regs))
	}
	// D4 custom data untouched
	aol := buildAolModel(p)
	did := buildDidModel(p)
	rawMut := map[*ssa.Function]string{}
	for _, so := range p.StoreOps() {
		if so.Op != "Set" && so.Op != "Delete" {
			continue
		}
		for _, mod := range []string{"x/aol", "x/did", "x/pnft"} {
			if strings.HasPrefix(so.KeyRoot, mod+"/keeper.") {
				rawMut[so.Fn] = strings.ToUpper(strings.TrimPrefix(mod, "x/")) + " (" + so.Op + " in " + FuncName(so.Fn) + ")"
			}
		}
	}
	isMut := func(f *ssa.Function) (string, bool) {
		if w, ok := rawMut[f]; ok {
			return w, true
		}
		if a := aol.acc[f]; a != nil && (a.Op == "Set" || a.Op == "Delete") {
			return "AOL", true
		}
		if did.setters[f] {
			return "DID", true
		}
		if n, ok := isNftKeeperMethod(f); ok {
			if _, m := nftMutators[n]; m {
				return "PNFT (x/nft " + n + ")", true
			}
		}
		if InPkgs(f, "x/pnft/keeper") && !p.IsGenerated(f) {
			for _, cs := range callSites(f) {
				cc := cs.Instr.Common()
				if cc.IsInvoke() && isStoreType(shortPkg(cc.Value.Type().String())) && (cc.Method.Name() == "Set" || cc.Method.Name() == "Delete") {
					return "PNFT (raw store write)", true
				}
			}
		}
		return "", false
	}
	// D4c what an upgrade handler changes is in the stores: memory it writes (a feature flag on a keeper, a package variable) is
	// gone after a restart, so a node restarted after the upgrade block and one that kept running disagree from then on
	{
		var ufns []*ssa.Function
		for _, fns := range upgradeHandlerFns(p, w) {
			ufns = append(ufns, fns...)
		}
		uscope, _ := moduleScope(p, ufns)
		cscope, _ := moduleScope(p, consensusEntries(p))
		chans, _ := hiddenStateChannels(p, uscope, cscope)
		var locs []string
		for l := range chans {
			locs = append(locs, l)
		}
		sort.Strings(locs)
		for _, l := range locs {
			ws, rs := chans[l][0], chans[l][1]
			r.Fail(kp("STATE", "upgrade-writes-process-memory:"+l), "an upgrade handler changes stores only, never memory that block processing reads later", p.Pos(ws[0].Instr.Pos()),
				fmt.Sprintf("%s is written by upgrade code (%s) and read by block processing (%s): the effect of the upgrade is lost by every node that restarts after the upgrade height", l, describeAccess(p, ws[0]), describeAccess(p, rs[0])))
		}
		if len(locs) == 0 {
			r.OK(kp("STATE", "upgrade-writes-process-memory#none"), "an upgrade handler changes stores only, never memory that block processing reads later", "app/upgrades",
				fmt.Sprintf("%d functions reachable from upgrade packages write no long-lived memory that block processing reads", len(uscope)))
		}
	}

	// D4d a restart before, at or after the upgrade height yields the same state: the AOL, DID and PNFT data live in the stores
	// only (a copy kept in keeper memory is empty after the restart and stale after a discarded block), and start-up code obtains
	// no context through which it could write outside a block
	{
		cscope, _ := moduleScope(p, consensusEntries(p))
		chans, _ := hiddenStateChannels(p, cscope, cscope)
		var locs []string
		for l := range chans {
			if strings.Contains(l, "x/aol") || strings.Contains(l, "x/did") || strings.Contains(l, "x/pnft") {
				locs = append(locs, l)
			}
		}
		sort.Strings(locs)
		for _, l := range locs {
			ws, rs := chans[l][0], chans[l][1]
			r.Fail(kp("STATE", "module-data-outside-stores:"+l), "AOL, DID and PNFT data live in the committed stores only: a node restarted around the upgrade height has the same data as one that kept running", p.Pos(ws[0].Instr.Pos()),
				fmt.Sprintf("%s is written (%s) and read (%s) by block processing: after a restart it is empty, so the restarted node and the running one answer differently", l, describeAccess(p, ws[0]), describeAccess(p, rs[0])))
		}
		if len(locs) == 0 {
			r.OK(kp("STATE", "module-data-outside-stores#none"), "AOL, DID and PNFT data live in the committed stores only: a node restarted around the upgrade height has the same data as one that kept running", "x/aol, x/did, x/pnft",
				fmt.Sprintf("%d functions in block-processing scope; no long-lived memory of the three modules is both written and read", len(cscope)))
		}
		checkStartupCreatesNoContext(p, r, kp)
		checkPersistentStoresOnly(p, r, kp, "a node restarted around the upgrade height holds other data than one that kept running")
		checkNoProcessMemoryRegistrationInBlocks(p, r, kp, cscope)
	}

	// D4e the in-place migrations the three data modules register run inside the upgrade block (RunMigrations): they rewrite no
	// AOL, DID or PNFT entry
	checkModuleMigrationsWriteNoData(p, r, kp)

	// D4b the upgrade block cannot fail because of custom-module state: code of an upgrade package that (transitively) reads
	// aol/did/pnft entries must not create errors or panic. A handler error aborts the upgrade block on every node; whether a
	// state-dependent check fails depends on the chain's history, which the release cannot know.
	isRead := func(f *ssa.Function) (string, bool) {
		if a := aol.acc[f]; a != nil && (a.Op == "Get" || a.Op == "Has" || a.Op == "Iterator") {
			return "AOL " + a.Family + " (" + FuncName(f) + ")", true
		}
		if did.getters[f] {
			return "DID (" + FuncName(f) + ")", true
		}
		if _, ok := isNftKeeperMethod(f); ok {
			return "PNFT (x/nft keeper " + f.Name() + ")", true
		}
		if InPkgs(f, "x/pnft/keeper") && !p.IsGenerated(f) && f.Signature.Recv() != nil {
			return "PNFT (" + FuncName(f) + ")", true
		}
		return "", false
	}
	for uname, fns := range upgradeHandlerFns(p, w) {
		reach := p.ReachFrom(fns, func(f *ssa.Function) bool { return InModule(f) || pkgPathOf(f) == nftKeeperPath })
		read := ""
		for _, f := range reach.Order {
			if what, ok := isRead(f); ok {
				read = what + " via " + reach.Chain(f)
				break
			}
		}
		fails := ""
		var all []*ssa.Function
		for _, f := range fns {
			all = append(all, f)
			all = append(all, f.AnonFuncs...)
		}
		for _, f := range all {
			for _, b := range f.Blocks {
				for _, in := range b.Instrs {
					if _, ok := in.(*ssa.Panic); ok {
						fails = "panic in " + FuncName(f) + " at " + p.Pos(in.Pos())
					}
				}
			}
			for _, cs := range callSites(f) {
				n := cs.Name
				if n == "fmt.Errorf" || n == "errors.New" || strings.HasSuffix(n, "errors.Wrap") || strings.HasSuffix(n, "errors.Wrapf") || strings.HasSuffix(n, "errors.Register") || strings.Contains(n, "errors.Error).Wrap") {
					fails = "error created by " + n + " in " + FuncName(f) + " at " + p.Pos(cs.Instr.Pos())
				}
			}
		}
		bad := read != "" && fails != ""
		r.Check(!bad, kp("REACH", "upgrade:"+uname+"#no-state-dependent-failure"), "upgrade code that reads custom-module data creates no error and does not panic (the upgrade block must not fail on some histories)", "app/upgrades",
			fmt.Sprintf("reads custom data: %v; creates errors/panics: %v", read != "", fails != ""),
			fmt.Sprintf("upgrade %s reads %s and can fail on its own account (%s): a chain whose history does not meet the check halts at the upgrade height", uname, read, fails))
	}
	for uname, fns := range upgradeHandlerFns(p, w) {
		reach := p.ReachFrom(fns, func(f *ssa.Function) bool { return InModule(f) || pkgPathOf(f) == nftKeeperPath })
		hit := ""
		for _, f := range reach.Order {
			if what, ok := isMut(f); ok {
				hit = what + " via " + reach.Chain(f)
				break
			}
		}
		if r.Tier == "thorough" {
			vtaCrossCheck(p, r, kp("REACH", "upgrade:"+uname+"#vta-cross-check"), fns, func(f *ssa.Function) (string, bool) { return isMut(f) }, reach, nil)
		}
		r.Check(hit == "", kp("REACH", "upgrade:"+uname+"#custom-data-untouched"), "no code of a registered upgrade package reaches a store mutator of the aol/did/pnft keepers (definite call edges)", "app/upgrades",
			fmt.Sprintf("%d functions reachable, none mutates custom-module data", len(reach.Order)), "upgrade "+uname+" rewrites "+hit)
	}
	// D6 the version map an upgrade handler hands back on success is the one RunMigrations produced: x/upgrade stores it as the
	// chain's module version map, and a stale map makes the next upgrade run InitGenesis / migrations again on a populated chain
	nH := 0
	hnames := []string{}
	byName := upgradeHandlerFns(p, w)
	for n := range byName {
		hnames = append(hnames, n)
	}
	sort.Strings(hnames)
	for _, uname := range hnames {
		for _, fn := range byName[uname] {
			sig := fn.Signature
			if fn.Parent() == nil || sig.Params().Len() != 3 || sig.Results().Len() != 2 || !strings.HasSuffix(sig.Results().At(0).Type().String(), "types/module.VersionMap") || !isErrorType(sig.Results().At(1).Type()) {
				continue
			}
			nH++
			bad := ""
			for _, ret := range returnsOf(fn) {
				vm, ev := unspill(ret.Results[0]), unspill(ret.Results[1])
				fromRun := func(v ssa.Value, idx int) *ssa.Call {
					ex, ok := v.(*ssa.Extract)
					if !ok || ex.Index != idx {
						return nil
					}
					c, ok := ex.Tuple.(*ssa.Call)
					if !ok || !strings.HasSuffix(calleeName(&c.Call), "types/module.Manager).RunMigrations") {
						return nil
					}
					return c
				}
				switch {
				case fromRun(vm, 0) != nil && fromRun(vm, 0) == fromRun(ev, 1): // return mm.RunMigrations(…)
				case isNilConst(ev):
					if fromRun(vm, 0) == nil {
						bad = p.Pos(ret.Pos())
					}
				default: // a failing return: the map is ignored by x/upgrade
				}
			}
			r.Check(bad == "", kp("ORIGIN", "upgrade:"+uname+"#returns-migrated-version-map"), "an upgrade handler's successful return hands back the version map RunMigrations produced", p.FnPos(fn),
				"success ⇒ map ≡ res#0(RunMigrations)", fmt.Sprintf("the successful return at %s hands back a version map that is not RunMigrations' result: x/upgrade records stale module versions, and the next upgrade re-runs InitGenesis/migrations of modules that are already there (the upgrade block halts)", bad))
		}
	}
	r.Floor("upgrade-handler-closures", nH, len(hnames))
	// D6b the upgrade block does not halt on what the chain's history left in the version map or in the stores: no unchecked type
	// assertion and no map-element method call on a possibly missing module in the upgrade packages
	{
		nTA, bad := 0, 0
		for _, fn := range p.ModFuncs {
			if !InPkgs(fn, "app/upgrades") || fn.Blocks == nil || p.IsGenerated(fn) {
				continue
			}
			for _, b := range fn.Blocks {
				for _, in := range b.Instrs {
					ta, ok := in.(*ssa.TypeAssert)
					if !ok {
						continue
					}
					nTA++
					if !ta.CommaOk {
						bad++
						r.Fail(kp("PANIC", "upgrade-code#unchecked-type-assertion@"+FuncName(fn)), "upgrade code makes no unchecked type assertion (a module the running binary no longer has, or has in another shape, must not halt the upgrade block)", p.Pos(ta.Pos()),
							fmt.Sprintf("%s asserts %s without the comma-ok form: on a chain whose version map names a module this binary does not register (or registers without that interface) the upgrade block panics and the chain halts", FuncName(fn), ta.AssertedType))
					}
				}
			}
		}
		if bad == 0 {
			r.OK(kp("PANIC", "upgrade-code#unchecked-type-assertion#none"), "upgrade code makes no unchecked type assertion", "app/upgrades", fmt.Sprintf("%d type assertions in the upgrade packages, all in comma-ok form", nTA))
		}
	}
	// D7 legacy params subspaces: the v0.47 migration handler gives a key table to every subspace it knows by name and calls
	// WithKeyTable(<zero table>) — a panic — on any other subspace without one. Every name registered with the params keeper is a
	// case of that handler's switch, or a subspace whose own keeper installs its key table (IBC core and transfer).
	if ipk := p.Func(Rel("app/keepers"), "initParamsKeeper"); ipk != nil {
		selfTabled := map[string]string{`"transfer"`: "ibc-transfer keeper installs its key table", `"ibc"`: "ibc core keeper installs its key table"}
		var registered []string
		for _, cs := range callSites(ipk) {
			if strings.HasSuffix(cs.Name, "x/params/keeper.Keeper).Subspace") {
				args := cs.Instr.Common().Args
				if c, ok := args[len(args)-1].(*ssa.Const); ok && c.Value != nil {
					registered = append(registered, c.Value.ExactString())
				} else {
					registered = append(registered, "?")
				}
			}
		}
		// the handlers that walk GetSubspaces and install key tables
		for _, uname := range hnames {
			for _, fn := range byName[uname] {
				walks := false
				for _, cs := range callSites(fn) {
					if strings.HasSuffix(cs.Name, "x/params/keeper.Keeper).GetSubspaces") {
						walks = true
					}
				}
				if !walks {
					continue
				}
				cases := map[string]bool{}
				for _, b := range fn.Blocks {
					for _, in := range b.Instrs {
						bo, ok := in.(*ssa.BinOp)
						if !ok || bo.Op != token.EQL {
							continue
						}
						x, y := bo.X, bo.Y
						if _, isC := x.(*ssa.Const); isC {
							x, y = y, x
						}
						c, isC := y.(*ssa.Const)
						call, isCall := x.(*ssa.Call)
						if isC && isCall && c.Value != nil && strings.HasSuffix(calleeName(&call.Call), "x/params/types.Subspace).Name") {
							cases[c.Value.ExactString()] = true
						}
					}
				}
				unresolved := false
				for _, n := range registered {
					if n == "?" {
						unresolved = true
					}
				}
				if len(cases) == 0 || unresolved {
					r.OKTrivial(kp("WIRE", "upgrade:"+uname+"#every-legacy-subspace-has-a-key-table"), "every legacy params subspace the app registers gets a key table from the migration handler", p.FnPos(fn),
						"the handler does not choose key tables by comparing subspace names with constants, or a subspace is registered under a name that is not a constant at the call: not decided")
					continue
				}
				var missing []string
				for _, n := range registered {
					if !cases[n] && selfTabled[n] == "" {
						missing = append(missing, n)
					}
				}
				r.Check(len(missing) == 0 && len(registered) > 0, kp("WIRE", "upgrade:"+uname+"#every-legacy-subspace-has-a-key-table"),
					"every legacy params subspace the app registers gets a key table from the migration handler (or from its own keeper): the handler calls WithKeyTable on each subspace that has none", p.FnPos(fn),
					fmt.Sprintf("%d subspaces registered, %d handled by the handler's switch, %d install their own", len(registered), len(cases), len(selfTabled)),
					fmt.Sprintf("subspace(s) %v registered in initParamsKeeper are not handled by the switch in the %s handler and install no key table themselves: WithKeyTable(<zero table>) panics and the upgrade block halts", missing, uname))
			}
		}
	}
}

// checkStoreDescriptors (C19-D1, shared with C10: a node restarted at an upgrade height loads its stores through the descriptors —
// a mounted store no descriptor introduces, or an introduced one that is not mounted, stops it from coming back up).
func checkStoreDescriptors(p *Prog, r *Report, kp func(string, string) string, w *Wire) bool {
	base, why := firstUpgradeBaseline(p, w.Upgrades[0].Pkg)
	if why != "" {
		r.Undecided(kp("WIRE", "baseline"), "the module set predating the first descriptor is the version map of the first upgrade handler", shortPkg(w.Upgrades[0].Pkg), why)
		return false
	}
	r.Floor("baseline-modules", len(base), 20)
	// D1 accounting: simulate the store set through the upgrades
	// (the baseline is a set of *modules*: a module that predates the first descriptor may still get its store later, e.g. crisis)
	live := map[string]string{} // store or baseline module -> how it came to exist
	for _, b := range base {
		live[b] = "module predates " + w.Upgrades[0].Name
	}
	for _, u := range w.Upgrades {
		for _, d := range u.Deleted {
			delete(live, d)
		}
		for _, a := range u.Added {
			if how, dup := live[a]; dup && strings.HasPrefix(how, "introduced by") {
				r.Fail(kp("WIRE", "store:"+a+"#added-twice:"+u.Name), "no store is introduced by two descriptors", p.Pos(u.Pos), fmt.Sprintf("%q is Added by %s but already %s", a, u.Name, how))
			}
			live[a] = "introduced by " + u.Name
		}
		r.Check(u.Renamed == 0, kp("WIRE", "upgrade:"+u.Name+"#no-renames"), "no descriptor renames stores (renames are not tracked by this accounting)", p.Pos(u.Pos), "Renamed empty", "Renamed is used")
	}
	names := append([]string(nil), w.StoreKeys...)
	sort.Strings(names)
	for _, s := range names {
		how, ok := live[s]
		if !ok {
			if m := w.StoreModule[s]; m != "" && m != s {
				if h2, ok2 := live[m]; ok2 {
					how, ok = h2+" (store key "+s+" of module "+m+")", true
				}
			}
		}
		r.Check(ok, kp("WIRE", "store:"+s+"#accounted"), "every mounted store predates the first descriptor or is introduced, and not later removed, by one of them", p.Pos(w.StoreKeyPos),
			how, fmt.Sprintf("store %q is mounted by this binary but no upgrade descriptor Adds it (and it is not in the pre-upgrade module set %v): a node upgrading through the releases panics on an undeclared store (wrong app hash / 'initial version set to N but found earlier version')", s, len(base)))
	}
	// every Added store that is still live must be mounted
	var lives []string
	for s := range live {
		lives = append(lives, s)
	}
	sort.Strings(lives)
	for _, s := range lives {
		if strings.HasPrefix(live[s], "introduced by") {
			r.Check(has(w.StoreKeys, s), kp("WIRE", "store:"+s+"#introduced-and-mounted"), "every store a descriptor introduces (and none removes) is mounted by the binary", p.Pos(w.StoreKeyPos),
				live[s], fmt.Sprintf("%q is %s but the binary does not mount it", s, live[s]))
		}
	}
	return true
}

// storeUpgradesOfFoundDescriptor: arg is the address of (a local copy of) the StoreUpgrades field of the descriptor a by-name
// lookup over the Upgrades list returned, and the call is made only when the lookup found one.
func storeUpgradesOfFoundDescriptor(p *Prog, fn *ssa.Function, at ssa.CallInstruction, arg ssa.Value) (string, bool) {
	var desc ssa.Value
	switch x := arg.(type) {
	case *ssa.Alloc: // storeUpgrades := u.StoreUpgrades; &storeUpgrades
		var stored ssa.Value
		n := 0
		if refs := x.Referrers(); refs != nil {
			for _, rf := range *refs {
				if st, ok := rf.(*ssa.Store); ok && st.Addr == ssa.Value(x) {
					stored = st.Val
					n++
				}
			}
		}
		if n != 1 {
			return "", false
		}
		switch y := stored.(type) {
		case *ssa.Field:
			if fieldName(y.X.Type(), y.Field) == "StoreUpgrades" {
				desc = y.X
			}
		case *ssa.UnOp:
			if fa2, ok := y.X.(*ssa.FieldAddr); ok && fieldName(fa2.X.Type(), fa2.Field) == "StoreUpgrades" {
				if ld, ok := fa2.X.(*ssa.Alloc); ok {
					desc = soleStoredValue(ld)
				}
			}
		}
	case *ssa.FieldAddr:
		if fieldName(x.X.Type(), x.Field) == "StoreUpgrades" {
			if al, ok := x.X.(*ssa.Alloc); ok {
				desc = soleStoredValue(al)
			}
		}
	}
	if desc == nil {
		return "", false
	}
	ex, ok := desc.(*ssa.Extract)
	if !ok || ex.Index != 0 {
		return "", false
	}
	call, ok := ex.Tuple.(*ssa.Call)
	if !ok {
		return "", false
	}
	g := call.Call.StaticCallee()
	if g == nil || !InModule(g) || g.Blocks == nil || len(call.Call.Args) != 2 {
		return "", false
	}
	// the list is the Upgrades variable
	if u, ok := call.Call.Args[0].(*ssa.UnOp); !ok || u.Op != token.MUL {
		return "the lookup is not over the Upgrades variable", false
	} else if gv, ok := u.X.(*ssa.Global); !ok || gv.Name() != "Upgrades" {
		return "the lookup is not over the Upgrades variable", false
	}
	if !finderByUpgradeName(p, g) {
		return FuncName(g) + " is not recognised as a lookup of the descriptor whose UpgradeName equals its second argument", false
	}
	// … and it found one where the loader is installed
	o := NewOrigin(p, fn)
	fa := NewFacts(p, fn, o)
	found := false
	if refs := call.Referrers(); refs != nil {
		for _, rf := range *refs {
			if e1, ok := rf.(*ssa.Extract); ok && e1.Index == 1 {
				if in, isI := at.(ssa.Instruction); isI && Entails(fa.At(in.Block()), fa.ValueFormula(e1)) {
					found = true
				}
			}
		}
	}
	if !found {
		return "the loader is installed without the lookup having found a descriptor", false
	}
	return "", true
}

func soleStoredValue(al *ssa.Alloc) ssa.Value {
	var v ssa.Value
	n := 0
	if refs := al.Referrers(); refs != nil {
		for _, rf := range *refs {
			if st, ok := rf.(*ssa.Store); ok && st.Addr == ssa.Value(al) {
				v = st.Val
				n++
			}
		}
	}
	if n != 1 {
		return nil
	}
	return v
}

// finderByUpgradeName: g(list, name) returns (element, true) only for an element of list whose UpgradeName equals name.
func finderByUpgradeName(p *Prog, g *ssa.Function) bool {
	if len(g.Params) != 2 || g.Signature.Results().Len() != 2 {
		return false
	}
	o := NewOrigin(p, g)
	fa := NewFacts(p, g, o)
	nTrue := 0
	for _, ret := range returnsOf(g) {
		okv := unspill(ret.Results[1])
		c, isC := okv.(*ssa.Const)
		if !isC || c.Value == nil {
			return false
		}
		if c.Value.String() != "true" {
			continue
		}
		nTrue++
		F := fa.At(ret.Block())
		matched := false
		for _, a := range F.Atoms() {
			t := a.Term
			if t == nil || t.Op != "eq" || len(t.Args) != 2 {
				continue
			}
			x, y := t.Args[0], t.Args[1]
			if y.Op == "field" {
				x, y = y, x
			}
			if x.Op == "field" && x.Name == "UpgradeName" && y.Op == "param" && strings.HasPrefix(y.Name, "1:") && Entails(F, a) {
				// the element returned is the one whose name was compared
				rt := o.Of(ret.Results[0])
				if len(x.Args) == 1 && (rt.Eq(x.Args[0]) || rt.Contains(func(z *Term) bool { return z.Eq(x.Args[0]) }) || x.Args[0].Contains(func(z *Term) bool { return z.Eq(rt) })) {
					matched = true
				}
			}
		}
		if !matched {
			return false
		}
	}
	return nTrue > 0
}


// upgradesLoopCoversAll: fn walks the whole Upgrades slice — some load of the variable feeds len() and some load is indexed (the
// lowering of `range Upgrades` and of `for i := 0; i < len(Upgrades); i++ { Upgrades[i] }`), and no len(Upgrades) is adjusted
// arithmetically before it bounds the loop (`len(Upgrades)-1` drops the last descriptor). The store loader may instead look the
// planned descriptor up with a verified by-name finder.
func upgradesLoopCoversAll(p *Prog, fn *ssa.Function, allowFinder bool) bool {
	hasLen, hasIdx, adjusted, viaFinder := false, false, false, false
	for _, b := range fn.Blocks {
		for _, in := range b.Instrs {
			u, ok := in.(*ssa.UnOp)
			if !ok {
				continue
			}
			g, ok := u.X.(*ssa.Global)
			if !ok || g.Name() != "Upgrades" || u.Referrers() == nil {
				continue
			}
			for _, rf := range *u.Referrers() {
				switch x := rf.(type) {
				case *ssa.Call:
					if bi, ok := x.Call.Value.(*ssa.Builtin); ok && bi.Name() == "len" {
						hasLen = true
						if x.Referrers() != nil {
							for _, lu := range *x.Referrers() {
								if bo, ok := lu.(*ssa.BinOp); ok {
									switch bo.Op {
									case token.LSS, token.GTR, token.LEQ, token.GEQ, token.EQL, token.NEQ:
										// `i <= len` would run off the end (a panic at start-up, not a silent omission); only `<`/`>`/`!=` bound a full walk
									default:
										adjusted = true
									}
								}
							}
						}
					}
					if allowFinder && x.Call.StaticCallee() != nil && len(x.Call.Args) == 2 && x.Call.Args[0] == ssa.Value(u) && finderByUpgradeName(p, x.Call.StaticCallee()) {
						viaFinder = true
					}
				case *ssa.IndexAddr:
					hasIdx = true
				}
			}
		}
	}
	return viaFinder || hasLen && hasIdx && !adjusted
}


// checkModuleMigrationsWriteNoData: every function handed to Configurator.RegisterMigration by x/aol, x/did or x/pnft reaches no
// writer of the core families (AOL Set/Delete accessors of Owner/Topic/Writer/Record, the DID setter, x/nft mutators). A
// migration may add a family of its own; rewriting existing entries ("repairing" counters, re-encoding documents) is a data
// change made by the upgrade block.
func checkModuleMigrationsWriteNoData(p *Prog, r *Report, kp func(string, string) string) {
	aolM := buildAolModel(p)
	didM := buildDidModel(p)
	n := 0
	for _, fn := range p.ModFuncs {
		if fn.Blocks == nil || p.IsGenerated(fn) || !InPkgs(fn, "x/aol", "x/did", "x/pnft") {
			continue
		}
		for _, cs := range callSites(fn) {
			if !strings.HasSuffix(cs.Name, "Configurator.RegisterMigration") {
				continue
			}
			args := cs.Instr.Common().Args
			if len(args) == 0 {
				continue
			}
			var mig *ssa.Function
			hv := args[len(args)-1]
			for {
				if ct, ok := hv.(*ssa.ChangeType); ok {
					hv = ct.X
					continue
				}
				if mi, ok := hv.(*ssa.MakeInterface); ok {
					hv = mi.X
					continue
				}
				break
			}
			switch h := hv.(type) {
			case *ssa.MakeClosure:
				mig, _ = h.Fn.(*ssa.Function)
			case *ssa.Function:
				mig = h
			}
			n++
			if mig == nil {
				r.Undecided(kp("WMC", "migration@"+FuncName(fn)), "module migrations are functions the checker can resolve", p.Pos(cs.Instr.Pos()), "the migration handler is not a function value the checker can resolve")
				continue
			}
			mig = resolveBound(mig)
			bad := ""
			for _, g := range p.ReachFrom([]*ssa.Function{mig}, func(f *ssa.Function) bool { return InModule(f) && !p.IsGenerated(f) }).Order {
				if a := aolM.acc[g]; a != nil && (a.Op == "Set" || a.Op == "Delete") && isCoreAolFamily(a.Family) {
					bad = FuncName(g) + " (" + a.Op + " " + a.Family + ")"
				}
				if didM.setters[g] {
					bad = FuncName(g) + " (DID entry write)"
				}
				for _, so := range storeOpsOf(p, g) {
					// the pnft store is x/nft's: every raw write of pnft code there lands among the class, token and owner records
					// (a family under a prefix of the module's own — an index the migration builds — is not one of them)
					if (so.Op == "Set" || so.Op == "Delete") && InPkgs(so.Fn, "x/pnft") && !(so.Key != nil && otherFamilyKey(p, so.Key)) {
						bad = "a raw " + so.Op + " on the pnft store (in " + FuncName(g) + ")"
					}
					// a raw delete (or a write that is not the DID setter's) in x/did removes or rewrites documents and tombstones:
					// "cleaning up orphans" takes the tombstone, whose document is empty, for one
					ownFamily := false // a further family of the module (its own prefix variable next to DIDKeyPrefix) is the migration's to build
					if pn := PrefixName(so.Prefix); pn != "" && so.Prefix.Op == "gval" && !strings.HasSuffix(pn, "types.DIDKeyPrefix") {
						ownFamily = true
					}
					if (so.Op == "Set" || so.Op == "Delete") && InPkgs(so.Fn, "x/did") && !didM.setters[g] && !ownFamily && !(so.Key != nil && otherFamilyKey(p, so.Key)) {
						bad = "a raw " + so.Op + " on the did store (in " + FuncName(g) + ")"
					}
				}
				for _, c2 := range callSites(g) {
					if c2.Callee != nil {
						if m, ok := isNftKeeperMethod(resolveBound(c2.Callee)); ok {
							if _, mut := nftMutators[m]; mut {
								bad = "x/nft " + m + " (in " + FuncName(g) + ")"
							}
						}
					}
				}
			}
			r.Check(bad == "", kp("WMC", "migration:"+FuncName(mig)+"#rewrites-no-entry"), "the modules' in-place migrations rewrite no AOL, DID or PNFT entry: the data are exactly what they were before the upgrade block", p.FnPos(mig),
				"no writer of a core family reachable", fmt.Sprintf("%s, registered as a store migration, reaches %s: the upgrade block rewrites entries of a populated chain (whatever the migration assumes about them)", FuncName(mig), bad))
		}
	}
	r.Count("module-migrations-registered", n)
}


// sameElementRef: two addresses name the same element — the same value, or two IndexAddr of loads of the same package variable
// under the same index value (`Upgrades[i]` written twice).
func sameElementRef(a, b ssa.Value) bool {
	if a == b {
		return true
	}
	ia, ok1 := a.(*ssa.IndexAddr)
	ib, ok2 := b.(*ssa.IndexAddr)
	if !ok1 || !ok2 || ia.Index != ib.Index {
		return false
	}
	la, ok1 := ia.X.(*ssa.UnOp)
	lb, ok2 := ib.X.(*ssa.UnOp)
	if !ok1 || !ok2 {
		return ia.X == ib.X
	}
	ga, ok1 := la.X.(*ssa.Global)
	gb, ok2 := lb.X.(*ssa.Global)
	return ok1 && ok2 && ga == gb
}


func storeOpsOf(p *Prog, fn *ssa.Function) []StoreOp {
	if storeOpsByFn == nil {
		storeOpsByFn = map[*ssa.Function][]StoreOp{}
		for _, so := range p.StoreOps() {
			storeOpsByFn[so.Fn] = append(storeOpsByFn[so.Fn], so)
		}
	}
	return storeOpsByFn[fn]
}
