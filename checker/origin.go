package main

// ORIGIN — provenance terms for SSA values (DESIGN.md §2.2).
//
// A Term is a symbolic description of where a value comes from, normalised so that two values that are
// "the same datum" have structurally equal terms: loads of un-lifted struct locals are resolved to
// struct literals, single-return module helpers are inlined (depth <= 3), interface boxing and
// identity conversions are transparent. Whatever cannot be resolved becomes an `unknown` term that
// is unique per SSA value, so it never compares equal to anything else (fail closed).

import (
	"fmt"
	"go/constant"
	"go/token"
	"go/types"
	"sort"
	"strings"

	"golang.org/x/tools/go/ssa"
)

type Term struct {
	Op   string
	Name string
	Args []*Term
	Site string // call-site identity for impure calls
	Val  ssa.Value
	str  string
}

func (t *Term) String() string {
	if t == nil {
		return "<nil>"
	}
	if t.str != "" {
		return t.str
	}
	var sb strings.Builder
	switch t.Op {
	case "const":
		sb.WriteString(t.Name)
	case "param":
		sb.WriteString("$" + t.Name)
	case "field":
		sb.WriteString(t.Args[0].String() + "." + t.Name)
	case "kv":
		sb.WriteString(t.Name + ":" + t.Args[0].String())
	default:
		sb.WriteString(t.Op)
		if t.Name != "" {
			sb.WriteString(":" + t.Name)
		}
		if t.Site != "" {
			sb.WriteString("@" + t.Site)
		}
		if len(t.Args) > 0 {
			sb.WriteString("(")
			for i, a := range t.Args {
				if i > 0 {
					sb.WriteString(", ")
				}
				sb.WriteString(a.String())
			}
			sb.WriteString(")")
		}
	}
	t.str = sb.String()
	return t.str
}

func (t *Term) Eq(u *Term) bool { return t != nil && u != nil && t.String() == u.String() }

func (t *Term) IsUnknown() bool { return t == nil || t.Op == "unknown" }

// HasUnknown reports whether any sub-term is unknown.
func (t *Term) HasUnknown() bool {
	if t == nil || t.Op == "unknown" {
		return true
	}
	for _, a := range t.Args {
		if a.HasUnknown() {
			return true
		}
	}
	return false
}

// Field returns the term of field `name` of a struct-literal term (nil if not set), or a field term otherwise.
func (t *Term) Field(name string) *Term {
	if t == nil {
		return nil
	}
	if t.Op == "lit" {
		for _, a := range t.Args {
			if a.Op == "kv" && a.Name == name {
				return a.Args[0]
			}
		}
		return nil
	}
	if t.Op == "addr" && len(t.Args) == 1 {
		return t.Args[0].Field(name)
	}
	return mkField(t, name)
}

// Walk visits every sub-term.
func (t *Term) Walk(f func(*Term)) {
	if t == nil {
		return
	}
	f(t)
	for _, a := range t.Args {
		a.Walk(f)
	}
}

// Contains reports whether some sub-term satisfies pred.
func (t *Term) Contains(pred func(*Term) bool) bool {
	found := false
	t.Walk(func(x *Term) {
		if pred(x) {
			found = true
		}
	})
	return found
}

// IsCall reports whether t is a call whose callee name has the given suffix.
func (t *Term) IsCall(suffix string) bool {
	return t != nil && t.Op == "call" && strings.HasSuffix(t.Name, suffix)
}

// Res strips a result extraction: res#k(call) -> call, k.
func (t *Term) Res() (*Term, int) {
	if t != nil && t.Op == "res" && len(t.Args) == 1 {
		var k int
		fmt.Sscanf(t.Name, "#%d", &k)
		return t.Args[0], k
	}
	return t, 0
}

func mkField(base *Term, name string) *Term {
	if base != nil && base.Op == "addr" && len(base.Args) == 1 {
		base = base.Args[0]
	}
	if base != nil && base.Op == "lit" {
		if f := base.Field(name); f != nil {
			return f
		}
		return &Term{Op: "zero", Name: name + " of " + base.Name}
	}
	return &Term{Op: "field", Name: name, Args: []*Term{base}}
}

// ---------------------------------------------------------------------------------------------

// pureCallees: calls whose result depends only on their arguments (no call-site identity needed).
var pureCallees = map[string]bool{
	"sdk/types.AccAddressFromBech32":            true,
	"sdk/types.UnwrapSDKContext":                true,
	"(sdk/types.Context).BlockTime":             true,
	"(sdk/types.Context).KVStore":               true,
	"(sdk/types.Context).EventManager":          true,
	"(sdk/types.Context).Logger":                true,
	"(time.Time).UnixNano":                      true,
	"(time.Time).IsZero":                        true,
	"(sdk/types.AccAddress).String":             true,
	"(sdk/types.AccAddress).Bytes":              true,
	"(sdk/types.AccAddress).Empty":              true,
	"sdk/types.Uint64ToBigEndian":               true,
	"sdk/types.BigEndianToUint64":               true,
	"sdk/types.VerifyAddressFormat":             true,
	"sdk/store/prefix.NewStore":                 true,
	"strconv.FormatUint":                        true,
	"strconv.ParseUint":                         true,
	"fmt.Sprintf":                               true,
	"strings.HasPrefix":                         true,
	"strings.Contains":                          true,
	"strings.Split":                             true,
	"regexp.MatchString":                        true,
	"regexp.MustCompile":                        true,
	"(*regexp.Regexp).MatchString":              true,
	"(*encoding/base64.Encoding).DecodeString":  true,
	"github.com/btcsuite/btcutil/base58.Decode": true,
	"sdk/types.MustSortJSON":                    true,
	"sdk/codec/types.NewAnyWithValue":           true,
	"(*sdk/codec/types.Any).GetValue":           true,
	"sdk/types.NewCoins":                        true,
	"sdk/types.KVStorePrefixIterator":           false,
}

// readOnlyCallee: callees known not to write through a pointer argument (they only read the pointee).
func readOnlyCallee(name string) bool {
	for _, s := range []string{"types/compkey.Encode", "types/compkey.MustEncode", "types/compkey.PartialEncode",
		"types/compkey.MustPartialEncode", "types/compkey.EncodeToString",
		"Codec.MustMarshal", "Codec.Marshal", "Codec.MustMarshalLengthPrefixed", "Codec.MarshalLengthPrefixed",
		"Codec.MustMarshalJSON", "Codec.MarshalJSON", "codec/types.NewAnyWithValue",
		"EventManager).EmitTypedEvent", "fmt.Sprintf", "fmt.Errorf", "errors.Wrapf", "errors.Wrap",
		"(*sdk/codec.AminoCodec).MustMarshalJSON"} {
		if strings.HasSuffix(name, s) {
			return true
		}
	}
	return false
}

// Origin evaluates terms for one function (and, when inlining, its callees).
type Origin struct {
	p     *Prog
	fn    *ssa.Function
	env   map[*ssa.Parameter]*Term
	fvenv map[*ssa.FreeVar]*Term
	depth int
	memo  map[ssa.Value]*Term
	busy  map[ssa.Value]bool
	order map[ssa.Instruction]int
	site  string // prefix for call-site identities (inlined context)
	// NoInline disables helper inlining (used when a rule wants the raw call).
	NoInline bool
}

const maxInlineDepth = 3

func NewOrigin(p *Prog, fn *ssa.Function) *Origin {
	return &Origin{p: p, fn: fn, env: map[*ssa.Parameter]*Term{}, fvenv: map[*ssa.FreeVar]*Term{},
		memo: map[ssa.Value]*Term{}, busy: map[ssa.Value]bool{}}
}

func (o *Origin) unknown(v ssa.Value, why string) *Term {
	name := why
	if v != nil {
		name = fmt.Sprintf("%s:%s=%s@%s", why, v.Name(), strings.SplitN(v.String(), "\n", 2)[0], o.p.Pos(v.Pos()))
		if len(name) > 160 {
			name = name[:160]
		}
	}
	return &Term{Op: "unknown", Name: fmt.Sprintf("%s#%p", name, v), Val: v}
}

func constTerm(c *ssa.Const) *Term {
	if c.Value == nil {
		if _, ok := c.Type().Underlying().(*types.Struct); ok {
			return &Term{Op: "lit", Name: shortPkg(c.Type().String())}
		}
		return &Term{Op: "const", Name: "nil"}
	}
	if c.Value.Kind() == constant.String {
		return &Term{Op: "const", Name: fmt.Sprintf("%q", constant.StringVal(c.Value))}
	}
	return &Term{Op: "const", Name: c.Value.ExactString()}
}

func (o *Origin) instrIndex(i ssa.Instruction) int {
	if o.order == nil {
		o.order = map[ssa.Instruction]int{}
		for _, b := range o.fn.Blocks {
			for k, in := range b.Instrs {
				o.order[in] = k
			}
		}
	}
	return o.order[i]
}

// before reports whether instruction a is executed before b on every path that reaches b (a dominates b).
func (o *Origin) dominates(a, b ssa.Instruction) bool {
	ba, bb := a.Block(), b.Block()
	if ba == nil || bb == nil {
		return false
	}
	if ba == bb {
		return o.instrIndex(a) < o.instrIndex(b)
	}
	return ba.Dominates(bb)
}

// inCycle reports whether block b can reach itself.
func inCycle(b *ssa.BasicBlock) bool {
	seen := map[*ssa.BasicBlock]bool{}
	var st []*ssa.BasicBlock
	st = append(st, b.Succs...)
	for len(st) > 0 {
		x := st[len(st)-1]
		st = st[:len(st)-1]
		if x == b {
			return true
		}
		if seen[x] {
			continue
		}
		seen[x] = true
		st = append(st, x.Succs...)
	}
	return false
}

// Of returns the provenance term of v.
func (o *Origin) Of(v ssa.Value) *Term {
	if v == nil {
		return o.unknown(nil, "nil-value")
	}
	if t, ok := o.memo[v]; ok {
		return t
	}
	if o.busy[v] {
		return o.unknown(v, "cycle")
	}
	o.busy[v] = true
	t := o.eval(v)
	delete(o.busy, v)
	if t.Val == nil {
		t.Val = v
	}
	o.memo[v] = t
	return t
}

func (o *Origin) eval(v ssa.Value) *Term {
	switch x := v.(type) {
	case *ssa.Const:
		return constTerm(x)
	case *ssa.Parameter:
		if t, ok := o.env[x]; ok {
			return t
		}
		idx := -1
		for i, p := range x.Parent().Params {
			if p == x {
				idx = i
			}
		}
		return &Term{Op: "param", Name: fmt.Sprintf("%d:%s", idx, x.Name())}
	case *ssa.FreeVar:
		if t, ok := o.fvenv[x]; ok {
			return t
		}
		return &Term{Op: "freevar", Name: x.Name()}
	case *ssa.Global:
		return &Term{Op: "global", Name: shortPkg(x.Pkg.Pkg.Path()) + "." + x.Name()}
	case *ssa.Function:
		return &Term{Op: "func", Name: FuncName(x)}
	case *ssa.Builtin:
		return &Term{Op: "builtin", Name: x.Name()}
	case *ssa.MakeInterface:
		return o.Of(x.X)
	case *ssa.ChangeInterface:
		return o.Of(x.X)
	case *ssa.ChangeType:
		return o.Of(x.X)
	case *ssa.Convert:
		return &Term{Op: "conv", Name: shortPkg(x.Type().String()), Args: []*Term{o.Of(x.X)}}
	case *ssa.SliceToArrayPointer:
		return &Term{Op: "conv", Name: shortPkg(x.Type().String()), Args: []*Term{o.Of(x.X)}}
	case *ssa.TypeAssert:
		return &Term{Op: "assert", Name: shortPkg(x.AssertedType.String()), Args: []*Term{o.Of(x.X)}}
	case *ssa.Extract:
		base := o.Of(x.Tuple)
		if base.Op == "tuple" && x.Index < len(base.Args) {
			return base.Args[x.Index]
		}
		// after, found := strings.CutPrefix(s, p)  ≡  found = strings.HasPrefix(s, p); after = s[len(p):] (when found)
		if base.IsCall("strings.CutPrefix") && len(base.Args) == 2 {
			if x.Index == 1 {
				return &Term{Op: "call", Name: "strings.HasPrefix", Args: base.Args}
			}
			return &Term{Op: "slice", Args: []*Term{base.Args[0], {Op: "call", Name: "builtin:len", Args: []*Term{base.Args[1]}}, {Op: "const", Name: "_"}, {Op: "const", Name: "_"}}}
		}
		return &Term{Op: "res", Name: fmt.Sprintf("#%d", x.Index), Args: []*Term{base}}
	case *ssa.BinOp:
		return &Term{Op: "binop", Name: x.Op.String(), Args: []*Term{o.Of(x.X), o.Of(x.Y)}}
	case *ssa.UnOp:
		if x.Op == token.MUL {
			return o.load(x.X, x)
		}
		if x.Op == token.ARROW {
			return o.unknown(x, "chan-recv")
		}
		return &Term{Op: "unop", Name: x.Op.String(), Args: []*Term{o.Of(x.X)}}
	case *ssa.Phi:
		var alts []*Term
		seen := map[string]bool{}
		for _, e := range x.Edges {
			t := o.Of(e)
			if !seen[t.String()] {
				seen[t.String()] = true
				alts = append(alts, t)
			}
		}
		if len(alts) == 1 {
			return alts[0]
		}
		sort.Slice(alts, func(i, j int) bool { return alts[i].String() < alts[j].String() })
		return &Term{Op: "phi", Args: alts}
	case *ssa.Alloc:
		// the pointer itself: address of the (current) content is position dependent; describe as addr(alloc)
		return &Term{Op: "addr", Args: []*Term{o.allocContent(x, nil, nil)}}
	case *ssa.FieldAddr:
		return &Term{Op: "fieldaddr", Name: fieldName(x.X.Type(), x.Field), Args: []*Term{o.Of(x.X)}}
	case *ssa.Field:
		return mkField(o.Of(x.X), fieldName(x.X.Type(), x.Field))
	case *ssa.IndexAddr:
		return &Term{Op: "indexaddr", Args: []*Term{o.Of(x.X), o.Of(x.Index)}}
	case *ssa.Index:
		return &Term{Op: "index", Args: []*Term{o.Of(x.X), o.Of(x.Index)}}
	case *ssa.Lookup:
		return &Term{Op: "lookup", Args: []*Term{o.Of(x.X), o.Of(x.Index)}}
	case *ssa.Slice:
		if sl := o.sliceLit(x); sl != nil {
			return sl
		}
		args := []*Term{o.Of(x.X)}
		if x.Low != nil || x.High != nil || x.Max != nil {
			for _, b := range []ssa.Value{x.Low, x.High, x.Max} {
				if b == nil {
					args = append(args, &Term{Op: "const", Name: "_"})
				} else {
					args = append(args, o.Of(b))
				}
			}
			return &Term{Op: "slice", Args: args}
		}
		// full slice x[:] of a slice/array/string is the value itself
		return args[0]
	case *ssa.MakeSlice:
		return &Term{Op: "makeslice", Site: o.siteOf(x), Args: []*Term{o.Of(x.Len)}}
	case *ssa.MakeMap:
		return &Term{Op: "makemap", Site: o.siteOf(x)}
	case *ssa.MakeChan:
		return &Term{Op: "makechan", Site: o.siteOf(x)}
	case *ssa.MakeClosure:
		t := &Term{Op: "closure", Name: FuncName(x.Fn.(*ssa.Function))}
		for _, b := range x.Bindings {
			t.Args = append(t.Args, o.Of(b))
		}
		return t
	case *ssa.Range:
		return &Term{Op: "range", Args: []*Term{o.Of(x.X)}}
	case *ssa.Next:
		return &Term{Op: "next", Args: []*Term{o.Of(x.Iter)}}
	case *ssa.Call:
		return o.call(x)
	}
	return o.unknown(v, "unhandled")
}

func (o *Origin) siteOf(v ssa.Value) string {
	return o.site + o.p.Pos(v.Pos())
}

func fieldName(t types.Type, idx int) string {
	if p, ok := t.Underlying().(*types.Pointer); ok {
		t = p.Elem()
	}
	if s, ok := t.Underlying().(*types.Struct); ok && idx < s.NumFields() {
		return s.Field(idx).Name()
	}
	return fmt.Sprintf("#%d", idx)
}

// rootAlloc resolves an address expression to (alloc, field path) when it is a (nested) field of a local.
func rootAlloc(addr ssa.Value) (*ssa.Alloc, []string) {
	var path []string
	for {
		switch a := addr.(type) {
		case *ssa.Alloc:
			// reverse path
			for i, j := 0, len(path)-1; i < j; i, j = i+1, j-1 {
				path[i], path[j] = path[j], path[i]
			}
			return a, path
		case *ssa.FieldAddr:
			path = append(path, fieldName(a.X.Type(), a.Field))
			addr = a.X
		default:
			return nil, nil
		}
	}
}

// load evaluates *addr at instruction `at`.
func (o *Origin) load(addr ssa.Value, at ssa.Instruction) *Term {
	if al, path := rootAlloc(addr); al != nil {
		t := o.allocContent(al, at, nil)
		for _, f := range path {
			t = mkField(t, f)
		}
		return t
	}
	switch a := addr.(type) {
	case *ssa.Global:
		return &Term{Op: "gval", Name: shortPkg(a.Pkg.Pkg.Path()) + "." + a.Name()}
	case *ssa.FieldAddr:
		// field of something reached through a pointer that is not a local
		base := o.Of(a.X)
		name := fieldName(a.X.Type(), a.Field)
		if o.fieldMutated(a, at) {
			return o.unknown(at.(ssa.Value), "field-reassigned:"+name)
		}
		return mkField(base, name)
	case *ssa.IndexAddr:
		base := o.Of(a.X)
		if base.Op == "addr" && len(base.Args) == 1 {
			base = base.Args[0]
		}
		idx := o.Of(a.Index)
		if base.Op == "slicelit" && idx.Op == "const" {
			var k int
			if _, err := fmt.Sscanf(idx.Name, "%d", &k); err == nil && k >= 0 && k < len(base.Args) {
				return base.Args[k]
			}
		}
		return &Term{Op: "index", Args: []*Term{base, idx}}
	case *ssa.FreeVar:
		t := o.Of(a)
		if t.Op == "addr" && len(t.Args) == 1 {
			return t.Args[0]
		}
		return &Term{Op: "deref", Args: []*Term{t}}
	}
	pt := o.Of(addr)
	if pt.Op == "addr" && len(pt.Args) == 1 && pt.Args[0].Op == "lit" {
		// *(&T{…}): the literal itself (a constructor that returns a pointer, dereferenced by its caller)
		if _, isCall := addr.(*ssa.Call); isCall {
			return pt.Args[0]
		}
		if _, isEx := addr.(*ssa.Extract); isEx {
			return pt.Args[0]
		}
	}
	return o.withPointeeStores(addr, at, &Term{Op: "deref", Args: []*Term{pt}})
}

// withPointeeStores: a whole-value load *p where the function also assigns fields through an equal pointer (p.F = v) is
// described as update(deref(p), F:v, ...) unless every such assignment happens strictly after the load.
func (o *Origin) withPointeeStores(addr ssa.Value, at ssa.Instruction, base *Term) *Term {
	if _, isPtr := addr.Type().Underlying().(*types.Pointer); !isPtr {
		return base
	}
	pt := o.Of(addr).String()
	var kvs []*Term
	for _, b := range o.fn.Blocks {
		for _, in := range b.Instrs {
			st, ok := in.(*ssa.Store)
			if !ok {
				continue
			}
			fa, ok := st.Addr.(*ssa.FieldAddr)
			if !ok {
				continue
			}
			if _, isAlloc := fa.X.(*ssa.Alloc); isAlloc {
				continue
			}
			if !types.Identical(fa.X.Type(), addr.Type()) || o.Of(fa.X).String() != pt {
				continue
			}
			if at != nil && o.dominates(at, st) && !inCycle(at.Block()) {
				continue
			}
			kvs = append(kvs, &Term{Op: "kv", Name: fieldName(fa.X.Type(), fa.Field), Args: []*Term{o.Of(st.Val)}})
		}
	}
	if len(kvs) == 0 {
		return base
	}
	sort.Slice(kvs, func(i, j int) bool { return kvs[i].Name < kvs[j].Name })
	return &Term{Op: "update", Args: append([]*Term{base}, kvs...)}
}

// fieldMutated reports whether the function stores to the same field through an equal base pointer in a
// way that could be observed by the load at `at` (i.e. the load does not strictly precede every such store).
func (o *Origin) fieldMutated(fa *ssa.FieldAddr, at ssa.Instruction) bool {
	baseT := o.Of(fa.X).String()
	for _, b := range o.fn.Blocks {
		for _, in := range b.Instrs {
			st, ok := in.(*ssa.Store)
			if !ok {
				continue
			}
			fa2, ok := st.Addr.(*ssa.FieldAddr)
			if !ok || fa2.Field != fa.Field || !types.Identical(fa2.X.Type(), fa.X.Type()) {
				continue
			}
			if _, isAlloc := fa2.X.(*ssa.Alloc); isAlloc {
				continue
			}
			if o.Of(fa2.X).String() != baseT {
				continue
			}
			// a store to the same location exists; harmless only if the load dominates it outside any loop
			if o.dominates(at, st) && !inCycle(at.Block()) {
				continue
			}
			return true
		}
	}
	return false
}

type allocEvent struct {
	in     ssa.Instruction
	path   []string // field path stored to (nil = whole)
	val    ssa.Value
	esc    bool
	escBy  string
	callee *ssa.Function
	argIdx int
}

var roMemo = map[string]bool{}
var roVisiting = map[string]bool{}

// paramReadOnly reports whether fn never writes through its idx-th parameter (a pointer or an interface holding one):
// the parameter is only dereferenced for loads, compared, or handed to callees that are read-only in turn.
// Results are memoised only when they do not depend on an optimistic assumption about a function still being analysed
// (negative results always; positive results only for the root of the recursion), so the answer is independent of query order.
func paramReadOnly(fn *ssa.Function, idx int, depth int) bool {
	if fn == nil || fn.Blocks == nil || idx >= len(fn.Params) {
		return false
	}
	key := fmt.Sprintf("%p/%d", fn, idx)
	if v, ok := roMemo[key]; ok {
		return v
	}
	if roVisiting[key] {
		return true // optimistic inside a cycle
	}
	roVisiting[key] = true
	ok := valueReadOnly(fn.Params[idx], depth, map[ssa.Value]bool{})
	delete(roVisiting, key)
	if !ok || len(roVisiting) == 0 {
		roMemo[key] = ok
	}
	return ok
}

func valueReadOnly(v ssa.Value, depth int, seen map[ssa.Value]bool) bool {
	if seen[v] {
		return true
	}
	seen[v] = true
	refs := v.Referrers()
	if refs == nil {
		return true
	}
	for _, r := range *refs {
		switch u := r.(type) {
		case *ssa.Store:
			if u.Addr == v {
				return false
			}
			// storing the pointer itself somewhere: only into a local that stays read-only
			if al, _ := rootAlloc(u.Addr); al == nil || !valueReadOnly(al, depth, seen) {
				return false
			}
		case *ssa.UnOp, *ssa.BinOp, *ssa.DebugRef, *ssa.If, *ssa.Return:
			if uo, ok := u.(*ssa.UnOp); ok && uo.Op == token.MUL {
				// loaded value may itself be a pointer that is written through: follow pointer-typed loads
				if _, isPtr := uo.Type().Underlying().(*types.Pointer); isPtr {
					if !valueReadOnly(uo, depth, seen) {
						return false
					}
				}
			}
		case *ssa.FieldAddr, *ssa.IndexAddr, *ssa.Field, *ssa.Index, *ssa.MakeInterface, *ssa.ChangeInterface, *ssa.ChangeType, *ssa.TypeAssert, *ssa.Phi, *ssa.Extract, *ssa.Slice, *ssa.Convert:
			if !valueReadOnly(u.(ssa.Value), depth, seen) {
				return false
			}
		case ssa.CallInstruction:
			cc := u.Common()
			if cc.IsInvoke() {
				if cc.Value == v {
					// method call on an interface holding the pointer: unknown implementation
					name := cc.Method.Name()
					if name == "String" || name == "Error" || strings.HasPrefix(name, "Get") || name == "ByteSlices" || name == "Strings" ||
						name == "Size" || name == "Marshal" || name == "ProtoMessage" {
						continue
					}
				}
				return false
			}
			if b, ok := cc.Value.(*ssa.Builtin); ok {
				if b.Name() == "len" || b.Name() == "cap" || b.Name() == "append" || b.Name() == "copy" && len(cc.Args) > 0 && cc.Args[0] != v {
					continue
				}
				return false
			}
			sc := cc.StaticCallee()
			if sc == nil {
				return false
			}
			if readOnlyCallee(FuncName(sc)) {
				continue
			}
			okAll := true
			for i, a := range cc.Args {
				if a == v && !paramReadOnly(sc, i, depth+1) {
					okAll = false
				}
			}
			if !okAll {
				return false
			}
		default:
			return false
		}
	}
	return true
}

// allocEvents lists stores into, and escapes of, a local.
func (o *Origin) allocEvents(al *ssa.Alloc) []allocEvent {
	var evs []allocEvent
	var visit func(addr ssa.Value, path []string)
	visit = func(addr ssa.Value, path []string) {
		refs := addr.Referrers()
		if refs == nil {
			return
		}
		for _, r := range *refs {
			switch u := r.(type) {
			case *ssa.Store:
				if u.Addr == addr {
					evs = append(evs, allocEvent{in: u, path: append([]string(nil), path...), val: u.Val})
				} else {
					evs = append(evs, allocEvent{in: u, esc: true, escBy: "stored-elsewhere"})
				}
			case *ssa.FieldAddr:
				visit(u, append(append([]string(nil), path...), fieldName(u.X.Type(), u.Field)))
			case *ssa.UnOp:
				// load: not an event
			case *ssa.IndexAddr:
				// element address of a local array: handled by sliceLit; treat element stores as unknown partial writes
				if erefs := u.Referrers(); erefs != nil {
					for _, er := range *erefs {
						if st, ok := er.(*ssa.Store); ok && st.Addr == u {
							evs = append(evs, allocEvent{in: st, path: append(append([]string(nil), path...), "[]"), val: st.Val})
						} else if _, ok := er.(*ssa.UnOp); !ok {
							if in, ok := er.(ssa.Instruction); ok {
								evs = append(evs, allocEvent{in: in, esc: true, escBy: "elem-addr"})
							}
						}
					}
				}
			case *ssa.Slice:
				// slicing a local array: the slice aliases the array; uses of the slice are escapes only if written through
			case *ssa.DebugRef:
			case ssa.Instruction:
				name := "escape"
				if c, ok := u.(ssa.CallInstruction); ok {
					name = "call:" + calleeName(c.Common())
					sc, off := c.Common().StaticCallee(), 0
					if sc == nil {
						if d := devirt(c.Common()); d != nil {
							sc, off = d, 1 // the implementer's parameters start with the receiver
						}
					}
					ev := allocEvent{in: u, esc: true, escBy: name, callee: sc, argIdx: -1}
					for i, a := range c.Common().Args {
						if a == addr {
							ev.argIdx = i + off
						}
					}
					evs = append(evs, ev)
					continue
				} else if mi, ok := u.(*ssa.MakeInterface); ok {
					// boxed pointer: follow to the calls that receive it
					if mrefs := mi.Referrers(); mrefs != nil {
						for _, mr := range *mrefs {
							if c, ok := mr.(ssa.CallInstruction); ok {
								sc, off := c.Common().StaticCallee(), 0
								if sc == nil {
									if d := devirt(c.Common()); d != nil {
										sc, off = d, 1
									}
								}
								ev := allocEvent{in: c.(ssa.Instruction), esc: true, escBy: "call:" + calleeName(c.Common()), callee: sc, argIdx: -1}
								for i, a := range c.Common().Args {
									if a == ssa.Value(mi) {
										ev.argIdx = i + off
									}
								}
								evs = append(evs, ev)
							} else if in, ok := mr.(ssa.Instruction); ok {
								if _, isDbg := in.(*ssa.DebugRef); !isDbg {
									evs = append(evs, allocEvent{in: in, esc: true, escBy: "boxed"})
								}
							}
						}
					}
					continue
				}
				evs = append(evs, allocEvent{in: u, esc: true, escBy: name})
			}
		}
	}
	visit(al, nil)
	return evs
}

// allocContent describes the value held by local `al` when instruction `at` executes
// (at == nil: after all stores, used for address-taken literals such as &T{...}).
func (o *Origin) allocContent(al *ssa.Alloc, at ssa.Instruction, _ []string) *Term {
	evs := o.allocEvents(al)
	typ := al.Type().Underlying().(*types.Pointer).Elem()
	// straight-line special case (e.g. defer-spilled results: `store result; rundefers; load result; return` in one block):
	// a whole-value store earlier in the load's own block makes every event outside [store, load] irrelevant
	if at != nil {
		var last *allocEvent
		for i := range evs {
			e := &evs[i]
			if !e.esc && len(e.path) == 0 && e.in.Block() == at.Block() && o.instrIndex(e.in) < o.instrIndex(at) {
				if last == nil || o.instrIndex(e.in) > o.instrIndex(last.in) {
					last = e
				}
			}
		}
		if last != nil {
			var kept []allocEvent
			for _, e := range evs {
				if e.in.Block() == at.Block() && o.instrIndex(e.in) >= o.instrIndex(last.in) && o.instrIndex(e.in) < o.instrIndex(at) {
					kept = append(kept, e)
				}
			}
			evs = kept
		}
	}
	var relevant []allocEvent
	for _, e := range evs {
		if e.esc && strings.HasPrefix(e.escBy, "call:") {
			if readOnlyCallee(strings.TrimPrefix(e.escBy, "call:")) || (e.callee != nil && e.argIdx >= 0 && paramReadOnly(e.callee, e.argIdx, 0)) {
				continue
			}
		}
		if at == nil {
			relevant = append(relevant, e)
			continue
		}
		if e.in == at {
			continue
		}
		if o.dominates(e.in, at) {
			relevant = append(relevant, e)
			continue
		}
		if o.dominates(at, e.in) && !inCycle(at.Block()) {
			continue // happens later
		}
		if e.esc && !strings.HasPrefix(e.escBy, "call:") {
			// passing the address around (return, closure capture) after/beside the load does not change the value read here
			if !inCycle(at.Block()) {
				continue
			}
		}
		// an event that may or may not have happened: undecidable content
		return o.unknown(al, "conditionally-written-local")
	}
	sort.SliceStable(relevant, func(i, j int) bool {
		a, b := relevant[i].in, relevant[j].in
		if a.Block() == b.Block() {
			return o.instrIndex(a) < o.instrIndex(b)
		}
		return a.Block().Dominates(b.Block())
	})
	// at == nil: events need not be totally ordered; require single store per field
	var whole *Term
	fields := map[string]*Term{}
	var order []string
	for _, e := range relevant {
		if e.esc {
			if strings.HasPrefix(e.escBy, "call:") && readOnlyCallee(strings.TrimPrefix(e.escBy, "call:")) {
				continue
			}
			if strings.HasPrefix(e.escBy, "call:") {
				// the callee may have written through the pointer: content becomes an out-parameter of that call
				ct := &Term{Op: "outparam", Name: strings.TrimPrefix(e.escBy, "call:"), Site: o.site + o.p.Pos(e.in.Pos())}
				whole = ct
				fields = map[string]*Term{}
				order = nil
			}
			continue
		}
		vt := o.Of(e.val)
		if len(e.path) == 0 {
			whole = vt
			fields = map[string]*Term{}
			order = nil
			continue
		}
		key := strings.Join(e.path, ".")
		if _, dup := fields[key]; dup && at == nil {
			return o.unknown(al, "multiply-assigned-field:"+key)
		}
		if _, dup := fields[key]; !dup {
			order = append(order, key)
		}
		fields[key] = vt
	}
	if len(fields) == 0 {
		if whole != nil {
			return whole
		}
		if _, ok := typ.Underlying().(*types.Struct); ok {
			return &Term{Op: "lit", Name: shortPkg(typ.String())}
		}
		return &Term{Op: "zero", Name: shortPkg(typ.String())}
	}
	if whole != nil && whole.Op != "lit" {
		// field overwrite on top of an opaque value. For a small struct this IS the struct literal with the untouched fields copied
		// from the old value — the normal form that `T{F: v, G: old.G, …}` has too (copy-and-modify ≡ rebuild field by field).
		if st, ok := typ.Underlying().(*types.Struct); ok && st.NumFields() <= 12 && whole.Op != "unknown" {
			lit := &Term{Op: "lit", Name: shortPkg(typ.String())}
			for i := 0; i < st.NumFields(); i++ {
				fn := st.Field(i).Name()
				if strings.HasPrefix(fn, "XXX_") {
					continue
				}
				v, ok := fields[fn]
				if !ok {
					v = mkField(whole, fn)
				}
				lit.Args = append(lit.Args, &Term{Op: "kv", Name: fn, Args: []*Term{v}})
			}
			return lit
		}
		t := &Term{Op: "update", Args: []*Term{whole}}
		sort.Strings(order)
		for _, k := range order {
			t.Args = append(t.Args, &Term{Op: "kv", Name: k, Args: []*Term{fields[k]}})
		}
		return t
	}
	lit := &Term{Op: "lit", Name: shortPkg(typ.String())}
	merged := map[string]*Term{}
	if whole != nil {
		for _, a := range whole.Args {
			merged[a.Name] = a.Args[0]
		}
	}
	for k, v := range fields {
		merged[k] = v
	}
	// field order: declaration order of the struct where possible
	var names []string
	if st, ok := typ.Underlying().(*types.Struct); ok {
		for i := 0; i < st.NumFields(); i++ {
			if _, ok := merged[st.Field(i).Name()]; ok {
				names = append(names, st.Field(i).Name())
			}
		}
	}
	var rest []string
	for k := range merged {
		found := false
		for _, n := range names {
			if n == k {
				found = true
			}
		}
		if !found {
			rest = append(rest, k)
		}
	}
	sort.Strings(rest)
	names = append(names, rest...)
	for _, n := range names {
		lit.Args = append(lit.Args, &Term{Op: "kv", Name: n, Args: []*Term{merged[n]}})
	}
	return lit
}

// sliceLit recognises  new [n]T ; &t[i] = v_i ; slice t[:]   (the lowering of []T{v0,...}).
func (o *Origin) sliceLit(s *ssa.Slice) *Term {
	al, ok := s.X.(*ssa.Alloc)
	if !ok || s.Low != nil || s.High != nil {
		return nil
	}
	arr, ok := al.Type().Underlying().(*types.Pointer).Elem().Underlying().(*types.Array)
	if !ok {
		return nil
	}
	n := int(arr.Len())
	elems := make([]*Term, n)
	refs := al.Referrers()
	if refs == nil {
		return nil
	}
	for _, r := range *refs {
		switch u := r.(type) {
		case *ssa.IndexAddr:
			c, ok := u.Index.(*ssa.Const)
			if !ok {
				return nil
			}
			k := int(c.Int64())
			if urefs := u.Referrers(); urefs != nil {
				for _, ur := range *urefs {
					if st, ok := ur.(*ssa.Store); ok && st.Addr == u {
						if k < 0 || k >= n || elems[k] != nil {
							return nil
						}
						elems[k] = o.Of(st.Val)
					}
				}
			}
		case *ssa.Slice, *ssa.DebugRef:
		default:
			return nil
		}
	}
	for i := range elems {
		if elems[i] == nil {
			elems[i] = &Term{Op: "zero", Name: "elem"}
		}
	}
	return &Term{Op: "slicelit", Name: shortPkg(arr.Elem().String()), Args: elems}
}

// devirt: an invoke on an interface DECLARED IN THE MODULE that exactly one module type implements is a call of that type's
// method (a msg server that holds its keeper behind a small interface of its own). Interfaces of the SDK (expected keepers,
// codecs, stores) are never devirtualised.
func devirt(c *ssa.CallCommon) *ssa.Function {
	if !c.IsInvoke() || progForFacts == nil {
		return nil
	}
	n, ok := c.Value.Type().(*types.Named)
	if !ok || n.Obj().Pkg() == nil || !strings.HasPrefix(n.Obj().Pkg().Path(), ModPath) {
		return nil
	}
	impls := progForFacts.moduleImplementers(n, c.Method)
	if len(impls) != 1 || impls[0] == nil || impls[0].Blocks == nil {
		return nil
	}
	return impls[0]
}

func calleeName(c *ssa.CallCommon) string {
	if c.IsInvoke() {
		if f := devirt(c); f != nil {
			return FuncName(f)
		}
		return "invoke:" + shortPkg(c.Value.Type().String()) + "." + c.Method.Name()
	}
	switch f := c.Value.(type) {
	case *ssa.Function:
		return FuncName(f)
	case *ssa.Builtin:
		return "builtin:" + f.Name()
	case *ssa.MakeClosure:
		return FuncName(f.Fn.(*ssa.Function))
	}
	return "dynamic"
}

// argAt evaluates a call argument; a pointer to a local is described by the local's content at the call.
func (o *Origin) argAt(v ssa.Value, at ssa.Instruction) *Term {
	inner := v
	for {
		switch x := inner.(type) {
		case *ssa.MakeInterface:
			inner = x.X
			continue
		case *ssa.ChangeInterface:
			inner = x.X
			continue
		}
		break
	}
	if al, ok := inner.(*ssa.Alloc); ok {
		return &Term{Op: "addr", Args: []*Term{o.allocContent(al, at, nil)}}
	}
	return o.Of(v)
}

func (o *Origin) callArgsTerm(c *ssa.Call) *Term {
	t := &Term{Op: "args"}
	if c.Call.IsInvoke() {
		t.Args = append(t.Args, o.Of(c.Call.Value))
	}
	for _, a := range c.Call.Args {
		t.Args = append(t.Args, o.Of(a))
	}
	return t
}

func isGeneratedGetter(p *Prog, fn *ssa.Function) (string, bool) {
	if fn == nil || fn.Signature.Recv() == nil || !strings.HasPrefix(fn.Name(), "Get") || !p.IsGenerated(fn) {
		return "", false
	}
	if fn.Signature.Params().Len() != 0 || fn.Signature.Results().Len() != 1 {
		return "", false
	}
	rt := fn.Signature.Recv().Type()
	if pt, ok := rt.Underlying().(*types.Pointer); ok {
		rt = pt.Elem()
	}
	st, ok := rt.Underlying().(*types.Struct)
	if !ok {
		return "", false
	}
	want := strings.TrimPrefix(fn.Name(), "Get")
	for i := 0; i < st.NumFields(); i++ {
		if st.Field(i).Name() == want {
			return want, true
		}
	}
	return "", false
}

var debugPure func(fn, why string)

var pureMemo = map[*ssa.Function]bool{}
var pureVisiting = map[*ssa.Function]bool{}

// isPureFn: a module function whose result depends only on its arguments: no interface dispatch, no calls out of the
// module except the pure table, no stores except into its own locals, no channel/map mutation.
// Memoisation is order-independent: see paramReadOnly.
func isPureFn(fn *ssa.Function, depth int) bool {
	if fn == nil || fn.Blocks == nil || !InModule(fn) {
		return false
	}
	if v, ok := pureMemo[fn]; ok {
		return v
	}
	if pureVisiting[fn] {
		return true
	}
	pureVisiting[fn] = true
	ok := true
	for _, b := range fn.Blocks {
		for _, in := range b.Instrs {
			switch x := in.(type) {
			case *ssa.Go, *ssa.Defer, *ssa.MapUpdate, *ssa.Send, *ssa.Panic:
				ok = false
			case *ssa.Store:
				if al, _ := rootAlloc(x.Addr); al == nil {
					if ia, isIdx := x.Addr.(*ssa.IndexAddr); isIdx {
						if al2, _ := rootAlloc(ia.X); al2 != nil {
							continue
						}
					}
					ok = false
				}
			case *ssa.Call:
				if x.Call.IsInvoke() {
					ok = false
					continue
				}
				if b, isB := x.Call.Value.(*ssa.Builtin); isB {
					if b.Name() == "copy" {
						ok = false
					}
					continue
				}
				sc := x.Call.StaticCallee()
				if sc == nil {
					ok = false
					continue
				}
				if pureCallees[FuncName(sc)] {
					continue
				}
				if !isPureFn(sc, depth+1) {
					ok = false
				}
			}
		}
	}
	delete(pureVisiting, fn)
	if !ok && debugPure != nil {
		debugPure(FuncName(fn), "not pure")
	}
	if !ok || len(pureVisiting) == 0 {
		pureMemo[fn] = ok
	}
	return ok
}

// inlinable: module function, not generated, single return instruction, no loops, small.
func (o *Origin) inlinable(fn *ssa.Function) bool {
	if fn == nil || fn.Blocks == nil || !InModule(fn) || o.p.IsGenerated(fn) || o.NoInline {
		return false
	}
	if o.depth >= maxInlineDepth || len(fn.Blocks) > 12 {
		return false
	}
	if o.p.hasOwnStoreOp(fn) {
		return false // a store accessor (also one that delegates the operation to a helper it hands its store to)
	}
	if n := fn.Name(); strings.HasPrefix(n, "Must") && len(n) > 4 && n[4] >= 'A' && n[4] <= 'Z' {
		return false // exported Must* functions (compkey.MustEncode …) are anchors the rules name, wherever their panic sits
	}
	if fn.Signature.Recv() != nil {
		switch fn.Name() {
		case "ValidateBasic", "GetSigners", "GetSignBytes", "Valid", "Validate":
			return false // the sdk.Msg / validation entry points are anchors the rules name, whatever their body looks like
		}
	}
	rets := 0
	for _, b := range fn.Blocks {
		if inCycle(b) {
			return false
		}
		for _, in := range b.Instrs {
			switch x := in.(type) {
			case *ssa.Return:
				rets++
			case *ssa.Go, *ssa.Defer, *ssa.MapUpdate, *ssa.Send:
				return false
			case *ssa.Panic:
				// a panicking branch does not return: the value handed back is the single return's (must-style helpers).
				// Only unexported helpers: exported Must* functions (compkey.MustEncode …) are anchors the rules name.
				if n := fn.Name(); n == "" || !(n[0] >= 'a' && n[0] <= 'z') {
					return false
				}
			case *ssa.Call:
				// only pure helpers are inlined: no interface dispatch, no calls out of the module
				// other than the pure table (so keeper accessors stay atomic call terms)
				if x.Call.IsInvoke() {
					return false
				}
				if b, isB := x.Call.Value.(*ssa.Builtin); isB {
					if b.Name() == "copy" {
						return false // fills a buffer in place: the result is not a term over the arguments
					}
					continue
				}
				sc := x.Call.StaticCallee()
				if sc == nil {
					return false
				}
				if !InModule(sc) && !pureCallees[FuncName(sc)] {
					return false
				}
			}
		}
	}
	return rets == 1
}

// callAtomic: the call term itself (callee name, argument terms, site), never inlined or projected.
func (o *Origin) callAtomic(c *ssa.Call) *Term {
	cc := &c.Call
	name := calleeName(cc)
	var args []*Term
	if cc.IsInvoke() {
		args = append(args, o.argAt(cc.Value, c))
	}
	for _, a := range cc.Args {
		args = append(args, o.argAt(a, c))
	}
	if b, ok := cc.Value.(*ssa.Builtin); ok {
		return &Term{Op: "call", Name: "builtin:" + b.Name(), Args: args}
	}
	callee := cc.StaticCallee()
	t := &Term{Op: "call", Name: name, Args: args}
	genGetter := callee != nil && o.p.IsGenerated(callee) && strings.HasPrefix(callee.Name(), "Get") && len(args) == 1
	if !pureCallees[name] && !genGetter {
		t.Site = o.siteOf(c)
	}
	return t
}

func (o *Origin) call(c *ssa.Call) *Term {
	cc := &c.Call
	name := calleeName(cc)
	var args []*Term
	if cc.IsInvoke() {
		args = append(args, o.argAt(cc.Value, c))
	}
	for _, a := range cc.Args {
		args = append(args, o.argAt(a, c))
	}
	if b, ok := cc.Value.(*ssa.Builtin); ok {
		// append(<empty fresh slice>, X...) is a copy of X: the same value (make([]byte, 0), nil, []T{} as destination)
		if b.Name() == "append" && len(args) == 2 {
			d := args[0]
			empty := d.Op == "const" && d.Name == "nil" || d.Op == "slicelit" && len(d.Args) == 0 ||
				d.Op == "makeslice" && len(d.Args) == 1 && d.Args[0].Op == "const" && d.Args[0].Name == "0"
			if empty {
				return args[1]
			}
		}
		return &Term{Op: "call", Name: "builtin:" + b.Name(), Args: args}
	}
	callee := cc.StaticCallee()
	if callee != nil {
		if f, ok := isGeneratedGetter(o.p, callee); ok && len(args) == 1 {
			return mkField(args[0], f)
		}
		if o.inlinable(callee) && callee != o.fn {
			sub := &Origin{p: o.p, fn: callee, env: map[*ssa.Parameter]*Term{}, fvenv: map[*ssa.FreeVar]*Term{},
				depth: o.depth + 1, memo: map[ssa.Value]*Term{}, busy: map[ssa.Value]bool{},
				site: o.site + o.p.Pos(c.Pos()) + ">"}
			for i, prm := range callee.Params {
				if i < len(args) {
					sub.env[prm] = args[i]
				}
			}
			for _, b := range callee.Blocks {
				for _, in := range b.Instrs {
					if r, ok := in.(*ssa.Return); ok {
						if len(r.Results) == 1 {
							return sub.Of(r.Results[0])
						}
						t := &Term{Op: "tuple"}
						for _, rv := range r.Results {
							t.Args = append(t.Args, sub.Of(rv))
						}
						return t
					}
				}
			}
		}
	}
	t := &Term{Op: "call", Name: name, Args: args}
	// generated Get* accessors are pure functions of their receiver: two calls on the same receiver are the same datum
	genGetter := callee != nil && o.p.IsGenerated(callee) && strings.HasPrefix(callee.Name(), "Get") && len(args) == 1
	if !pureCallees[name] && !genGetter {
		t.Site = o.siteOf(c)
	}
	// transparent (value…, error) helpers: project the success returns (helpers.go)
	if callee != nil && callee != o.fn && !o.NoInline && o.depth < maxInlineDepth && o.p != nil && o.p.errHelper(callee) && callee.Signature.Results().Len() >= 2 {
		return o.successProjection(c, callee, args, t)
	}
	return t
}

// ClosureOrigin builds an Origin for the body of a closure whose captured variables are described by the
// content they hold in the parent when the closure is created.
func (o *Origin) ClosureOrigin(mc *ssa.MakeClosure) *Origin {
	fn := mc.Fn.(*ssa.Function)
	sub := NewOrigin(o.p, fn)
	sub.site = o.site
	for i, fv := range fn.FreeVars {
		if i >= len(mc.Bindings) {
			break
		}
		b := mc.Bindings[i]
		if al, ok := b.(*ssa.Alloc); ok {
			sub.fvenv[fv] = &Term{Op: "addr", Args: []*Term{o.allocContent(al, mc, nil)}}
		} else {
			sub.fvenv[fv] = o.Of(b)
		}
	}
	return sub
}
