package main

import (
	"fmt"
	"go/ast"
	"go/types"
	"reflect"
	"regexp"
	"sort"
	"strings"

	"golang.org/x/tools/go/ssa"
)

func init() { register("C14", checkC14) }

// registrations found in a module's codec functions.
type codecRegs struct {
	Concrete map[string]string // type name -> amino name (RegisterConcrete)
	Impl     map[string]bool   // type name registered with RegisterImplementations((*sdk.Msg)(nil), ...)
	OnOwn    map[string]bool   // type name registered on the module's own amino codec (the one GetSignBytes uses)
	OnWrap   map[string]bool   // "authz" | "gov" | "group": RegisterCodec(<that module's codec.Amino>) is called from an init of the types package
}

func typeNameOfPtrArg(v ssa.Value) string {
	for {
		switch x := v.(type) {
		case *ssa.MakeInterface:
			v = x.X
			continue
		case *ssa.ChangeInterface:
			v = x.X
			continue
		}
		break
	}
	if pt, ok := v.Type().(*types.Pointer); ok {
		if n, ok := pt.Elem().(*types.Named); ok {
			return n.Obj().Name()
		}
	}
	return ""
}

func collectCodecRegs(p *Prog, typesPkg string) codecRegs {
	cr := codecRegs{Concrete: map[string]string{}, Impl: map[string]bool{}, OnOwn: map[string]bool{}, OnWrap: map[string]bool{}}
	for _, fn := range p.ModFuncs {
		if pkgPathOf(fn) != Rel(typesPkg) || p.IsGenerated(fn) {
			continue
		}
		o := NewOrigin(p, fn)
		for _, cs := range callSites(fn) {
			cc := cs.Instr.Common()
			switch {
			case strings.HasSuffix(cs.Name, "codec.LegacyAmino).RegisterConcrete") && len(cc.Args) >= 3:
				tn := typeNameOfPtrArg(cc.Args[1])
				if _, isC := cc.Args[2].(*ssa.Const); !isC {
					// table-driven: one call per element of a package-level table that is walked completely
					if rows, _, ok := tableDrivenArgs(cs.Instr, []int{1, 2}); ok {
						recv := o.Of(cc.Args[0])
						for _, row := range rows {
							rtn := typeNameOfPtrArg(row[0])
							if c, ok := row[1].(*ssa.Const); ok && rtn != "" && c.Value != nil {
								var s string
								fmt.Sscanf(c.Value.ExactString(), "%q", &s)
								cr.Concrete[rtn] = s
								if recv.Op == "gval" {
									cr.OnOwn[rtn] = true
								}
							}
						}
					}
				}
				if c, ok := cc.Args[2].(*ssa.Const); ok && tn != "" {
					var s string
					fmt.Sscanf(c.Value.ExactString(), "%q", &s)
					cr.Concrete[tn] = s
					// which codec object? parameter (app codec) or the module's own variable
					recv := o.Of(cc.Args[0])
					if recv.Op == "gval" {
						cr.OnOwn[tn] = true
					}
				}
			case strings.HasSuffix(cs.Name, "InterfaceRegistry.RegisterImplementations"):
				// varargs slice of implementations
				if len(cc.Args) >= 2 {
					if col, ok := appendedTableColumn(cc.Args[len(cc.Args)-1]); ok {
						for _, v := range col {
							if tn := typeNameOfPtrArg(v); tn != "" {
								cr.Impl[tn] = true
							}
						}
					}
					if sl, ok := cc.Args[len(cc.Args)-1].(*ssa.Slice); ok {
						if al, ok := sl.X.(*ssa.Alloc); ok {
							if refs := al.Referrers(); refs != nil {
								for _, rf := range *refs {
									if ia, ok := rf.(*ssa.IndexAddr); ok {
										if irefs := ia.Referrers(); irefs != nil {
											for _, st := range *irefs {
												if s, ok := st.(*ssa.Store); ok {
													if tn := typeNameOfPtrArg(s.Val); tn != "" {
														cr.Impl[tn] = true
													}
												}
											}
										}
									}
								}
							}
						}
					}
				}
			}
		}
		// init-time registration on the module codec: RegisterCodec(amino) called from init
		for _, cs := range callSites(fn) {
			if cs.Callee != nil && pkgPathOf(cs.Callee) == Rel(typesPkg) && (cs.Callee.Name() == "RegisterCodec" || cs.Callee.Name() == "RegisterLegacyAminoCodec") {
				arg := o.Of(cs.Instr.Common().Args[0])
				if rows, t, ok := tableDrivenArgs(cs.Instr, []int{0}); ok && strings.HasPrefix(fn.Name(), "init") {
					// the wrappers' codecs listed in a package-level table that init walks completely
					to := NewOrigin(p, t.initFn)
					for _, row := range rows {
						rt := to.Of(row[0])
						for _, wname := range []string{"authz", "gov", "group"} {
							if rt.Op == "gval" && strings.HasSuffix(rt.Name, "x/"+wname+"/codec.Amino") {
								cr.OnWrap[wname] = true
							}
						}
					}
				}
				if arg.Op == "gval" && strings.HasSuffix(arg.Name, ".amino") {
					// everything RegisterCodec registers is then on the module codec
					cr.OnOwn["*"] = true
				}
				if arg.Op == "gval" && strings.HasPrefix(fn.Name(), "init") {
					for _, wname := range []string{"authz", "gov", "group"} {
						if strings.HasSuffix(arg.Name, "x/"+wname+"/codec.Amino") {
							cr.OnWrap[wname] = true
						}
					}
				}
			}
		}
	}
	return cr
}

// jsonNames returns field name -> JSON name (from the generated struct tags) and the ordered list.
func jsonNames(st *types.Struct) map[string]string {
	out := map[string]string{}
	for i := 0; i < st.NumFields(); i++ {
		f := st.Field(i)
		if strings.HasPrefix(f.Name(), "XXX_") {
			continue
		}
		tag := reflect.StructTag(st.Tag(i)).Get("json")
		name := strings.Split(tag, ",")[0]
		if name == "" {
			name = f.Name()
		}
		if name == "-" {
			continue
		}
		out[f.Name()] = name
	}
	return out
}

// requiredFields: fields that ValidateBasic forces to be non-empty on every accepting path.
func requiredFields(p *Prog, msg *types.Named) map[string]bool {
	req := map[string]bool{}
	vb := p.MethodOf(msg, "ValidateBasic")
	if vb == nil || vb.Blocks == nil {
		return req
	}
	A := acceptFormula(p, vb)
	if A == nil {
		return req
	}
	for _, a := range A.Atoms() {
		cls, pos, ok := classifyMsgAtom(p, a.Term)
		if !ok || strings.Contains(cls.Field, "=") {
			continue
		}
		lit := a
		if !pos {
			lit = fNot(a)
		}
		if !Entails(A, lit) {
			continue
		}
		switch cls.Kind {
		case "bech32", "nonempty", "nonnil", "valid":
			req[cls.Field] = true
		case "lang":
			empty := cls.Spec.Lo == 0
			if empty && cls.Spec.Pat != "" {
				if re, err := regexp.Compile(cls.Spec.Pat); err == nil {
					empty = re.MatchString("")
				}
			}
			if !empty {
				req[cls.Field] = true
			}
		}
	}
	return req
}

// C14 — sign bytes injective.
func checkC14(p *Prog, r *Report) {
	r.Explain = "Decided statically: D1 for each of the 14 messages GetSignBytes ≡ sdk.MustSortJSON(ModuleCdc.MustMarshalJSON(<whole receiver>)) with ModuleCdc = codec.NewAminoCodec(amino) of the message's own package (deterministic, whole message); D2 exhaustiveness — the types implementing sdk.Msg are exactly the types given to RegisterImplementations((*sdk.Msg)(nil), …) and to RegisterConcrete, amino names are pairwise distinct, generated proto type names are distinct, all four modules' AppModuleBasic are in ModuleBasics and the tx config uses the SDK's DefaultSignModes — so in the direct/direct-aux/textual modes the signed TxBody carries a distinct type URL per message type; D3 legacy amino JSON — only legacytx.LegacyMsg implementers can be signed in that mode; for each such type either its name is registered on the very codec object GetSignBytes marshals with (then the \"type\" wrapper separates it from every other type), or the bare JSON object is compared pairwise: two types are separable iff some field that ValidateBasic forces non-empty in one has no same-named JSON field in the other. All pairs are enumerated. D4b hand-written MarshalJSON/MarshalAmino methods on types inside the messages are exactly the reviewed ones and still return json.Marshal of a part of the receiver; D5 every custom message keeps its identity inside authz MsgExec / gov and group MsgSubmitProposal (name registered on the wrapper's amino codec from an init, or separable by a required field from every other unregistered message); D6 every string field is confined by ValidateBasic to a language without U+FFFD, a bech32 address or utf8.ValidString (encoding/json renders invalid bytes as U+FFFD) — the fields that are not are listed as known findings (F14)."
	r.NotDec = []string{"amino JSON encoder internals and MustSortJSON", "SDK sign-mode handlers", "injectivity of the protobuf encoding on validated values", "signature scheme"}
	r.Trusted = []string{"cosmos-sdk v0.47.12 x/auth/tx, legacytx.StdSignBytes, codec.AminoCodec", "gogoproto"}
	kp := func(rule, rest string) string { return rule + ":C14:" + rest }
	msgs := p.Msgs()
	r.Floor("messages", len(msgs), 14)
	legacy := map[string]bool{}
	for _, l := range p.LegacyMsgs() {
		legacy[l.String()] = true
	}
	regs := map[string]codecRegs{}
	for _, mod := range []string{"x/aol", "x/did", "x/pnft"} {
		regs[mod] = collectCodecRegs(p, mod+"/types")
	}
	modOf := func(n *types.Named) string {
		pp := n.Obj().Pkg().Path()
		return strings.TrimSuffix(strings.TrimPrefix(pp, ModPath+"/"), "/types")
	}
	aminoNames := map[string][]string{}
	for _, m := range msgs {
		mn := m.Obj().Name()
		mod := modOf(m)
		// D1 shape
		gsb := p.MethodOf(m, "GetSignBytes")
		if gsb == nil || gsb.Blocks == nil {
			r.Fail(kp("SHAPE", mn+".GetSignBytes"), "anchor", mn, "GetSignBytes not found")
			continue
		}
		ok, got := signBytesWholeMessage(p, gsb, mod)
		r.Check(ok, kp("SHAPE", mn+".GetSignBytes"), "sign bytes are the sorted amino JSON of the whole message, marshalled with the package's ModuleCdc (nothing else flows in: deterministic, no field projected away)", p.FnPos(gsb),
			"MustSortJSON(ModuleCdc.MustMarshalJSON(msg))", "GetSignBytes = "+clip(got, 300))
		// D2
		cr := regs[mod]
		name, hasC := cr.Concrete[mn]
		r.Check(hasC && name != "", kp("ENUM", mn+"#RegisterConcrete"), "every sdk.Msg type has an amino name", mod+"/types/codec.go", name, mn+" is not passed to RegisterConcrete: amino JSON (ledger) signing of this message is impossible / ambiguous")
		r.Check(cr.Impl[mn], kp("ENUM", mn+"#RegisterImplementations"), "every sdk.Msg type is registered as an sdk.Msg implementation (otherwise it cannot be decoded from a tx)", mod+"/types/codec.go", "registered", mn+" is missing from RegisterImplementations((*sdk.Msg)(nil), …)")
		if hasC {
			aminoNames[name] = append(aminoNames[name], mn)
		}
	}
	checkNullableFields(p, r, kp)
	// D6 leans on the DID document's own validator for the strings inside relationships, methods and services (a relationship
	// without content and one with an empty reference both render as ""): its structure is checked here as in C16
	checkDidDocumentValid(p, r, kp)
	for name, ts := range aminoNames {
		sort.Strings(ts)
		r.Check(len(ts) == 1, kp("ENUM", "amino-name:"+name), "amino names are pairwise distinct", "x/*/types/codec.go", ts[0], fmt.Sprintf("amino name %q is used for %v: their amino-JSON sign bytes carry the same type tag", name, ts))
	}
	// registered types that are not messages / messages of other packages
	for mod, cr := range regs {
		for tn := range cr.Concrete {
			found := false
			for _, m := range msgs {
				if m.Obj().Name() == tn && modOf(m) == mod {
					found = true
				}
			}
			if !found {
				r.Note("%s registers %s with RegisterConcrete but it does not implement sdk.Msg", mod, tn)
			}
		}
	}
	// proto type names distinct (generated init: proto.RegisterType((*T)(nil), "panacea.aol.v2.MsgX"))
	protoNames := map[string][]string{}
	for _, mod := range []string{"x/aol", "x/did", "x/pnft"} {
		pk := p.All[Rel(mod+"/types")]
		if pk == nil {
			continue
		}
		for _, f := range pk.Syntax {
			ast.Inspect(f, func(nd ast.Node) bool {
				c, ok := nd.(*ast.CallExpr)
				if !ok || len(c.Args) != 2 {
					return true
				}
				if sel, ok := c.Fun.(*ast.SelectorExpr); ok && sel.Sel.Name == "RegisterType" {
					if s, ok := constStr(pk.TypesInfo, c.Args[1]); ok {
						protoNames[s] = append(protoNames[s], mod)
					}
				}
				return true
			})
		}
	}
	dups := []string{}
	nMsgProto := 0
	for n, ms := range protoNames {
		if len(ms) > 1 {
			dups = append(dups, n)
		}
		if strings.Contains(n, ".Msg") && strings.HasSuffix(n, "Request") {
			nMsgProto++
		}
	}
	r.Check(len(dups) == 0 && nMsgProto >= 14, kp("ENUM", "proto-type-names-distinct"), "generated proto type names (hence Any type URLs in SIGN_MODE_DIRECT) are pairwise distinct", "x/*/types/*.pb.go",
		fmt.Sprintf("%d registered proto types, %d message requests, no duplicates", len(protoNames), nMsgProto), fmt.Sprintf("duplicates: %v (message types found: %d)", dups, nMsgProto))
	// wiring
	w := BuildWire(p)
	for _, mod := range []string{"x/aol", "x/did", "x/pnft", "x/burn"} {
		r.Check(has(w.Basics, Rel(mod)), kp("WIRE", "ModuleBasics∋"+mod), "the module's codec registration is reached from ModuleBasics", "app/app.go", "present", mod+".AppModuleBasic is not in ModuleBasics: its messages are unknown to the tx decoder and amino codec")
	}
	if mk := p.Func(Rel("app/params"), "MakeEncodingConfig"); mk != nil {
		// the TxConfig the application is built with IS tx.NewTxConfig(codec, tx.DefaultSignModes): no additional or substituted
		// sign-mode handler (a custom handler's sign bytes are outside everything decided here)
		mo := NewOrigin(p, mk)
		ok, n, got := true, 0, ""
		for _, ret := range returnsOf(mk) {
			n++
			t := mo.Of(ret.Results[0])
			tc := t.Field("TxConfig")
			got = fmt.Sprint(tc)
			if !(tc != nil && tc.IsCall("x/auth/tx.NewTxConfig") && len(tc.Args) == 2 && tc.Args[1].Op == "gval" && strings.HasSuffix(tc.Args[1].Name, "x/auth/tx.DefaultSignModes")) {
				ok = false
			}
		}
		r.Check(ok && n > 0, kp("WIRE", "TxConfig=DefaultSignModes"), "the accepted signing modes are the SDK's defaults (direct, direct-aux, legacy amino JSON) with the SDK's own handlers", p.FnPos(mk), "EncodingConfig.TxConfig ≡ tx.NewTxConfig(codec, tx.DefaultSignModes)",
			"EncodingConfig.TxConfig = "+clip(got, 200)+": sign modes or their handlers are customised — the sign bytes of an added mode are not covered by any of the injectivity arguments")
	} else {
		r.Fail(kp("WIRE", "TxConfig=DefaultSignModes"), "anchor", "app/params", "MakeEncodingConfig not found")
	}
	wireAnte(p, r, "C14")
	// D3 pairs
	var lm []*types.Named
	for _, m := range msgs {
		if legacy[m.String()] {
			lm = append(lm, m)
		}
	}
	r.Floor("legacy-amino-signable-messages", len(lm), 7)
	type info struct {
		all map[string]bool
		req map[string]bool
		own bool
	}
	inf := map[string]info{}
	for _, m := range lm {
		st, _ := m.Underlying().(*types.Struct)
		jn := jsonNames(st)
		i := info{all: map[string]bool{}, req: map[string]bool{}}
		for _, j := range jn {
			i.all[j] = true
		}
		for f := range requiredFields(p, m) {
			if j, ok := jn[f]; ok {
				i.req[j] = true
			}
		}
		cr := regs[modOf(m)]
		i.own = cr.OnOwn[m.Obj().Name()] || cr.OnOwn["*"]
		inf[m.String()] = i
	}
	nPairs := 0
	for a := 0; a < len(lm); a++ {
		for b := a + 1; b < len(lm); b++ {
			A, B := lm[a], lm[b]
			ia, ib := inf[A.String()], inf[B.String()]
			nPairs++
			key := kp("PAIRS", shortPkg(A.String())+"|"+shortPkg(B.String())+"#separable")
			rule := "legacy amino-JSON sign bytes of two different message types never coincide: the type name is registered on the signing codec, or a required field of one has no same-named JSON field in the other"
			subset := func(x, y map[string]bool) bool {
				for k := range x {
					if !y[k] {
						return false
					}
				}
				return true
			}
			switch {
			case ia.own && ib.own:
				r.OK(key, rule, "x/*/types/codec.go", "both type names are registered on the codec GetSignBytes uses: the {\"type\":…} wrapper differs")
			case ia.own != ib.own:
				r.OK(key, rule, "x/*/types/codec.go", "one is wrapped in {\"type\",\"value\"}, the other is a bare object whose required fields are never named type/value")
			case !subset(ia.req, ib.all) || !subset(ib.req, ia.all):
				r.OK(key, rule, "x/*/types", fmt.Sprintf("required %v vs fields %v / required %v vs fields %v", keys(ia.req), keys(ib.all), keys(ib.req), keys(ia.all)))
			default:
				r.Fail(key, rule, "x/*/types/codec.go",
					fmt.Sprintf("%s and %s are marshalled by a codec on which no type name is registered, so their sign bytes are bare JSON objects; every required field of each (%v / %v) exists in the other, so a %s with the remaining optional fields empty has byte-identical sign bytes to a %s — a signature collected for one validates the other",
						A.Obj().Name(), B.Obj().Name(), keys(ia.req), keys(ib.req), A.Obj().Name(), B.Obj().Name()))
			}
		}
	}
	r.Floor("legacy-message-pairs", nPairs, 21)

	// D4b hand-written JSON marshalers. go-amino's JSON encoder hands a value to its own MarshalJSON / MarshalAmino when the type has
	// one, so for such a type the injectivity of the sign bytes is that method's, not the reflection-based encoding's. The types
	// reachable through the fields of the custom messages that carry such a method are enumerated; each must be in the reviewed table.
	reviewedMarshalers := map[string]string{
		"x/did/types.JSONStringOrStrings":      "one string → that string, otherwise → array of strings: distinct values give distinct JSON (a one-element list is the only value rendered as a bare string; Unmarshal mirrors it)",
		"x/did/types.VerificationRelationship": "reference → JSON string (the method id), embedded method → JSON object: the two forms differ in JSON kind and each is the standard encoding of its content",
	}
	seenT := map[string]bool{}
	var walkT func(t types.Type, path string)
	nMarsh := 0
	walkT = func(t types.Type, path string) {
		switch x := t.(type) {
		case *types.Pointer:
			walkT(x.Elem(), path)
		case *types.Slice:
			walkT(x.Elem(), path+"[]")
		case *types.Array:
			walkT(x.Elem(), path+"[]")
		case *types.Map:
			walkT(x.Elem(), path+"{}")
		case *types.Named:
			if x.Obj().Pkg() == nil || !strings.HasPrefix(x.Obj().Pkg().Path(), ModPath) {
				return
			}
			name := shortPkg(x.String())
			if seenT[name] {
				return
			}
			seenT[name] = true
			for _, T := range []types.Type{x, types.NewPointer(x)} {
				ms := types.NewMethodSet(T)
				for i := 0; i < ms.Len(); i++ {
					mn := ms.At(i).Obj().Name()
					if mn != "MarshalJSON" && mn != "MarshalAmino" && mn != "MarshalAminoJSON" && mn != "MarshalText" {
						continue
					}
					fn, _ := ms.At(i).Obj().(*types.Func)
					if fn == nil || fn.Pkg() == nil || !strings.HasPrefix(fn.Pkg().Path(), ModPath) {
						continue
					}
					if f := p.Fset.File(fn.Pos()); f != nil && strings.HasSuffix(f.Name(), ".pb.go") {
						continue
					}
					key := kp("SHAPE", "hand-written-marshaler:"+name+"."+mn)
					if _, dup := seenT[key]; dup {
						continue
					}
					seenT[key] = true
					nMarsh++
					if why, ok := reviewedMarshalers[name]; ok && mn == "MarshalJSON" {
						// shape the review relies on: every return hands back encoding/json.Marshal of (a part of) the receiver
						shapeOK := false
						if sf := p.MethodOf(x, "MarshalJSON"); sf != nil && sf.Blocks != nil {
							so := NewOrigin(p, sf)
							shapeOK = true
							for _, ret := range returnsOf(sf) {
								t := so.Of(ret.Results[0])
								if !(t.Op == "res" && len(t.Args) == 1 && t.Args[0].IsCall("encoding/json.Marshal")) && !t.IsCall("encoding/json.Marshal") {
									shapeOK = false
									continue
								}
								// … and what is marshalled is a plain projection of the receiver: an element, a conversion, a field —
								// nothing computed (no helper call, no merge of alternatives)
								mc := t
								if mc.Op == "res" {
									mc = mc.Args[0]
								}
								for _, a := range mc.Args {
									a.Walk(func(x *Term) {
										if x.Op == "call" {
											if g := staticCalleeOfTerm(p, x); g != nil && p.IsGenerated(g) && strings.HasPrefix(g.Name(), "Get") {
												return // generated (oneof) getter: a field read
											}
										}
										if x.Op == "call" || x.Op == "phi" || strings.HasPrefix(x.Op, "unknown") || x.Op == "outparam" {
											shapeOK = false
										}
									})
								}
							}
						}
						if !shapeOK {
							r.Fail(key, "a hand-written JSON marshaler on a type inside a signed message is one of the reviewed, injective ones", p.Pos(fn.Pos()),
								name+".MarshalJSON no longer returns encoding/json.Marshal of a part of its receiver on every path: the review of its injectivity does not apply to this body")
							continue
						}
						r.OK(key, "a hand-written JSON marshaler on a type inside a signed message is one of the reviewed, injective ones", p.Pos(fn.Pos()), "reviewed: "+why)
					} else {
						r.Fail(key, "a hand-written JSON marshaler on a type inside a signed message is one of the reviewed, injective ones", p.Pos(fn.Pos()),
							fmt.Sprintf("%s (reached through %s) defines %s: the amino-JSON sign bytes of the messages containing it are whatever this method returns, and nothing shows that distinct values give distinct bytes (a presentation-oriented encoding — text for printable data, base64 otherwise — is not injective)", name, path, mn))
					}
				}
			}
			if st, ok := x.Underlying().(*types.Struct); ok {
				for i := 0; i < st.NumFields(); i++ {
					walkT(st.Field(i).Type(), path+"."+st.Field(i).Name())
				}
			} else {
				walkT(x.Underlying(), path)
			}
		}
	}
	for _, m := range msgs {
		walkT(m, m.Obj().Name())
	}
	r.Floor("hand-written-marshalers-on-message-types", nMarsh, 2)

	// D7 the stateless entry points do not modify the message (msgmut.go)
	checkMessagesNotMutated(p, r, "C14", msgs)

	// D6 field-level injectivity of the amino-JSON rendering: strings. encoding/json (which go-amino uses for strings) replaces every
	// invalid UTF-8 byte by U+FFFD, and gogoproto's generated Unmarshal does not validate UTF-8, so two messages that differ only in
	// invalid bytes of a string field are distinct on the wire (and in what handlers store) but have identical amino-JSON sign bytes —
	// in the legacy sign mode directly, and for every custom message when it is carried by MsgExec/MsgSubmitProposal. A string field
	// is safe when ValidateBasic, on every accepting path, confines it to a language without U+FFFD (a character-class regex, a
	// bech32 address). bytes fields are base64 (injective); numbers, bools and times are canonical.
	nStr := 0
	for _, m := range msgs {
		mn := m.Obj().Name()
		vb := p.MethodOf(m, "ValidateBasic")
		stc, _ := m.Underlying().(*types.Struct)
		if vb == nil || vb.Blocks == nil || stc == nil {
			continue
		}
		A := acceptFormula(p, vb)
		type cat struct {
			f   *Formula
			cls atomClass
			pos bool
		}
		byField := map[string][]cat{}
		if A != nil {
			for _, a := range A.Atoms() {
				if cls, pos, ok := classifyMsgAtom(p, a.Term); ok {
					byField[cls.Field] = append(byField[cls.Field], cat{a, cls, pos})
				}
			}
		}
		for i := 0; i < stc.NumFields(); i++ {
			fld := stc.Field(i)
			if strings.HasPrefix(fld.Name(), "XXX_") {
				continue
			}
			kind := stringiness(fld.Type())
			if kind == "" {
				continue
			}
			nStr++
			key := kp("UTF8", mn+"."+fld.Name()+"#valid-utf8-only")
			rule := "a string inside a signed message is confined by ValidateBasic to valid UTF-8 (otherwise distinct values share their amino-JSON sign bytes: encoding/json renders every invalid byte as U+FFFD)"
			site := p.FnPos(vb)
			if kind == "nested" {
				leaf := firstUnconstrainedLeaf(fld.Type(), fld.Name(), 0)
				r.Fail(key, rule, site, fmt.Sprintf("%s.%s is a nested message with free-form string leaves (e.g. %s) that validation only tests for presence or for a class that admits U+FFFD: two messages differing in an invalid UTF-8 byte there have identical amino-JSON sign bytes", mn, fld.Name(), leaf))
				continue
			}
			safe, why := false, "no language or address constraint on the field"
			if A != nil {
				var empty *Formula
				for _, c := range byField[fld.Name()] {
					if c.cls.Kind == "nonempty" {
						empty = c.f
					}
				}
				for _, c := range byField[fld.Name()] {
					sat := c.f
					if !c.pos {
						sat = fNot(c.f)
					}
					G := sat
					if empty != nil {
						G = fOr(empty, sat)
					}
					switch {
					case c.cls.Kind == "utf8":
						if Entails(A, G) {
							safe, why = true, "utf8.ValidString on every accepting path"
						}
					case c.cls.Kind == "bech32" || c.cls.Kind == "addr-nonempty":
						if Entails(A, G) {
							safe, why = true, "bech32 address (ASCII)"
						}
					case c.cls.Kind == "lang" && c.cls.Spec.Pat != "":
						adm, err := LangAdmitsRune(c.cls.Spec, 0xFFFD)
						if err == nil && !adm && Entails(A, G) {
							safe, why = true, "confined to "+c.cls.Spec.String()+", which has no string containing U+FFFD"
						} else if err == nil && adm {
							why = "its pattern " + c.cls.Spec.Pat + " admits U+FFFD (an invalid byte matches it)"
						}
					case c.cls.Kind == "lang":
						why = "only its length is limited (" + c.cls.Spec.String() + ")"
					}
				}
			}
			if !safe && A != nil {
				// confined to ASCII by a byte-range validator: accept ⇒ g(field) == nil with g returning an error for any byte
				// outside a constant range below 0x80
				for _, a := range A.Atoms() {
					t := a.Term
					if t == nil || t.Op != "eq" || len(t.Args) != 2 {
						continue
					}
					call := t.Args[0]
					if call.Op == "const" {
						call = t.Args[1]
					}
					if call.Op != "call" || len(call.Args) != 1 {
						continue
					}
					if f, ok := fieldOfSubject(call.Args[0]); !ok || f != fld.Name() {
						continue
					}
					g := staticCalleeOfTerm(p, call)
					if g != nil && asciiOnlyValidator(resolveBound(g)) && Entails(A, a) {
						safe, why = true, "confined to a constant byte range below 0x80 by "+FuncName(g)+" (pure ASCII)"
					}
				}
			}
			if safe {
				r.OK(key, rule, site, why)
			} else {
				r.Fail(key, rule, site, fmt.Sprintf("%s.%s: %s — e.g. the values \"\\xff\" and \"\\xfe\" are both accepted, both rendered as \"\\ufffd\", so a signature over a message with one validates the message with the other (legacy amino-JSON mode; for every sign mode of the outer transaction when wrapped in MsgExec it is the wrapper's legacy bytes)", mn, fld.Name(), why))
			}
		}
	}
	r.Floor("string-fields-of-signed-messages", nStr, 30)

	// D5 wrapped messages. authz MsgExec, gov and group MsgSubmitProposal carry other messages as Any and sign, in legacy amino-JSON
	// mode, the JSON their OWN amino codec produces for them. An inner message whose name is not registered on that codec is
	// rendered as a bare object (go-amino writes the {"type","value"} wrapper only for registered concrete types), whatever the
	// inner message's own GetSignBytes does — and it need not be a LegacyMsg. So every custom message must be registered on the
	// wrapper's codec, or be separable from every other unregistered message by a required field.
	type winfo struct{ all, req map[string]bool }
	wi := map[string]winfo{}
	for _, m := range msgs {
		st, _ := m.Underlying().(*types.Struct)
		jn := jsonNames(st)
		i := winfo{all: map[string]bool{}, req: map[string]bool{}}
		for _, j := range jn {
			i.all[j] = true
		}
		for f := range requiredFields(p, m) {
			if j, ok := jn[f]; ok {
				i.req[j] = true
			}
		}
		wi[m.String()] = i
	}
	subsetOf := func(x, y map[string]bool) bool {
		for k := range x {
			if !y[k] {
				return false
			}
		}
		return true
	}
	nWrap := 0
	for _, wr := range []struct{ name, basic, outer string }{
		{"authz", "x/authz", "MsgExec"}, {"gov", "x/gov", "MsgSubmitProposal"}, {"group", "x/group", "MsgSubmitProposal"}} {
		inApp := false
		for _, b := range w.Basics {
			if strings.Contains(b, "cosmos-sdk/"+wr.basic) {
				inApp = true
			}
		}
		if !inApp {
			r.Note("%s is not in ModuleBasics: no %s wrapper to consider", wr.basic, wr.outer)
			continue
		}
		registered := func(m *types.Named) bool {
			cr := regs[modOf(m)]
			_, named := cr.Concrete[m.Obj().Name()]
			return named && cr.OnWrap[wr.name]
		}
		for _, m := range msgs {
			nWrap++
			key := kp("WRAPPED", wr.name+"."+wr.outer+"{"+shortPkg(m.String())+"}#type-kept")
			rule := "a custom message carried by " + wr.name + "'s " + wr.outer + " keeps its identity in the wrapper's legacy amino-JSON sign bytes: its name is registered on " + wr.name + "'s amino codec, or a required field separates it from every other unregistered custom message"
			if registered(m) {
				r.OK(key, rule, "x/"+strings.TrimPrefix(modOf(m), "x/")+"/types/codec.go", "RegisterCodec("+wr.name+"codec.Amino) is called from init and names "+m.Obj().Name())
				continue
			}
			var clash []string
			for _, n := range msgs {
				if n == m || registered(n) {
					continue
				}
				a, b := wi[m.String()], wi[n.String()]
				if subsetOf(a.req, b.all) && subsetOf(b.req, a.all) {
					clash = append(clash, n.Obj().Name())
				}
			}
			sort.Strings(clash)
			if len(clash) == 0 {
				r.OK(key, rule, "x/*/types", m.Obj().Name()+" is rendered as a bare object but a required field separates it from every other unregistered custom message")
			} else {
				r.Fail(key, rule, modOf(m)+"/types/codec.go",
					fmt.Sprintf("%s is not registered on %s's amino codec, so inside %s it is signed as a bare JSON object; with its optional fields empty it is byte-identical to %v (every required field of each exists in the other): a signature over %s{%s} also validates %s{%s}",
						m.Obj().Name(), wr.name, wr.outer, clash, wr.outer, m.Obj().Name(), wr.outer, clash[0]))
			}
		}
	}
	r.Floor("wrapped-message-obligations", nWrap, 14)
}

func keys(m map[string]bool) []string {
	var ks []string
	for k := range m {
		ks = append(ks, k)
	}
	sort.Strings(ks)
	return ks
}

// stringiness: "string" for string / []string / named string types, "nested" for (pointers to / slices of) module structs that
// contain string leaves, "" for everything whose JSON rendering is canonical (numbers, bools, bytes as base64, times).
func stringiness(t types.Type) string {
	switch x := t.(type) {
	case *types.Pointer:
		return stringiness(x.Elem())
	case *types.Slice:
		if b, ok := x.Elem().Underlying().(*types.Basic); ok && b.Kind() == types.Byte {
			return ""
		}
		return stringiness(x.Elem())
	case *types.Basic:
		if x.Info()&types.IsString != 0 {
			return "string"
		}
		return ""
	case *types.Named:
		if x.Obj().Pkg() != nil && strings.HasPrefix(x.Obj().Pkg().Path(), ModPath) {
			if st, ok := x.Underlying().(*types.Struct); ok {
				for i := 0; i < st.NumFields(); i++ {
					if !strings.HasPrefix(st.Field(i).Name(), "XXX_") && stringiness(st.Field(i).Type()) != "" {
						return "nested"
					}
				}
				return ""
			}
		}
		return stringiness(x.Underlying())
	}
	return ""
}

func firstUnconstrainedLeaf(t types.Type, path string, depth int) string {
	if depth > 5 {
		return path
	}
	switch x := t.(type) {
	case *types.Pointer:
		return firstUnconstrainedLeaf(x.Elem(), path, depth)
	case *types.Slice:
		return firstUnconstrainedLeaf(x.Elem(), path+"[]", depth)
	case *types.Named:
		if st, ok := x.Underlying().(*types.Struct); ok {
			best := ""
			for i := 0; i < st.NumFields(); i++ {
				f := st.Field(i)
				if strings.HasPrefix(f.Name(), "XXX_") || stringiness(f.Type()) == "" {
					continue
				}
				l := firstUnconstrainedLeaf(f.Type(), path+"."+f.Name(), depth+1)
				if best == "" || strings.Contains(l, "Service") {
					best = l
				}
			}
			return best
		}
		return firstUnconstrainedLeaf(x.Underlying(), path, depth)
	}
	return path
}

// signBytesWholeMessage: GetSignBytes ≡ sdk.MustSortJSON(<mod>/types.ModuleCdc.MustMarshalJSON(<whole receiver>)) on every return.
func signBytesWholeMessage(p *Prog, gsb *ssa.Function, mod string) (bool, string) {
	o := NewOrigin(p, gsb)
	ok := false
	got := ""
	for _, ret := range returnsOf(gsb) {
		t := o.Of(ret.Results[0])
		got = t.String()
		if t.IsCall("sdk/types.MustSortJSON") && len(t.Args) == 1 {
			in := t.Args[0]
			if in.Op == "call" && strings.HasSuffix(in.Name, "AminoCodec).MustMarshalJSON") && len(in.Args) == 2 &&
				in.Args[0].Op == "gval" && in.Args[0].Name == mod+"/types.ModuleCdc" && in.Args[1].Op == "param" && strings.HasPrefix(in.Args[1].Name, "0:") {
				ok = true
			}
		}
	}
	return ok, got
}

// checkSignBytesBindMessage (C02, C03, C06): the authorising signature covers the whole message — in the amino-JSON mode what is
// signed is GetSignBytes, which must be the sorted amino JSON of the whole receiver for every message of the module (a projection
// that leaves out the topic, the writer, the denom … lets a signature be replayed on another resource).
func checkSignBytesBindMessage(p *Prog, r *Report, clause, mod string) {
	n := 0
	for _, m := range p.Msgs() {
		if m.Obj().Pkg() == nil || m.Obj().Pkg().Path() != Rel(mod+"/types") {
			continue
		}
		gsb := p.MethodOf(m, "GetSignBytes")
		if gsb == nil || gsb.Blocks == nil {
			continue
		}
		n++
		ok, got := signBytesWholeMessage(p, gsb, mod)
		r.Check(ok, "SHAPE:"+clause+":"+m.Obj().Name()+".GetSignBytes#whole-message", "the signature that authorises a message covers all of it: GetSignBytes is the sorted amino JSON of the whole message", p.FnPos(gsb),
			"MustSortJSON(ModuleCdc.MustMarshalJSON(msg))", "GetSignBytes = "+clip(got, 260)+": a field that is not part of the signed bytes can be changed by whoever relays the transaction (another topic, writer, DID or denom) without invalidating the signature")
	}
	r.Floor("messages-with-sign-bytes("+mod+")", n, 3)
}
