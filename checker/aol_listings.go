package main

import (
	"fmt"
	"go/types"
	"strings"

	"golang.org/x/tools/go/ssa"
)

// keyComponents returns, for a composite-key type, the struct field behind each element of ByteSlices(), in order.
func keyComponents(p *Prog, keyType *types.Named) ([]string, string) {
	fn := p.MethodOf(keyType, "ByteSlices")
	if fn == nil || fn.Blocks == nil {
		return nil, "ByteSlices not found"
	}
	o := NewOrigin(p, fn)
	rets := returnsOf(fn)
	if len(rets) != 1 {
		return nil, "ByteSlices has several returns"
	}
	// the key is encoded as it is: its address is not handed to anything that could rewrite a field first
	if len(fn.Params) > 0 {
		if refs := fn.Params[0].Referrers(); refs != nil {
			for _, rf := range *refs {
				st, isSt := rf.(*ssa.Store)
				if !isSt || st.Val != ssa.Value(fn.Params[0]) {
					continue
				}
				al, isAl := st.Addr.(*ssa.Alloc)
				if !isAl || al.Referrers() == nil {
					continue
				}
				for _, u := range *al.Referrers() {
					if c, isCall := u.(ssa.CallInstruction); isCall {
						return nil, fmt.Sprintf("the key's address is handed to %s before it is encoded: the encoded components are not the key's fields", calleeName(c.Common()))
					}
					if fa, isFA := u.(*ssa.FieldAddr); isFA && fa.Referrers() != nil {
						for _, u2 := range *fa.Referrers() {
							if s2, isS := u2.(*ssa.Store); isS && s2.Addr == ssa.Value(fa) {
								return nil, "a field of the key is assigned before it is encoded: the encoded components are not the key's fields"
							}
						}
					}
				}
			}
		}
	}
	t := o.Of(rets[0].Results[0])
	elems, okFlat := sliceLiteralElements(t)
	if !okFlat {
		return nil, "ByteSlices does not return a slice literal: " + t.String()
	}
	var out []string
	for _, e := range elems {
		var fields []string
		e.Walk(func(x *Term) {
			if x.Op == "field" && len(x.Args) == 1 && x.Args[0].Op == "param" {
				fields = append(fields, x.Name)
			}
		})
		if len(fields) != 1 {
			return nil, fmt.Sprintf("component %s does not derive from exactly one key field", e)
		}
		out = append(out, fields[0])
	}
	return out, ""
}

func namedOf(p *Prog, short string) *types.Named {
	i := strings.LastIndex(short, ".")
	if i < 0 {
		return nil
	}
	return p.Named(Rel(short[:i]), short[i+1:])
}

// requestField: a term that derives from exactly one field of the request parameter (directly or through AccAddressFromBech32).
func requestField(t *Term) (string, bool) {
	if f, ok := msgField(t); ok {
		return f, true
	}
	if f, ok := bech32Field(t); ok {
		return f, true
	}
	return "", false
}

// aolListings: C13-D2 (listing prefix) and C13-D4 (single-item views).
func aolListings(p *Prog, r *Report, m *aolModel, clause string) {
	kp := func(rule, rest string) string { return rule + ":" + clause + ":" + rest }
	hs := p.ServerHandlers("QueryServer")["x/aol"]
	r.Floor("aol-query-handlers", len(hs), 5)
	nList, nSingle := 0, 0
	for _, fn := range sortedFuncs(hs) {
		hn := FuncName(fn)
		o := NewOrigin(p, fn)
		fa := NewFacts(p, fn, o)
		pag := findCalls(fn, "sdk/types/query.Paginate")
		filtered := false
		if fp := findCalls(fn, "sdk/types/query.FilteredPaginate"); len(pag) == 0 && len(fp) > 0 {
			pag, filtered = fp, true
		}
		if len(pag) == 0 {
			// single-item view: Has(K) guards Get(K); K's components come from request fields; response carries the Get
			calls := m.accessorCalls(fn, o)
			var get *accCall
			for i := range calls {
				if calls[i].acc.Op == "Get" {
					get = &calls[i]
				}
				if calls[i].acc.Op == "Set" || calls[i].acc.Op == "Delete" {
					r.Fail(kp("REACH", hn+"→"+FuncName(calls[i].acc.Fn)), "queries do not write", p.Pos(calls[i].cs.Instr.Pos()), "query handler calls a store mutator")
				}
			}
			if get == nil {
				r.Undecided(kp("VIEW", hn), "single-item view reads through the family accessor", p.FnPos(fn), "no Get accessor call and no Paginate call found in this query handler")
				continue
			}
			nSingle++
			w, ok := m.hasGuard(&aolHandlerFacts{fn: fn, o: o, fa: fa}, get.cs.Instr, get.acc.Family, get.key, true)
			r.Check(ok, kp("GUARD", hn+"→"+FuncName(get.acc.Fn)+"#Has=true"), "a single-item view answers only for an existing key of the same family", p.Pos(get.cs.Instr.Pos()), w,
				"Get is not dominated by Has(same key)==true: a missing entry is reported as an empty one")
			kf := keyFields(get.key)
			allReq := kf != nil
			var from []string
			for n, t := range kf {
				f, ok := requestField(t)
				if !ok {
					allReq = false
				}
				from = append(from, n+"←req."+f)
			}
			r.Check(allReq, kp("ORIGIN", hn+"#key-from-request"), "every key component of the view comes from a request field", p.Pos(get.cs.Instr.Pos()),
				strings.Join(from, ", "), "key "+fmt.Sprint(get.key))
			// the view refuses no name a stored entry can have: a length limit it puts on a key component is at least the limit
			// the message validators put on the field of the same name
			for n, t := range kf {
				ub := lenBoundAt(p, fa, get.cs.Instr, t)
				if ub < 0 {
					continue
				}
				max := int64(-1)
				for _, mt := range p.Msgs() {
					if !strings.HasPrefix(mt.Obj().Pkg().Path(), Rel("x/aol")) {
						continue
					}
					if hi, ok := msgFieldMax(p, mt, n); ok && int64(hi) > max {
						max = int64(hi)
					}
				}
				r.Check(max < 0 || ub >= max, kp("GUARD", hn+"#"+n+"-limit-admits-stored-names"), "a view refuses no key a stored entry can have (its length limit on a component is not below the validators' limit)", p.Pos(get.cs.Instr.Pos()),
					fmt.Sprintf("%s: at most %d bytes accepted by the view, at most %d by the messages", n, ub, max),
					fmt.Sprintf("the view accepts %s of at most %d bytes, the messages accept up to %d: entries with a longer name are stored and acknowledged but can never be read back", n, ub, max))
			}
			continue
		}
		nList++
		pc := pag[0].Instr.(*ssa.Call)
		st := o.Of(pc.Call.Args[0])
		site := p.Pos(pc.Pos())
		if !st.IsCall("sdk/store/prefix.NewStore") || len(st.Args) != 2 {
			r.Undecided(kp("LIST", hn+"#store"), "listing iterates a prefix store", site, "Paginate's store is "+st.String())
			continue
		}
		root := storeKeyRoot(st.Args[0])
		r.Check(root == m.keeperTyp+".storeKey", kp("LIST", hn+"#store-root"), "listing iterates the aol store", site, root, "store root is "+root)
		// the pager is driven by the caller's own page request: key, offset, limit, count_total and reverse are all the caller's
		// (a rebuilt request that drops or changes one of them makes consecutive pages overlap or skip entries)
		if len(pc.Call.Args) >= 2 {
			pr := o.Of(pc.Call.Args[1])
			f, okReq := requestField(pr)
			r.Check(okReq && f == "Pagination", kp("ORIGIN", hn+"#page-request=req.Pagination"), "the pager is given the request's own Pagination, untouched", site,
				"Paginate(store, req.Pagination, …)", "the page request handed to the pager is "+clip(pr.String(), 160)+", not req.Pagination itself: pages computed from a modified request (another limit, a dropped reverse flag or key) do not tile the listing")
		}
		pre := st.Args[1]
		if !pre.IsCall("builtin:append") || len(pre.Args) != 2 || pre.Args[0].Op != "gval" {
			r.Undecided(kp("LIST", hn+"#prefix-shape"), "listing prefix = FamilyPrefix ++ PartialEncode(key, n)", site, "prefix term: "+pre.String())
			continue
		}
		prefixVar := pre.Args[0].Name
		pe, k := pre.Args[1].Res()
		if k != 0 || !(pe.IsCall("types/compkey.PartialEncode") || pe.IsCall("types/compkey.MustPartialEncode")) || len(pe.Args) != 2 {
			r.Undecided(kp("LIST", hn+"#partial-encode"), "listing prefix = FamilyPrefix ++ PartialEncode(key, n)", site, "suffix term: "+pre.Args[1].String())
			continue
		}
		keyLit := pe.Args[0]
		if keyLit.Op == "addr" {
			keyLit = keyLit.Args[0]
		}
		fam := familyOfKeyType(keyLit.Name)
		kt := namedOf(p, keyLit.Name)
		if fam == "" || kt == nil {
			r.Undecided(kp("LIST", hn+"#key-type"), "listing key is a composite-key literal", site, "key term: "+keyLit.String())
			continue
		}
		r.Check(m.prefixOf[fam] == prefixVar, kp("LIST", hn+"#prefix=family-prefix"),
			"listing prefix variable is the one the family's setters write under", site,
			fmt.Sprintf("%s lists under %s = prefix of family %s", hn, prefixVar, fam),
			fmt.Sprintf("listing uses prefix %s with key type %s, but %s entries are stored under %s", prefixVar, keyLit.Name, fam, m.prefixOf[fam]))
		comps, why := keyComponents(p, kt)
		if why != "" {
			r.Undecided(kp("LIST", hn+"#components"), "key components", site, why)
			continue
		}
		nv := pe.Args[1]
		r.Check(nv.Op == "const" && nv.Name == fmt.Sprint(len(comps)-1), kp("LIST", hn+"#numValues=n-1"),
			"the listing fixes all components but the last (numValues = components-1)", site,
			fmt.Sprintf("numValues=%s of %d components %v", nv.Name, len(comps), comps),
			fmt.Sprintf("numValues=%s but the key type has %d components %v: the listing is too wide (items of other owners/topics) or cannot match", nv, len(comps), comps))
		kf := keyFields(keyLit)
		for i := 0; i < len(comps)-1; i++ {
			t := kf[comps[i]]
			f, ok := "", false
			if t != nil {
				f, ok = requestField(t)
			}
			r.Check(ok, kp("LIST", hn+"#fixed:"+comps[i]), "each fixed component of the listing prefix comes from a request field", site,
				comps[i]+" ← req."+f, fmt.Sprintf("fixed component %s is %v, not a request field", comps[i], t))
		}
		// the callback decodes prefix ++ suffix with the same key type and reports the last component
		var mc *ssa.MakeClosure
		if len(pc.Call.Args) >= 3 {
			mc, _ = pc.Call.Args[2].(*ssa.MakeClosure)
		}
		host := o
		if mc == nil && len(pc.Call.Args) >= 3 {
			// the callback may be made by a factory of the module: `query.Paginate(store, page, collect(prefix, &out))` with
			// `func collect(…) func(k, v []byte) error { return func(…) … }` — the factory's parameters are the handler's arguments
			if c2, ok := pc.Call.Args[2].(*ssa.Call); ok {
				if g := c2.Call.StaticCallee(); g != nil && InModule(g) && g.Blocks != nil && len(returnsOf(g)) == 1 && len(returnsOf(g)[0].Results) == 1 {
					if mc2, ok := returnsOf(g)[0].Results[0].(*ssa.MakeClosure); ok {
						mc, host = mc2, o.subOrigin(c2, g)
					}
				}
			}
		}
		if mc == nil {
			r.Undecided(kp("LIST", hn+"#callback"), "listing callback is a closure literal", site, "third argument of Paginate is not a closure")
			continue
		}
		co := host.ClosureOrigin(mc)
		cfn := mc.Fn.(*ssa.Function)
		dec := findCalls(cfn, "types/compkey.Decode")
		dec = append(dec, findCalls(cfn, "types/compkey.MustDecode")...)
		if len(dec) != 1 {
			r.Undecided(kp("LIST", hn+"#decode"), "listing callback decodes the full key once", p.FnPos(cfn), fmt.Sprintf("%d Decode calls in the callback", len(dec)))
			continue
		}
		dc := dec[0].Instr.(*ssa.Call)
		dt := co.Of(dc)
		okBytes, okType := false, false
		if dt.Op == "call" && len(dt.Args) == 2 {
			b := dt.Args[0]
			okBytes = b.IsCall("builtin:append") && len(b.Args) == 2 && b.Args[0].Eq(pre.Args[1]) && b.Args[1].Op == "param"
			out := dt.Args[1]
			if out.Op == "addr" {
				out = out.Args[0]
			}
			okType = out.Name == keyLit.Name
		}
		r.Check(okBytes, kp("LIST", hn+"#decode=prefix++suffix"), "the callback decodes (the very PartialEncode result) ++ (the iterator's key suffix)", p.Pos(dc.Pos()),
			"same datum as the store prefix", "decoded bytes are "+fmt.Sprint(dt.Args))
		r.Check(okType, kp("LIST", hn+"#decode-type"), "the callback decodes with the listing's key type", p.Pos(dc.Pos()), keyLit.Name, "decoded into a different type")
		// what is appended
		lastComp := comps[len(comps)-1]
		found := false
		cfa := NewFacts(p, cfn, co)
		for _, b := range cfn.Blocks {
			for _, in := range b.Instrs {
				c, ok := in.(*ssa.Call)
				if !ok {
					continue
				}
				if bi, ok := c.Call.Value.(*ssa.Builtin); !ok || bi.Name() != "append" {
					continue
				}
				t := co.Of(c)
				if len(t.Args) == 2 && t.Args[1].Contains(func(x *Term) bool {
					return x.Op == "field" && x.Name == lastComp && len(x.Args) == 1 && x.Args[0].Op == "outparam"
				}) {
					found = true
					if filtered {
						// FilteredPaginate calls the callback also for entries outside the page (accumulate == false)
						_, okAcc := cfa.DominatingFact(c, true, func(x *Term) bool { return x.Op == "param" && strings.HasPrefix(x.Name, "2:") })
						r.Check(okAcc, kp("LIST", hn+"#appends-only-when-accumulate"), "with FilteredPaginate an item is reported only when the pager says it belongs to the page (accumulate == true)", p.Pos(c.Pos()),
							"append dominated by accumulate", "the callback appends regardless of the accumulate flag: offset/count_total paging returns items outside the requested page")
					}
				}
			}
		}
		r.Check(found, kp("LIST", hn+"#reports-last-component"), "the listed value is the last component of the decoded key", p.FnPos(cfn),
			"appends decoded."+lastComp, "the callback does not append the decoded "+lastComp)
	}
	r.Floor("aol-listing-queries", nList, 2)
	r.Floor("aol-single-item-views", nSingle, 3)
}


// sliceLiteralElements: the elements of a list written as a literal, or built by appending literal elements one by one to an
// empty list (make(T, 0[, n]), nil, or a zero array re-sliced to length 0).
func sliceLiteralElements(t *Term) ([]*Term, bool) {
	var elems []*Term
	var flatten func(x *Term) bool
	flatten = func(x *Term) bool {
		switch {
		case x == nil:
			return false
		case x.Op == "slicelit":
			elems = append(elems, x.Args...)
			return true
		case x.IsCall("builtin:append") && len(x.Args) == 2 && x.Args[1].Op == "slicelit":
			if !flatten(x.Args[0]) {
				return false
			}
			elems = append(elems, x.Args[1].Args...)
			return true
		case x.Op == "slice" && len(x.Args) > 0 && (x.Args[0].Op == "addr" || x.Args[0].Op == "zero" || x.Args[0].Op == "makeslice"):
			return len(x.Args) >= 3 && x.Args[2].Op == "const" && x.Args[2].Name == "0"
		case x.Op == "makeslice":
			return len(x.Args) > 0 && x.Args[0].Op == "const" && x.Args[0].Name == "0"
		case x.Op == "const" && x.Name == "nil":
			return true
		}
		return false
	}
	if !flatten(t) {
		return nil, false
	}
	return elems, true
}
