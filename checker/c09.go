package main

import (
	"fmt"
	"go/token"
	"go/types"
	"sort"
	"strings"

	"golang.org/x/tools/go/ssa"
)

func init() { register("C09", checkC09) }

var nondetCallees = []string{"time.Now", "time.Since", "time.Until", "os.Getenv", "os.Environ", "os.Hostname", "os.Getpid", "os.Getwd", "os.LookupEnv",
	"runtime.NumCPU", "runtime.GOMAXPROCS", "runtime.NumGoroutine", "runtime.Stack", "runtime.Caller"}

func isNondetSource(name string) bool {
	for _, s := range nondetCallees {
		if name == s {
			return true
		}
	}
	if strings.HasPrefix(name, "golang.org/x/exp/maps.Keys") || strings.HasPrefix(name, "golang.org/x/exp/maps.Values") || strings.HasPrefix(name, "maps.Keys") || strings.HasPrefix(name, "maps.Values") {
		return true // key/value order of a map: indeterminate unless sorted before use (see sortedAfter)
	}
	// the execution mode of the node-local run (mempool check, re-check, simulation): what a handler does must not depend on it
	if name == "(sdk/types.Context).IsCheckTx" || name == "(sdk/types.Context).IsReCheckTx" || name == "(sdk/types.Context).ExecMode" {
		return true
	}
	return strings.HasPrefix(name, "math/rand.") || strings.HasPrefix(name, "(*math/rand.") || strings.HasPrefix(name, "crypto/rand.") ||
		strings.HasPrefix(name, "math/rand/v2.") || name == "github.com/pborman/uuid.NewRandom" || strings.HasPrefix(name, "github.com/google/uuid.New")
}

func isBenignSink(name string) bool {
	return strings.Contains(name, "telemetry.") || strings.Contains(name, "log.Logger.") || strings.Contains(name, "Logger).") ||
		strings.HasPrefix(name, "fmt.Print") || strings.HasPrefix(name, "log.Print") || strings.HasPrefix(name, "fmt.Fprint") && false
}

// flowsToSink follows a value through the function; returns a description of the first consensus-visible use, or "".
func flowsToSink(p *Prog, fn *ssa.Function, src ssa.Value) string {
	seen := map[ssa.Value]bool{}
	work := []ssa.Value{src}
	taintedAllocs := map[*ssa.Alloc]bool{}
	for len(work) > 0 {
		v := work[len(work)-1]
		work = work[:len(work)-1]
		if seen[v] {
			continue
		}
		seen[v] = true
		refs := v.Referrers()
		if refs == nil {
			continue
		}
		for _, rf := range *refs {
			switch u := rf.(type) {
			case *ssa.DebugRef:
			case *ssa.Store:
				if u.Val != v {
					continue // v is the address
				}
				if al, _ := rootAlloc(u.Addr); al != nil {
					taintedAllocs[al] = true
					work = append(work, al)
					continue
				}
				if ia, ok := u.Addr.(*ssa.IndexAddr); ok {
					if al, _ := rootAlloc(ia.X); al != nil {
						taintedAllocs[al] = true
						work = append(work, al)
						continue
					}
				}
				return "stored to " + u.Addr.String() + " at " + p.Pos(u.Pos())
			case ssa.CallInstruction:
				name := calleeName(u.Common())
				if isBenignSink(name) {
					continue
				}
				if strings.HasPrefix(name, "sort.") || strings.HasPrefix(name, "slices.Sort") || strings.HasPrefix(name, "golang.org/x/exp/slices.Sort") {
					return "" // sorted in place before any other use: the order no longer depends on the map
				}
				// pure value transformers: propagate the result
				if c, ok := u.(*ssa.Call); ok {
					sc := u.Common().StaticCallee()
					if strings.HasPrefix(name, "(time.Time).") || strings.HasPrefix(name, "(time.Duration).") || name == "time.Since" || name == "time.Until" || name == "fmt.Sprintf" || name == "fmt.Sprint" ||
						strings.HasPrefix(name, "strconv.") || strings.HasPrefix(name, "strings.") || (sc != nil && InModule(sc) && isPureFn(sc, 0)) ||
						strings.HasPrefix(name, "builtin:") {
						work = append(work, c)
						continue
					}
				}
				if _, isDefer := u.(*ssa.Defer); isDefer && isBenignSink(name) {
					continue
				}
				return "passed to " + name + " at " + p.Pos(u.Pos())
			case *ssa.Return:
				return "returned at " + p.Pos(u.Pos())
			case *ssa.If:
				return "decides a branch at " + p.Pos(u.Pos())
			case *ssa.MapUpdate:
				return "written into a map at " + p.Pos(u.Pos())
			case *ssa.Send:
				return "sent on a channel at " + p.Pos(u.Pos())
			case *ssa.Panic:
				return "panicked with at " + p.Pos(u.Pos())
			case ssa.Value:
				work = append(work, u)
			}
		}
	}
	return ""
}

// C09 — determinism.
func checkC09(p *Prog, r *Report) {
	r.Explain = "Decided statically, over the hand-written module functions reachable (definite edges) from the consensus entry points (message handlers, ValidateBasic/GetSigners, Begin/EndBlock, InitGenesis, upgrade handlers): D1 no value produced by a non-deterministic source (wall clock, random numbers, environment, host, scheduler, channel receives, float arithmetic, %p formatting) flows into a consensus-visible sink (store write, event, response, returned error, branch condition, call into state-changing code); values that only reach loggers or telemetry are ignored; no goroutine is started and no select is used in scope (control: the same matcher finds time.Now and crypto/rand in the key store, which is outside the scope); D2 every range over a Go map in scope has an order-insensitive body: keyed store writes derived from the iteration key, validation with early error return, or insertion into another map — no append to an outer slice (unless sorted afterwards), no event emission, no order-dependent accumulation; D3 the timestamps that handlers store (writer, record, token creation) are ctx.BlockTime(); D4 sign bytes are sorted JSON (decided in C14-D1). D1b renderings (Format/String/calendar accessors/%v) of a Time in the node's local zone — time.Unix*, Local(), In(≠UTC), Date(…, ≠UTC) without a following UTC() — are sources too (fixture control on every run); D5 no package variable or long-lived struct field is both written and read by block-processing code (process memory carries this node's own history into DeliverTx)."
	r.NotDec = []string{"determinism of the SDK, IAVL, gogoproto and the Go standard library", "CheckTx/simulate state separation (baseapp)", "app-hash equality itself"}
	r.Trusted = []string{"cosmos-sdk v0.47.12 baseapp", "gogoproto deterministic marshalling"}
	kp := func(rule, rest string) string { return rule + ":C09:" + rest }

	scope, _ := moduleScope(p, consensusEntries(p))
	r.Floor("functions-in-consensus-scope", len(scope), 60)
	// D1
	nSrc, nZone := 0, 0
	for _, fn := range scope {
		fname := FuncName(fn)
		for _, b := range fn.Blocks {
			for _, in := range b.Instrs {
				switch x := in.(type) {
				case *ssa.Go:
					r.Fail(kp("FLOW", fname+"#go@"+blockTag(fn, b)), "no goroutine is started by block-processing code", p.Pos(x.Pos()), "go statement in consensus scope: scheduling order is not deterministic")
				case *ssa.Select:
					r.Fail(kp("FLOW", fname+"#select@"+blockTag(fn, b)), "no select in block-processing code", p.Pos(x.Pos()), "select in consensus scope")
				case *ssa.UnOp:
					if x.Op == token.ARROW {
						nSrc++
						if sink := flowsToSink(p, fn, x); sink != "" {
							r.Fail(kp("FLOW", fname+"#chan-recv@"+blockTag(fn, b)), "no non-deterministic value reaches a consensus-visible sink", p.Pos(x.Pos()), "a value received from a channel is "+sink)
						}
					}
				case *ssa.BinOp:
					if bt, ok := x.Type().Underlying().(*types.Basic); ok && bt.Info()&types.IsFloat != 0 {
						nSrc++
						if sink := flowsToSink(p, fn, x); sink != "" {
							r.Fail(kp("FLOW", fname+"#float@"+blockTag(fn, b)), "no floating-point result reaches a consensus-visible sink", p.Pos(x.Pos()), "floating-point arithmetic result is "+sink+" (rounding may differ across architectures/compilers)")
						}
					}
				case *ssa.Call:
					name := calleeName(&x.Call)
					src := isNondetSource(name)
					// an ante decorator asking for the execution mode is the SDK's own idiom (mempool-only fee and rate checks): block
					// execution always sees the same answer on every node, and what the mempool run writes is discarded
					if src && fn.Name() == "AnteHandle" && strings.HasPrefix(name, "(sdk/types.Context).") {
						src = false
					}
					if name == "fmt.Sprintf" || name == "fmt.Errorf" {
						if c, ok := x.Call.Args[0].(*ssa.Const); ok && c.Value != nil && strings.Contains(c.Value.ExactString(), "%p") {
							src = true
						}
					}
					if !src {
						if t, isAddr := fmtPrintsAddress(p, x); isAddr {
							nSrc++
							if sink := flowsToSink(p, fn, x); sink != "" {
								r.Fail(kp("FLOW", fname+"#formatted-address@"+blockTag(fn, b)), "no memory address is rendered into consensus-visible text", p.Pos(x.Pos()),
									"the default format of "+shortPkg(t.String())+" prints a pointer below its top level as an address (a pointer field, or an interface field holding a pointer without a String method); the text is "+sink+": it differs between nodes and between runs")
							}
						}
					}
					if !src {
						if why := zoneDependentUse(x); why != "" {
							nSrc++
							nZone++
							sink := "used for its side effect"
							if x.Call.Signature().Results().Len() > 0 {
								sink = flowsToSink(p, fn, x)
							}
							key := kp("FLOW", fname+"→local-zone:"+name+"@"+blockTag(fn, b))
							if sink != "" {
								r.Fail(key, "no rendering of a time in the node's local time zone reaches a consensus-visible sink", p.Pos(x.Pos()),
									fmt.Sprintf("%s in %s, and the result is %s: time.Unix/Local/In yield the node's own zone (TZ, /etc/localtime), so nodes in different zones produce different bytes; convert with .UTC() first", why, fname, sink))
							} else {
								r.OK(key, "no rendering of a time in the node's local time zone reaches a consensus-visible sink", p.Pos(x.Pos()), why+" only feeds logging/telemetry")
							}
						}
						continue
					}
					nSrc++
					var sink string
					if x.Call.Signature().Results().Len() == 0 {
						sink = "used for its side effect"
					} else {
						sink = flowsToSink(p, fn, x)
					}
					key := kp("FLOW", fname+"→"+name+"@"+blockTag(fn, b))
					if sink != "" {
						r.Fail(key, "no non-deterministic value (wall clock, randomness, environment, host) reaches a consensus-visible sink", p.Pos(x.Pos()),
							fmt.Sprintf("the result of %s in %s is %s: nodes processing the same block compute different state/results", name, fname, sink))
					} else {
						r.OK(key, "no non-deterministic value (wall clock, randomness, environment, host) reaches a consensus-visible sink", p.Pos(x.Pos()), name+" only feeds logging/telemetry")
					}
				}
			}
		}
	}
	r.Count("nondeterministic-sources-in-scope", nSrc)
	r.Count("local-zone-renderings-in-scope", nZone)
	zoneControl(p, r, kp("FLOW", "local-zone#control"))
	// positive control outside the scope
	ctl := 0
	for _, fn := range p.ModFuncs {
		if InPkgs(fn, "x/did/client/crypto") {
			for _, cs := range callSites(fn) {
				if isNondetSource(cs.Name) {
					ctl++
				}
			}
		}
	}
	r.Floor("control:nondeterministic-sources-found-in-keystore", ctl, 2)

	// D5 no process memory feeds block processing: a location outside the stores that block-processing code both writes and reads
	// carries this node's own history (what it checked, simulated, when it restarted) into DeliverTx.
	channels, _ := hiddenStateChannels(p, scope, scope)
	var locs []string
	for l := range channels {
		locs = append(locs, l)
	}
	sort.Strings(locs)
	for _, l := range locs {
		ws, rs := channels[l][0], channels[l][1]
		r.Fail(kp("STATE", "process-memory-feeds-block-processing:"+l), "block processing depends on the transaction, the block header and the stores only", p.Pos(rs[0].Instr.Pos()),
			fmt.Sprintf("%s is written (%s) and read (%s) by block-processing code: its content depends on what this node executed before (CheckTx, simulations, restarts), so two nodes can process the same block differently", l, describeAccess(p, ws[0]), describeAccess(p, rs[0])))
	}
	if len(locs) == 0 {
		r.OK(kp("STATE", "process-memory-feeds-block-processing#none"), "block processing depends on the transaction, the block header and the stores only", "x/*",
			fmt.Sprintf("%d functions in scope: no package variable or long-lived struct field is both written and read", len(scope)))
	}

	// D5b objects outside the module consulted without a Context
	{
		bad, allowed := contextFreeForeignCalls(p, scope)
		for _, fc := range bad {
			r.Fail(kp("STATE", "context-free-foreign-object:"+fc.Loc+"→"+fc.Name+"@"+FuncName(fc.Fn)), "block processing depends on the transaction, the block header and the stores only: objects implemented outside the module are consulted with a Context (reviewed exceptions: the codecs, the params subspace table)", p.Pos(fc.Instr.Pos()),
				fmt.Sprintf("%s calls %s on %s (a %s held by a long-lived struct) without a Context: the answer cannot come from the stores at the block being processed — it is whatever this process has in memory (set by wiring, by an earlier call, lost or reset at restart), so two nodes can process the same block differently", FuncName(fc.Fn), fc.Name, fc.Loc, fc.Recv))
		}
		if len(bad) == 0 {
			r.OK(kp("STATE", "context-free-foreign-object#none"), "block processing depends on the transaction, the block header and the stores only: objects implemented outside the module are consulted with a Context (reviewed exceptions: the codecs, the params subspace table)", "x/*, app/*",
				fmt.Sprintf("%d functions in scope; %d context-free calls on held foreign objects, all on reviewed receiver types", len(scope), len(allowed)))
		}
		r.Floor("context-free-calls-on-reviewed-foreign-objects", len(allowed), 2)
	}

	// D5c committed stores only: what a memory or transient store holds depends on when this node last restarted / committed, and
	// reading or re-warming it costs gas that other nodes do not pay
	checkPersistentStoresOnly(p, r, kp, "its content — and the gas spent reading or rebuilding it — depends on when this node was last restarted: two nodes processing the same block report different gas, results or state")

	// D6 genesis order: x/crisis asserts the registered invariants in its InitGenesis unless the node runs with
	// --x-crisis-skip-assert-invariants (a node-local flag). Invariants of bank, distribution, staking and gov read — and, through
	// GetModuleAccount, create — module accounts; if crisis runs before those modules' own InitGenesis, which accounts exist (and
	// which account numbers they get) depends on the flag, and replicas differ from height 1.
	{
		w := BuildWire(p)
		order := w.Orders["SetOrderInitGenesis"]
		ci := indexOf(order, "crisis")
		var late []string
		for _, m := range []string{"auth", "bank", "distribution", "staking", "gov"} {
			if mi := indexOf(order, m); ci >= 0 && mi > ci {
				late = append(late, m)
			}
		}
		r.Check(ci >= 0 && len(late) == 0, kp("WIRE", "genesis-order#crisis-after-invariant-owners"), "in the InitGenesis order x/crisis comes after every module whose invariants it asserts (auth, bank, distribution, staking, gov): whether a node asserts genesis invariants must not influence state", "app/app.go",
			fmt.Sprintf("crisis at position %d, after auth/bank/distribution/staking/gov", ci),
			fmt.Sprintf("crisis (position %d) is initialised before %v: their invariants run — on nodes that assert genesis invariants only — before the modules created their accounts, so the invariant check itself creates them and account numbers depend on a start-up flag", ci, late))
	}

	// D7 no bech32 rendering or parsing while packages initialise: the address prefix is configured by main() (app.SetConfig) after
	// every package initialiser has run, so an address rendered in a var initialiser or init() uses the SDK's default prefix — and
	// is memoised under that prefix in the SDK's process-wide address cache, where later renderings of the same bytes find it until
	// it is evicted: what the process answers then depends on how long it has been running.
	{
		bech := func(name string) bool {
			return strings.HasSuffix(name, "Address).String") && strings.Contains(name, "sdk/types.") ||
				strings.HasSuffix(name, "sdk/types.AccAddressFromBech32") || strings.HasSuffix(name, "sdk/types.ValAddressFromBech32") ||
				strings.HasSuffix(name, "sdk/types.MustAccAddressFromBech32") || strings.Contains(name, "sdk/types.Bech32ify") ||
				strings.Contains(name, "sdk/types.MustBech32ify") || strings.Contains(name, "sdk/types/bech32.")
		}
		nInit, nBad := 0, 0
		for _, root := range p.Roots {
			if !strings.HasPrefix(root.PkgPath, ModPath) {
				continue
			}
			sp := p.SSA.Package(root.Types)
			if sp == nil {
				continue
			}
			var inits []*ssa.Function
			for name, m := range sp.Members {
				if f, ok := m.(*ssa.Function); ok && (name == "init" || strings.HasPrefix(name, "init#")) {
					inits = append(inits, f)
				}
			}
			for _, f := range inits {
				nInit++
				for _, cs := range callSites(f) {
					if bech(cs.Name) {
						nBad++
						r.Fail(kp("STATE", "bech32-at-package-init:"+shortPkg(root.PkgPath)+"→"+cs.Name), "no address is rendered or parsed while packages initialise (the bech32 prefix is configured later, and renderings are memoised process-wide)", p.Pos(cs.Instr.Pos()),
							fmt.Sprintf("the initialiser of %s calls %s: it runs before app.SetConfig installs the panacea prefix, yields a cosmos1… string and leaves it in the SDK's address cache — later renderings of the same address return the cached wrong-prefix string until the entry is evicted, so a fresh node and a long-running one answer differently", shortPkg(root.PkgPath), cs.Name))
					}
				}
			}
		}
		if nBad == 0 {
			r.OK(kp("STATE", "bech32-at-package-init#none"), "no address is rendered or parsed while packages initialise (the bech32 prefix is configured later, and renderings are memoised process-wide)", "x/*, app/*, types/*",
				fmt.Sprintf("%d package initialisers scanned, no bech32 rendering or parsing", nInit))
		}
		r.Floor("package-initialisers-scanned", nInit, 10)
	}

	checkProcessWideState(p, r, kp, scope)
	// D5d pooled objects are reset (pool.go)
	checkPoolResetDiscipline(p, r, kp, scope)

	// D2b no binary encoding of map-carrying messages (unordered.go)
	checkNoUnorderedEncoding(p, r, kp, scope)

	checkMapsNotMutatedWhileRanged(p, r, kp)
	checkWiringMapRanges(p, r, kp)
	// the genesis maps are walked in map order: that is order-free only while distinct genesis keys decode to distinct store keys
	// (every position of a typed key's string form bound to its own field) …
	if ck := p.Iface(Rel(compkeyPkg), "CompositeKey"); ck != nil {
		for _, kt := range p.ImplementersOf(ck) {
			checkTypedKey(p, r, kp, kt)
		}
	}
	// … and what a handler reads from a store is not modified in place (the bytes belong to the store's shared cache: a
	// simulation on one node would leak into its committed view)
	checkStoreGetNotModified(p, r, "C09")
	// the same query answers on every node: every view of a token shows the stored fields (not the querying node's block time)
	pnftViewsAgree(p, r, kp)
	// D2 map ranges
	nMap := 0
	for _, fn := range scope {
		for _, b := range fn.Blocks {
			for _, in := range b.Instrs {
				rg, ok := in.(*ssa.Range)
				if !ok {
					continue
				}
				if _, isMap := rg.X.Type().Underlying().(*types.Map); !isMap {
					continue
				}
				nMap++
				why := mapLoopOrderSensitive(p, fn, rg)
				// which error a validation walk reports first does not matter where every caller only aborts on it (a genesis import
				// that panics on an invalid file halts every node alike, whatever the message says)
				if strings.HasPrefix(why, "the walk returns a value computed from the entry") && errorOnlyAborts(fn, scope) {
					why = ""
				}
				r.Check(why == "", kp("ORDER", FuncName(fn)+"#range-over-map@"+blockTag(fn, b)), "a range over a Go map in block-processing code has an order-insensitive body", p.Pos(rg.Pos()),
					"keyed writes / validation / map insertion only", "iteration order of the map leaks into consensus: "+why)
			}
		}
	}
	r.Floor("map-ranges-in-consensus-scope", nMap, 5)

	// D3 timestamps stored by handlers
	m := buildAolModel(p)
	nTs := 0
	for _, fn := range m.handlers {
		o := NewOrigin(p, fn)
		for _, ac := range m.accessorCalls(fn, o) {
			if ac.acc.Op != "Set" || ac.val == nil || ac.val.Op != "lit" {
				continue
			}
			for _, kv := range ac.val.Args {
				if !strings.Contains(kv.Name, "Timestamp") && !strings.Contains(kv.Name, "Time") && !strings.HasSuffix(kv.Name, "At") {
					continue
				}
				nTs++
				t := kv.Args[0]
				ok := t.Contains(func(x *Term) bool { return x.IsCall("(sdk/types.Context).BlockTime") }) && !t.Contains(func(x *Term) bool { return x.Op == "call" && isNondetSource(x.Name) })
				r.Check(ok, kp("ORIGIN", FuncName(fn)+"#"+ac.acc.Family+"."+kv.Name+"=BlockTime"), "stored timestamps derive from the block header time", p.Pos(ac.cs.Instr.Pos()), "ctx.BlockTime()", "stored "+kv.Name+" = "+clip(t.String(), 160))
			}
		}
	}
	for _, fn := range sortedFuncs(p.ServerHandlers("MsgServer")["x/pnft"]) {
		o := NewOrigin(p, fn)
		for _, b := range fn.Blocks {
			for _, in := range b.Instrs {
				al, ok := in.(*ssa.Alloc)
				if !ok || !strings.HasSuffix(al.Type().String(), "x/pnft/types.Pnft") {
					continue
				}
				lit := o.allocContent(al, nil, nil)
				if ca := lit.Field("CreatedAt"); ca != nil {
					nTs++
					r.Check(ca.IsCall("(sdk/types.Context).BlockTime"), kp("ORIGIN", FuncName(fn)+"#Pnft.CreatedAt=BlockTime"), "stored timestamps derive from the block header time", p.Pos(al.Pos()), "ctx.BlockTime()", "CreatedAt = "+clip(ca.String(), 160))
				}
			}
		}
	}
	r.Floor("stored-timestamp-sites", nTs, 3)
}

// mapLoopOrderSensitive inspects the body of a range-over-map loop; "" = order-insensitive.
func mapLoopOrderSensitive(p *Prog, fn *ssa.Function, rg *ssa.Range) string {
	// loop header = block of the Next instruction using rg
	var header *ssa.BasicBlock
	if refs := rg.Referrers(); refs != nil {
		for _, rf := range *refs {
			if nx, ok := rf.(*ssa.Next); ok {
				header = nx.Block()
			}
		}
	}
	if header == nil {
		return "loop structure not recognised"
	}
	inLoop := func(b *ssa.BasicBlock) bool { return header.Dominates(b) && b != header && reaches(b, header) }
	// loop-carried values other than the iterator: phis in the header
	for _, in := range header.Instrs {
		phi, ok := in.(*ssa.Phi)
		if !ok {
			continue
		}
		switch t := phi.Type().Underlying().(type) {
		case *types.Slice:
			// appended slice: order-sensitive unless it is sorted after the loop before any other use
			if !sortedAfterLoop(phi, header) {
				return fmt.Sprintf("a slice (%s) is built in iteration order and not sorted afterwards (at %s)", phi.Comment, p.Pos(phi.Pos()))
			}
		case *types.Basic:
			if t.Info()&types.IsInteger != 0 {
				continue // integer counters/sums are order-independent
			}
			return fmt.Sprintf("a %s value (%s) is accumulated across iterations", t.Name(), phi.Comment)
		case *types.Map:
		default:
			return fmt.Sprintf("a value (%s) is carried across iterations", phi.Comment)
		}
	}
	// a return from inside the body (its block is dominated by the body's entry and never comes back to the header) that hands back
	// something computed from the entry it stopped at: with several qualifying entries the answer depends on map order
	if len(header.Succs) == 2 {
		body := header.Succs[0]
		for _, b := range fn.Blocks {
			if b == header || !(b == body || body.Dominates(b)) || len(b.Instrs) == 0 {
				continue
			}
			if ret, ok := b.Instrs[len(b.Instrs)-1].(*ssa.Return); ok {
				for _, rv := range ret.Results {
					if derivesFromNext(rv, 0) {
						return "the walk returns a value computed from the entry it stopped at (at " + p.Pos(ret.Pos()) + "): with several qualifying entries the result depends on map order"
					}
				}
			}
		}
	}
	// what a body stores per entry is one write under the entry's own key: a callee that writes several entries, or reads one
	// family and writes another (a counter kept "in step" with the entries), makes the last entry visited win
	for _, b := range fn.Blocks {
		if !inLoop(b) {
			continue
		}
		for _, in := range b.Instrs {
			c, ok := in.(ssa.CallInstruction)
			if !ok {
				continue
			}
			g := c.Common().StaticCallee()
			if g == nil || !InModule(g) || p.IsGenerated(g) {
				continue
			}
			if why := compoundStoreEffect(p, resolveBound(g)); why != "" {
				return "per entry the body calls " + FuncName(g) + " (at " + p.Pos(c.Pos()) + "), which " + why + ": entries that share that other key overwrite each other in map order"
			}
		}
	}
	// a walk that does something per entry and can stop early without failing (break, or a non-error return) has processed the
	// entries that happened to come first in this process's map order, and only those
	if at := earlyLoopExit(header); at != nil {
		for _, b := range fn.Blocks {
			if !inLoop(b) {
				continue
			}
			for _, in := range b.Instrs {
				if c, ok := in.(ssa.CallInstruction); ok {
					if _, isB := c.Common().Value.(*ssa.Builtin); !isB {
						site := p.Pos(c.Pos())
						return "the walk can stop early without failing, after having processed (" + clip(calleeName(c.Common()), 60) + " at " + site + ") only the entries that came first in map order"
					}
				}
			}
		}
	}
	for _, b := range fn.Blocks {
		if !inLoop(b) {
			continue
		}
		for _, in := range b.Instrs {
			switch x := in.(type) {
			case ssa.CallInstruction:
				name := calleeName(x.Common())
				if strings.Contains(name, "EventManager).Emit") || strings.Contains(name, "EmitEvent") || strings.Contains(name, "EmitTypedEvent") {
					return "an event is emitted per entry (event order follows map order) at " + p.Pos(x.Pos())
				}
				if strings.Contains(name, "GasMeter") || strings.Contains(name, "ConsumeGas") {
					return "gas is consumed per entry at " + p.Pos(x.Pos())
				}
			case *ssa.Store:
				// stores to outer non-local memory: globals or fields reached through pointers defined outside the loop
				if g := globalOf(x.Addr); g != nil {
					return "a package-level variable is assigned per entry at " + p.Pos(x.Pos())
				}
			case *ssa.Return:
				// an early return is fine when what is returned does not say WHICH entry was hit first (a fixed error, false);
				// returning something computed from the iteration's key or value hands back the entry that came first in this
				// process's map order (two bad entries: two different answers)
				for _, rv := range x.Results {
					if derivesFromNext(rv, 0) {
						return "the walk returns a value computed from the entry it stopped at (at " + p.Pos(x.Pos()) + "): with several qualifying entries the result depends on map order"
					}
				}
			}
		}
	}
	return ""
}

func reaches(from, to *ssa.BasicBlock) bool {
	seen := map[*ssa.BasicBlock]bool{}
	st := []*ssa.BasicBlock{from}
	for len(st) > 0 {
		b := st[len(st)-1]
		st = st[:len(st)-1]
		if b == to {
			return true
		}
		if seen[b] {
			continue
		}
		seen[b] = true
		st = append(st, b.Succs...)
	}
	return false
}

// sortedAfterLoop: every use of the loop-carried slice outside the loop is (first) a sort call.
func sortedAfterLoop(phi *ssa.Phi, header *ssa.BasicBlock) bool {
	refs := phi.Referrers()
	if refs == nil {
		return true
	}
	usedOutside := false
	sorted := false
	for _, rf := range *refs {
		in, ok := rf.(ssa.Instruction)
		if !ok {
			continue
		}
		if header.Dominates(in.Block()) && reaches(in.Block(), header) && in.Block() != header {
			continue // inside the loop (the append)
		}
		if _, isDbg := in.(*ssa.DebugRef); isDbg {
			continue
		}
		if c, ok := in.(ssa.CallInstruction); ok {
			n := calleeName(c.Common())
			if strings.HasPrefix(n, "sort.") || strings.HasPrefix(n, "slices.Sort") {
				sorted = true
				usedOutside = true
				continue
			}
			if bi, isB := c.Common().Value.(*ssa.Builtin); isB && (bi.Name() == "len" || bi.Name() == "cap") {
				continue
			}
			// handed to a module function that only turns the list into a set (or measures it): the order is not observed
			if g := c.Common().StaticCallee(); g != nil && InModule(g) && g.Blocks != nil {
				all := true
				for i, a := range c.Common().Args {
					if a == ssa.Value(phi) && (i >= len(g.Params) || !sliceParamOnlyFeedsSet(g.Params[i])) {
						all = false
					}
				}
				if all {
					continue
				}
			}
		}
		usedOutside = true
	}
	return !usedOutside || sorted
}

// sliceParamOnlyFeedsSet: the slice parameter is only measured and read element by element into map keys (a set is built from
// it): nothing the function computes depends on the order of its elements.
func sliceParamOnlyFeedsSet(prm *ssa.Parameter) bool {
	if prm.Referrers() == nil {
		return true
	}
	for _, rf := range *prm.Referrers() {
		switch x := rf.(type) {
		case *ssa.DebugRef:
		case *ssa.Call:
			bi, ok := x.Call.Value.(*ssa.Builtin)
			if !ok || (bi.Name() != "len" && bi.Name() != "cap") {
				return false
			}
		case *ssa.IndexAddr:
			if x.Referrers() == nil {
				continue
			}
			for _, r2 := range *x.Referrers() {
				ld, ok := r2.(*ssa.UnOp)
				if !ok {
					if _, isDbg := r2.(*ssa.DebugRef); isDbg {
						continue
					}
					return false
				}
				if ld.Referrers() == nil {
					continue
				}
				for _, r3 := range *ld.Referrers() {
					switch y := r3.(type) {
					case *ssa.DebugRef:
					case *ssa.MapUpdate:
						if y.Key != ssa.Value(ld) {
							return false
						}
					case *ssa.Lookup:
						if y.Index != ssa.Value(ld) {
							return false
						}
					default:
						return false
					}
				}
			}
		default:
			return false
		}
	}
	return true
}

// foreignGlobalRoot: the address (or slice/map value) v leads, through field/index/slice steps and loads, to a package-level
// variable of a package outside the module.
func foreignGlobalRoot(v ssa.Value) *ssa.Global {
	for i := 0; i < 8; i++ {
		switch x := v.(type) {
		case *ssa.Global:
			if x.Pkg != nil && !InModulePkg(x.Pkg) {
				return x
			}
			return nil
		case *ssa.FieldAddr:
			v = x.X
		case *ssa.IndexAddr:
			v = x.X
		case *ssa.Slice:
			v = x.X
		case *ssa.UnOp:
			v = x.X
		case *ssa.ChangeType:
			v = x.X
		default:
			return nil
		}
	}
	return nil
}

// foreignObjectField: v leads, through index/slice/load/interface-boxing steps, to a field of a struct type declared outside the
// module that is reached from a parameter or a captured variable (an object the function was handed, not one it made). Returns
// the struct's name and the field.
func foreignObjectField(v ssa.Value) (string, string) {
	for i := 0; i < 8; i++ {
		switch x := v.(type) {
		case *ssa.MakeInterface:
			v = x.X
		case *ssa.ChangeType:
			v = x.X
		case *ssa.IndexAddr:
			v = x.X
		case *ssa.Slice:
			v = x.X
		case *ssa.UnOp:
			v = x.X
		case *ssa.FieldAddr:
			pt, ok := x.X.Type().Underlying().(*types.Pointer)
			if !ok {
				return "", ""
			}
			nn, ok := pt.Elem().(*types.Named)
			if !ok || nn.Obj().Pkg() == nil || strings.HasPrefix(nn.Obj().Pkg().Path(), ModPath) {
				return "", ""
			}
			// handed in: a parameter, a captured variable, or a field of such an object
			root := x.X
			for j := 0; j < 6; j++ {
				switch y := root.(type) {
				case *ssa.Parameter, *ssa.FreeVar:
					return shortPkg(nn.String()), fieldName(x.X.Type(), x.Field)
				case *ssa.UnOp:
					root = y.X
				case *ssa.FieldAddr:
					root = y.X
				default:
					return "", ""
				}
			}
			return "", ""
		default:
			return "", ""
		}
	}
	return "", ""
}

// checkProcessWideState (C09-D5e, shared with C10).
func checkProcessWideState(p *Prog, r *Report, kp func(string, string) string, scope []*ssa.Function) {
	// D5e process-wide registries and variables of other packages: block-processing code registers no error code (cosmossdk.io
	// errors.Register / New write a process-wide table and panic on a duplicate: the first call of a process succeeds, every later one
	// panics) and writes into no package-level variable of a package outside the module (the SDK's key prefixes, tables, defaults)
	{
		nBad := 0
		for _, fn := range scope {
			if isInitFunc(fn) {
				continue
			}
			for _, cs := range callSites(fn) {
				switch cs.Name {
				case "cosmossdk.io/errors.Register", "cosmossdk.io/errors.New", "cosmossdk.io/errors.RegisterWithGRPCCode",
					"sdk/types/errors.Register", "sdk/types/errors.New":
					nBad++
					r.Fail(kp("STATE", "error-code-registered-at-run-time@"+FuncName(fn)), "error codes are registered by package initialisers only", p.Pos(cs.Instr.Pos()),
						fmt.Sprintf("%s calls %s while blocks are processed: the registry is process-wide and panics on a duplicate, so the first call in a process returns an error and every later one panics — the result of the same transaction depends on what the process has executed before", FuncName(fn), cs.Name))
				}
			}
			for _, b := range fn.Blocks {
				for _, in := range b.Instrs {
					var dst ssa.Value
					how := ""
					switch x := in.(type) {
					case *ssa.Store:
						dst, how = x.Addr, "assignment"
					case *ssa.MapUpdate:
						dst, how = x.Map, "map assignment"
					case *ssa.Call:
						if bi, ok := x.Call.Value.(*ssa.Builtin); ok && bi.Name() == "copy" && len(x.Call.Args) == 2 {
							dst, how = x.Call.Args[0], "copy into"
						}
					}
					if c, isCall := in.(*ssa.Call); isCall && dst == nil {
						if sc := c.Call.StaticCallee(); sc != nil && isInPlaceMutator(FuncName(sc)) && len(c.Call.Args) > 0 {
							dst, how = c.Call.Args[0], FuncName(sc)+" on"
						}
					}
					if dst == nil {
						continue
					}
					if owner, fld := foreignObjectField(dst); owner != "" {
						nBad++
						r.Fail(kp("STATE", "foreign-object-written:"+owner+"."+fld+"@"+FuncName(fn)), "block-processing code writes into no long-lived object of another module", p.Pos(in.Pos()),
							fmt.Sprintf("%s: %s %s.%s of an object it was handed (not a local copy): the object lives as long as the process, so the change is seen by every later block of this process and by none of a restarted one", FuncName(fn), how, owner, fld))
						continue
					}
					if g := foreignGlobalRoot(dst); g != nil {
						nBad++
						r.Fail(kp("STATE", "foreign-package-variable-written:"+shortPkg(g.Pkg.Pkg.Path())+"."+g.Name()+"@"+FuncName(fn)), "block-processing code writes into no package-level variable of another module", p.Pos(in.Pos()),
							fmt.Sprintf("%s: %s %s.%s, a package-level variable of a package outside this module: the change lasts for the life of the process (not of the block), so replicas that executed, simulated or restarted differently read different values", FuncName(fn), how, g.Pkg.Pkg.Path(), g.Name()))
					}
				}
			}
		}
		if nBad == 0 {
			r.OK(kp("STATE", "process-wide-registries-untouched"), "block-processing code registers no error code and writes into no package-level variable of another module", "x/*, app/*", fmt.Sprintf("%d functions in scope", len(scope)))
		}
	}
}

// derivesFromNext: v is computed from the key or value of a map iteration step (through calls, conversions, boxing, phis).
func derivesFromNext(v ssa.Value, depth int) bool {
	if depth > 6 {
		return false
	}
	switch x := v.(type) {
	case *ssa.Extract:
		if _, ok := x.Tuple.(*ssa.Next); ok {
			return x.Index > 0
		}
		return derivesFromNext(x.Tuple, depth+1)
	case *ssa.Call:
		for _, a := range x.Call.Args {
			if derivesFromNext(a, depth+1) {
				return true
			}
		}
	case *ssa.MakeInterface:
		return derivesFromNext(x.X, depth+1)
	case *ssa.ChangeInterface:
		return derivesFromNext(x.X, depth+1)
	case *ssa.ChangeType:
		return derivesFromNext(x.X, depth+1)
	case *ssa.Convert:
		return derivesFromNext(x.X, depth+1)
	case *ssa.Slice:
		return derivesFromNext(x.X, depth+1)
	case *ssa.Phi:
		for _, e := range x.Edges {
			if e != ssa.Value(x) && derivesFromNext(e, depth+1) {
				return true
			}
		}
	case *ssa.UnOp:
		if al, ok := x.X.(*ssa.Alloc); ok && al.Referrers() != nil {
			// a variadic argument array or a spilled local holding the value
			for _, rf := range *al.Referrers() {
				switch y := rf.(type) {
				case *ssa.Store:
					if y.Addr == ssa.Value(al) && derivesFromNext(y.Val, depth+1) {
						return true
					}
				case *ssa.IndexAddr:
					if y.Referrers() != nil {
						for _, r2 := range *y.Referrers() {
							if st, ok := r2.(*ssa.Store); ok && derivesFromNext(st.Val, depth+1) {
								return true
							}
						}
					}
				}
			}
		}
		return derivesFromNext(x.X, depth+1)
	case *ssa.Alloc:
		if x.Referrers() != nil {
			for _, rf := range *x.Referrers() {
				if ia, ok := rf.(*ssa.IndexAddr); ok && ia.Referrers() != nil {
					for _, r2 := range *ia.Referrers() {
						if st, ok := r2.(*ssa.Store); ok && derivesFromNext(st.Val, depth+1) {
							return true
						}
					}
				}
			}
		}
	}
	return false
}

// checkMapsNotMutatedWhileRanged (C09): no module function inserts into (or deletes other entries from) the map it is ranging
// over: the Go specification leaves open whether an entry added during the walk is visited, so the result differs from run to run.
func checkMapsNotMutatedWhileRanged(p *Prog, r *Report, kp func(string, string) string) {
	rule := "a map is not inserted into while it is ranged over (whether the new entry is visited is unspecified: the outcome differs between processes)"
	n, nBad := 0, 0
	for _, fn := range p.ModFuncs {
		if fn.Blocks == nil || p.IsGenerated(fn) || InPkgs(fn, "types/testsuite") {
			continue
		}
		for _, b := range fn.Blocks {
			for _, in := range b.Instrs {
				rg, ok := in.(*ssa.Range)
				if !ok {
					continue
				}
				if _, isMap := rg.X.Type().Underlying().(*types.Map); !isMap {
					continue
				}
				n++
				var header *ssa.BasicBlock
				var next *ssa.Next
				if refs := rg.Referrers(); refs != nil {
					for _, rf := range *refs {
						if nx, ok := rf.(*ssa.Next); ok {
							header, next = nx.Block(), nx
						}
					}
				}
				if header == nil {
					continue
				}
				for _, lb := range fn.Blocks {
					if !(header.Dominates(lb) && lb != header && reaches(lb, header)) {
						continue
					}
					for _, li := range lb.Instrs {
						mu, ok := li.(*ssa.MapUpdate)
						if !ok || !sameMapValue(mu.Map, rg.X) {
							continue
						}
						// assigning to the entry under the iteration key is defined behaviour
						if ex, isEx := mu.Key.(*ssa.Extract); isEx && ex.Tuple == ssa.Value(next) && ex.Index == 1 {
							continue
						}
						nBad++
						r.Fail(kp("ORDER", FuncName(fn)+"#map-mutated-while-ranged@"+blockTag(fn, lb)), rule, p.Pos(mu.Pos()),
							fmt.Sprintf("%s inserts into the map it is ranging over under a key other than the iteration key: new entries may or may not be visited (and converted again), differently on every run", FuncName(fn)))
					}
				}
			}
		}
	}
	if nBad == 0 {
		r.OK(kp("ORDER", "map-mutated-while-ranged#none"), rule, "module code", fmt.Sprintf("%d ranges over maps, none inserts into the map it walks", n))
	}
}

func sameMapValue(a, b ssa.Value) bool {
	if a == b {
		return true
	}
	// two loads of the same variable
	ua, ok1 := a.(*ssa.UnOp)
	ub, ok2 := b.(*ssa.UnOp)
	return ok1 && ok2 && ua.X == ub.X
}


// errorOnlyAborts: fn returns a single error, it is called from the scope, and every in-scope caller only compares the result with
// nil and panics with it.
func errorOnlyAborts(fn *ssa.Function, scope []*ssa.Function) bool {
	res := fn.Signature.Results()
	if res.Len() != 1 || res.At(0).Type().String() != "error" {
		return false
	}
	n := 0
	var onlyAbort func(v ssa.Value, depth int) bool
	onlyAbort = func(v ssa.Value, depth int) bool {
		refs := v.Referrers()
		if refs == nil || depth > 3 {
			return false
		}
		for _, u := range *refs {
			switch x := u.(type) {
			case *ssa.DebugRef, *ssa.Panic:
			case *ssa.BinOp:
				if !(x.Op == token.EQL || x.Op == token.NEQ) || !(isNilConst(x.X) || isNilConst(x.Y)) {
					return false
				}
			case *ssa.MakeInterface:
				if !onlyAbort(x, depth+1) {
					return false
				}
			case *ssa.ChangeInterface:
				if !onlyAbort(x, depth+1) {
					return false
				}
			default:
				return false
			}
		}
		return true
	}
	for _, g := range scope {
		for _, cs := range callSites(g) {
			if cs.Callee == nil || resolveBound(cs.Callee) != fn {
				continue
			}
			c, ok := cs.Instr.(*ssa.Call)
			if !ok {
				return false // deferred or go: the result is dropped, but then the walk is not an abort either
			}
			n++
			if !onlyAbort(c, 0) {
				return false
			}
		}
	}
	return n > 0
}


// checkWiringMapRanges: the map classification of D2 applied to the application's set-up code (app/, outside the upgrade
// packages): what New, BlockedAddresses, GetMaccPerms … compute from a map is configuration of this process, and must be the
// same in every process.
func checkWiringMapRanges(p *Prog, r *Report, kp func(string, string) string) {
	n, nBad := 0, 0
	for _, fn := range p.ModFuncs {
		if fn.Blocks == nil || p.IsGenerated(fn) || !InPkgs(fn, "app") || InPkgs(fn, "app/upgrades") || InPkgs(fn, "app/params") {
			continue
		}
		for _, b := range fn.Blocks {
			for _, in := range b.Instrs {
				rg, ok := in.(*ssa.Range)
				if !ok {
					continue
				}
				if _, isMap := rg.X.Type().Underlying().(*types.Map); !isMap {
					continue
				}
				n++
				if why := mapLoopOrderSensitive(p, fn, rg); why != "" {
					nBad++
					r.Fail(kp("ORDER", FuncName(fn)+"#wiring-range-over-map@"+blockTag(fn, b)), "a range over a Go map in the application's set-up code has an order-insensitive body", p.Pos(rg.Pos()),
						"the configuration computed at start-up depends on map iteration order: "+why+" — two processes (two nodes, or one node before and after a restart) are configured differently")
				}
			}
		}
	}
	if nBad == 0 {
		r.OK(kp("ORDER", "wiring-range-over-map#none"), "a range over a Go map in the application's set-up code has an order-insensitive body", "app/", fmt.Sprintf("%d map ranges in app/, all order-insensitive", n))
	}
	r.Floor("map-ranges-in-app-wiring", n, 1)
}


var storeOpsByFn map[*ssa.Function][]StoreOp

// compoundStoreEffect: the store operations reachable from g are more than keyed writes of the entry — several writes, one of
// them to a family g also reads ("" otherwise).
func compoundStoreEffect(p *Prog, g *ssa.Function) string {
	if storeOpsByFn == nil {
		storeOpsByFn = map[*ssa.Function][]StoreOp{}
		for _, so := range p.StoreOps() {
			storeOpsByFn[so.Fn] = append(storeOpsByFn[so.Fn], so)
		}
	}
	reach := p.ReachFrom([]*ssa.Function{g}, func(f *ssa.Function) bool { return InModule(f) && !p.IsGenerated(f) })
	var writes, reads []StoreOp
	for _, f := range reach.Order {
		for _, so := range storeOpsByFn[f] {
			switch so.Op {
			case "Set", "Delete":
				writes = append(writes, so)
			default:
				reads = append(reads, so)
			}
		}
	}
	// several writes of which one goes to a family the callee also reads: a read-modify-write of a second entry per visited
	// entry (a counter or summary kept "in step"). Two plain writes (an entry and its index record) are keyed by the entry alone.
	if len(writes) > 1 {
		for _, w := range writes {
			for _, rd := range reads {
				if (rd.Op == "Get" || rd.Op == "Has") && PrefixName(rd.Prefix) == PrefixName(w.Prefix) {
					return fmt.Sprintf("performs %d store writes, one of them a read-modify-write under %s (%s in %s after %s in %s)", len(writes), PrefixName(w.Prefix), w.Op, FuncName(w.Fn), rd.Op, FuncName(rd.Fn))
				}
			}
		}
	}
	return ""
}


// checkReplayedBlockSeesSameInputs (C10): a block whose execution is repeated after a stop (begun, not committed) must compute what
// it computed the first time — no wall clock, random source or process property reaches a consensus-visible sink. This is the call
// part of C09-D1, over the same scope.
func checkReplayedBlockSeesSameInputs(p *Prog, r *Report, kp func(string, string) string, scope []*ssa.Function) {
	n, nBad := 0, 0
	for _, fn := range scope {
		if fn.Blocks == nil {
			continue
		}
		for _, b := range fn.Blocks {
			for _, in := range b.Instrs {
				c, ok := in.(*ssa.Call)
				if !ok {
					continue
				}
				name := calleeName(&c.Call)
				if !isNondetSource(name) || strings.HasPrefix(name, "(sdk/types.Context).") {
					continue
				}
				n++
				if sink := flowsToSink(p, fn, c); sink != "" {
					nBad++
					r.Fail(kp("FLOW", FuncName(fn)+"→"+name+"@"+blockTag(fn, b)), "a block executed again after a restart computes what it computed the first time: no clock, random or process-local value reaches state", p.Pos(c.Pos()),
						fmt.Sprintf("the result of %s in %s is %s: the block that was begun before the stop and the same block executed after the restart store different values, and the node's hash differs from a node that never stopped", name, FuncName(fn), sink))
				}
			}
		}
	}
	if nBad == 0 {
		r.OK(kp("FLOW", "replayed-block#same-inputs"), "a block executed again after a restart computes what it computed the first time: no clock, random or process-local value reaches state", "x/*, app/",
			fmt.Sprintf("%d calls of clock/random/process sources in scope, none reaches a consensus-visible sink", n))
	}
}
