package main

// Store-access enumeration: every KV-store operation performed by hand-written module code, with the
// provenance of the store it acts on (which keeper's store key, which prefix) and of its key argument.

import (
	"fmt"
	"sort"
	"strings"

	"golang.org/x/tools/go/ssa"
)

type StoreOp struct {
	Fn      *ssa.Function
	Instr   ssa.CallInstruction
	Op      string // Set | Delete | Get | Has | Iterator | ReverseIterator
	Store   *Term  // provenance of the receiver store
	Prefix  *Term  // prefix argument of prefix.NewStore (nil: raw store)
	KeyRoot string // "<keeper type>.<field>" the store key comes from, "" if unresolved
	Key     *Term
	Val     *Term
	Raw     bool
	o       *Origin
}

var storeOpNames = map[string]bool{"Set": true, "Delete": true, "Get": true, "Has": true, "Iterator": true, "ReverseIterator": true}

func isStoreType(name string) bool {
	return strings.Contains(name, "store/types.KVStore") || strings.Contains(name, "store/prefix.Store") ||
		strings.Contains(name, "types.KVStore") && strings.Contains(name, "cosmos-sdk") ||
		strings.Contains(name, "sdk/store/") || strings.Contains(name, "sdk/types.KVStore")
}

// StoreOps scans all hand-written module functions.
func (p *Prog) StoreOps() []StoreOp {
	var out []StoreOp
	for _, fn := range p.ModFuncs {
		if p.IsGenerated(fn) {
			continue
		}
		var o *Origin
		for _, cs := range callSites(fn) {
			cc := cs.Instr.Common()
			var method string
			var recv ssa.Value
			var args []ssa.Value
			if cc.IsInvoke() {
				method = cc.Method.Name()
				recv = cc.Value
				args = cc.Args
				if !isStoreType(shortPkg(cc.Value.Type().String())) {
					continue
				}
			} else if cs.Callee != nil && cs.Callee.Signature.Recv() != nil {
				method = cs.Callee.Name()
				if !isStoreType(shortPkg(cs.Callee.Signature.Recv().Type().String())) {
					continue
				}
				if len(cc.Args) == 0 {
					continue
				}
				recv = cc.Args[0]
				args = cc.Args[1:]
			} else if cs.Callee != nil && (FuncName(cs.Callee) == "sdk/types.KVStorePrefixIterator" ||
				FuncName(cs.Callee) == "sdk/types.KVStoreReversePrefixIterator" || FuncName(cs.Callee) == "sdk/types/query.Paginate" ||
				FuncName(cs.Callee) == "sdk/types/query.FilteredPaginate") && len(cc.Args) >= 2 {
				method = "Iterator"
				recv = cc.Args[0]
				args = nil
			} else {
				continue
			}
			if !storeOpNames[method] {
				continue
			}
			if o == nil {
				o = NewOrigin(p, fn)
			}
			so := StoreOp{Fn: fn, Instr: cs.Instr, Op: method, o: o}
			so.Store = o.Of(recv)
			if len(args) > 0 {
				so.Key = o.Of(args[0])
			}
			if len(args) > 1 {
				so.Val = o.Of(args[1])
			}
			st := so.Store
			if st.IsCall("store/prefix.NewStore") && len(st.Args) == 2 {
				so.Prefix = st.Args[1]
				st = st.Args[0]
			} else {
				so.Raw = true
			}
			so.KeyRoot = storeKeyRoot(st)
			out = append(out, so)
		}
	}
	// A store operation on a store that is a PARAMETER of its function (an iteration / access helper that is handed the prefix
	// store) belongs to the callers: it is attributed to every call site, with the store term the caller passes.
	var extra []StoreOp
	keep := out[:0:0]
	for _, so := range out {
		pi := storeParamIndex(so.Store)
		if pi < 0 {
			keep = append(keep, so)
			continue
		}
		callers, _ := p.CallersOf(so.Fn)
		attributed := false
		for _, c := range callers {
			if p.IsGenerated(c) {
				continue
			}
			co := NewOrigin(p, c)
			for _, cs := range callSites(c) {
				if cs.Callee == nil || resolveBound(cs.Callee) != so.Fn {
					continue
				}
				args := cs.Instr.Common().Args
				if pi >= len(args) {
					continue
				}
				n := StoreOp{Fn: c, Instr: cs.Instr, Op: so.Op, o: co}
				n.Store = co.Of(args[pi])
				st := n.Store
				if st.IsCall("store/prefix.NewStore") && len(st.Args) == 2 {
					n.Prefix = st.Args[1]
					st = st.Args[0]
				} else {
					n.Raw = true
				}
				n.KeyRoot = storeKeyRoot(st)
				if n.KeyRoot == "" {
					continue
				}
				extra = append(extra, n)
				attributed = true
			}
		}
		if !attributed {
			keep = append(keep, so)
		}
	}
	out = append(keep, extra...)
	sort.SliceStable(out, func(i, j int) bool {
		if out[i].Fn.String() != out[j].Fn.String() {
			return out[i].Fn.String() < out[j].Fn.String()
		}
		return out[i].Instr.Pos() < out[j].Instr.Pos()
	})
	return out
}

// storeKeyRoot finds the keeper field a raw store was obtained from: ctx.KVStore(<x>.storeKey).
func storeKeyRoot(st *Term) string {
	root := ""
	st.Walk(func(t *Term) {
		if root != "" {
			return
		}
		if t.IsCall("(sdk/types.Context).KVStore") && len(t.Args) == 2 {
			k := t.Args[1]
			if k.Op == "field" {
				root = baseTypeOf(k.Args[0]) + "." + k.Name
			} else {
				root = k.String()
			}
		}
	})
	return root
}

// baseTypeOf names the static type of the value a term describes, when the term still carries its SSA value.
func baseTypeOf(t *Term) string {
	if t == nil {
		return "?"
	}
	if t.Val != nil {
		s := shortPkg(t.Val.Type().String())
		return strings.TrimPrefix(s, "*")
	}
	return t.String()
}

// PrefixName returns the package-level variable a prefix term loads ("x/aol/types.RecordKeyPrefix"), or
// the variable it extends by append(...), or "".
func PrefixName(t *Term) string {
	if t == nil {
		return ""
	}
	if t.Op == "gval" {
		return t.Name
	}
	if t.IsCall("builtin:append") && len(t.Args) >= 1 && t.Args[0].Op == "gval" {
		return t.Args[0].Name
	}
	return ""
}

// storeParamIndex: the store operand is (a prefix store over) a parameter of the enclosing function; returns the parameter's
// position in the call's argument list, -1 otherwise.
func storeParamIndex(st *Term) int {
	if st == nil {
		return -1
	}
	t := st
	if t.Op == "param" {
		var i int
		if _, err := fmt.Sscanf(t.Name, "%d:", &i); err == nil {
			return i
		}
	}
	return -1
}
