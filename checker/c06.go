package main

import (
	"fmt"

	"golang.org/x/tools/go/ssa"
)

func init() { register("C06", checkC06) }

// C06 — PNFT authorization: only current owners act on denoms and tokens.
func checkC06(p *Prog, r *Report) {
	checkNoDroppedErrors(p, r, "C06", "x/pnft", func(fn *ssa.Function) bool { return InPkgs(fn, "x/pnft") })
	checkNoNilWrap(p, r, "C06", "x/pnft", func(fn *ssa.Function) bool { return InPkgs(fn, "x/pnft") })
	r.Explain = "Decided statically: D1 every x/nft mutator call and every raw write to the pnft store reached (call tree depth <= 3, arguments substituted so that all terms are in the handler's vocabulary) from a PNFT message handler is dominated along the whole call chain by the fact actor == <owner lookup>(ids).Owner; the mutated resource is the one looked up (same ids, or the class built from the denom returned by that very lookup call); the owner lookups read x/nft's stored class / owner record for their id parameters; D2 the actor is the request field GetSigners returns on every path, CreateDenom records its signer as owner; D3 x/nft mutators are called only from the pnft keeper, Update/Batch* have no call site, and the checker's mutator table covers every x/nft keeper method that can reach a store write. The pnft store key is handed to the pnft keeper constructor only."
	r.NotDec = []string{"x/nft keeper internals (owner index maintenance)", "authz", "signature verification"}
	r.Trusted = []string{"cosmos-sdk v0.47.12 x/nft keeper"}
	pnftAuthRules(p, r, "C06")
	wireAnte(p, r, "C06")
	checkModuleExtensionInterfaces(p, r, "C06", []string{"x/pnft"})
	// ownership survives an export/import only if the export reads every class, every token and every owner record: the
	// full iterators of the x/nft keeper, not its paginated gRPC queries (a nil page request means the first 100 entries)
	if pexp := p.Func(Rel("x/pnft"), "ExportGenesis"); pexp != nil {
		reach := p.ReachFrom([]*ssa.Function{pexp}, func(f *ssa.Function) bool { return InModule(f) && !p.IsGenerated(f) })
		readsNft := map[string]bool{}
		for _, f := range reach.Order {
			if n, ok := isNftKeeperMethod(f); ok {
				readsNft[n] = true
			}
		}
		r.Check(readsNft["GetClasses"] && readsNft["GetNFTsOfClass"] && readsNft["GetOwner"], "WMC:C06:pnft.ExportGenesis#reads-class+token+owner",
			"the export reads every denom (class), every token and every token's current owner through the x/nft keeper's full iterators", p.FnPos(pexp),
			"GetClasses, GetNFTsOfClass, GetOwner", fmt.Sprintf("x/nft reads on the export path: %v — a paginated query (Classes, NFTs) with no page request returns the first 100 entries only: denoms beyond that vanish at import and their ids can be claimed by anyone", keysOf(readsNft)))
		// … for every denom: the export loop skips none and does not stop early (tokens that are not exported are gone after an
		// import, without a burn, and their ids can be minted again by the denom owner)
		checkPnftExportLoop(p, r, func(rule, rest string) string { return rule + ":C06:" + rest }, pexp)
	} else {
		r.Fail("WMC:C06:pnft.ExportGenesis#anchor", "anchor", "x/pnft", "ExportGenesis not found")
	}
	// ownership survives the import: the importer consumes every exported field, in particular the current Owner
	if pimp := p.Func(Rel("x/pnft"), "InitGenesis"); pimp != nil {
		checkPnftImportReadsAllFields(p, r, func(rule, rest string) string { return rule + ":C06:" + rest }, pimp)
		// … for every listed denom and token: one that the import skips has no owner afterwards, and its id can be minted again
		checkUnconditionalLoopEffectByCallee(p, r, "LOOP:C06:x/pnft.InitGenesis#every-denom-imported", pimp, "SaveDenom")
		checkUnconditionalLoopEffectByCallee(p, r, "LOOP:C06:x/pnft.InitGenesis#every-pnft-imported", pimp, "")
	}
	// the owner every view (and therefore the genesis export, which is imported back as the ownership) reports is the stored
	// owner record of that very token
	pnftViewsAgree(p, r, func(rule, rest string) string { return rule + ":C06:" + rest })
	// two (denom, id) pairs never share an owner record: identifiers exclude x/nft's key delimiter
	checkPnftIdsExcludeDelimiter(p, r, func(rule, rest string) string { return rule + ":C06:" + rest })
	checkSignBytesBindMessage(p, r, "C06", "x/pnft")
	checkInitGenesisCallers(p, r, "C06", "x/pnft")
	checkNoUnseparatedCompositeMapKeys(p, r, func(rule, rest string) string { return rule + ":C06:" + rest }, "x/pnft")
	wireKeyOwnership(p, r, BuildWire(p), "C06", "pnft", []string{"x/pnft/keeper.NewKeeper"}, "denoms, tokens and their owners")
}
