package main

// CONST — exact decisions about the languages of constant regular expressions (DESIGN.md §2.2 / §2.6):
// language equality (optionally intersected with a length interval) by product construction over the compiled programs,
// using one representative rune per class of the partition induced by all range boundaries of both patterns.

import (
	"fmt"
	"regexp/syntax"
	"sort"
	"strings"
	"unicode"
)

type reProg struct {
	p *syntax.Prog
}

func compileRe(pat string) (*reProg, error) {
	re, err := syntax.Parse(pat, syntax.Perl)
	if err != nil {
		return nil, err
	}
	pr, err := syntax.Compile(re.Simplify())
	if err != nil {
		return nil, err
	}
	return &reProg{pr}, nil
}

// closure follows empty-width instructions; atStart/atEnd tell which assertions hold.
func (r *reProg) closure(pcs []uint32, atStart, atEnd bool) []uint32 {
	seen := map[uint32]bool{}
	var out []uint32
	var visit func(pc uint32)
	visit = func(pc uint32) {
		if seen[pc] {
			return
		}
		seen[pc] = true
		in := &r.p.Inst[pc]
		switch in.Op {
		case syntax.InstAlt, syntax.InstAltMatch:
			visit(in.Out)
			visit(in.Arg)
		case syntax.InstCapture, syntax.InstNop:
			visit(in.Out)
		case syntax.InstEmptyWidth:
			need := syntax.EmptyOp(in.Arg)
			var have syntax.EmptyOp
			if atStart {
				have |= syntax.EmptyBeginText | syntax.EmptyBeginLine
			}
			if atEnd {
				have |= syntax.EmptyEndText | syntax.EmptyEndLine
			}
			// word boundaries are not modelled: patterns using them are rejected by supportsRe
			if need&^have == 0 {
				visit(in.Out)
			} else {
				out = append(out, pc) // keep pending: a later closure at end of text may satisfy it
			}
		case syntax.InstFail:
		default:
			out = append(out, pc)
		}
	}
	for _, pc := range pcs {
		visit(pc)
	}
	sort.Slice(out, func(i, j int) bool { return out[i] < out[j] })
	return out
}

func (r *reProg) step(state []uint32, c rune) []uint32 {
	var next []uint32
	for _, pc := range state {
		in := &r.p.Inst[pc]
		switch in.Op {
		case syntax.InstRune, syntax.InstRune1, syntax.InstRuneAny, syntax.InstRuneAnyNotNL:
			if in.MatchRune(c) {
				next = append(next, in.Out)
			}
		}
	}
	return next
}

func (r *reProg) accepts(state []uint32) bool {
	// state is a closure computed with atEnd=true
	for _, pc := range state {
		if r.p.Inst[pc].Op == syntax.InstMatch {
			return true
		}
	}
	return false
}

func (r *reProg) boundaries(m map[rune]bool) {
	for i := range r.p.Inst {
		in := &r.p.Inst[i]
		switch in.Op {
		case syntax.InstRune, syntax.InstRune1:
			if len(in.Rune) == 1 {
				m[in.Rune[0]] = true
				m[in.Rune[0]+1] = true
				if syntax.Flags(in.Arg)&syntax.FoldCase != 0 {
					for f := unicode.SimpleFold(in.Rune[0]); f != in.Rune[0]; f = unicode.SimpleFold(f) {
						m[f] = true
						m[f+1] = true
					}
				}
			}
			for k := 0; k+1 < len(in.Rune); k += 2 {
				m[in.Rune[k]] = true
				m[in.Rune[k+1]+1] = true
			}
		case syntax.InstRuneAnyNotNL:
			m['\n'] = true
			m['\n'+1] = true
		}
	}
}

func usesWordBoundary(r *reProg) bool {
	for i := range r.p.Inst {
		in := &r.p.Inst[i]
		if in.Op == syntax.InstEmptyWidth && syntax.EmptyOp(in.Arg)&(syntax.EmptyWordBoundary|syntax.EmptyNoWordBoundary) != 0 {
			return true
		}
	}
	return false
}

func keyOf(s []uint32) string {
	var sb strings.Builder
	for _, x := range s {
		fmt.Fprintf(&sb, "%d,", x)
	}
	return sb.String()
}

// LangSpec is a language: strings matching Pat (unanchored search semantics are NOT modelled: the pattern must be anchored with ^…$
// to mean whole-string match; an unanchored pattern is modelled faithfully as "matches a substring" by wrapping) and having a rune length in [Lo, Hi] (Hi < 0: unbounded).
type LangSpec struct {
	Pat    string // "" = any string
	Lo, Hi int
}

func (l LangSpec) String() string {
	hi := "∞"
	if l.Hi >= 0 {
		hi = fmt.Sprint(l.Hi)
	}
	p := l.Pat
	if p == "" {
		p = "(any)"
	}
	return fmt.Sprintf("{%s, len∈[%d,%s]}", p, l.Lo, hi)
}

// wrap turns Go's search semantics into whole-string semantics: s matches pat (MatchString) iff s ∈ L((?s:.*)(?:pat)(?s:.*))
// evaluated as a full match; for fully anchored patterns the wrapper is harmless.
func wrapSearch(pat string) string {
	if pat == "" {
		return `(?s)\A.*\z`
	}
	return `(?s:.*?)(?:` + pat + `)(?s:.*)`
}

// LangEqual decides whether two language specs denote the same set of strings over all Unicode strings of rune length up to
// maxLen+1 (maxLen = largest finite bound involved; both specs must be finitely bounded or both unbounded with equal patterns).
// Returns a shortest distinguishing string when they differ.
func LangEqual(a, b LangSpec) (bool, string, error) { return langCompare(a, b, false) }

// LangSubset decides L(a) ⊆ L(b); the witness is a shortest string of a that b rejects.
func LangSubset(a, b LangSpec) (bool, string, error) {
	if a.Pat == "" && b.Pat == "" {
		ok := a.Lo >= b.Lo && (b.Hi < 0 || (a.Hi >= 0 && a.Hi <= b.Hi))
		w := ""
		if !ok {
			w = fmt.Sprintf("a string of %d bytes", func() int {
				if a.Lo < b.Lo {
					return a.Lo
				}
				return b.Hi + 1
			}())
		}
		return ok, w, nil
	}
	return langCompare(a, b, true)
}

func langCompare(a, b LangSpec, subset bool) (bool, string, error) {
	ra, err := compileRe(wrapSearch(a.Pat))
	if err != nil {
		return false, "", err
	}
	rb, err := compileRe(wrapSearch(b.Pat))
	if err != nil {
		return false, "", err
	}
	if usesWordBoundary(ra) || usesWordBoundary(rb) {
		return false, "", fmt.Errorf("word-boundary assertions are not supported")
	}
	bm := map[rune]bool{0: true}
	ra.boundaries(bm)
	rb.boundaries(bm)
	var reps []rune
	for c := range bm {
		if c >= 0 && c <= unicode.MaxRune {
			reps = append(reps, c)
		}
	}
	sort.Slice(reps, func(i, j int) bool { return reps[i] < reps[j] })
	cap := 0
	for _, h := range []int{a.Hi, b.Hi, a.Lo, b.Lo} {
		if h > cap {
			cap = h
		}
	}
	// explore lengths 0..cap+2 (one beyond every finite bound; regex-internal bounds are covered because the product automaton
	// is explored until no new (state pair) appears or the length cap is hit)
	maxN := cap + 2
	if maxN < 8 {
		maxN = 8
	}
	if maxN > 400 {
		return false, "", fmt.Errorf("length bound %d too large for exhaustive product exploration", cap)
	}
	inLen := func(l LangSpec, n int) bool { return n >= l.Lo && (l.Hi < 0 || n <= l.Hi) }
	type node struct {
		sa, sb []uint32
		n      int
		word   string
	}
	start := node{ra.closure([]uint32{uint32(ra.p.Start)}, true, false), rb.closure([]uint32{uint32(rb.p.Start)}, true, false), 0, ""}
	seen := map[string]bool{}
	queue := []node{start}
	for len(queue) > 0 {
		cur := queue[0]
		queue = queue[1:]
		// acceptance at this point (end of text here)
		ea := ra.closure(cur.sa, cur.n == 0, true)
		eb := rb.closure(cur.sb, cur.n == 0, true)
		accA := ra.accepts(ea) && inLen(a, cur.n)
		accB := rb.accepts(eb) && inLen(b, cur.n)
		if (!subset && accA != accB) || (subset && accA && !accB) {
			return false, cur.word, nil
		}
		unbounded := a.Hi < 0 && b.Hi < 0
		if !unbounded && cur.n >= maxN {
			continue
		}
		nextN := cur.n + 1
		if unbounded && nextN > cap+1 {
			nextN = cap + 1 // lengths beyond every lower bound are indistinguishable for the interval part
		}
		for _, c := range reps {
			na := ra.closure(ra.step(cur.sa, c), false, false)
			nb := rb.closure(rb.step(cur.sb, c), false, false)
			k := fmt.Sprintf("%s|%s|%d", keyOf(na), keyOf(nb), nextN)
			if seen[k] {
				continue
			}
			seen[k] = true
			w := cur.word
			if len(w) < 40 {
				w += string(c)
			}
			queue = append(queue, node{na, nb, nextN, w})
		}
	}
	return true, "", nil
}

// LangAdmitsByte: some string of the language contains byte b (ASCII).
func LangAdmitsByte(l LangSpec, b byte) (bool, error) { return LangAdmitsRune(l, rune(b)) }

// LangAdmitsRune: some string of the language contains rune b. For b = U+FFFD this also answers "does the language admit a string
// with an invalid UTF-8 byte": Go's regexp decodes an invalid byte as U+FFFD (width 1).
func LangAdmitsRune(l LangSpec, b rune) (bool, error) {
	// intersect with ".*b.*": equal to empty?
	with := LangSpec{Pat: l.Pat, Lo: l.Lo, Hi: l.Hi}
	_ = with
	r1, err := compileRe(wrapSearch(l.Pat))
	if err != nil {
		return false, err
	}
	bm := map[rune]bool{0: true, rune(b): true, rune(b) + 1: true}
	r1.boundaries(bm)
	var reps []rune
	for c := range bm {
		reps = append(reps, c)
	}
	sort.Slice(reps, func(i, j int) bool { return reps[i] < reps[j] })
	type node struct {
		s    []uint32
		n    int
		seen bool
	}
	maxN := l.Hi + 1
	if l.Hi < 0 || maxN > 300 {
		maxN = 300
	}
	visited := map[string]bool{}
	queue := []node{{r1.closure([]uint32{uint32(r1.p.Start)}, true, false), 0, false}}
	for len(queue) > 0 {
		cur := queue[0]
		queue = queue[1:]
		if cur.seen && cur.n >= l.Lo && (l.Hi < 0 || cur.n <= l.Hi) && r1.accepts(r1.closure(cur.s, cur.n == 0, true)) {
			return true, nil
		}
		if cur.n >= maxN {
			continue
		}
		for _, c := range reps {
			ns := r1.closure(r1.step(cur.s, c), false, false)
			if len(ns) == 0 {
				continue
			}
			sb := cur.seen || c == rune(b)
			k := fmt.Sprintf("%s|%d|%v", keyOf(ns), cur.n+1, sb)
			if visited[k] {
				continue
			}
			visited[k] = true
			queue = append(queue, node{ns, cur.n + 1, sb})
		}
	}
	return false, nil
}
