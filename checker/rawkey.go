package main

// RAWKEY — store keys of another module are parsed with that module's own key parser.
//
// The layout of an SDK module's store keys is the module's private matter (staking's validator key became
// prefix | len(addr) | addr in SDK 0.46). Code in app/ that iterates a foreign store and cuts a field out of iterator.Key() with
// constant offsets silently reads the wrong bytes when the layout changes — in the zero-height export that made GetValidator
// miss every validator and the export panic (finding F15). Rule: in package app no slice expression with constant bounds is
// applied to the result of Iterator.Key().

import (
	"fmt"
	"strings"

	"golang.org/x/tools/go/ssa"
)

func rawKeySlices(fn *ssa.Function) []ssa.Instruction {
	var out []ssa.Instruction
	if fn == nil {
		return nil
	}
	for _, b := range fn.Blocks {
		for _, in := range b.Instrs {
			sl, ok := in.(*ssa.Slice)
			if !ok || (sl.Low == nil && sl.High == nil) {
				continue
			}
			c, ok := sl.X.(*ssa.Call)
			if !ok || !c.Call.IsInvoke() || c.Call.Method.Name() != "Key" || !strings.HasSuffix(c.Call.Value.Type().String(), "types.Iterator") {
				continue
			}
			constBound := false
			for _, bd := range []ssa.Value{sl.Low, sl.High} {
				if _, isC := bd.(*ssa.Const); isC {
					constBound = true
				}
			}
			if constBound {
				out = append(out, in)
			}
		}
	}
	return out
}

const rawKeyFixture = `package rawkeyfx

import sdk "github.com/cosmos/cosmos-sdk/types"

func ByHand(store sdk.KVStore, prefix []byte) [][]byte {
	var out [][]byte
	it := sdk.KVStorePrefixIterator(store, prefix)
	defer it.Close()
	for ; it.Valid(); it.Next() {
		out = append(out, it.Key()[1:])
	}
	return out
}

func Whole(store sdk.KVStore, prefix []byte, parse func([]byte) []byte) [][]byte {
	var out [][]byte
	it := sdk.KVStorePrefixIterator(store, prefix)
	defer it.Close()
	for ; it.Valid(); it.Next() {
		out = append(out, parse(it.Key()))
	}
	return out
}
`

func checkForeignKeysParsedByOwner(p *Prog, r *Report, clause string) {
	rule := "code in app/ does not cut fields out of another module's store keys by hand: the export and the zero-height preparation parse them with the owning module's key parser"
	ckey := "RAWKEY:" + clause + ":control#fixture"
	if fx, err := buildFixture(p, "rawkeyfx", rawKeyFixture); err != nil {
		r.Undecided(ckey, "positive control for the raw-key rule", "checker/rawkey.go", "fixture does not build: "+err.Error())
	} else {
		got := fmt.Sprintf("%d/%d", len(rawKeySlices(fx["ByHand"])), len(rawKeySlices(fx["Whole"])))
		r.Check(got == "1/0", ckey, "positive control: a constant-offset slice of Iterator.Key() is reported, handing the whole key to a parser is not", "checker/rawkey.go (in-memory fixture, not executed)",
			"fixture findings "+got, "fixture findings "+got+", expected 1/0: the matcher is broken")
	}
	nFn, nIter := 0, 0
	for _, fn := range p.ModFuncs {
		if !InPkgs(fn, "app") || p.IsGenerated(fn) || fn.Blocks == nil {
			continue
		}
		nFn++
		for _, cs := range callSites(fn) {
			if cs.Instr.Common().IsInvoke() && cs.Instr.Common().Method.Name() == "Key" && strings.HasSuffix(cs.Instr.Common().Value.Type().String(), "types.Iterator") {
				nIter++
			}
		}
		for k, in := range rawKeySlices(fn) {
			r.Fail(fmt.Sprintf("RAWKEY:%s:%s#slice-of-Iterator.Key()#%d", clause, FuncName(fn), k), rule, p.Pos(in.Pos()),
				FuncName(fn)+" slices Iterator.Key() with constant bounds ("+in.String()+"): the offsets encode a key layout this package does not own — with the layout of SDK 0.46+ (prefix | length | address) the bytes cut out are not the address, the lookup that follows misses, and the export panics")
		}
	}
	r.OK("RAWKEY:"+clause+":app#scan", rule, "app/", fmt.Sprintf("%d functions of package app scanned, %d Iterator.Key() calls (violations, if any, are listed separately)", nFn, nIter))
	r.Count("iterator-key-calls-in-app", nIter) // no floor: the export may stop using raw iterators altogether (the fixture is the control)
}
