package main

import "golang.org/x/tools/go/ssa"

func init() { register("C13", checkC13) }

// C13 — AOL counters and listings equal the real contents.
func checkC13(p *Prog, r *Report) {
	if csp := p.SSAPkg(Rel(compkeyPkg)); csp != nil {
		kp13 := func(rule, rest string) string { return rule + ":C13:" + rest }
		checkCompkeyEncoder(p, r, kp13, csp)
		checkStringDecoder(p, r, kp13, csp)
		if dec := csp.Func("Decode"); dec != nil {
			checkDecoderShape(p, r, kp13, dec)
		}
		if ck := p.Iface(Rel(compkeyPkg), "CompositeKey"); ck != nil {
			for _, kt := range p.ImplementersOf(ck) {
				checkTypedKey(p, r, kp13, kt)
			}
		}
	}
	checkAolExportLoopBounds(p, r, func(rule, rest string) string { return rule + ":C13:" + rest })
	checkNoDroppedErrors(p, r, "C13", "x/aol/keeper, x/aol/types", func(fn *ssa.Function) bool { return InPkgs(fn, "x/aol/keeper", "x/aol/types") })
	checkNoNilWrap(p, r, "C13", "x/aol/keeper, x/aol/types", func(fn *ssa.Function) bool { return InPkgs(fn, "x/aol/keeper", "x/aol/types") })
	r.Explain = "Decided statically: D1 every counter update is paired, on every success path, with the entry write it counts, reads the counter under the same key it writes back, changes exactly one counter by exactly one and copies all other fields, and is dominated by the (non-)existence guard that prevents double counting; D2 each listing query iterates prefix.NewStore(store, FamilyPrefix ++ PartialEncode(key, n-1)) with the family's own prefix variable and key type, fixed components from request fields, and decodes prefix++suffix with the same key type; D4 single-item views use the family's accessors. Prefix exactness then follows from C18 (length-prefixed components). D5 list accessors decode each entry into a per-iteration variable."
	r.NotDec = []string{"query.Paginate itself (key/offset/reverse/count_total)", "genesis files with inconsistent counters"}
	r.Trusted = []string{"cosmos-sdk v0.47.12 types/query, store/prefix"}
	m := aolRules(p, r, "C13", func(tag string) bool {
		switch tag {
		case "family", "wmc", "schema", "content", "counter", "genesis":
			return true
		}
		return false
	})
	aolListings(p, r, m, "C13")
	checkInitGenesisCallers(p, r, "C13", "x/aol")
	r.Floor("in-loop-decode-targets(x/aol)", checkLoopFreshDecode(p, r, "C13", func(fn *ssa.Function) bool { return InPkgs(fn, "x/aol/keeper", "x/aol/types") }), 2)
	checkNoLanguageDowngrade(p, r, "C13")
	checkModuleExtensionInterfaces(p, r, "C13", []string{"x/aol"})
}
