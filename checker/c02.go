package main

import (
	"fmt"
	"strings"

	"golang.org/x/tools/go/ssa"
)

func init() { register("C02", checkC02) }

// C02 — AOL write authorization.
func checkC02(p *Prog, r *Report) {
	// the writer list survives export/import only if the typed keys' string form binds every position to its own field
	if ck := p.Iface(Rel(compkeyPkg), "CompositeKey"); ck != nil {
		for _, kt := range p.ImplementersOf(ck) {
			checkTypedKey(p, r, func(rule, rest string) string { return rule + ":C02:" + rest }, kt)
		}
	}
	checkAolExportLoopBounds(p, r, func(rule, rest string) string { return rule + ":C02:" + rest })
	// a removed writer does not come back through an export that still carries it, and the keys are encoded as they are
	checkExportBuildsFreshContainers(p, r, func(rule, rest string) string { return rule + ":C02:" + rest }, "x/aol")
	// the writer list survives an export/import whole: the export reads the writers through the family's own list accessor (the
	// one the every-entry and whole-family rules are about), not through a paginated or partial lister
	{
		m02 := buildAolModel(p)
		found := false
		for _, a := range m02.byFamily["Writer"] {
			if a.Op == "Iterator" && aolOnExportPath(p, a.Fn) {
				found = true
			}
		}
		paginates := false
		if e := p.Func(Rel("x/aol"), "ExportGenesis"); e != nil {
			for _, g := range p.ReachFrom([]*ssa.Function{e}, func(f *ssa.Function) bool { return InModule(f) && !p.IsGenerated(f) }).Order {
				for _, cs := range callSites(g) {
					if strings.HasSuffix(cs.Name, "types/query.Paginate") || strings.HasSuffix(cs.Name, "types/query.FilteredPaginate") {
						paginates = true
					}
				}
			}
		}
		r.Check(found && !paginates, "WMC:C02:x/aol.ExportGenesis#writers-through-list-accessor", "the export reads every writer: through the writer family's list accessor, never through the page-limited query helpers", "x/aol/genesis.go",
			"GetAll-style accessor of the Writer family on the export path, no Paginate", fmt.Sprintf("list accessor on the export path=%v, pagination helper on the export path=%v: a paginated walk without a page request stops after 100 entries — the writers beyond them are missing from the genesis file, and after an import they can no longer append although the owner never removed them", found, paginates))
	}
	checkNoLostReceiverWrites(p, r, "C02", "x/aol/types", func(fn *ssa.Function) bool { return inExactPkgs(fn, "x/aol/types") })
	checkNoDroppedErrors(p, r, "C02", "x/aol/keeper, x/aol/types", func(fn *ssa.Function) bool { return InPkgs(fn, "x/aol/keeper", "x/aol/types") })
	checkNoNilWrap(p, r, "C02", "x/aol/keeper, x/aol/types", func(fn *ssa.Function) bool { return InPkgs(fn, "x/aol/keeper", "x/aol/types") })
	r.Explain = "Decided statically: D1 every AOL store mutation in a message handler is dominated (all paths) by the membership/existence guard on the same key datum (HasTopic/HasWriter with the polarity the schema requires); D2 the identity that authorises (owner component of the written keys; for add-record the writer component of the dominating HasWriter key) is parsed from a message field that GetSigners returns on every path; D3 mutators are called only from handlers and InitGenesis; D4 accessor families agree on prefix and key type so the guard and the delete address the same store key; D5 the ante chain contains ValidateBasic -> SetPubKey -> SigVerification -> IncrementSequence in this order and is installed by New."
	r.NotDec = []string{"SigVerificationDecorator / authz MsgExec / baseapp per-message cache behaviour", "rejected attempt leaves state unchanged (baseapp cache branch)"}
	r.Trusted = []string{"cosmos-sdk v0.47.12 x/auth/ante, baseapp, authz"}
	aolRules(p, r, "C02", func(tag string) bool {
		switch tag {
		case "family", "wmc", "schema", "auth":
			return true
		}
		return false
	})
	wireAnte(p, r, "C02")
	checkSignBytesBindMessage(p, r, "C02", "x/aol")
	checkInitGenesisCallers(p, r, "C02", "x/aol")
}
