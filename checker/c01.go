package main

import (
	"fmt"

	"golang.org/x/tools/go/ssa"
)

func init() { register("C01", checkC01) }

// C01 — AOL records are append-only: immutable, never deleted, densely numbered.
func checkC01(p *Prog, r *Report) {
	checkAolExportLoopBounds(p, r, func(rule, rest string) string { return rule + ":C01:" + rest })
	checkExportLoadsRequestedHeight(p, r, func(rule, rest string) string { return rule + ":C01:" + rest })
	checkNoDroppedErrors(p, r, "C01", "x/aol/keeper, x/aol/types", func(fn *ssa.Function) bool { return InPkgs(fn, "x/aol/keeper", "x/aol/types") })
	checkNoNilWrap(p, r, "C01", "x/aol/keeper, x/aol/types", func(fn *ssa.Function) bool { return InPkgs(fn, "x/aol/keeper", "x/aol/types") })
	r.Explain = "Decided statically (structural necessary conditions, all paths): D1 only the AddRecord handler and InitGenesis can reach a Set under the record prefix, nothing deletes under the owner/topic/record prefixes, every aol store operation is an accessor of one prefix<->key-type family; D2 in the add-record handler the record key's offset is the TotalRecords field of the topic value read under the same (owner, topic) key, the response reports that same term, record content/writer/timestamp come from the message and ctx.BlockTime(); D3 on every success path the record write is paired with storing that topic back with TotalRecords+1 and every other field copied; D4 the aol store key is created, mounted and given only to the aol keeper, no upgrade deletes/renames it and no upgrade handler reaches an aol mutator. By induction over transactions D1-D3 give TotalRecords = #records, a fresh key per append and no later write to an existing record key. Key injectivity is C18. D5 list accessors decode each entry into a variable that is allocated or reset inside the loop (generated Unmarshal merges into its target)."
	r.NotDec = []string{"IAVL/cache-store semantics", "protobuf round trip of Record", "hand-edited genesis files (InitGenesis trusts its input)", "uint64 overflow at 2^64 records"}
	r.Trusted = []string{"cosmos-sdk v0.47.12 store/prefix, baseapp", "go/ssa (x/tools v0.29.0)"}
	r.Assume = []string{"message handlers are invoked only through the registered MsgServer (baseapp msg service router)"}
	aolRules(p, r, "C01", func(tag string) bool {
		switch tag {
		case "family", "wmc", "schema", "content", "record", "counter", "genesis":
			return true
		}
		return false
	})
	// the Record view (and its siblings): Has guards Get on the same key, key from the request, no name a record can be stored
	// under is refused
	aolListings(p, r, buildAolModel(p), "C01")
	// an acknowledged record survives export/import only if its key's string form splits back: the separator is in no component
	if sepC, ok := p.ConstVal(Rel(aolTypesPkg), "GenesisKeySeparator"); ok {
		var sep string
		fmt.Sscanf(sepC, "%q", &sep)
		if len(sep) == 1 {
			checkSeparatorOutsideComponents(p, r, func(rule, rest string) string { return rule + ":C01:" + rest }, sep)
		}
	}
	// a record's genesis key string binds every position to its own field and parses back to the same offset
	if ck := p.Iface(Rel(compkeyPkg), "CompositeKey"); ck != nil {
		for _, kt := range p.ImplementersOf(ck) {
			checkTypedKey(p, r, func(rule, rest string) string { return rule + ":C01:" + rest }, kt)
		}
	}
	// "forever" includes restarts: the keeper's store is a committed one
	checkPersistentStoresOnly(p, r, func(rule, rest string) string { return rule + ":C01:" + rest }, "records kept there are gone after a restart")
	wireAolStore(p, r, "C01")
	checkInitGenesisCallers(p, r, "C01", "x/aol")
	r.Floor("in-loop-decode-targets(x/aol)", checkLoopFreshDecode(p, r, "C01", func(fn *ssa.Function) bool { return InPkgs(fn, "x/aol/keeper", "x/aol/types") }), 2)
	checkNoLanguageDowngrade(p, r, "C01")
	checkModuleExtensionInterfaces(p, r, "C01", []string{"x/aol"})
}
