package main

// UNORDERED — no binary encoding of a message that carries a protobuf map in block-processing code.
//
// gogoproto's generated Marshal writes the entries of a map field in Go's map iteration order (the module's .proto files do not
// set stable_marshaler), so the bytes of such a message differ from run to run and from node to node. JSON rendering sorts map
// keys and is unaffected. The rule: in the scope given, no call of a binary marshalling entry point (codec Marshal*/MustMarshal*,
// proto.Marshal, a generated Marshal/MarshalTo method) has an argument whose message type reaches a map field.

import (
	"fmt"
	"go/types"
	"strings"

	"golang.org/x/tools/go/ssa"
)

func typeReachesMap(t types.Type, depth int, seen map[string]bool) (string, bool) {
	if depth > 6 {
		return "", false
	}
	switch x := t.(type) {
	case *types.Pointer:
		return typeReachesMap(x.Elem(), depth, seen)
	case *types.Slice:
		return typeReachesMap(x.Elem(), depth+1, seen)
	case *types.Array:
		return typeReachesMap(x.Elem(), depth+1, seen)
	case *types.Map:
		return "map", true
	case *types.Named:
		if seen[x.String()] {
			return "", false
		}
		seen[x.String()] = true
		if st, ok := x.Underlying().(*types.Struct); ok {
			for i := 0; i < st.NumFields(); i++ {
				f := st.Field(i)
				if strings.HasPrefix(f.Name(), "XXX_") {
					continue
				}
				if path, ok := typeReachesMap(f.Type(), depth+1, seen); ok {
					return f.Name() + "." + path, true
				}
			}
			return "", false
		}
		return typeReachesMap(x.Underlying(), depth, seen)
	}
	return "", false
}

func isBinaryMarshalEntry(cs CallSite) bool {
	cc := cs.Instr.Common()
	name := cs.Name
	if cc.IsInvoke() {
		m := cc.Method.Name()
		recv := shortPkg(cc.Value.Type().String())
		if strings.HasPrefix(recv, "sdk/codec.") && (strings.HasPrefix(m, "Marshal") || strings.HasPrefix(m, "MustMarshal")) && !strings.Contains(m, "JSON") && !strings.Contains(m, "Interface") {
			return true
		}
		if (m == "Marshal" || m == "MarshalTo" || m == "MarshalToSizedBuffer") && len(cc.Args) <= 1 {
			return true // proto.Message-like interface
		}
		return false
	}
	switch {
	case strings.HasSuffix(name, "proto.Marshal"):
		return true
	case strings.HasSuffix(name, ").Marshal") || strings.HasSuffix(name, ").MarshalTo") || strings.HasSuffix(name, ").MarshalToSizedBuffer"):
		return cs.Callee != nil && InModule(cs.Callee)
	case strings.Contains(name, "sdk/codec.") && (strings.Contains(name, ").Marshal") || strings.Contains(name, ").MustMarshal")) && !strings.Contains(name, "JSON"):
		return true
	}
	return false
}

func checkNoUnorderedEncoding(p *Prog, r *Report, kp func(string, string) string, scope []*ssa.Function) {
	rule := "bytes produced in block processing are the same on every node: no binary encoding of a message that carries a protobuf map (generated Marshal emits map entries in Go's iteration order)"
	// control on the real types
	ctl := ""
	if gs := p.Named(Rel("x/did/types"), "GenesisState"); gs != nil {
		if _, ok := typeReachesMap(gs, 0, map[string]bool{}); ok {
			ctl += "1"
		}
	}
	if dd := p.Named(Rel("x/did/types"), "DIDDocumentWithSeq"); dd != nil {
		if _, ok := typeReachesMap(dd, 0, map[string]bool{}); !ok {
			ctl += "1"
		}
	}
	r.Check(ctl == "11", kp("ORDER", "unordered-encoding:control"), "control: the type walk finds the map in x/did GenesisState and none in DIDDocumentWithSeq", Rel("x/did/types"), "map found in GenesisState, none in DIDDocumentWithSeq", "type walk gives "+ctl+", expected 11: the matcher is broken")
	n, bad := 0, 0
	for _, fn := range scope {
		if fn.Blocks == nil || p.IsGenerated(fn) {
			continue
		}
		for _, cs := range callSites(fn) {
			if !isBinaryMarshalEntry(cs) {
				continue
			}
			cc := cs.Instr.Common()
			var cands []ssa.Value
			if cc.IsInvoke() && !strings.HasPrefix(shortPkg(cc.Value.Type().String()), "sdk/codec.") {
				cands = append(cands, cc.Value)
			}
			cands = append(cands, cc.Args...)
			n++
			for _, a := range cands {
				t := a.Type()
				if mi, ok := a.(*ssa.MakeInterface); ok {
					t = mi.X.Type()
				}
				if path, ok := typeReachesMap(t, 0, map[string]bool{}); ok {
					bad++
					r.Fail(kp("ORDER", "unordered-encoding:"+FuncName(fn)+"→"+cs.Name), rule, p.Pos(cs.Instr.Pos()),
						fmt.Sprintf("%s binary-encodes a %s, which carries a map (%s): the generated Marshal writes the entries in Go's map iteration order, so the bytes (and anything derived from them: a stored value, a hash, an event) differ between nodes and between runs", FuncName(fn), shortPkg(t.String()), path))
				}
			}
		}
	}
	if bad == 0 {
		r.OK(kp("ORDER", "unordered-encoding#none"), rule, "x/*", fmt.Sprintf("%d binary marshalling calls in scope, none on a message type that reaches a map field", n))
	}
	r.Floor("binary-marshal-calls-in-consensus-scope", n, 1)
}
