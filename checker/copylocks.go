package main

// COPYLOCK — a value that contains a lock is never copied (C20).
//
// Calling a method with a value receiver on a struct that holds a sync.Mutex/RWMutex (or passing/returning/assigning such a
// struct by value) copies the lock: the callee locks its own copy, the exclusion between goroutines is gone and a lock copied
// while held stays locked for ever in the copy. Single-goroutine use never shows it.

import (
	"fmt"
	"go/types"
	"strings"

	"golang.org/x/tools/go/ssa"
)

func containsLock(t types.Type, depth int, seen map[types.Type]bool) string {
	if depth > 6 || seen[t] {
		return ""
	}
	seen[t] = true
	switch x := t.(type) {
	case *types.Named:
		if x.Obj().Pkg() != nil {
			switch x.Obj().Pkg().Path() + "." + x.Obj().Name() {
			case "sync.Mutex", "sync.RWMutex", "sync.WaitGroup", "sync.Once", "sync.Cond", "sync.Map", "sync.Pool",
				"sync/atomic.Value", "sync/atomic.Int32", "sync/atomic.Int64", "sync/atomic.Uint32", "sync/atomic.Uint64", "sync/atomic.Bool", "sync/atomic.Pointer":
				return x.Obj().Pkg().Path() + "." + x.Obj().Name()
			}
		}
		return containsLock(x.Underlying(), depth+1, seen)
	case *types.Struct:
		for i := 0; i < x.NumFields(); i++ {
			if l := containsLock(x.Field(i).Type(), depth+1, seen); l != "" {
				return l
			}
		}
	case *types.Array:
		return containsLock(x.Elem(), depth+1, seen)
	}
	return ""
}

func lockIn(t types.Type) string { return containsLock(t, 0, map[types.Type]bool{}) }

// copyLockSites lists the places of fn where a lock-containing value is copied.
func copyLockSites(fn *ssa.Function) []string {
	var out []string
	// by-value receiver / parameters / results
	sig := fn.Signature
	if rv := sig.Recv(); rv != nil {
		if l := lockIn(rv.Type()); l != "" {
			out = append(out, fmt.Sprintf("value receiver of type %s contains %s", shortPkg(rv.Type().String()), l))
		}
	}
	for i := 0; i < sig.Params().Len(); i++ {
		if l := lockIn(sig.Params().At(i).Type()); l != "" {
			out = append(out, fmt.Sprintf("parameter %s of type %s is passed by value and contains %s", sig.Params().At(i).Name(), shortPkg(sig.Params().At(i).Type().String()), l))
		}
	}
	for i := 0; i < sig.Results().Len(); i++ {
		if l := lockIn(sig.Results().At(i).Type()); l != "" {
			out = append(out, fmt.Sprintf("result of type %s is returned by value and contains %s", shortPkg(sig.Results().At(i).Type().String()), l))
		}
	}
	// whole-value loads of a lock-containing struct that are stored or passed on (x := *p)
	for _, b := range fn.Blocks {
		for _, in := range b.Instrs {
			st, ok := in.(*ssa.Store)
			if !ok {
				continue
			}
			if l := lockIn(st.Val.Type()); l != "" {
				if _, isLit := st.Val.(*ssa.Const); isLit {
					continue // zero value
				}
				if u, isLoad := st.Val.(*ssa.UnOp); isLoad {
					if _, fromAlloc := u.X.(*ssa.Alloc); fromAlloc && strings.Contains(u.X.(*ssa.Alloc).Comment, "complit") {
						continue // composite literal being built
					}
					out = append(out, fmt.Sprintf("a value of type %s (contains %s) is copied by assignment", shortPkg(st.Val.Type().String()), l))
				}
			}
		}
	}
	return out
}

const copyLockFixture = `package lockcopyfx

import "sync"

type S struct {
	mu sync.RWMutex
	n  int
}

func (s S) Bad() int   { s.mu.RLock(); defer s.mu.RUnlock(); return s.n }
func (s *S) Good() int { s.mu.RLock(); defer s.mu.RUnlock(); return s.n }
func ByValue(s S) int  { return s.n }
func ByPtr(s *S) int   { return s.n }
`

func checkCopyLocks(p *Prog, r *Report, clause string) {
	kp := func(rule, rest string) string { return rule + ":" + clause + ":" + rest }
	rule := "a struct that contains a lock is handled through a pointer only (no value receiver, by-value parameter/result or assignment copy)"
	nLockTypes := 0
	seenT := map[string]bool{}
	nBad := 0
	for _, fn := range p.ModFuncs {
		if p.IsGenerated(fn) || InPkgs(fn, "types/testsuite") || fn.Synthetic != "" {
			continue
		}
		if rv := fn.Signature.Recv(); rv != nil {
			t := rv.Type()
			if pt, ok := t.Underlying().(*types.Pointer); ok {
				t = pt.Elem()
			}
			if lockIn(t) != "" && !seenT[t.String()] {
				seenT[t.String()] = true
				nLockTypes++
			}
		}
		for _, site := range copyLockSites(fn) {
			nBad++
			r.Fail(kp("LOCK", "copy:"+FuncName(fn)+"#"+strings.SplitN(site, " ", 3)[0]+"-"+strings.SplitN(site, " ", 3)[1]), rule, p.FnPos(fn),
				FuncName(fn)+": "+site+": the callee works on a private copy of the lock, so it neither excludes nor is excluded by the goroutines using the original")
		}
	}
	r.Floor("lock-holding-module-types(control)", nLockTypes, 1)
	if nBad == 0 {
		r.OK(kp("LOCK", "copy#none"), rule, "x/*, app/*", fmt.Sprintf("%d module types hold a lock; none of their values is copied", nLockTypes))
	}
	key := kp("LOCK", "copy#control")
	fx, err := buildFixture(p, "lockcopyfx", copyLockFixture)
	if err != nil {
		r.Undecided(key, "positive control for the lock-copy rule", "checker/copylocks.go", "fixture does not build: "+err.Error())
		return
	}
	got := fmt.Sprintf("%d/%d/%d/%d", len(copyLockSites(fx["S.Bad"])), len(copyLockSites(fx["S.Good"])), len(copyLockSites(fx["ByValue"])), len(copyLockSites(fx["ByPtr"])))
	r.Check(got == "1/0/1/0", key, "positive control: a value receiver and a by-value parameter of a lock-holding struct are flagged, pointer forms are not", "checker/copylocks.go (in-memory fixture, not executed)",
		"fixture sites "+got, "fixture sites "+got+", expected 1/0/1/0: the matcher is broken")
}
