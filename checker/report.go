package main

import (
	"encoding/json"
	"fmt"
	"os"
	"path/filepath"
	"sort"
	"strings"
	"time"
)

// loadSeconds: time spent loading, type-checking and building SSA for the repository (shared by all properties of one invocation).
var loadSeconds float64

// Ob is one obligation: a rule instance attached to a construct.
type Ob struct {
	Key        string      `json:"key"`
	Rule       string      `json:"rule"`
	Site       string      `json:"site"`
	Verdict    string      `json:"verdict"` // discharged | violated | undecided | known-finding
	Why        string      `json:"why,omitempty"`
	Witness    interface{} `json:"witness,omitempty"`
	Nontrivial bool        `json:"-"`
}

// Report collects what one property check did.
type Report struct {
	Prop     string
	Tier     string
	Seed     int64
	Start    time.Time
	Obs      []*Ob
	Notes    []string
	Counts   map[string]int
	Explain  string
	NotDec   []string
	Trusted  []string
	Assume   []string
	keys     map[string]bool
	known    map[string]KnownFinding
	EvidDir  string
	Replayed bool
}

type KnownFinding struct {
	Property string `json:"property"`
	Key      string `json:"key"`
	Status   string `json:"status"` // known | fixed
	Commit   string `json:"commit,omitempty"`
	What     string `json:"what"`
}

func NewReport(prop, tier string, seed int64, verifDir string) *Report {
	r := &Report{Prop: prop, Tier: tier, Seed: seed, Start: time.Now(), Counts: map[string]int{},
		keys: map[string]bool{}, known: map[string]KnownFinding{}, EvidDir: filepath.Join(verifDir, "evidence")}
	// known findings: committed file, read-only at run time
	bz, err := os.ReadFile(filepath.Join(verifDir, "known_findings.json"))
	if err == nil {
		var kf struct {
			Findings []KnownFinding `json:"findings"`
		}
		if json.Unmarshal(bz, &kf) == nil {
			for _, f := range kf.Findings {
				if f.Property == prop && f.Status == "known" {
					r.known[f.Key] = f
				}
			}
		}
	}
	return r
}

func (r *Report) add(o *Ob) *Ob {
	if r.keys[o.Key] {
		// keys must be unique per construct; disambiguate deterministically
		for i := 2; ; i++ {
			k := fmt.Sprintf("%s~%d", o.Key, i)
			if !r.keys[k] {
				o.Key = k
				break
			}
		}
	}
	r.keys[o.Key] = true
	r.Obs = append(r.Obs, o)
	return o
}

// OK records a discharged obligation that needed a non-constant argument (provenance, dominance, reachability).
func (r *Report) OK(key, rule, site, why string, witness ...interface{}) {
	o := &Ob{Key: key, Rule: rule, Site: site, Verdict: "discharged", Why: why, Nontrivial: true}
	if len(witness) > 0 {
		o.Witness = witness[0]
	}
	r.add(o)
}

// OKTrivial records a discharged obligation that is a plain table/constant comparison.
func (r *Report) OKTrivial(key, rule, site, why string) {
	r.add(&Ob{Key: key, Rule: rule, Site: site, Verdict: "discharged", Why: why})
}

func (r *Report) Fail(key, rule, site, why string, witness ...interface{}) {
	o := &Ob{Key: key, Rule: rule, Site: site, Verdict: "violated", Why: why, Nontrivial: true}
	if len(witness) > 0 {
		o.Witness = witness[0]
	}
	r.add(o)
}

func (r *Report) Undecided(key, rule, site, why string) {
	r.add(&Ob{Key: key, Rule: rule, Site: site, Verdict: "undecided", Why: why, Nontrivial: true})
}

// Check is a convenience: ok ? OK : Fail.
func (r *Report) Check(ok bool, key, rule, site, whyOK, whyFail string, witness ...interface{}) bool {
	if ok {
		r.OK(key, rule, site, whyOK, witness...)
	} else {
		r.Fail(key, rule, site, whyFail, witness...)
	}
	return ok
}

func (r *Report) Note(format string, a ...interface{}) {
	r.Notes = append(r.Notes, fmt.Sprintf(format, a...))
}

// Floor fails closed when fewer instances than hand-confirmed were found.
func (r *Report) Floor(name string, got, min int) {
	r.Counts[name] = got
	key := "FLOOR:" + r.Prop + ":" + name
	if got < min {
		r.Fail(key, "vacuity guard: instance count must not fall below the hand-confirmed floor", "-",
			fmt.Sprintf("found %d instances of %q, floor is %d: the matcher stopped matching or the construct was removed", got, name, min))
	} else {
		r.OKTrivial(key, "vacuity guard", "-", fmt.Sprintf("%d >= %d", got, min))
	}
}

func (r *Report) Count(name string, n int) { r.Counts[name] = n }

// Finish prints the obligations, writes the evidence file and returns the exit code.
func (r *Report) Finish() int {
	wall := time.Since(r.Start).Seconds() + loadSeconds
	if r.Assume == nil {
		r.Assume = []string{}
	}
	if r.NotDec == nil {
		r.NotDec = []string{}
	}
	if r.Trusted == nil {
		r.Trusted = []string{}
	}
	if r.Notes == nil {
		r.Notes = []string{}
	}
	sort.SliceStable(r.Obs, func(i, j int) bool { return r.Obs[i].Key < r.Obs[j].Key })
	viol, knownN, disch, nontriv := 0, 0, 0, 0
	var out []string
	for _, o := range r.Obs {
		switch o.Verdict {
		case "violated", "undecided":
			if kf, ok := r.known[o.Key]; ok {
				o.Verdict = "known-finding"
				knownN++
				out = append(out, fmt.Sprintf("KNOWN-FINDING: property=%s %s [%s] %s", r.Prop, kf.What, o.Key, o.Site))
			} else {
				viol++
				tag := "VIOLATED"
				if o.Verdict == "undecided" {
					tag = "UNDECIDED"
				}
				out = append(out, fmt.Sprintf("%s %s %s -- %s", tag, o.Key, o.Site, o.Why))
			}
		default:
			disch++
			if os.Getenv("PVERIF_VERBOSE") != "" {
				out = append(out, fmt.Sprintf("OK %s %s -- %s", o.Key, o.Site, o.Why))
			}
		}
		if o.Nontrivial {
			nontriv++
		}
	}
	for _, n := range r.Notes {
		out = append(out, "NOTE "+n)
	}
	for _, l := range out {
		fmt.Println(l)
	}
	// samples: all failing obligations plus up to 40 discharged non-trivial ones
	var samples []*Ob
	for _, o := range r.Obs {
		if o.Verdict != "discharged" {
			samples = append(samples, o)
		}
	}
	n := 0
	for _, o := range r.Obs {
		if o.Verdict == "discharged" && o.Nontrivial && n < 40 {
			samples = append(samples, o)
			n++
		}
	}
	if len(samples) == 0 {
		for i, o := range r.Obs {
			if i < 10 {
				samples = append(samples, o)
			}
		}
	}
	allKeys := make([]string, 0, len(r.Obs))
	for _, o := range r.Obs {
		allKeys = append(allKeys, o.Verdict[:1]+" "+o.Key)
	}
	ruleGroups := map[string]int{}
	for _, o := range r.Obs {
		k := o.Key
		if i := strings.Index(k, ":"); i > 0 {
			k = k[:i]
		}
		ruleGroups[k]++
	}
	ev := map[string]interface{}{
		"property_id": r.Prop,
		"tier":        r.Tier,
		"seed":        r.Seed,
		"level":       "other",
		"wall_s":      wall,
		"violations":  viol,
		"assumptions": r.Assume,
		"coverage": map[string]interface{}{
			"explanation":         r.Explain + " — Beyond the clauses named here, the rules added while arming independently seeded changes (DESIGN.md 8.5, rounds 1-11) are evaluated on every run; each evaluated rule instance is listed under obligation_keys (prefix d = discharged, v = violated, k = known finding, u = undecided) and counted per rule kind under rule_groups.",
			"rule_groups":         ruleGroups,
			"obligations":         len(r.Obs),
			"discharged":          disch,
			"evaluations":         len(r.Obs),
			"distinct_nontrivial": nontriv,
			"rule":                "one obligation per rule instance (rule + resolved construct); non-trivial = needed provenance, dominance, call-graph or language reasoning to decide (plain count floors are trivial)",
			"samples":             samples,
			"obligation_keys":     allKeys,
			"instance_counts":     r.Counts,
			"not_decided":         r.NotDec,
			"trusted_base":        r.Trusted,
			"known_findings":      knownN,
			"notes":               r.Notes,
			"checker_cmd":         "bin/pverif check " + r.Prop + " --tier " + r.Tier,
			"exhaustive":          true,
		},
	}
	bz, _ := json.MarshalIndent(ev, "", " ")
	os.MkdirAll(r.EvidDir, 0o755)
	path := filepath.Join(r.EvidDir, r.Prop+".json")
	if err := os.WriteFile(path, bz, 0o644); err != nil {
		fmt.Println("cannot write evidence:", err)
		viol++
	}
	fmt.Printf("SUMMARY property=%s tier=%s obligations=%d discharged=%d violated=%d known=%d nontrivial=%d wall=%.1fs\n",
		r.Prop, r.Tier, len(r.Obs), disch, viol, knownN, nontriv, wall)
	if viol > 0 {
		fmt.Printf("VIOLATION property=%s replay=%s\n", r.Prop, path)
		return 1
	}
	return 0
}

func shortPkg(s string) string {
	s = strings.ReplaceAll(s, ModPath+"/", "")
	s = strings.ReplaceAll(s, SDK+"/", "sdk/")
	return s
}
