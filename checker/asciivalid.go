package main

// ASCII-range validators: a function `func(s string) error` that walks every byte of s and returns an error unless the byte lies
// in a constant range below 0x80. A string it accepts is pure ASCII, hence valid UTF-8 (and contains no U+FFFD).

import (
	"go/token"
	"go/types"

	"golang.org/x/tools/go/ssa"
)

var asciiValidatorMemo = map[*ssa.Function]int{}

func asciiOnlyValidator(fn *ssa.Function) bool {
	if fn == nil || fn.Blocks == nil || len(fn.Params) != 1 {
		return false
	}
	if v := asciiValidatorMemo[fn]; v != 0 {
		return v == 1
	}
	ok := asciiOnlyValidatorBody(fn)
	if ok {
		asciiValidatorMemo[fn] = 1
	} else {
		asciiValidatorMemo[fn] = 2
	}
	return ok
}

func asciiOnlyValidatorBody(fn *ssa.Function) bool {
	s := fn.Params[0]
	if b, ok := s.Type().Underlying().(*types.Basic); !ok || b.Info()&types.IsString == 0 {
		return false
	}
	res := fn.Signature.Results()
	if res.Len() != 1 || res.At(0).Type().String() != "error" {
		return false
	}
	// the byte read: s[i] with i a loop-carried index starting at 0, advancing by 1, tested against len(s)
	// s[i] is an Index (strings, arrays) or, in older go/ssa, a Lookup
	byteRead := func(v ssa.Value) (ssa.Value, bool) {
		switch x := v.(type) {
		case *ssa.Lookup:
			if x.X == ssa.Value(s) {
				return x.Index, true
			}
		case *ssa.Index:
			if x.X == ssa.Value(s) {
				return x.Index, true
			}
		}
		return nil, false
	}
	var lookIdx ssa.Value
	for _, b := range fn.Blocks {
		for _, in := range b.Instrs {
			v, isV := in.(ssa.Value)
			if !isV {
				continue
			}
			if idx, ok := byteRead(v); ok {
				if lookIdx != nil && lookIdx != idx {
					return false
				}
				lookIdx = idx
			}
		}
	}
	if lookIdx == nil {
		return false
	}
	phi, ok := lookIdx.(*ssa.Phi)
	if !ok {
		return false
	}
	header := phi.Block()
	startsAtZero, stepsByOne := false, false
	for k, e := range phi.Edges {
		if header.Dominates(header.Preds[k]) {
			d := LinOf(e).Sub(LinOf(phi))
			stepsByOne = d.IsConst(1)
		} else if c, isC := e.(*ssa.Const); isC && c.Value != nil && c.Value.ExactString() == "0" {
			startsAtZero = true
		}
	}
	hif, ok := header.Instrs[len(header.Instrs)-1].(*ssa.If)
	if !ok || !startsAtZero || !stepsByOne {
		return false
	}
	hc, ok := hif.Cond.(*ssa.BinOp)
	if !ok || hc.Op != token.LSS || hc.X != ssa.Value(phi) {
		return false
	}
	if lc, ok := hc.Y.(*ssa.Call); !ok || calleeName(&lc.Call) != "builtin:len" || lc.Call.Args[0] != ssa.Value(s) {
		return false
	}
	// every success return lies behind the loop's exhaustion edge
	for _, ret := range returnsOf(fn) {
		if isNilConst(ret.Results[0]) {
			if !(header.Succs[1] == ret.Block() || header.Succs[1].Dominates(ret.Block())) {
				return false
			}
		}
	}
	// the comparisons of the byte with constants whose true branch fails
	lo, hi := int64(0), int64(255)
	isByte := func(v ssa.Value) bool {
		for {
			switch x := v.(type) {
			case *ssa.Convert:
				v = x.X
				continue
			case *ssa.ChangeType:
				v = x.X
				continue
			}
			break
		}
		idx, ok := byteRead(v)
		return ok && idx == lookIdx
	}
	for _, b := range fn.Blocks {
		iff, ok := b.Instrs[len(b.Instrs)-1].(*ssa.If)
		if !ok {
			continue
		}
		bo, ok := iff.Cond.(*ssa.BinOp)
		if !ok {
			continue
		}
		var c *ssa.Const
		op := bo.Op
		switch {
		case isByte(bo.X):
			c, _ = bo.Y.(*ssa.Const)
		case isByte(bo.Y):
			c, _ = bo.X.(*ssa.Const)
			switch op { // c OP byte  ≡  byte OP' c
			case token.LSS:
				op = token.GTR
			case token.GTR:
				op = token.LSS
			case token.LEQ:
				op = token.GEQ
			case token.GEQ:
				op = token.LEQ
			}
		}
		if c == nil || c.Value == nil {
			continue
		}
		k := c.Int64()
		failsTrue, failsFalse := blockFails(b.Succs[0], 0), blockFails(b.Succs[1], 0)
		if failsTrue == failsFalse {
			continue
		}
		if failsFalse { // the condition must hold to go on: negate
			switch op {
			case token.LSS:
				op = token.GEQ
			case token.GTR:
				op = token.LEQ
			case token.LEQ:
				op = token.GTR
			case token.GEQ:
				op = token.LSS
			default:
				continue
			}
		}
		// now: byte OP k  ⇒ error
		switch op {
		case token.LSS:
			if k > lo {
				lo = k
			}
		case token.LEQ:
			if k+1 > lo {
				lo = k + 1
			}
		case token.GTR:
			if k < hi {
				hi = k
			}
		case token.GEQ:
			if k-1 < hi {
				hi = k - 1
			}
		}
	}
	return hi < 0x80 && lo <= hi
}
