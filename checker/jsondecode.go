package main

// JSONDEC — hand-written UnmarshalJSON methods decode through the JSON library only.
//
// The genesis file (and every JSON rendering of a DID document) is written by encoding/json / jsonpb: strings are escaped
// (& for &, \" for a quote, \\ …). A hand-written UnmarshalJSON that is the inverse of its MarshalJSON on every value takes
// its values from json.Unmarshal / jsonpb.Unmarshal / strconv.Unquote; one that cuts a value out of the raw input bytes is the
// inverse only for strings that need no escaping. Rule: in every hand-written UnmarshalJSON of a module type, the input bytes
// (and slices of them) are only handed to the reviewed decoders and inspectors; they are never converted to a string or copied
// by hand.

import (
	"fmt"
	"go/token"
	"go/types"
	"sort"
	"strings"

	"golang.org/x/tools/go/ssa"
)

var jsonInputSinks = map[string]string{
	"encoding/json.Unmarshal":  "decoder",
	"encoding/json.Valid":      "inspector",
	"encoding/json.NewDecoder": "decoder",
	"bytes.NewReader":          "reader for a decoder",
	"bytes.NewBuffer":          "reader for a decoder",
	"bytes.TrimSpace":          "derived input",
	"bytes.HasPrefix":          "inspector",
	"bytes.HasSuffix":          "inspector",
	"bytes.Equal":              "inspector",
	"strconv.Unquote":          "decoder",
}

// rawInputUses lists the uses of fn's idx-th parameter (a []byte holding JSON) that take a value out of it by hand.
func rawInputUses(p *Prog, fn *ssa.Function, idx int) []string {
	var bad []string
	seen := map[ssa.Value]bool{}
	var visit func(v ssa.Value)
	visit = func(v ssa.Value) {
		if seen[v] {
			return
		}
		seen[v] = true
		refs := v.Referrers()
		if refs == nil {
			return
		}
		for _, rf := range *refs {
			switch x := rf.(type) {
			case *ssa.DebugRef:
			case *ssa.Slice:
				visit(x) // a part of the input is still raw input
			case *ssa.Phi:
				visit(x)
			case *ssa.IndexAddr:
				// peeking at single bytes to tell the forms apart is fine; writing is not
				for _, r2 := range *x.Referrers() {
					if st, ok := r2.(*ssa.Store); ok && st.Addr == ssa.Value(x) {
						bad = append(bad, "writes into the input at "+p.Pos(st.Pos()))
					}
				}
			case *ssa.Store:
				if x.Val == v {
					if al, ok := x.Addr.(*ssa.Alloc); ok {
						// spilled to a local (re-assigned parameter): follow the loads
						for _, r2 := range *al.Referrers() {
							if u, ok := r2.(*ssa.UnOp); ok && u.Op == token.MUL {
								visit(u)
							}
						}
						continue
					}
					bad = append(bad, "stores the raw input bytes at "+p.Pos(x.Pos()))
				}
			case *ssa.Convert:
				if b, ok := x.Type().Underlying().(*types.Basic); ok && b.Info()&types.IsString != 0 {
					// string(raw) is acceptable only as the argument of a decoder
					okAll := true
					if xr := x.Referrers(); xr != nil {
						for _, r2 := range *xr {
							if _, isDbg := r2.(*ssa.DebugRef); isDbg {
								continue
							}
							c, isCall := r2.(ssa.CallInstruction)
							if !isCall || c.Common().StaticCallee() == nil || jsonInputSinks[FuncName(c.Common().StaticCallee())] != "decoder" {
								okAll = false
							}
						}
					}
					if !okAll {
						bad = append(bad, "converts raw input bytes to a string at "+p.Pos(x.Pos())+" (escape sequences are not decoded)")
					}
				} else {
					visit(x)
				}
			case *ssa.MakeInterface:
				visit(x)
			case ssa.CallInstruction:
				cc := x.Common()
				if bi, ok := cc.Value.(*ssa.Builtin); ok {
					switch bi.Name() {
					case "len", "cap":
					case "copy", "append":
						bad = append(bad, "copies raw input bytes with "+bi.Name()+" at "+p.Pos(x.Pos()))
					}
					continue
				}
				sc := cc.StaticCallee()
				name := "dynamic call"
				if sc != nil {
					name = FuncName(sc)
				}
				kind, ok := jsonInputSinks[name]
				switch {
				case ok && kind == "derived input":
					if val := x.Value(); val != nil {
						visit(val)
					}
				case ok:
				case sc != nil && InModule(sc) && !p.IsGenerated(sc):
					// a module helper: the same rule for its parameter
					for i, a := range cc.Args {
						if a == v {
							for _, b := range rawInputUses(p, sc, i) {
								bad = append(bad, FuncName(sc)+": "+b)
							}
						}
					}
				default:
					bad = append(bad, "hands the raw input to "+name+" at "+p.Pos(x.Pos())+" (not one of the reviewed JSON decoders/inspectors)")
				}
			case *ssa.BinOp, *ssa.UnOp, *ssa.If, *ssa.Index, *ssa.Lookup:
			default:
				bad = append(bad, fmt.Sprintf("uses the raw input in %T at %s", rf, p.Pos(rf.Pos())))
			}
		}
	}
	if idx < len(fn.Params) {
		visit(fn.Params[idx])
	}
	sort.Strings(bad)
	return bad
}

const jsonDecFixture = `package jsondecfx

import "encoding/json"

type A struct{ S string }

func (a *A) ViaLibrary(bz []byte) error {
	var s string
	if err := json.Unmarshal(bz, &s); err != nil {
		return err
	}
	a.S = s
	return nil
}

func (a *A) ByHand(bz []byte) error {
	if len(bz) >= 2 && bz[0] == '"' && json.Valid(bz) {
		a.S = string(bz[1 : len(bz)-1])
		return nil
	}
	return json.Unmarshal(bz, &a.S)
}
`

// checkJSONDecoders applies JSONDEC to every hand-written UnmarshalJSON of the module's type packages.
func checkJSONDecoders(p *Prog, r *Report, clause string) {
	rule := "a hand-written UnmarshalJSON takes its values from the JSON library (json.Unmarshal, jsonpb, strconv.Unquote), never from the raw input bytes: it must invert json.Marshal on every string, also those that are escaped in the file"
	key0 := "JSONDEC:" + clause + ":control#fixture"
	if fx, err := buildFixture(p, "jsondecfx", jsonDecFixture); err != nil {
		r.Undecided(key0, "positive control for the JSON decoder rule", "checker/jsondecode.go", "fixture does not build: "+err.Error())
	} else {
		got := fmt.Sprintf("%d/%d", len(rawInputUses(p, fx["A.ViaLibrary"], 1)), len(rawInputUses(p, fx["A.ByHand"], 1)))
		r.Check(got == "0/1", key0, "positive control: cutting a string out of the raw input is reported, decoding through json.Unmarshal is not", "checker/jsondecode.go (in-memory fixture, not executed)",
			"fixture findings "+got, "fixture findings "+got+", expected 0/1: the matcher is broken")
	}
	n := 0
	for _, fn := range p.ModFuncs {
		if fn.Name() != "UnmarshalJSON" || fn.Signature.Recv() == nil || p.IsGenerated(fn) || !InPkgs(fn, "x") || len(fn.Params) != 2 {
			continue
		}
		n++
		key := "JSONDEC:" + clause + ":" + FuncName(fn)
		bad := rawInputUses(p, fn, 1)
		if len(bad) == 0 {
			r.OK(key, rule, p.FnPos(fn), "the input bytes only reach the JSON decoders and inspectors")
		} else {
			r.Fail(key, rule, p.FnPos(fn), FuncName(fn)+" "+strings.Join(bad, "; ")+": a value whose JSON form contains an escape (\\u0026, \\\", \\\\ …) is imported as the escaped text, so what is read back differs from what was exported")
		}
	}
	r.Floor("hand-written-UnmarshalJSON-methods", n, 1)
}
