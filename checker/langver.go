package main

// LANGVER — no file of the module lowers its language version below the module's.
//
// A `//go:build go1.21` line (or `// +build go1.21`) in a file of a `go 1.22` module does not only guard the file: it makes the
// compiler apply Go 1.21 *semantics* to that file — in particular `for` loop variables are shared between iterations again, so an
// unchanged `&v` inside a range loop (an export collecting pointers to the entries, the store loader taking
// `&u.StoreUpgrades` of the matched descriptor) points at one variable that ends up holding the last element. The type checker
// records the effective version per file (types.Info.FileVersions); the rule compares it with go.mod's.

import (
	"fmt"
	"go/version"
	"os"
	"path/filepath"
	"sort"
	"strings"
)

// moduleGoVersion: the `go` directive of the module, as "go1.N".
func (p *Prog) moduleGoVersion() string {
	for _, root := range p.Roots {
		if root.Module != nil && root.Module.GoVersion != "" {
			return "go" + root.Module.GoVersion
		}
	}
	// the loader was not asked for module information: read the directive from go.mod
	if bz, err := os.ReadFile(filepath.Join(p.RepoDir, "go.mod")); err == nil {
		for _, line := range strings.Split(string(bz), "\n") {
			f := strings.Fields(line)
			if len(f) == 2 && f[0] == "go" {
				return "go" + f[1]
			}
		}
	}
	return ""
}

func checkNoLanguageDowngrade(p *Prog, r *Report, clause string) {
	rule := "every file of the module is compiled with the module's language version: no //go:build go1.N line lowers it (per-iteration loop variables, on which `&v` inside range loops relies, are a go1.22 semantics)"
	key := "LANGVER:" + clause + ":module-files"
	mv := p.moduleGoVersion()
	if mv == "" {
		r.Undecided(key, rule, "go.mod", "the module's go version is not known to the loader")
		return
	}
	var low []string
	n := 0
	for _, root := range p.Roots {
		if root.TypesInfo == nil || !strings.HasPrefix(root.PkgPath, ModPath) {
			continue
		}
		for _, f := range root.Syntax {
			n++
			fv := root.TypesInfo.FileVersions[f]
			if fv == "" {
				continue // no file-level constraint: the module's version applies
			}
			if version.Compare(fv, mv) < 0 {
				name := p.Fset.Position(f.Pos()).Filename
				if rel, err := filepath.Rel(p.RepoDir, name); err == nil {
					name = rel
				}
				low = append(low, fmt.Sprintf("%s (%s)", name, fv))
			}
		}
	}
	sort.Strings(low)
	r.Check(len(low) == 0, key, rule, "go.mod: "+mv,
		fmt.Sprintf("%d files, none below %s", n, mv),
		fmt.Sprintf("files compiled with an older language version than the module's %s: %s — in those files a `for` loop has ONE variable shared by all iterations, so `&v` taken in a loop body (pointers collected by a genesis export, the StoreUpgrades handed to the store loader) all alias the last element", mv, strings.Join(low, ", ")))
	r.Floor("module-files-with-version-info", n, 100)
}
