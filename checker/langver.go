package main

// LANGVER — no file of the module lowers its language version below the module's.
//
// A `//go:build go1.21` line (or `// +build go1.21`) in a file of a `go 1.22` module does not only guard the file: it makes the
// compiler apply Go 1.21 *semantics* to that file — in particular `for` loop variables are shared between iterations again, so an
// unchanged `&v` inside a range loop (an export collecting pointers to the entries, the store loader taking
// `&u.StoreUpgrades` of the matched descriptor) points at one variable that ends up holding the last element. The type checker
// records the effective version per file (types.Info.FileVersions); the rule compares it with go.mod's.

import (
	"fmt"
	"go/build/constraint"
	"go/parser"
	"go/token"
	"go/version"
	"os"
	"path/filepath"
	"sort"
	"strings"
)

// moduleGoVersion: the `go` directive of the module, as "go1.N".
func (p *Prog) moduleGoVersion() string {
	for _, root := range p.Roots {
		if root.Module != nil && root.Module.GoVersion != "" {
			return "go" + root.Module.GoVersion
		}
	}
	// the loader was not asked for module information: read the directive from go.mod
	if bz, err := os.ReadFile(filepath.Join(p.RepoDir, "go.mod")); err == nil {
		for _, line := range strings.Split(string(bz), "\n") {
			f := strings.Fields(line)
			if len(f) == 2 && f[0] == "go" {
				return "go" + f[1]
			}
		}
	}
	return ""
}

func checkNoLanguageDowngrade(p *Prog, r *Report, clause string) {
	rule := "every file of the module is compiled with the module's language version: no //go:build go1.N line lowers it (per-iteration loop variables, on which `&v` inside range loops relies, are a go1.22 semantics)"
	key := "LANGVER:" + clause + ":module-files"
	mv := p.moduleGoVersion()
	if mv == "" {
		r.Undecided(key, rule, "go.mod", "the module's go version is not known to the loader")
		return
	}
	var low []string
	n := 0
	for _, root := range p.Roots {
		if root.TypesInfo == nil || !strings.HasPrefix(root.PkgPath, ModPath) {
			continue
		}
		for _, f := range root.Syntax {
			n++
			fv := root.TypesInfo.FileVersions[f]
			if fv == "" {
				continue // no file-level constraint: the module's version applies
			}
			if version.Compare(fv, mv) < 0 {
				name := p.Fset.Position(f.Pos()).Filename
				if rel, err := filepath.Rel(p.RepoDir, name); err == nil {
					name = rel
				}
				low = append(low, fmt.Sprintf("%s (%s)", name, fv))
			}
		}
	}
	sort.Strings(low)
	r.Check(len(low) == 0, key, rule, "go.mod: "+mv,
		fmt.Sprintf("%d files, none below %s", n, mv),
		fmt.Sprintf("files compiled with an older language version than the module's %s: %s — in those files a `for` loop has ONE variable shared by all iterations, so `&v` taken in a loop body (pointers collected by a genesis export, the StoreUpgrades handed to the store loader) all alias the last element", mv, strings.Join(low, ", ")))
	r.Floor("module-files-with-version-info", n, 100)

	// build constraints: a hand-written non-test file that is compiled only under some tag / OS / architecture hides an
	// alternative the analysis (and the test suite) never sees; a file that is excluded under the default configuration is not
	// analysed at all. Import-only files (the tools.go convention) carry no code and are exempt.
	var constrained, ignored []string
	for _, root := range p.Roots {
		if !strings.HasPrefix(root.PkgPath, ModPath) {
			continue
		}
		for _, f := range root.Syntax {
			name := p.Fset.Position(f.Pos()).Filename
			if strings.HasSuffix(name, "_test.go") || strings.HasSuffix(name, ".pb.go") || strings.HasSuffix(name, ".pb.gw.go") {
				continue
			}
			if tag := fileNameConstraint(name); tag != "" {
				rn := name
				if rel, err := filepath.Rel(p.RepoDir, name); err == nil {
					rn = rel
				}
				constrained = append(constrained, rn+" (file name implies "+tag+")")
			}
			for _, cg := range f.Comments {
				if cg.Pos() >= f.Package {
					break
				}
				for _, c := range cg.List {
					if constraint.IsGoBuild(c.Text) || constraint.IsPlusBuild(c.Text) {
						if x, err := constraint.Parse(c.Text); err == nil && onlyGoVersionTags(x) {
							continue // language-version constraints are judged above
						}
						if rel, err := filepath.Rel(p.RepoDir, name); err == nil {
							name = rel
						}
						constrained = append(constrained, name+" ("+strings.TrimSpace(c.Text)+")")
					}
				}
			}
		}
		for _, name := range root.IgnoredFiles {
			if !strings.HasSuffix(name, ".go") || strings.HasSuffix(name, "_test.go") {
				continue
			}
			if importOnlyFile(name) {
				continue
			}
			if rel, err := filepath.Rel(p.RepoDir, name); err == nil {
				name = rel
			}
			ignored = append(ignored, name)
		}
	}
	sort.Strings(constrained)
	sort.Strings(ignored)
	r.Check(len(constrained) == 0 && len(ignored) == 0, "LANGVER:"+clause+":build-constraints", "every hand-written file of the module is part of every build: no build constraint selects between alternatives, no file with code is excluded under the default configuration", "x/*, app/*, types/*, cmd/*",
		"no build-constrained or ignored source file", fmt.Sprintf("build-constrained files: %v; files excluded from the default build: %v — the code that runs depends on the build configuration, and what is excluded here is neither analysed nor tested", constrained, ignored))
}

func onlyGoVersionTags(x constraint.Expr) bool {
	ok := true
	var walk func(e constraint.Expr)
	walk = func(e constraint.Expr) {
		switch t := e.(type) {
		case *constraint.TagExpr:
			if !strings.HasPrefix(t.Tag, "go1.") {
				ok = false
			}
		case *constraint.NotExpr:
			walk(t.X)
		case *constraint.AndExpr:
			walk(t.X)
			walk(t.Y)
		case *constraint.OrExpr:
			walk(t.X)
			walk(t.Y)
		}
	}
	walk(x)
	return ok
}

// importOnlyFile: the file declares nothing but imports (tools.go convention).
func importOnlyFile(name string) bool {
	f, err := parser.ParseFile(token.NewFileSet(), name, nil, parser.ImportsOnly|parser.ParseComments)
	if err != nil {
		return false
	}
	full, err := parser.ParseFile(token.NewFileSet(), name, nil, 0)
	if err != nil {
		return false
	}
	return len(full.Decls) == len(f.Decls)
}

var knownGOOS = []string{"aix", "android", "darwin", "dragonfly", "freebsd", "hurd", "illumos", "ios", "js", "linux", "nacl", "netbsd", "openbsd", "plan9", "solaris", "wasip1", "windows", "zos", "unix"}
var knownGOARCH = []string{"386", "amd64", "arm", "arm64", "loong64", "mips", "mipsle", "mips64", "mips64le", "ppc64", "ppc64le", "riscv64", "s390x", "wasm"}

// fileNameConstraint: name_GOOS.go, name_GOARCH.go, name_GOOS_GOARCH.go are implicit build constraints.
func fileNameConstraint(path string) string {
	base := strings.TrimSuffix(filepath.Base(path), ".go")
	parts := strings.Split(base, "_")
	if len(parts) < 2 {
		return ""
	}
	last := parts[len(parts)-1]
	for _, a := range knownGOARCH {
		if last == a {
			return "GOARCH=" + a
		}
	}
	for _, o := range knownGOOS {
		if last == o && o != "unix" {
			return "GOOS=" + o
		}
	}
	return ""
}
