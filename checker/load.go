package main

import (
	"fmt"
	"go/ast"
	"go/token"
	"go/types"
	"os"
	"path/filepath"
	"sort"
	"strings"

	"golang.org/x/tools/go/packages"
	"golang.org/x/tools/go/ssa"
	"golang.org/x/tools/go/ssa/ssautil"
)

// ModPath is the module path of the repository under analysis.
const ModPath = "github.com/medibloc/panacea-core/v2"

// SDK is the import-path prefix of the Cosmos SDK.
const SDK = "github.com/cosmos/cosmos-sdk"

// Prog is the loaded, type-checked program plus its SSA form.
type Prog struct {
	RepoDir  string
	Fset     *token.FileSet
	Roots    []*packages.Package
	All      map[string]*packages.Package
	SSA      *ssa.Program
	ModFuncs []*ssa.Function // every source-level function of the module (incl. anonymous), generated files included
	funcFile map[*ssa.Function]string
}

// expectedRootPkgs is the floor for the number of module packages (hand-confirmed: 31).
const expectedRootPkgs = 31

func Load(repo string) (*Prog, error) {
	os.Unsetenv("GOWORK")
	cfg := &packages.Config{
		Mode:  packages.LoadAllSyntax,
		Dir:   repo,
		Tests: false,
		Env: append(os.Environ(), "GOFLAGS=-mod=mod", "GOPROXY=off", "GOSUMDB=off",
			"GOTOOLCHAIN=local", "GOWORK=off"),
	}
	roots, err := packages.Load(cfg, "./...")
	if err != nil {
		return nil, fmt.Errorf("packages.Load: %w", err)
	}
	if len(roots) == 0 {
		return nil, fmt.Errorf("no packages loaded from %s", repo)
	}
	p := &Prog{RepoDir: repo, Roots: roots, All: map[string]*packages.Package{}, funcFile: map[*ssa.Function]string{}}
	var errs []string
	packages.Visit(roots, nil, func(pkg *packages.Package) {
		p.All[pkg.PkgPath] = pkg
		for _, e := range pkg.Errors {
			errs = append(errs, fmt.Sprintf("%s: %s", pkg.PkgPath, e.Msg))
		}
		if pkg.Fset != nil {
			p.Fset = pkg.Fset
		}
	})
	if len(errs) > 0 {
		sort.Strings(errs)
		if len(errs) > 10 {
			errs = errs[:10]
		}
		return nil, fmt.Errorf("type/load errors (fail closed): %s", strings.Join(errs, "; "))
	}
	nmod := 0
	for _, r := range roots {
		if strings.HasPrefix(r.PkgPath, ModPath) {
			nmod++
		}
		if r.Types == nil || r.TypesInfo == nil || len(r.Syntax) == 0 && len(r.GoFiles) > 0 {
			return nil, fmt.Errorf("package %s has no syntax/types", r.PkgPath)
		}
	}
	if nmod < expectedRootPkgs {
		return nil, fmt.Errorf("only %d module packages loaded, expected at least %d", nmod, expectedRootPkgs)
	}
	prog, _ := ssautil.AllPackages(roots, ssa.InstantiateGenerics)
	prog.Build()
	p.SSA = prog

	for fn := range ssautil.AllFunctions(prog) {
		if fn.Pkg == nil && fn.Parent() == nil {
			// instantiations / wrappers without package: attribute through origin
			if o := fn.Origin(); o == nil || o.Pkg == nil {
				continue
			}
		}
		pk := fnPkg(fn)
		if pk == nil || !strings.HasPrefix(pk.Pkg.Path(), ModPath) {
			continue
		}
		if fn.Synthetic != "" && fn.Syntax() == nil {
			continue
		}
		if fn.Blocks == nil {
			continue
		}
		p.ModFuncs = append(p.ModFuncs, fn)
	}
	sort.Slice(p.ModFuncs, func(i, j int) bool { return p.ModFuncs[i].String() < p.ModFuncs[j].String() })
	progForFacts = p
	if len(p.ModFuncs) < 500 {
		return nil, fmt.Errorf("only %d module functions found; loader is broken", len(p.ModFuncs))
	}
	return p, nil
}

func fnPkg(fn *ssa.Function) *ssa.Package {
	for f := fn; f != nil; f = f.Parent() {
		if f.Pkg != nil {
			return f.Pkg
		}
		if o := f.Origin(); o != nil && o.Pkg != nil {
			return o.Pkg
		}
	}
	return nil
}

// Rel turns a module-relative package path ("x/aol/keeper") into an import path.
func Rel(rel string) string {
	if rel == "" {
		return ModPath
	}
	return ModPath + "/" + rel
}

func (p *Prog) SSAPkg(path string) *ssa.Package {
	pk := p.All[path]
	if pk == nil || pk.Types == nil {
		return nil
	}
	return p.SSA.Package(pk.Types)
}

// Pos renders a position relative to the repository root (or module cache root).
func (p *Prog) Pos(pos token.Pos) string {
	if !pos.IsValid() {
		return "?"
	}
	ps := p.Fset.Position(pos)
	return fmt.Sprintf("%s:%d", p.relFile(ps.Filename), ps.Line)
}

func (p *Prog) relFile(f string) string {
	if r, err := filepath.Rel(p.RepoDir, f); err == nil && !strings.HasPrefix(r, "..") {
		return r
	}
	if i := strings.Index(f, "/pkg/mod/"); i >= 0 {
		return f[i+len("/pkg/mod/"):]
	}
	return f
}

func (p *Prog) File(pos token.Pos) string {
	if !pos.IsValid() {
		return ""
	}
	return p.relFile(p.Fset.Position(pos).Filename)
}

// FnPos gives the position of a function (falls back to its first instruction).
func (p *Prog) FnPos(fn *ssa.Function) string {
	if fn.Pos().IsValid() {
		return p.Pos(fn.Pos())
	}
	if fn.Syntax() != nil {
		return p.Pos(fn.Syntax().Pos())
	}
	return "?"
}

// IsGenerated reports whether fn comes from a protobuf-generated file.
func (p *Prog) IsGenerated(fn *ssa.Function) bool {
	for f := fn; f != nil; f = f.Parent() {
		pos := f.Pos()
		if !pos.IsValid() && f.Syntax() != nil {
			pos = f.Syntax().Pos()
		}
		if pos.IsValid() {
			name := p.Fset.Position(pos).Filename
			return strings.HasSuffix(name, ".pb.go") || strings.HasSuffix(name, ".pb.gw.go")
		}
	}
	return false
}

// Named looks up a package-level named type.
func (p *Prog) Named(pkgPath, name string) *types.Named {
	pk := p.All[pkgPath]
	if pk == nil {
		return nil
	}
	o := pk.Types.Scope().Lookup(name)
	if o == nil {
		return nil
	}
	n, _ := o.Type().(*types.Named)
	return n
}

// Func looks up a package-level function.
func (p *Prog) Func(pkgPath, name string) *ssa.Function {
	sp := p.SSAPkg(pkgPath)
	if sp == nil {
		return nil
	}
	fn := sp.Func(name)
	// the genesis entry points may be thin wrappers around keeper methods: the rules analyse the function that does the work
	if fn != nil && (name == "InitGenesis" || name == "ExportGenesis") {
		return p.delegateOf(fn)
	}
	return fn
}

// FuncRaw: the function itself, without following a delegating wrapper.
func (p *Prog) FuncRaw(pkgPath, name string) *ssa.Function {
	sp := p.SSAPkg(pkgPath)
	if sp == nil {
		return nil
	}
	return sp.Func(name)
}

// Method looks up method `name` declared on named type `typ` (value or pointer receiver).
func (p *Prog) Method(pkgPath, typ, name string) *ssa.Function {
	n := p.Named(pkgPath, typ)
	if n == nil {
		return nil
	}
	for i := 0; i < n.NumMethods(); i++ {
		m := n.Method(i)
		if m.Name() == name {
			return p.SSA.FuncValue(m)
		}
	}
	return nil
}

// Global looks up a package-level variable.
func (p *Prog) Global(pkgPath, name string) *ssa.Global {
	sp := p.SSAPkg(pkgPath)
	if sp == nil {
		return nil
	}
	g, _ := sp.Members[name].(*ssa.Global)
	return g
}

// ConstVal returns the constant value of a package-level constant as string (exact).
func (p *Prog) ConstVal(pkgPath, name string) (string, bool) {
	pk := p.All[pkgPath]
	if pk == nil {
		return "", false
	}
	c, ok := pk.Types.Scope().Lookup(name).(*types.Const)
	if !ok {
		return "", false
	}
	return c.Val().ExactString(), true
}

// FuncName gives a stable readable name: pkgrel.Type.Method / pkgrel.Func / parent$n.
func FuncName(fn *ssa.Function) string {
	if fn == nil {
		return "<nil>"
	}
	s := fn.String()
	s = strings.ReplaceAll(s, ModPath+"/", "")
	s = strings.ReplaceAll(s, SDK+"/", "sdk/")
	return s
}

// InModule reports whether fn belongs to the module.
func InModule(fn *ssa.Function) bool {
	pk := fnPkg(fn)
	return pk != nil && strings.HasPrefix(pk.Pkg.Path(), ModPath)
}

func pkgPathOf(fn *ssa.Function) string {
	pk := fnPkg(fn)
	if pk == nil {
		return ""
	}
	return pk.Pkg.Path()
}

// InPkgs reports whether fn's package is one of the given module-relative packages (prefix match on "/").
func InPkgs(fn *ssa.Function, rels ...string) bool {
	pp := pkgPathOf(fn)
	for _, r := range rels {
		full := Rel(r)
		if pp == full || strings.HasPrefix(pp, full+"/") {
			return true
		}
	}
	return false
}

// FileOfPkg returns the *ast.File set for a package path.
func (p *Prog) Syntax(pkgPath string) []*ast.File {
	pk := p.All[pkgPath]
	if pk == nil {
		return nil
	}
	return pk.Syntax
}

// Info returns types.Info of a package.
func (p *Prog) Info(pkgPath string) *types.Info {
	pk := p.All[pkgPath]
	if pk == nil {
		return nil
	}
	return pk.TypesInfo
}
