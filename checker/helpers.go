package main

// Transparent helpers — robustness of the rules against "extract a helper" refactorings.
//
// A hand-written module function with results (v1, …, vn, error), no loop, no store operation of its own and no effect other
// than stores into its own locals is summarised at its call sites:
//   * ORIGIN: under the success of the call, result i IS the term its success returns hand back (when they all hand back the same
//     term over the parameters), with the parameters replaced by the argument terms — e.g. parseOwner(msg.Owner) becomes
//     res#0(AccAddressFromBech32(msg.Owner)), exactly what the handler computed before the helper was extracted;
//   * FACTS: `h(args).err == nil` expands into the disjunction of the path conditions of h's success returns (as bool-returning
//     predicates are expanded), so a guard that moved into the helper still dominates what follows the call.
// Keeper accessors (functions that open a store themselves) are never summarised: they stay atomic call terms, which is what the
// guard rules match on.

import (
	"go/types"
	"strings"

	"golang.org/x/tools/go/ssa"
)

var storeOpFns map[*ssa.Function]bool

func (p *Prog) hasOwnStoreOp(fn *ssa.Function) bool {
	if storeOpFns == nil {
		storeOpFns = map[*ssa.Function]bool{}
		for _, so := range p.StoreOps() {
			storeOpFns[so.Fn] = true
		}
	}
	return storeOpFns[fn]
}

var errHelperMemo = map[*ssa.Function]int{} // 0 unknown, 1 yes, 2 no
var transparentMemo = map[*ssa.Function]int{}

// transparent: a hand-written, unexported module function without loops, without a store operation or outside keeper call of its
// own, and without effects other than stores into its own locals — the kind of function an "extract helper" refactoring produces.
func (p *Prog) transparent(fn *ssa.Function) bool {
	if fn == nil || fn.Blocks == nil || !InModule(fn) || p.IsGenerated(fn) {
		return false
	}
	if v := transparentMemo[fn]; v != 0 {
		return v == 1
	}
	ok := func() bool {
		// exported functions are API the rules may name and analyse by body (proof, codec, constructors): they stay atomic.
		// Extracted helpers are unexported.
		if n := fn.Name(); n == "" || !(n[0] >= 'a' && n[0] <= 'z') {
			// … except plain constructors/converters of the types packages (NewXFromY): free functions of a module `types`
			// package that are no validators, no Must* and not part of the signing/codec code the rules analyse by body
			if !p.isTypesConverter(fn) {
				return false
			}
		}
		if len(fn.Blocks) > 40 || p.hasOwnStoreOp(fn) {
			return false
		}
		for _, b := range fn.Blocks {
			if b == fn.Recover {
				continue
			}
			if inCycle(b) {
				return false
			}
			for _, in := range b.Instrs {
				switch x := in.(type) {
				case *ssa.Go, *ssa.Defer, *ssa.MapUpdate, *ssa.Send, *ssa.Select:
					return false
				case *ssa.Store:
					if al, _ := rootAlloc(x.Addr); al == nil {
						if ia, isIdx := x.Addr.(*ssa.IndexAddr); isIdx {
							if al2, _ := rootAlloc(ia.X); al2 != nil {
								continue // element of a local array (variadic arguments)
							}
						}
						return false
					}
				case *ssa.Call:
					if b, isB := x.Call.Value.(*ssa.Builtin); isB && b.Name() == "copy" {
						return false
					}
					// a function that itself talks to a keeper or store outside the module (any non-module callee that is handed an
					// sdk.Context) is a state reader/writer in its own right: it stays an atomic call term, like an accessor
					if sc := x.Call.StaticCallee(); sc == nil || !InModule(sc) {
						for _, a := range x.Call.Args {
							if ts := a.Type().String(); strings.HasSuffix(ts, "cosmos-sdk/types.Context") {
								return false
							}
						}
					}
				}
			}
		}
		return true
	}()
	if ok {
		transparentMemo[fn] = 1
	} else {
		transparentMemo[fn] = 2
	}
	return ok
}

// errHelper: fn qualifies for the success-projection summary: transparent, last result an error, some success return.
func (p *Prog) errHelper(fn *ssa.Function) bool {
	if !p.transparent(fn) {
		return false
	}
	if v := errHelperMemo[fn]; v != 0 {
		return v == 1
	}
	res := fn.Signature.Results()
	ok := res.Len() >= 1 && res.At(res.Len()-1).Type().String() == "error" && len(successReturns(fn)) > 0
	if ok {
		errHelperMemo[fn] = 1
	} else {
		errHelperMemo[fn] = 2
	}
	return ok
}

// subOrigin: the Origin of callee's body at call c, parameters bound to the argument terms, call-site identities prefixed with
// the site of c (the same scheme successProjection and errorSummary use, so terms agree).
func (o *Origin) subOrigin(c ssa.CallInstruction, callee *ssa.Function) *Origin {
	sub := &Origin{p: o.p, fn: callee, env: map[*ssa.Parameter]*Term{}, fvenv: map[*ssa.FreeVar]*Term{},
		depth: o.depth + 1, memo: map[ssa.Value]*Term{}, busy: map[ssa.Value]bool{},
		site: o.site + o.p.Pos(c.Pos()) + ">"}
	cc := c.Common()
	var args []ssa.Value
	if cc.IsInvoke() {
		args = append(args, cc.Value)
	}
	args = append(args, cc.Args...)
	in := c.(ssa.Instruction)
	for i, prm := range callee.Params {
		if i < len(args) {
			if call, ok := c.(*ssa.Call); ok {
				sub.env[prm] = o.argAt(args[i], call)
			} else {
				_ = in
				sub.env[prm] = o.Of(args[i])
			}
		}
	}
	return sub
}

// VCall is a call site of the function under analysis or of a helper it calls (depth <= 3), described in the vocabulary of the
// function under analysis.
type VCall struct {
	Term   *Term               // the call's term, parameters of helpers replaced by the argument terms
	Instr  ssa.CallInstruction // the real call instruction (possibly inside a helper)
	Root   ssa.CallInstruction // the call instruction in the analysed function through which it is reached (== Instr when direct)
	Callee *ssa.Function
	Name   string
	Direct bool
	Always bool     // inside helpers: the call dominates every success return of each helper on the chain
	Cond   *Formula // path condition at the call: the analysed function's condition at Root ∧ the helpers' own conditions (when a Facts was given)
	In     *Origin  // the Origin of the function containing Instr (sub-origin for helper levels)
	InFa   *Facts
}

// helperShaped: like transparent, but the function may itself call keepers outside the module (used only for descending into
// call sites, never for summarising values).
func (p *Prog) helperShaped(fn *ssa.Function) bool {
	if p.transparent(fn) {
		return true
	}
	if fn == nil || fn.Blocks == nil || !InModule(fn) || p.IsGenerated(fn) || p.hasOwnStoreOp(fn) || len(fn.Blocks) > 40 {
		return false
	}
	if n := fn.Name(); n == "" || !(n[0] >= 'a' && n[0] <= 'z') {
		return false
	}
	for _, b := range fn.Blocks {
		if b == fn.Recover {
			continue
		}
		if inCycle(b) {
			return false
		}
		for _, in := range b.Instrs {
			switch in.(type) {
			case *ssa.Go, *ssa.Defer, *ssa.Select, *ssa.Send:
				return false
			}
		}
	}
	return true
}

// VirtualCalls lists the call sites of o.fn, descending into transparent helpers.
func (o *Origin) VirtualCalls() []VCall { return o.VirtualCallsX(nil, false) }

// VirtualCallsX: with fa, every entry carries its path condition; with deep, helpers that call outside keepers are entered too.
func (o *Origin) VirtualCallsX(fa *Facts, deep bool) []VCall {
	var out []VCall
	var walk func(cur *Origin, curFa *Facts, root ssa.CallInstruction, always bool, cond *Formula, depth int)
	walk = func(cur *Origin, curFa *Facts, root ssa.CallInstruction, always bool, cond *Formula, depth int) {
		for _, cs := range callSites(cur.fn) {
			r := root
			if r == nil {
				r = cs.Instr
			}
			selfAlways := always
			if depth > 0 {
				// inside a helper: the call counts as "always" when it dominates every success return of that helper
				if in, ok := cs.Instr.(ssa.Instruction); ok {
					for _, rt := range successReturns(cur.fn) {
						if !cur.dominates(in, rt) {
							selfAlways = false
						}
					}
				}
			}
			vc := VCall{Instr: cs.Instr, Root: r, Callee: cs.Callee, Name: cs.Name, Direct: root == nil, Always: selfAlways, In: cur, InFa: curFa}
			if c, ok := cs.Instr.(*ssa.Call); ok {
				vc.Term = cur.callAtomic(c)
			}
			if curFa != nil {
				here := curFa.At(cs.Instr.(ssa.Instruction).Block())
				if cond != nil {
					vc.Cond = fAnd(cond, here)
				} else {
					vc.Cond = here
				}
			}
			out = append(out, vc)
			enter := cs.Callee != nil && depth < 3 && cs.Callee != cur.fn && (o.p.transparent(cs.Callee) || deep && o.p.helperShaped(cs.Callee))
			if !enter {
				continue
			}
			if _, isDefer := cs.Instr.(*ssa.Defer); isDefer {
				continue
			}
			sub := cur.subOrigin(cs.Instr, cs.Callee)
			var subFa *Facts
			if curFa != nil {
				subFa = &Facts{p: o.p, fn: cs.Callee, o: sub, memo: map[*ssa.BasicBlock]*Formula{}, ErrExpand: func(*Formula) int { return 2 }}
			}
			walk(sub, subFa, r, selfAlways, vc.Cond, depth+1)
		}
	}
	walk(o, fa, nil, true, nil, 0)
	return out
}

// successProjection builds the tuple term of a call to an errHelper: non-error components are the common success-return terms
// (or res#i of the atomic call when the success returns differ), the error component is res#k of the atomic call.
func (o *Origin) successProjection(c *ssa.Call, callee *ssa.Function, args []*Term, atomic *Term) *Term {
	sub := &Origin{p: o.p, fn: callee, env: map[*ssa.Parameter]*Term{}, fvenv: map[*ssa.FreeVar]*Term{},
		depth: o.depth + 1, memo: map[ssa.Value]*Term{}, busy: map[ssa.Value]bool{},
		site: o.site + o.p.Pos(c.Pos()) + ">"}
	for i, prm := range callee.Params {
		if i < len(args) {
			sub.env[prm] = args[i]
		}
	}
	n := callee.Signature.Results().Len()
	rets := successReturns(callee)
	t := &Term{Op: "tuple"}
	for i := 0; i < n; i++ {
		fallback := &Term{Op: "res", Name: "#" + itoa(i), Args: []*Term{atomic}}
		if i == n-1 {
			t.Args = append(t.Args, fallback)
			continue
		}
		var common *Term
		same := true
		for _, r := range rets {
			if i >= len(r.Results) {
				same = false
				break
			}
			rt := sub.Of(r.Results[i])
			if rt.HasUnknown() {
				same = false
				break
			}
			if common == nil {
				common = rt
			} else if !common.Eq(rt) {
				same = false
				break
			}
		}
		if same && common != nil {
			t.Args = append(t.Args, common)
		} else {
			t.Args = append(t.Args, fallback)
		}
	}
	if n == 1 {
		return t.Args[0]
	}
	return t
}

func itoa(i int) string {
	if i < 10 {
		return string(rune('0' + i))
	}
	return string(rune('0'+i/10)) + string(rune('0'+i%10))
}

// errorSummary: the formula of `h(args).err == nil` — the disjunction over h's returns of (path condition ∧ returned error is nil).
func (fa *Facts) errorSummary(callee *ssa.Function, call *ssa.Call, o *Origin, depth int) *Formula {
	if depth >= 4 {
		return nil
	}
	// a "first failure" runner over a literal list of checks: it succeeds iff every check does
	if fa.p.firstFailureRunner(callee) && len(call.Call.Args) == 1 {
		if elems, ok := sliceLiteralElems(call.Call.Args[0]); ok {
			var conj []*Formula
			for _, e := range elems {
				f := fa.checkClosureSuccess(o, e, depth+1)
				if f == nil {
					return nil
				}
				conj = append(conj, f)
			}
			return fAnd(conj...)
		}
		return nil
	}
	if !fa.p.errHelper(callee) {
		return nil
	}
	sub := &Origin{p: fa.p, fn: callee, env: map[*ssa.Parameter]*Term{}, fvenv: map[*ssa.FreeVar]*Term{},
		depth: o.depth + 1, memo: map[ssa.Value]*Term{}, busy: map[ssa.Value]bool{},
		site: o.site + fa.p.Pos(call.Pos()) + ">"}
	for i, prm := range callee.Params {
		if i < len(call.Call.Args) {
			sub.env[prm] = o.Of(call.Call.Args[i])
		}
	}
	return fa.successOfBody(callee, sub, depth)
}

// successOfBody: the disjunction, over the returns of callee, of (path condition ∧ returned error is nil), in the vocabulary the
// prepared sub-origin maps callee's parameters / free variables to.
func (fa *Facts) successOfBody(callee *ssa.Function, sub *Origin, depth int) *Formula {
	if callee == nil || callee.Blocks == nil || len(callee.Blocks) > 40 {
		return nil
	}
	for _, b := range callee.Blocks {
		if b != callee.Recover && inCycle(b) {
			return nil
		}
	}
	subFacts := &Facts{p: fa.p, fn: callee, o: sub, memo: map[*ssa.BasicBlock]*Formula{}, ErrExpand: fa.ErrExpand}
	if subFacts.ErrExpand == nil {
		// inside a summary the expansion replaces the atom (exact in both polarities; no axiom store to carry out)
		subFacts.ErrExpand = func(*Formula) int { return 2 }
	}
	var disj []*Formula
	count := 0
	ok := true
	var path []*ssa.BasicBlock
	var dfs func(cur *ssa.BasicBlock, conj []*Formula)
	dfs = func(cur *ssa.BasicBlock, conj []*Formula) {
		if !ok {
			return
		}
		path = append(path, cur)
		defer func() { path = path[:len(path)-1] }()
		last := cur.Instrs[len(cur.Instrs)-1]
		switch t := last.(type) {
		case *ssa.Return:
			count++
			if count > maxPaths {
				ok = false
				return
			}
			ev := unspill(t.Results[len(t.Results)-1])
			// resolve a phi along the path
			if ph, isPhi := ev.(*ssa.Phi); isPhi {
				for i := len(path) - 1; i > 0; i-- {
					if path[i] == ph.Block() {
						for k, pb := range ph.Block().Preds {
							if pb == path[i-1] {
								ev = ph.Edges[k]
							}
						}
						break
					}
				}
			}
			switch {
			case isNilConst(ev):
				disj = append(disj, fAnd(conj...))
			case definitelyError(ev, 0):
				// failure path
			default:
				et := sub.Of(ev)
				nilAtom := cmpAtom("==", &Term{Op: "const", Name: "nil"}, et)
				// a nested helper's error: expand it too
				if ic, isCall := ev.(*ssa.Call); isCall && ic.Call.StaticCallee() == nil && !ic.Call.IsInvoke() {
					// calling a check value directly: f() where f is a closure literal or the result of a check factory
					if f := subFacts.checkClosureSuccess(sub, ic.Call.Value, depth+1); f != nil {
						nilAtom = f
					}
				}
				if ic, isCall := ev.(*ssa.Call); isCall {
					if g := ic.Call.StaticCallee(); g != nil && g.Signature.Results().Len() == 1 {
						if f := subFacts.errorSummary(g, ic, sub, depth+1); f != nil {
							if fa.ErrExpand == nil || fa.ErrExpand(nilAtom) != 1 {
								nilAtom = f
							}
						}
					}
				}
				if ex, isEx := ev.(*ssa.Extract); isEx {
					if ic, isCall := ex.Tuple.(*ssa.Call); isCall {
						if g := ic.Call.StaticCallee(); g != nil && ex.Index == g.Signature.Results().Len()-1 {
							if f := subFacts.errorSummary(g, ic, sub, depth+1); f != nil {
								if fa.ErrExpand == nil || fa.ErrExpand(nilAtom) != 1 {
									nilAtom = f
								}
							}
						}
					}
				}
				disj = append(disj, fAnd(append(append([]*Formula(nil), conj...), nilAtom)...))
			}
		case *ssa.If:
			c := subFacts.valueFormula(t.Cond, sub, path, depth+1)
			dfs(cur.Succs[0], append(append([]*Formula(nil), conj...), c))
			dfs(cur.Succs[1], append(append([]*Formula(nil), conj...), fNot(c)))
		case *ssa.Jump:
			dfs(cur.Succs[0], conj)
		case *ssa.Panic:
			// does not return: contributes nothing to success
		default:
			ok = false
		}
	}
	dfs(callee.Blocks[0], nil)
	if !ok {
		return nil
	}
	return fOr(disj...)
}

// errOfHelperCall: v is the error result extracted from a call to an errHelper.
func (fa *Facts) errOfHelperCall(v ssa.Value) (*ssa.Call, *ssa.Function, bool) {
	v = unspill(v)
	switch x := v.(type) {
	case *ssa.Extract:
		if c, ok := x.Tuple.(*ssa.Call); ok {
			if g := c.Call.StaticCallee(); g != nil && x.Index == g.Signature.Results().Len()-1 && fa.p.errHelper(g) {
				return c, g, true
			}
		}
	case *ssa.Call:
		if g := x.Call.StaticCallee(); g != nil && g.Signature.Results().Len() == 1 && (fa.p.errHelper(g) || fa.p.firstFailureRunner(g)) {
			return x, g, true
		}
	}
	return nil, nil, false
}

var _ = types.Typ

// panicSummary: the condition (in the caller's vocabulary) under which a call to the transparent function callee reaches one of
// its explicit panics; nil when it cannot be computed.
func (fa *Facts) panicSummary(callee *ssa.Function, call ssa.CallInstruction, o *Origin, depth int) *Formula {
	if !fa.p.transparent(callee) || depth >= 4 {
		return nil
	}
	sub := o.subOrigin(call, callee)
	subFacts := &Facts{p: fa.p, fn: callee, o: sub, memo: map[*ssa.BasicBlock]*Formula{}, ErrExpand: func(*Formula) int { return 2 }}
	var disj []*Formula
	count := 0
	ok := true
	var path []*ssa.BasicBlock
	var dfs func(cur *ssa.BasicBlock, conj []*Formula)
	dfs = func(cur *ssa.BasicBlock, conj []*Formula) {
		if !ok {
			return
		}
		path = append(path, cur)
		defer func() { path = path[:len(path)-1] }()
		// nested panicking helpers called in this block
		for _, in := range cur.Instrs {
			if ci, isCall := in.(ssa.CallInstruction); isCall {
				if g := ci.Common().StaticCallee(); g != nil && g != callee && fa.p.transparent(g) && hasPanic(g) {
					if inner := subFacts.panicSummary(g, ci, sub, depth+1); inner != nil {
						disj = append(disj, fAnd(append(append([]*Formula(nil), conj...), inner)...))
					} else {
						ok = false
					}
				}
			}
		}
		last := cur.Instrs[len(cur.Instrs)-1]
		switch t := last.(type) {
		case *ssa.Panic:
			count++
			disj = append(disj, fAnd(conj...))
		case *ssa.Return:
		case *ssa.If:
			c := subFacts.valueFormula(t.Cond, sub, path, depth+1)
			dfs(cur.Succs[0], append(append([]*Formula(nil), conj...), c))
			dfs(cur.Succs[1], append(append([]*Formula(nil), conj...), fNot(c)))
		case *ssa.Jump:
			dfs(cur.Succs[0], conj)
		default:
			ok = false
		}
		if count > maxPaths {
			ok = false
		}
	}
	dfs(callee.Blocks[0], nil)
	if !ok {
		return nil
	}
	return fOr(disj...)
}

func hasPanic(fn *ssa.Function) bool {
	for _, b := range fn.Blocks {
		for _, in := range b.Instrs {
			if _, ok := in.(*ssa.Panic); ok {
				return true
			}
		}
	}
	return false
}

// delegateOf: when fn is a thin wrapper — its body is one call to another hand-written module function, given only fn's own
// parameters (or fields of its receiver), whose results it returns unchanged — the function it delegates to; otherwise fn.
// Followed up to 3 levels ("x/aol.InitGenesis → Keeper.InitGenesis", "AppModule.EndBlock → burn.EndBlocker").
func (p *Prog) delegateOf(fn *ssa.Function) *ssa.Function {
	for depth := 0; depth < 3 && fn != nil && fn.Blocks != nil; depth++ {
		if len(fn.Blocks) != 1 {
			return fn
		}
		var call *ssa.Call
		n := 0
		for _, in := range fn.Blocks[0].Instrs {
			switch x := in.(type) {
			case *ssa.Call:
				n++
				call = x
			case *ssa.Defer, *ssa.Go, *ssa.Store, *ssa.MapUpdate, *ssa.Send, *ssa.Panic:
				if st, isSt := x.(*ssa.Store); isSt {
					if al, _ := rootAlloc(st.Addr); al != nil {
						continue // parameter spill
					}
				}
				return fn
			}
		}
		if n != 1 || call == nil {
			return fn
		}
		g := call.Call.StaticCallee()
		if g == nil || !InModule(g) || p.IsGenerated(g) || g.Blocks == nil {
			return fn
		}
		g = resolveBound(g)
		// arguments: parameters of fn, or loads/fields of them
		for _, a := range call.Call.Args {
			if !derivesFromParams(a, 0) {
				return fn
			}
		}
		// results: returned unchanged (or none)
		ret, ok := fn.Blocks[0].Instrs[len(fn.Blocks[0].Instrs)-1].(*ssa.Return)
		if !ok {
			return fn
		}
		for _, rv := range ret.Results {
			switch x := rv.(type) {
			case *ssa.Call:
				if x != call {
					return fn
				}
			case *ssa.Extract:
				if x.Tuple != ssa.Value(call) {
					return fn
				}
			default:
				return fn
			}
		}
		fn = g
	}
	return fn
}

func derivesFromParams(v ssa.Value, depth int) bool {
	if depth > 5 {
		return false
	}
	switch x := v.(type) {
	case *ssa.Parameter:
		return true
	case *ssa.UnOp:
		return derivesFromParams(x.X, depth+1)
	case *ssa.FieldAddr:
		return derivesFromParams(x.X, depth+1)
	case *ssa.Field:
		return derivesFromParams(x.X, depth+1)
	case *ssa.Alloc:
		// a spilled parameter
		if refs := x.Referrers(); refs != nil {
			for _, rf := range *refs {
				if st, ok := rf.(*ssa.Store); ok && st.Addr == ssa.Value(x) {
					return derivesFromParams(st.Val, depth+1)
				}
			}
		}
	case *ssa.MakeInterface:
		return derivesFromParams(x.X, depth+1)
	case *ssa.ChangeInterface:
		return derivesFromParams(x.X, depth+1)
	}
	return false
}

// isTypesConverter: an exported free function of x/<module>/types named New…From… / …To… that converts between representations.
func (p *Prog) isTypesConverter(fn *ssa.Function) bool {
	if !strings.HasSuffix(pkgPathOf(fn), "/types") || !strings.HasPrefix(pkgPathOf(fn), ModPath+"/x/") {
		return false
	}
	if rv := fn.Signature.Recv(); rv != nil {
		// a hand-written accessor of a query request ("the decoded form of this field"): request validation moved onto the
		// request type
		t := rv.Type()
		if pt, ok := t.(*types.Pointer); ok {
			t = pt.Elem()
		}
		nn, ok := t.(*types.Named)
		return ok && strings.HasPrefix(nn.Obj().Name(), "Query") && strings.HasSuffix(nn.Obj().Name(), "Request") && !p.IsGenerated(fn) && strings.HasPrefix(fn.Name(), "Decode")
	}
	n := fn.Name()
	if !strings.HasPrefix(n, "New") {
		return false
	}
	return strings.Contains(n, "From") || strings.Contains(n, "To")
}

// firstFailureRunner: fn(checks []F) error (F a func() error type, possibly variadic) that ranges over its parameter, calls each
// element and returns the first non-nil error, nil after the loop.
var runnerMemo = map[*ssa.Function]int{}

func (p *Prog) firstFailureRunner(fn *ssa.Function) bool {
	if fn == nil || fn.Blocks == nil || !InModule(fn) || len(fn.Params) != 1 {
		return false
	}
	if v := runnerMemo[fn]; v != 0 {
		return v == 1
	}
	ok := func() bool {
		sl, isSl := fn.Params[0].Type().Underlying().(*types.Slice)
		if !isSl {
			return false
		}
		sig, isFn := sl.Elem().Underlying().(*types.Signature)
		if !isFn || sig.Params().Len() != 0 || sig.Results().Len() != 1 || sig.Results().At(0).Type().String() != "error" {
			return false
		}
		res := fn.Signature.Results()
		if res.Len() != 1 || res.At(0).Type().String() != "error" {
			return false
		}
		// every call in the function is a call of an element of the parameter; every non-nil return returns such a call's
		// result under `!= nil`; the nil return comes after the loop
		nCalls := 0
		for _, b := range fn.Blocks {
			for _, in := range b.Instrs {
				switch x := in.(type) {
				case *ssa.Call:
					if bi, isB := x.Call.Value.(*ssa.Builtin); isB && bi.Name() == "len" {
						continue
					}
					u, isLoad := x.Call.Value.(*ssa.UnOp)
					if !isLoad {
						return false
					}
					ia, isIdx := u.X.(*ssa.IndexAddr)
					if !isIdx || ia.X != ssa.Value(fn.Params[0]) {
						return false
					}
					if !inCycle(x.Block()) {
						return false
					}
					nCalls++
				case *ssa.Return:
					rv := x.Results[0]
					if isNilConst(rv) {
						if inCycle(x.Block()) {
							return false
						}
						continue
					}
					c, isCall := rv.(*ssa.Call)
					if !isCall {
						return false
					}
					_ = c
				case *ssa.Go, *ssa.Defer, *ssa.Store, *ssa.MapUpdate, *ssa.Send, *ssa.Panic:
					return false
				}
			}
		}
		return nCalls == 1
	}()
	if ok {
		runnerMemo[fn] = 1
	} else {
		runnerMemo[fn] = 2
	}
	return ok
}

// sliceLiteralElems: the element values of a slice built in place (variadic arguments or a composite literal).
func sliceLiteralElems(v ssa.Value) ([]ssa.Value, bool) {
	// the literal may be what a list helper of the module returns (one return, of a slice literal)
	if c, isCall := v.(*ssa.Call); isCall {
		if g := c.Call.StaticCallee(); g != nil && InModule(g) && g.Blocks != nil {
			rets := returnsOf(g)
			if len(rets) == 1 && len(rets[0].Results) == 1 {
				if _, again := rets[0].Results[0].(*ssa.Call); !again {
					return sliceLiteralElems(rets[0].Results[0])
				}
			}
		}
		return nil, false
	}
	sl, ok := v.(*ssa.Slice)
	if !ok {
		return nil, false
	}
	al, ok := sl.X.(*ssa.Alloc)
	if !ok {
		return nil, false
	}
	arr, ok := al.Type().Underlying().(*types.Pointer).Elem().Underlying().(*types.Array)
	if !ok {
		return nil, false
	}
	elems := make([]ssa.Value, arr.Len())
	refs := al.Referrers()
	if refs == nil {
		return nil, false
	}
	for _, rf := range *refs {
		ia, ok := rf.(*ssa.IndexAddr)
		if !ok {
			continue
		}
		c, ok := ia.Index.(*ssa.Const)
		if !ok {
			return nil, false
		}
		if ir := ia.Referrers(); ir != nil {
			for _, r2 := range *ir {
				if st, ok := r2.(*ssa.Store); ok && st.Addr == ssa.Value(ia) {
					if int(c.Int64()) < len(elems) {
						elems[c.Int64()] = st.Val
					}
				}
			}
		}
	}
	for _, e := range elems {
		if e == nil {
			return nil, false
		}
	}
	return elems, true
}

// checkClosureSuccess: the condition under which the check `e` (a closure literal, a plain function, or the closure returned by
// a module factory function called with arguments) returns a nil error, in o's vocabulary.
func (fa *Facts) checkClosureSuccess(o *Origin, e ssa.Value, depth int) *Formula {
	for {
		if ct, ok := e.(*ssa.ChangeType); ok {
			e = ct.X
			continue
		}
		break
	}
	switch x := e.(type) {
	case *ssa.MakeClosure:
		sub := o.ClosureOrigin(x)
		sub.depth = o.depth + 1
		sub.site = o.site + fa.p.Pos(x.Pos()) + ">"
		return fa.successOfBody(x.Fn.(*ssa.Function), sub, depth)
	case *ssa.Function:
		sub := NewOrigin(fa.p, x)
		sub.depth = o.depth + 1
		return fa.successOfBody(x, sub, depth)
	case *ssa.Call:
		g := x.Call.StaticCallee()
		if g == nil || !InModule(g) || g.Blocks == nil || fa.p.IsGenerated(g) {
			return nil
		}
		// a factory: every return hands back the same closure literal
		var mc *ssa.MakeClosure
		for _, ret := range returnsOf(g) {
			if len(ret.Results) != 1 {
				return nil
			}
			rv := ret.Results[0]
			if ct, ok := rv.(*ssa.ChangeType); ok {
				rv = ct.X
			}
			m, ok := rv.(*ssa.MakeClosure)
			if !ok || (mc != nil && mc != m) {
				return nil
			}
			mc = m
		}
		if mc == nil || len(g.Blocks) != 1 {
			return nil
		}
		subF := o.subOrigin(x, g)
		sub := subF.ClosureOrigin(mc)
		sub.depth = o.depth + 1
		sub.site = subF.site
		return fa.successOfBody(mc.Fn.(*ssa.Function), sub, depth)
	}
	return nil
}

// thinHandlerBody: a MsgServer method that is only a gRPC adapter — it unwraps the context, hands its message to exactly one
// hand-written function of the module ("thin message server, fat keeper"), returns that function's error when it fails and an
// empty response when it succeeds — is analysed through that function: the state transition lives there. Anything else in the
// adapter (a second module call, a store access, a condition other than the error test) keeps the method itself as the handler.
func (p *Prog) thinHandlerBody(fn *ssa.Function) *ssa.Function {
	if fn == nil || fn.Blocks == nil || len(fn.Blocks) > 4 || len(fn.Params) < 3 {
		return fn
	}
	msg := fn.Params[len(fn.Params)-1]
	var call *ssa.Call
	for _, b := range fn.Blocks {
		for _, in := range b.Instrs {
			switch x := in.(type) {
			case *ssa.Call:
				if _, isB := x.Call.Value.(*ssa.Builtin); isB {
					return fn
				}
				g := x.Call.StaticCallee()
				if g == nil {
					return fn
				}
				if strings.HasSuffix(FuncName(g), "sdk/types.UnwrapSDKContext") {
					continue
				}
				if !InModule(g) || p.IsGenerated(g) || g.Blocks == nil || call != nil {
					return fn
				}
				call = x
			case *ssa.Defer, *ssa.Go, *ssa.MapUpdate, *ssa.Send, *ssa.Panic:
				return fn
			case *ssa.Store:
				if al, _ := rootAlloc(x.Addr); al == nil {
					return fn
				}
			case *ssa.If:
				// the only branch: the error of the delegate
				bo, ok := x.Cond.(*ssa.BinOp)
				if !ok || call == nil {
					return fn
				}
				e := bo.X
				if isNilConst(e) {
					e = bo.Y
				}
				src := unspill(e)
				if ex, isEx := src.(*ssa.Extract); isEx {
					src = ex.Tuple
				}
				if src != ssa.Value(call) {
					return fn
				}
			}
		}
	}
	if call == nil {
		return fn
	}
	g := resolveBound(call.Call.StaticCallee())
	// the message goes to the delegate unchanged, and the delegate's last result is an error
	passes := false
	for _, a := range call.Call.Args {
		if a == ssa.Value(msg) {
			passes = true
		}
	}
	res := g.Signature.Results()
	if !passes || res.Len() == 0 || !isErrorType(res.At(res.Len()-1).Type()) {
		return fn
	}
	// every success return of the adapter lies behind err == nil of the delegate: checked through the single If above plus the
	// return shapes (a failing return hands back the delegate's error)
	for _, ret := range returnsOf(fn) {
		ev := unspill(ret.Results[len(ret.Results)-1])
		if isNilConst(ev) {
			continue
		}
		src := ev
		if ex, isEx := src.(*ssa.Extract); isEx {
			src = ex.Tuple
		}
		if src != ssa.Value(call) {
			return fn
		}
	}
	return g
}
