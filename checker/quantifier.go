package main

import (
	"fmt"
	"go/types"
	"strings"

	"golang.org/x/tools/go/ssa"
)

// QUANTIFIER — the plural list predicates of x/did/types (EmptyDIDs, ValidateDIDs: "every element is …") decide whether a list
// field is validated at all. Their bodies are classified: a loop that returns false at the first element failing the element
// predicate and true after the loop is FORALL; a loop that returns true at the first element satisfying it, or an un-negated
// slices.ContainsFunc / slices.IndexFunc(…) >= 0 with the predicate, is EXISTS. EXISTS where the name promises FORALL is reported;
// a shape that is neither is not decided here.

func quantifierShape(p *Prog, fn *ssa.Function, pred *ssa.Function) string {
	if fn == nil || fn.Blocks == nil {
		return ""
	}
	hasLoop := false
	for _, b := range fn.Blocks {
		if inCycle(b) {
			hasLoop = true
		}
	}
	isPredCall := func(v ssa.Value) (bool, bool) { // (is a call of pred, negated)
		neg := false
		for {
			u, ok := v.(*ssa.UnOp)
			if !ok || u.Op.String() != "!" {
				break
			}
			neg = !neg
			v = u.X
		}
		c, ok := v.(*ssa.Call)
		if !ok || c.Call.StaticCallee() == nil || resolveBound(c.Call.StaticCallee()) != pred {
			return false, false
		}
		return true, neg
	}
	if hasLoop {
		kind := ""
		for _, b := range fn.Blocks {
			if !inCycle(b) || len(b.Instrs) == 0 {
				continue
			}
			iff, ok := b.Instrs[len(b.Instrs)-1].(*ssa.If)
			if !ok {
				continue
			}
			isP, neg := isPredCall(iff.Cond)
			if !isP {
				continue
			}
			// the successor taken when pred holds / fails
			holds, fails := b.Succs[0], b.Succs[1]
			if neg {
				holds, fails = fails, holds
			}
			constRet := func(bb *ssa.BasicBlock) string {
				if inCycle(bb) || len(bb.Instrs) == 0 {
					return ""
				}
				ret, ok := bb.Instrs[len(bb.Instrs)-1].(*ssa.Return)
				if !ok || len(ret.Results) != 1 {
					return ""
				}
				if c, ok := asConst(ret.Results[0]); ok && c.Value != nil {
					return c.Value.String()
				}
				return ""
			}
			switch {
			case constRet(fails) == "false":
				kind = "FORALL"
			case constRet(holds) == "true":
				kind = "EXISTS"
			}
		}
		return kind
	}
	o := NewOrigin(p, fn)
	for _, ret := range returnsOf(fn) {
		if len(ret.Results) != 1 {
			continue
		}
		t := o.Of(ret.Results[0])
		found := ""
		var walk func(x *Term, neg bool)
		walk = func(x *Term, neg bool) {
			if x == nil {
				return
			}
			if x.Op == "unop" && x.Name == "!" && len(x.Args) == 1 {
				walk(x.Args[0], !neg)
				return
			}
			if x.Op == "call" && (strings.HasPrefix(x.Name, "slices.ContainsFunc") || strings.HasPrefix(x.Name, "golang.org/x/exp/slices.ContainsFunc")) {
				if x.Contains(func(y *Term) bool { return strings.Contains(y.String(), pred.Name()) }) {
					if neg {
						found = "NOT-EXISTS"
					} else {
						found = "EXISTS"
					}
				}
				return
			}
			for _, a := range x.Args {
				walk(a, neg)
			}
		}
		walk(t, false)
		if found != "" {
			return found
		}
	}
	return ""
}

func checkPluralPredicates(p *Prog, r *Report, kp func(string, string) string, pkg string) {
	rule := "a plural list predicate holds only when every element satisfies the element predicate"
	n := 0
	for _, fn := range p.ModFuncs {
		if fn.Blocks == nil || p.IsGenerated(fn) || !inExactPkgs(fn, pkg) || fn.Signature.Recv() != nil || fn.Parent() != nil {
			continue
		}
		name := fn.Name()
		if !strings.HasSuffix(name, "s") || fn.Signature.Params().Len() != 1 || fn.Signature.Results().Len() != 1 {
			continue
		}
		sl, ok := fn.Signature.Params().At(0).Type().Underlying().(*types.Slice)
		if !ok || fn.Signature.Results().At(0).Type().String() != "bool" {
			continue
		}
		pred := p.Func(Rel(pkg), strings.TrimSuffix(name, "s"))
		if pred == nil || pred.Signature.Params().Len() != 1 || !types.Identical(pred.Signature.Params().At(0).Type(), sl.Elem()) {
			continue
		}
		n++
		kind := quantifierShape(p, fn, pred)
		key := kp("LOOP", FuncName(fn)+"#every-element")
		switch kind {
		case "FORALL":
			r.OK(key, rule, p.FnPos(fn), fmt.Sprintf("returns false at the first element failing %s, true after the loop", pred.Name()))
		case "EXISTS":
			r.Fail(key, rule, p.FnPos(fn), fmt.Sprintf("%s holds as soon as ONE element satisfies %s: a list with one such element and arbitrary other elements is treated like a list of which all do (validation of the rest is skipped)", name, pred.Name()))
		default:
			r.OKTrivial(key, rule, p.FnPos(fn), "shape not classified: not decided here")
		}
	}
	r.Count("plural-predicates("+pkg+")", n)
}
