package main

import (
	"fmt"
	"go/ast"
	"go/types"
	"sort"
	"strings"

	"golang.org/x/tools/go/ssa"
)

func init() { register("C15", checkC15) }

const bankKeeperPath = SDK + "/x/bank/keeper"

func isCoinMover(name string) bool {
	return strings.HasPrefix(name, "SendCoins") || name == "MintCoins" || name == "BurnCoins" || strings.HasPrefix(name, "DelegateCoins") ||
		strings.HasPrefix(name, "UndelegateCoins") || name == "InputOutputCoins" || name == "addCoins" || name == "subUnlockedCoins" || name == "setBalance" || name == "setSupply"
}

// C15 — no coins moved except the fee.
func checkC15(p *Prog, r *Report) {
	checkNoLostReceiverWrites(p, r, "C15", "x/*/types", func(fn *ssa.Function) bool { return inExactPkgs(fn, "x/aol/types", "x/did/types", "x/pnft/types", "x/burn/types") })
	checkNoDroppedErrors(p, r, "C15", "x/*", func(fn *ssa.Function) bool { return InPkgs(fn, "x") })
	checkNoNilWrap(p, r, "C15", "x/*, app/*", func(fn *ssa.Function) bool { return InPkgs(fn, "x", "app") })
	r.Explain = "Decided statically: D2 (verdict) from the 14 message handlers, their ValidateBasic/GetSigners/GetSignBytes and the Begin/EndBlock of the aol, did and pnft modules, following definite call edges through module code and the x/nft keeper, no function of x/bank/keeper that moves, mints or burns coins is reached and no coin-moving method is invoked on any bank-capable interface value; D1 (fast sufficient condition, reported as notes when it does not hold) no value of a bank-capable type exists in x/aol or x/did, and in x/pnft the only one is the constructor parameter forwarded to nftkeeper.NewKeeper, whose field `bk` is never read by the x/nft keeper; D3 MsgAddRecordRequest.GetSigners returns [feePayer, writer] exactly when FeePayerAddress is non-empty and [writer] otherwise, every other message has a single signer, and the ante chain charges fees through DeductFeeDecorator wired with the fee-grant keeper. The fee decorator's TxFeeChecker is nil (SDK default) or returns tx.GetFee() on every success path; ante decorators defined in the module reach no aol/did/pnft store write (ante writes survive a failed message)."
	r.NotDec = []string{"that DeductFeeDecorator charges tx.FeePayer() and only the fee", "baseapp's all-or-nothing runMsgs cache", "supply accounting"}
	r.Trusted = []string{"cosmos-sdk v0.47.12 x/auth/ante, baseapp, x/bank"}
	kp := func(rule, rest string) string { return rule + ":C15:" + rest }

	// ---- D1 (notes) ---------------------------------------------------------------------------
	capable := 0
	for _, root := range p.Roots {
		pp := root.PkgPath
		if !(strings.HasPrefix(pp, Rel("x/aol")) || strings.HasPrefix(pp, Rel("x/did")) || strings.HasPrefix(pp, Rel("x/pnft"))) || root.Types == nil {
			continue
		}
		sc := root.Types.Scope()
		for _, name := range sc.Names() {
			obj := sc.Lookup(name)
			switch o := obj.(type) {
			case *types.TypeName:
				if st, ok := o.Type().Underlying().(*types.Struct); ok {
					for i := 0; i < st.NumFields(); i++ {
						if caps := bankCapable(st.Field(i).Type()); len(caps) > 0 {
							capable++
							r.Note("D1: %s.%s.%s has a bank-capable type (%s can %v); the verdict rests on D2 (reachability)", shortPkg(pp), name, st.Field(i).Name(), st.Field(i).Type(), caps)
						}
					}
				}
			case *types.Var:
				if caps := bankCapable(o.Type()); len(caps) > 0 {
					capable++
					r.Note("D1: package variable %s.%s has a bank-capable type", shortPkg(pp), name)
				}
			case *types.Func:
				sig := o.Type().(*types.Signature)
				for i := 0; i < sig.Params().Len(); i++ {
					if caps := bankCapable(sig.Params().At(i).Type()); len(caps) > 0 && !strings.Contains(pp, "x/pnft/keeper") {
						capable++
						r.Note("D1: %s.%s takes a bank-capable parameter", shortPkg(pp), name)
					}
				}
			}
		}
	}
	// the x/nft keeper's bank field is never read
	bkReads := 0
	cdcReads := 0
	for fn := range p.SSA.Package(p.All[nftKeeperPath].Types).Members {
		_ = fn
	}
	for _, mem := range p.SSA.Package(p.All[nftKeeperPath].Types).Members {
		var fns []*ssa.Function
		switch m := mem.(type) {
		case *ssa.Function:
			fns = append(fns, m)
		case *ssa.Type:
			ms := p.SSA.MethodSets.MethodSet(m.Type())
			for i := 0; i < ms.Len(); i++ {
				if f := p.SSA.MethodValue(ms.At(i)); f != nil {
					fns = append(fns, f)
				}
			}
		}
		for _, fn := range fns {
			if fn.Blocks == nil || fn.Name() == "NewKeeper" {
				continue
			}
			for _, b := range fn.Blocks {
				for _, in := range b.Instrs {
					var fname string
					switch x := in.(type) {
					case *ssa.FieldAddr:
						fname = fieldName(x.X.Type(), x.Field)
					case *ssa.Field:
						fname = fieldName(x.X.Type(), x.Field)
					}
					if fname == "bk" {
						bkReads++
					}
					if fname == "cdc" {
						cdcReads++
					}
				}
			}
		}
	}
	r.Check(bkReads == 0 && cdcReads > 0, kp("CAP", "sdk/x/nft/keeper.Keeper.bk#reads=0"), "capability: the bank keeper handed to the x/nft keeper is never used by it (control: its cdc field is)", nftKeeperPath,
		fmt.Sprintf("bk reads=%d, cdc reads=%d", bkReads, cdcReads), fmt.Sprintf("x/nft keeper reads its bank keeper %d time(s) (cdc reads=%d): reachability decides", bkReads, cdcReads))
	r.Count("bank-capable-values-in-aol-did-pnft", capable)

	// ---- D2 (verdict) -------------------------------------------------------------------------
	var entries []*ssa.Function
	handlers := p.AllHandlers("MsgServer")
	r.Floor("message-handlers", len(handlers), 14)
	entries = append(entries, handlers...)
	for _, m := range p.Msgs() {
		for _, mn := range []string{"ValidateBasic", "GetSigners", "GetSignBytes"} {
			if f := p.MethodOf(m, mn); f != nil {
				entries = append(entries, f)
			}
		}
	}
	for _, mod := range []string{"x/aol", "x/did", "x/pnft"} {
		if am := p.Named(Rel(mod), "AppModule"); am != nil {
			for _, mn := range []string{"BeginBlock", "EndBlock"} {
				if f := p.MethodOf(am, mn); f != nil {
					entries = append(entries, f)
				}
			}
		}
	}
	reach := p.ReachFrom(entries, func(f *ssa.Function) bool {
		return InModule(f) && !p.IsGenerated(f) || pkgPathOf(f) == nftKeeperPath
	})
	bad := 0
	for _, f := range reach.Order {
		if pkgPathOf(f) == bankKeeperPath && f.Signature.Recv() != nil && isCoinMover(f.Name()) {
			bad++
			r.Fail(kp("REACH", "handler→"+FuncName(f)), "no coin-moving bank function is reachable from a custom-module handler over definite call edges", p.FnPos(f), "call chain: "+reach.Chain(f))
		}
	}
	for _, iv := range reach.Invokes {
		if !isCoinMover(iv.Method) {
			continue
		}
		cc := iv.Instr.Common()
		if len(bankCapable(cc.Value.Type())) == 0 {
			continue
		}
		// the burn module's own EndBlock path is not an entry here; any hit is a custom-module handler moving coins
		bad++
		r.Fail(kp("REACH", "handler→invoke:"+iv.Iface+"."+iv.Method+"@"+FuncName(iv.In)), "no coin-moving method is invoked on a bank-capable value from a custom-module handler", p.Pos(iv.Instr.Pos()),
			fmt.Sprintf("%s calls %s.%s; chain: %s", FuncName(iv.In), iv.Iface, iv.Method, reach.Chain(iv.In)))
	}
	if bad == 0 {
		r.OK(kp("REACH", "handlers#no-bank-mutator"), "no coin-moving bank function or interface method is reachable from the 14 handlers, their stateless methods, or the aol/did/pnft block hooks (definite edges through module code and the x/nft keeper)", "x/*",
			fmt.Sprintf("%d entry functions, %d functions reachable, %d interface invocations inspected", len(entries), len(reach.Order), len(reach.Invokes)))
	}
	// D2b atomicity: everything a handler changes is in the transaction's store branch. A write to memory that outlives the call (a
	// package variable, a field of the long-lived message server / keeper) is not rolled back when a later message of the same
	// transaction fails — the failed transaction has then had an effect on what later handlers compute and store.
	{
		var scopeFns []*ssa.Function
		for _, f := range reach.Order {
			if InModule(f) && f.Blocks != nil {
				scopeFns = append(scopeFns, f)
			}
		}
		// a location that handler code only writes (a metrics counter) cannot influence what handlers compute; one that it also
		// reads carries the effect of a discarded transaction into the next one
		channels, _ := hiddenStateChannels(p, scopeFns, scopeFns)
		var locs []string
		for l := range channels {
			locs = append(locs, l)
		}
		sort.Strings(locs)
		nW := len(locs)
		for _, l := range locs {
			a, rd := channels[l][0][0], channels[l][1][0]
			r.Fail(kp("STATE", "handler-writes-process-memory:"+a.Loc), "a failed transaction leaves nothing behind: handlers change state only through the transaction's store branch", p.Pos(a.Instr.Pos()),
				fmt.Sprintf("%s is written on a handler's call tree (%s; reached via %s) and read there (%s): the write is not part of the store branch that is discarded when a message of the transaction fails, so a failed transaction changes what later messages see and store", a.Loc, describeAccess(p, a), reach.Chain(a.Fn), describeAccess(p, rd)))
		}
		// … and no object implemented outside the module that the keeper holds is used without a Context: a store of the keeper's
		// own (mem.NewStore(), a map behind an SDK type) is not part of the transaction's store branch either
		bad, _ := contextFreeForeignCalls(p, scopeFns)
		for _, fc := range bad {
			nW++
			r.Fail(kp("STATE", "handler-uses-context-free-object:"+fc.Loc+"→"+fc.Name+"@"+FuncName(fc.Fn)), "a failed transaction leaves nothing behind: handlers change state only through the transaction's store branch", p.Pos(fc.Instr.Pos()),
				fmt.Sprintf("%s calls %s on %s (a %s held by a long-lived struct) without a Context: whatever it reads or writes there is outside the store branch that is discarded when a message of the transaction fails — and is changed by simulations, too", FuncName(fc.Fn), fc.Name, fc.Loc, fc.Recv))
		}
		if nW == 0 {
			r.OK(kp("STATE", "handler-writes-process-memory#none"), "a failed transaction leaves nothing behind: handlers change state only through the transaction's store branch", "x/*",
				fmt.Sprintf("%d module functions on the handlers' call trees, no package-level variable or long-lived field is both written and read there", len(scopeFns)))
		}
	}
	if r.Tier == "thorough" {
		vtaCrossCheck(p, r, kp("REACH", "vta-cross-check"), entries, func(f *ssa.Function) (string, bool) {
			if pkgPathOf(f) == bankKeeperPath && f.Signature.Recv() != nil && isCoinMover(f.Name()) {
				return "coin mover " + FuncName(f), true
			}
			return "", false
		}, reach, nil)
	}
	// positive control: the same walk from the burn EndBlock does find a coin mover
	if am := p.Named(Rel("x/burn"), "AppModule"); am != nil {
		if eb := p.MethodOf(am, "EndBlock"); eb != nil {
			rb := p.ReachFrom([]*ssa.Function{eb}, func(f *ssa.Function) bool { return InModule(f) })
			found := 0
			for _, iv := range rb.Invokes {
				if isCoinMover(iv.Method) && len(bankCapable(iv.Instr.Common().Value.Type())) > 0 {
					found++
				}
			}
			r.Floor("control:coin-movers-reachable-from-burn.EndBlock", found, 2)
		}
	}

	// ---- D3 fee payer -------------------------------------------------------------------------
	for _, m := range p.Msgs() {
		mn := m.Obj().Name()
		gs := p.MethodOf(m, "GetSigners")
		if gs == nil {
			continue
		}
		sf, notes := SignerFields(p, m)
		if len(notes) > 0 {
			r.Fail(kp("ORIGIN", mn+".GetSigners#resolved"), "GetSigners returns addresses parsed from message fields", p.FnPos(gs), strings.Join(notes, "; "))
			continue
		}
		st, _ := m.Underlying().(*types.Struct)
		hasFee := false
		for i := 0; i < st.NumFields(); i++ {
			if st.Field(i).Name() == "FeePayerAddress" {
				hasFee = true
			}
		}
		if !hasFee {
			ok := true
			for _, s := range sf {
				if len(s) != 1 {
					ok = false
				}
			}
			r.Check(ok, kp("ORIGIN", mn+".GetSigners#single-signer"), "the message has exactly one signer, who is therefore the fee payer", p.FnPos(gs), fmt.Sprint(sf), fmt.Sprintf("signers per path: %v", sf))
			continue
		}
		// fee-payer message: per return, path condition decides the shape
		o := NewOrigin(p, gs)
		fa := NewFacts(p, gs, o)
		for i, ret := range returnsOf(gs) {
			t := o.Of(ret.Results[0])
			var fields []string
			for _, e := range t.Args {
				f, _ := bech32Field(e)
				fields = append(fields, f)
			}
			isEmpty := func(x *Term) bool {
				if x.Op != "eq" {
					return false
				}
				a, b := x.Args[0], x.Args[1]
				if a.Op != "const" {
					a, b = b, a
				}
				f, ok := msgField(b)
				return a.Name == `""` && ok && f == "FeePayerAddress"
			}
			_, named := fa.DominatingFact(ret, false, isEmpty)
			_, unnamed := fa.DominatingFact(ret, true, isEmpty)
			var ok bool
			switch {
			case named:
				ok = len(fields) == 2 && fields[0] == "FeePayerAddress" && fields[1] != "FeePayerAddress" && fields[1] != ""
			case unnamed:
				ok = len(fields) == 1 && fields[0] != "FeePayerAddress" && fields[0] != ""
			}
			r.Check(ok, kp("ORIGIN", fmt.Sprintf("%s.GetSigners#return%d#fee-payer-first", mn, i)),
				"with a named fee payer the signers are [feePayer, writer] (index 0 pays the fee); without one the single signer pays", p.Pos(ret.Pos()),
				fmt.Sprintf("named=%v signers=%v", named, fields), fmt.Sprintf("fee payer named=%v unnamed=%v but signers=%v: the fee is charged to the wrong account (the first signer)", named, unnamed, fields))
		}
	}
	// DeductFeeDecorator wired with the fee-grant keeper
	w := BuildWire(p)
	di := indexOf(w.Ante, "x/auth/ante.NewDeductFeeDecorator")
	si := indexOf(w.Ante, "x/auth/ante.NewSigVerificationDecorator")
	r.Check(di >= 0 && si > di, kp("WIRE", "ante#DeductFee-before-SigVerification"), "fees are deducted by the SDK's DeductFeeDecorator inside the ante chain", p.Pos(w.AntePos), fmt.Sprintf("position %d", di), fmt.Sprintf("chain: %v", w.Ante))
	okFG, okNilChecker := false, false
	if pk := p.All[Rel("app")]; pk != nil {
		for _, f := range pk.Syntax {
			ast.Inspect(f, func(nd ast.Node) bool {
				c, ok := nd.(*ast.CallExpr)
				if !ok {
					return true
				}
				if objFull(calleeObj(pk.TypesInfo, c)) == "sdk/x/auth/ante.NewDeductFeeDecorator" && len(c.Args) >= 3 {
					if sel, ok := c.Args[2].(*ast.SelectorExpr); ok && sel.Sel.Name == "FeeGrantKeeper" {
						okFG = true
					}
					if len(c.Args) == 4 {
						if tv, ok := pk.TypesInfo.Types[c.Args[3]]; ok && tv.IsNil() {
							okNilChecker = true
						}
					}
				}
				return true
			})
		}
	}
	r.Check(okFG, kp("WIRE", "ante#DeductFee-uses-FeeGrantKeeper"), "fee grants are honoured by the fee decorator", "app/ante.go", "FeeGrantKeeper passed", "NewDeductFeeDecorator is not given app.FeeGrantKeeper")
	feeWhy := "NewDeductFeeDecorator is given a custom TxFeeChecker: the amount deducted is whatever that function returns, not necessarily the declared fee"
	if !okNilChecker {
		// a custom checker is fine when every successful return hands back the transaction's declared fee itself
		if sa := p.Method(Rel("app"), "App", "setAnteHandler"); sa != nil {
			for _, cs := range callSites(sa) {
				if !strings.HasSuffix(cs.Name, "x/auth/ante.NewDeductFeeDecorator") || len(cs.Instr.Common().Args) != 4 {
					continue
				}
				var chk *ssa.Function
				switch x := cs.Instr.Common().Args[3].(type) {
				case *ssa.Function:
					chk = x
				case *ssa.MakeClosure:
					chk, _ = x.Fn.(*ssa.Function)
				case *ssa.ChangeType:
					chk, _ = x.X.(*ssa.Function)
				}
				if chk == nil || chk.Blocks == nil {
					continue
				}
				co := NewOrigin(p, chk)
				all, n := true, 0
				for _, ret := range successReturns(chk) {
					n++
					t := co.Of(ret.Results[0])
					if !(t.Op == "call" && strings.HasSuffix(t.Name, ".GetFee") && t.Contains(func(x *Term) bool { return x.Op == "param" })) {
						all = false
						feeWhy = fmt.Sprintf("the custom TxFeeChecker %s returns %v as the fee to deduct, not the transaction's declared fee (tx.GetFee()): payer and collector move by a different amount than declared", FuncName(chk), t)
					}
				}
				if all && n > 0 {
					okNilChecker = true
				}
			}
		}
	}
	r.Check(okNilChecker, kp("WIRE", "ante#DeductFee-default-fee-checker"), "the fee decorator uses the SDK's own fee checker (nil), whose effective fee is the declared fee: exactly the declared fee moves from the payer to the collector", "app/ante.go",
		"NewDeductFeeDecorator(…, nil) or a checker returning tx.GetFee()", feeWhy)

	// the ante chain writes no custom-module state: ante writes are committed even when a message of the transaction fails later
	// (baseapp writes the ante branch before running the messages), so they would survive a failed transaction.
	aolM, didM := buildAolModel(p), buildDidModel(p)
	rawMut := map[*ssa.Function]string{}
	for _, so := range p.StoreOps() {
		if so.Op != "Set" && so.Op != "Delete" {
			continue
		}
		for _, mod := range []string{"x/aol", "x/did", "x/pnft"} {
			if strings.HasPrefix(so.KeyRoot, mod+"/keeper.") {
				rawMut[so.Fn] = mod + " (" + so.Op + " in " + FuncName(so.Fn) + ")"
			}
		}
	}
	nCustomDeco := 0
	for _, ctor := range w.Ante {
		if !strings.HasPrefix(ctor, "x/") && !strings.HasPrefix(ctor, "app") && !strings.HasPrefix(ctor, "types/") {
			continue // SDK / ibc decorator
		}
		nCustomDeco++
		i := strings.LastIndex(ctor, ".")
		cf := p.Func(Rel(ctor[:i]), ctor[i+1:])
		key := kp("REACH", "ante:"+ctor+"#no-custom-state-write")
		if cf == nil {
			r.Undecided(key, "ante decorators of the module write no aol/did/pnft state", p.Pos(w.AntePos), "constructor "+ctor+" not found")
			continue
		}
		// the decorator's methods: every method of the constructor's result type
		var roots []*ssa.Function
		if res := cf.Signature.Results(); res.Len() > 0 {
			for _, fn := range p.ModFuncs {
				if rv := fn.Signature.Recv(); rv != nil && strings.TrimPrefix(rv.Type().String(), "*") == strings.TrimPrefix(res.At(0).Type().String(), "*") {
					roots = append(roots, fn)
				}
			}
		}
		roots = append(roots, cf)
		reach := p.ReachFrom(roots, func(f *ssa.Function) bool { return InModule(f) || pkgPathOf(f) == nftKeeperPath })
		hit := ""
		for _, f := range reach.Order {
			if wh, ok := rawMut[f]; ok {
				hit = wh + " via " + reach.Chain(f)
				break
			}
			if a := aolM.acc[f]; a != nil && (a.Op == "Set" || a.Op == "Delete") {
				hit = "AOL " + a.Family + " via " + reach.Chain(f)
				break
			}
			if didM.setters[f] {
				hit = "DID via " + reach.Chain(f)
				break
			}
			if n, ok := isNftKeeperMethod(f); ok {
				if _, m := nftMutators[n]; m {
					hit = "PNFT (x/nft " + n + ") via " + reach.Chain(f)
					break
				}
			}
		}
		mover := ""
		for _, f := range reach.Order {
			if pkgPathOf(f) == bankKeeperPath && f.Signature.Recv() != nil && isCoinMover(f.Name()) {
				mover = FuncName(f) + " via " + reach.Chain(f)
			}
		}
		for _, iv := range reach.Invokes {
			if isCoinMover(iv.Method) && len(bankCapable(iv.Instr.Common().Value.Type())) > 0 {
				mover = "invoke " + iv.Iface + "." + iv.Method + " in " + FuncName(iv.In)
			}
		}
		r.Check(mover == "", kp("REACH", "ante:"+ctor+"#moves-no-coins"), "ante decorators of the module move no coins (only the SDK's DeductFeeDecorator does: the declared fee)", p.Pos(w.AntePos),
			"no coin-moving bank function reachable", fmt.Sprintf("the ante decorator built by %s moves coins (%s): a custom-module transaction then changes balances or supply beyond its fee, even when its messages fail", ctor, mover))
		r.Check(hit == "", key, "ante decorators of the module write no aol/did/pnft state", p.Pos(w.AntePos),
			fmt.Sprintf("%d functions reachable from %s's decorator, none writes custom-module state", len(reach.Order), ctor),
			fmt.Sprintf("the ante decorator built by %s writes %s: ante-handler writes are committed before the messages run and are kept when a later message fails, so a failed transaction leaves custom-module state behind", ctor, hit))
	}
	r.Count("module-defined-ante-decorators", nCustomDeco)
	// every module type that can sit in an ante or post-handler chain (implements sdk.AnteDecorator / sdk.PostDecorator), however it
	// is installed: post handlers run inside the transaction after its messages, for every transaction
	nDecoTypes := 0
	for _, ifn := range []string{"AnteDecorator", "PostDecorator"} {
		iface := p.Iface(SDK+"/types", ifn)
		if iface == nil {
			r.Undecided(kp("REACH", "decorator-types#"+ifn), "sdk."+ifn+" resolves", SDK+"/types", "interface not found")
			continue
		}
		for _, n := range p.ImplementersOf(iface) {
			nDecoTypes++
			var roots []*ssa.Function
			for _, fn := range p.ModFuncs {
				if rv := fn.Signature.Recv(); rv != nil && strings.TrimPrefix(rv.Type().String(), "*") == n.String() {
					roots = append(roots, fn)
				}
			}
			reach := p.ReachFrom(roots, func(f *ssa.Function) bool { return InModule(f) || pkgPathOf(f) == nftKeeperPath })
			mover := ""
			for _, f := range reach.Order {
				if pkgPathOf(f) == bankKeeperPath && f.Signature.Recv() != nil && isCoinMover(f.Name()) {
					mover = FuncName(f) + " via " + reach.Chain(f)
				}
			}
			for _, iv := range reach.Invokes {
				if isCoinMover(iv.Method) && len(bankCapable(iv.Instr.Common().Value.Type())) > 0 {
					mover = "invoke " + iv.Iface + "." + iv.Method + " in " + FuncName(iv.In)
				}
			}
			r.Check(mover == "", kp("REACH", ifn+":"+shortPkg(n.String())+"#moves-no-coins"), "ante and post-handler decorators defined in the module move no coins (only the SDK's DeductFeeDecorator does: the declared fee)", p.Pos(n.Obj().Pos()),
				fmt.Sprintf("%d functions reachable from the methods of %s, no coin-moving bank function", len(reach.Order), shortPkg(n.String())),
				fmt.Sprintf("%s (an sdk.%s) moves coins (%s): once it is in the chain, a transaction that contains only custom-module messages changes balances beyond its fee", shortPkg(n.String()), ifn, mover))
		}
	}
	r.Count("module-types-implementing-ante/post-decorator", nDecoTypes)
}
