package main

// MSGMUT — the stateless entry points of a message do not modify the message.
//
// ValidateBasic runs before the signatures are verified (ante chain order: validate-basic, …, signature verification) and
// GetSigners/GetSignBytes are called several times while a transaction is processed. If one of them changes the message in
// place — reorders a list, normalises a string, fills a default — the bytes that are signed (amino JSON of the message) are no
// longer a function of the transaction as sent: two transactions that differ in the modified part share sign bytes after
// validation, and the same message has different sign bytes before and after. The rule lists definite writes into memory
// reachable from the receiver:
//
//	a store through (a field/element address derived from) the receiver; a map update on one of its maps; append onto a
//	re-sliced part of one of its slices (x[:0], x[:k] — overwrites the elements behind); copy into one of its slices; an
//	in-place library mutator (sort.*, slices.Sort*/Reverse, rand.Shuffle via sort.Interface is not followed) applied to one of
//	its slices; a module callee that does one of these to the corresponding parameter (depth ≤ 3).
//
// What is not decidable here (calls through interfaces, reflection) raises nothing.

import (
	"fmt"
	"go/token"
	"go/types"
	"strings"

	"golang.org/x/tools/go/ssa"
)

// strictAppend: also report a plain append(x, …) onto a slice of the root's memory. Not a definite write (it needs spare capacity),
// but two goroutines doing it on the same message race on the backing array; used by C20 only.
var strictAppend bool

type msgWrite struct {
	Fn    *ssa.Function
	Instr ssa.Instruction
	How   string
	Chain string
}

var inPlaceMutators = []string{"sort.Slice", "sort.SliceStable", "sort.Strings", "sort.Ints", "sort.Float64s", "sort.Sort", "sort.Stable",
	"slices.Sort", "slices.SortFunc", "slices.SortStableFunc", "slices.Reverse", "math/rand.Shuffle"}

func isInPlaceMutator(name string) bool {
	for _, m := range inPlaceMutators {
		if name == m || strings.HasPrefix(name, m+"[") {
			return true
		}
	}
	return false
}

func isRefLike(t types.Type) bool {
	switch t.Underlying().(type) {
	case *types.Pointer, *types.Slice, *types.Map:
		return true
	}
	return false
}

// writesThrough lists the definite writes of fn into memory reachable from its idx-th parameter.
func writesThrough(p *Prog, fn *ssa.Function, idx int, depth int, chain string, visiting map[string]bool) []msgWrite {
	if fn == nil || fn.Blocks == nil || idx >= len(fn.Params) || depth > 3 {
		return nil
	}
	key := fmt.Sprintf("%p/%d", fn, idx)
	if visiting[key] {
		return nil
	}
	visiting[key] = true
	defer delete(visiting, key)
	return writesThroughRoot(p, fn, fn.Params[idx], depth, chain, visiting)
}

// writesThroughRoot: the same for any value of fn (a call result, a load) as the root of the memory that must not be written.
func writesThroughRoot(p *Prog, fn *ssa.Function, root ssa.Value, depth int, chain string, visiting map[string]bool) []msgWrite {
	if !isRefLike(root.Type()) {
		// a by-value struct still shares its slices and maps with the original
		if _, isStruct := root.Type().Underlying().(*types.Struct); !isStruct {
			return nil
		}
	}
	// D: values that are references into the parameter's memory. byValue: struct values copied out of it (their reference-typed
	// fields still point into it).
	D := map[ssa.Value]bool{root: true}
	// RS ⊆ D: slices over the root's memory that are SHORTER than what they alias (x[:0], x[:k], and what is appended onto
	// those): appending onto one of them overwrites the elements behind it
	RS := map[ssa.Value]bool{}
	spill := map[*ssa.Alloc]bool{} // locals holding a by-value copy of (part of) the message
	changed := true
	derive := func(v ssa.Value) bool {
		if D[v] {
			return false
		}
		switch x := v.(type) {
		case *ssa.FieldAddr:
			if D[x.X] {
				return true
			}
			if al, ok := x.X.(*ssa.Alloc); ok && spill[al] {
				// address of a field of the local copy: writing the field itself changes the copy only; what is loaded from it
				// (slices, maps, pointers) is handled at the load
				return false
			}
		case *ssa.IndexAddr:
			return D[x.X]
		case *ssa.Field:
			return D[x.X] && isRefLike(x.Type())
		case *ssa.Index:
			return D[x.X] && isRefLike(x.Type())
		case *ssa.Lookup:
			if !x.CommaOk {
				return D[x.X] && isRefLike(x.Type())
			}
		case *ssa.UnOp:
			if x.Op != token.MUL {
				return false
			}
			if D[x.X] {
				return isRefLike(x.Type())
			}
			// load of a reference-typed field of the by-value copy
			if fa, ok := x.X.(*ssa.FieldAddr); ok {
				if al, ok := fa.X.(*ssa.Alloc); ok && spill[al] {
					return isRefLike(x.Type())
				}
			}
		case *ssa.Slice:
			return D[x.X]
		case *ssa.Phi:
			for _, e := range x.Edges {
				if D[e] {
					return true
				}
			}
		case *ssa.ChangeType:
			return D[x.X]
		case *ssa.Convert:
			// []byte(string) copies; slice-to-slice conversions of the same underlying type alias
			if _, isSl := x.X.Type().Underlying().(*types.Slice); isSl {
				if _, isSl2 := x.Type().Underlying().(*types.Slice); isSl2 {
					return D[x.X]
				}
			}
		case *ssa.MakeInterface:
			return D[x.X]
		case *ssa.Call:
			// append onto a re-sliced part of a message slice returns a slice over the same elements
			if bi, ok := x.Call.Value.(*ssa.Builtin); ok && bi.Name() == "append" && len(x.Call.Args) > 0 {
				if RS[x.Call.Args[0]] {
					return true
				}
			}
		case *ssa.TypeAssert:
			return D[x.X] && isRefLike(x.AssertedType)
		}
		return false
	}
	for changed {
		changed = false
		for _, b := range fn.Blocks {
			for _, in := range b.Instrs {
				// by-value receiver/parameter spilled to a local, or a struct loaded out of the message and stored into a local
				if st, ok := in.(*ssa.Store); ok {
					if al, ok := st.Addr.(*ssa.Alloc); ok && !spill[al] {
						if st.Val == ssa.Value(root) && !isRefLike(root.Type()) {
							spill[al] = true
							changed = true
						} else if u, ok := st.Val.(*ssa.UnOp); ok && u.Op == token.MUL && D[u.X] {
							if _, isStruct := u.Type().Underlying().(*types.Struct); isStruct {
								spill[al] = true
								changed = true
							}
						} else if D[st.Val] {
							// a reference into the message kept in a local variable: loads of that local are references too
							spill[al] = true
							changed = true
						}
					}
				}
				if v, ok := in.(ssa.Value); ok {
					if derive(v) {
						D[v] = true
						changed = true
					}
					if D[v] && !RS[v] {
						isRS := false
						switch x := v.(type) {
						case *ssa.Slice:
							isRS = x.High != nil || RS[x.X]
						case *ssa.Phi:
							for _, e := range x.Edges {
								if RS[e] {
									isRS = true
								}
							}
						case *ssa.Call:
							if bi, ok := x.Call.Value.(*ssa.Builtin); ok && bi.Name() == "append" && len(x.Call.Args) > 0 && RS[x.Call.Args[0]] {
								isRS = true
							}
						case *ssa.ChangeType:
							isRS = RS[x.X]
						case *ssa.MakeInterface:
							isRS = RS[x.X]
						}
						if isRS {
							RS[v] = true
							changed = true
						}
					}
					// load of a local that holds a reference into the message
					if u, ok := v.(*ssa.UnOp); ok && u.Op == token.MUL && !D[v] {
						if al, ok := u.X.(*ssa.Alloc); ok && spill[al] && isRefLike(u.Type()) {
							D[v] = true
							changed = true
						}
					}
				}
			}
		}
	}
	if !isRefLike(root.Type()) {
		delete(D, root) // the by-value struct itself is a copy: only what its reference fields point to is shared
	}
	var out []msgWrite
	add := func(in ssa.Instruction, how string) {
		out = append(out, msgWrite{Fn: fn, Instr: in, How: how, Chain: chain + FuncName(fn)})
	}
	for _, b := range fn.Blocks {
		for _, in := range b.Instrs {
			switch x := in.(type) {
			case *ssa.Store:
				if D[x.Addr] {
					add(in, "assignment through "+x.Addr.Name())
				}
			case *ssa.MapUpdate:
				if D[x.Map] {
					add(in, "map assignment")
				}
			case ssa.CallInstruction:
				cc := x.Common()
				if bi, ok := cc.Value.(*ssa.Builtin); ok {
					switch bi.Name() {
					case "append":
						if strictAppend && D[cc.Args[0]] && !RS[cc.Args[0]] && len(cc.Args) > 1 {
							add(in, "append onto one of its own slices (writes into the spare capacity of the shared backing array when there is any — decoded messages have it)")
						}
						if RS[cc.Args[0]] {
							add(in, "append onto a re-sliced part of one of its own slices (overwrites the elements behind it)")
						}
					case "copy":
						if D[cc.Args[0]] {
							add(in, "copy into one of its own slices")
						}
					case "delete", "clear":
						if D[cc.Args[0]] {
							add(in, bi.Name()+" on one of its own containers")
						}
					}
					continue
				}
				if cc.IsInvoke() {
					continue
				}
				sc := cc.StaticCallee()
				if sc == nil {
					continue
				}
				name := FuncName(sc)
				// library functions that fill a byte slice they are handed (encoding/binary's Put*, hex/base64 Encode, io.ReadFull, rand.Read)
				if strings.Contains(name, "encoding/binary") && strings.Contains(name, "Put") || strings.HasSuffix(name, "encoding/hex.Encode") || strings.HasSuffix(name, "Encoding).Encode") ||
					name == "io.ReadFull" || name == "crypto/rand.Read" || name == "math/rand.Read" {
					for _, a := range cc.Args {
						if D[a] {
							add(in, name+" (writes into the slice it is handed)")
							break
						}
					}
					continue
				}
				if isInPlaceMutator(name) {
					if len(cc.Args) > 0 && D[cc.Args[0]] {
						add(in, name+" (sorts/reorders its argument in place)")
					}
					continue
				}
				if !(InModule(sc) || inFixturePkg(sc)) || p.IsGenerated(sc) {
					continue
				}
				for i, a := range cc.Args {
					shared := D[a]
					if !shared {
						// a by-value struct argument loaded from the message or from its local copy
						if u, ok := a.(*ssa.UnOp); ok && u.Op == token.MUL {
							if _, isStruct := u.Type().Underlying().(*types.Struct); isStruct {
								if al, ok := u.X.(*ssa.Alloc); ok && spill[al] {
									shared = true
								} else if D[u.X] {
									shared = true
								}
							}
						}
						if a == ssa.Value(root) {
							shared = true
						}
					}
					if shared {
						out = append(out, writesThrough(p, sc, i, depth+1, chain+FuncName(fn)+" → ", visiting)...)
					}
				}
			}
		}
	}
	return out
}

const msgMutFixture = `package msgmutfx

import "sort"

type VM struct{ Id string }

type Doc struct{ VMs []*VM }

type Msg struct {
	Doc  *Doc
	Tags []string
}

func unique(vms []*VM) bool {
	sorted := append(vms[:0], vms...)
	sort.Slice(sorted, func(i, j int) bool { return sorted[i].Id < sorted[j].Id })
	for i := 1; i < len(sorted); i++ {
		if sorted[i].Id == sorted[i-1].Id {
			return false
		}
	}
	return true
}

func uniqueCopy(vms []*VM) bool {
	sorted := append([]*VM(nil), vms...)
	sort.Slice(sorted, func(i, j int) bool { return sorted[i].Id < sorted[j].Id })
	for i := 1; i < len(sorted); i++ {
		if sorted[i].Id == sorted[i-1].Id {
			return false
		}
	}
	return true
}

func (m *Msg) Mutating() bool { return unique(m.Doc.VMs) }

func (m *Msg) ReadOnly() bool { return uniqueCopy(m.Doc.VMs) && len(m.Tags) > 0 }

func (m Msg) ByValueMutating() bool { sort.Strings(m.Tags); return true }

func (m *Msg) FieldStore() bool { m.Doc.VMs[0].Id = "x"; return true }
`

func msgMutControl(p *Prog, r *Report, clause string) {
	key := "MSGMUT:" + clause + ":control#fixture"
	fx, err := buildFixture(p, "msgmutfx", msgMutFixture)
	if err != nil {
		r.Undecided(key, "positive control for the message-mutation rule", "checker/msgmut.go", "fixture does not build: "+err.Error())
		return
	}
	n := func(name string) int {
		return len(writesThrough(p, fx[name], 0, 0, "", map[string]bool{}))
	}
	got := fmt.Sprintf("%d/%d/%d/%d", n("Msg.Mutating"), n("Msg.ReadOnly"), n("Msg.ByValueMutating"), n("Msg.FieldStore"))
	r.Check(got == "2/0/1/1", key, "positive control: in-place sorting through a re-sliced alias, sorting a slice of a by-value receiver and a store through nested pointers are reported; sorting a copy is not", "checker/msgmut.go (in-memory fixture, not executed)",
		"fixture writes "+got, "fixture writes "+got+", expected 2/0/1/1: the matcher is broken")
}

func inFixturePkg(f *ssa.Function) bool {
	pk := fnPkg(f)
	return pk != nil && strings.HasPrefix(pk.Pkg.Path(), "pverif/fixture/")
}

// checkMessagesNotMutated applies MSGMUT to the stateless entry points of every message type.
func checkMessagesNotMutated(p *Prog, r *Report, clause string, msgs []*types.Named) {
	rule := "ValidateBasic, GetSigners and GetSignBytes leave the message as it was sent: what is signed is a function of the transaction, not of how often or in which order these were called"
	msgMutControl(p, r, clause)
	n := 0
	for _, m := range msgs {
		for _, mn := range []string{"ValidateBasic", "GetSigners", "GetSignBytes", "Route", "Type"} {
			fn := p.MethodOf(m, mn)
			if fn == nil {
				continue
			}
			n++
			key := fmt.Sprintf("MSGMUT:%s:%s.%s#read-only", clause, m.Obj().Name(), mn)
			ws := writesThrough(p, fn, 0, 0, "", map[string]bool{})
			if len(ws) == 0 {
				r.OK(key, rule, p.FnPos(fn), "no write into memory reachable from the receiver (call depth ≤ 3)")
				continue
			}
			w := ws[0]
			r.Fail(key, rule, p.Pos(w.Instr.Pos()),
				fmt.Sprintf("%s.%s modifies the message it is called on: %s in %s (reached via %s). It runs before signature verification, so the amino-JSON sign bytes of a transaction differ before and after it, and transactions that differ only in the modified part share sign bytes", m.Obj().Name(), mn, w.How, FuncName(w.Fn), w.Chain))
		}
	}
	r.Floor("message-entry-points-checked-for-mutation", n, 42)
}

// checkRequestsNotMutated: the hand-written methods of a module's query request types (ValidateBasic and friends) leave the
// request as the client sent it: a handler that validates and then looks up must look up what was asked for, not a rewritten
// (trimmed, lower-cased, defaulted) identifier that names another entry.
func checkRequestsNotMutated(p *Prog, r *Report, clause, typesPkg string) {
	rule := "validation of a query request does not rewrite the request: the entry looked up is the one the client named"
	n := 0
	pk := p.All[Rel(typesPkg)]
	if pk == nil {
		r.Fail("MSGMUT:"+clause+":"+typesPkg+"#anchor", "anchor", typesPkg, "package not loaded")
		return
	}
	sc := pk.Types.Scope()
	for _, name := range sc.Names() {
		// the stored entity types are in scope with their validation methods only: the keeper validates a token and then stores it,
		// so a validator that tidies its receiver up (trimmed identifiers) makes the token land under another key than the one the
		// permission checks were made for
		entity := name == "Pnft" || name == "Denom"
		if !entity && (!strings.HasPrefix(name, "Query") || !strings.HasSuffix(name, "Request")) {
			continue
		}
		tn, ok := sc.Lookup(name).(*types.TypeName)
		if !ok {
			continue
		}
		nn, ok := tn.Type().(*types.Named)
		if !ok {
			continue
		}
		ms := p.SSA.MethodSets.MethodSet(types.NewPointer(nn))
		for i := 0; i < ms.Len(); i++ {
			fn := p.SSA.MethodValue(ms.At(i))
			if fn == nil || fn.Blocks == nil || p.IsGenerated(fn) || fn.Synthetic != "" {
				continue
			}
			if entity && !strings.HasPrefix(fn.Name(), "Valid") {
				continue
			}
			n++
			key := fmt.Sprintf("MSGMUT:%s:%s.%s#read-only", clause, name, fn.Name())
			ws := writesThrough(p, fn, 0, 0, "", map[string]bool{})
			if len(ws) == 0 {
				r.OK(key, rule, p.FnPos(fn), "no write into memory reachable from the receiver (call depth ≤ 3)")
				continue
			}
			w := ws[0]
			r.Fail(key, rule, p.Pos(w.Instr.Pos()), fmt.Sprintf("%s.%s rewrites the request it is called on: %s in %s (reached via %s): a handler that calls it answers for the rewritten identifier, so two different requests get the same answer and the single-item view disagrees with the listings", name, fn.Name(), w.How, FuncName(w.Fn), w.Chain))
		}
	}
	r.Count("hand-written-request-methods("+typesPkg+")", n)
}
