package main

import (
	"fmt"
	"go/constant"
	"go/token"
	"go/types"
	"reflect"
	"sort"
	"strconv"
	"strings"

	"golang.org/x/tools/go/ssa"
)

// C14-D7 — nullable fields. A pointer-typed field with `json:",omitempty"` inside a message that can be signed in legacy amino
// JSON has two wire forms that render identically: absent (nil after decoding) and present with an empty value (non-nil, zero
// length / zero struct — amino dereferences the pointer before it applies omitempty, so the empty value is dropped like nil).
// The two are different messages (different transaction bytes, different decoded values) with the same sign bytes, unless
// stateless validation rejects one of the two forms. For every such field the rule decides, from the validator that reads the
// field, whether "absent" and "present but empty" are both accepted:
//   - the accept condition of the validator is the disjunction of the FACTS path conditions of its accepting returns;
//   - it is instantiated twice: F == nil := true, and F == nil := false with every predicate applied to *F evaluated on the
//     empty value by walking the predicate's control-flow graph with len(parameter) = 0 (evalOnEmpty);
//   - both accepted ⇔ the conjunction of the two instances is satisfiable (the other atoms are shared).
// An atom about F that cannot be evaluated leaves the field undecided in that scenario and nothing is reported for it.

type nullableField struct {
	owner *types.Named
	field *types.Var
	index int
}

// nullableOmitemptyFields lists the pointer-typed omitempty fields in the closure of the struct type root.
func nullableOmitemptyFields(root *types.Named) []nullableField {
	var out []nullableField
	seen := map[*types.Named]bool{}
	var walk func(t types.Type)
	walk = func(t types.Type) {
		switch x := t.(type) {
		case *types.Pointer:
			walk(x.Elem())
		case *types.Slice:
			walk(x.Elem())
		case *types.Array:
			walk(x.Elem())
		case *types.Map:
			walk(x.Elem())
		case *types.Named:
			if seen[x] || x.Obj().Pkg() == nil || !strings.HasPrefix(x.Obj().Pkg().Path(), ModPath) {
				return
			}
			seen[x] = true
			st, ok := x.Underlying().(*types.Struct)
			if !ok {
				return
			}
			for i := 0; i < st.NumFields(); i++ {
				f := st.Field(i)
				if strings.HasPrefix(f.Name(), "XXX_") {
					continue
				}
				tag := reflect.StructTag(st.Tag(i)).Get("json")
				if tag == "-" {
					continue
				}
				if _, isPtr := f.Type().(*types.Pointer); isPtr && strings.Contains(tag, "omitempty") {
					out = append(out, nullableField{owner: x, field: f, index: i})
				}
				walk(f.Type())
			}
		}
	}
	walk(root)
	return out
}

// evalOnEmpty: the result of the bool function fn when its parameter number prm (a slice, string or map) is empty, decided by
// walking fn's control-flow graph from the entry with len(parameter) = 0. ok is false when a branch depends on anything else.
func evalOnEmpty(fn *ssa.Function, prm int, depth int) (val bool, ok bool) {
	if fn == nil || fn.Blocks == nil || prm >= len(fn.Params) || depth > 3 {
		return false, false
	}
	res := fn.Signature.Results()
	if res.Len() != 1 || !types.Identical(res.At(0).Type().Underlying(), types.Typ[types.Bool]) {
		return false, false
	}
	param := ssa.Value(fn.Params[prm])
	isParam := func(v ssa.Value) bool {
		for {
			switch x := v.(type) {
			case *ssa.ChangeType:
				v = x.X
				continue
			case *ssa.Convert:
				v = x.X
				continue
			}
			break
		}
		return v == param
	}
	env := map[ssa.Value]constant.Value{}
	get := func(v ssa.Value) (constant.Value, bool) {
		if c, isC := v.(*ssa.Const); isC && c.Value != nil {
			return c.Value, true
		}
		cv, has := env[v]
		return cv, has
	}
	cur := fn.Blocks[0]
	var prev *ssa.BasicBlock
	for steps := 0; steps < 200; steps++ {
		for _, in := range cur.Instrs {
			switch x := in.(type) {
			case *ssa.Phi:
				for i, pr := range cur.Preds {
					if pr == prev {
						if cv, has := get(x.Edges[i]); has {
							env[x] = cv
						}
					}
				}
			case *ssa.Call:
				if bi, isB := x.Call.Value.(*ssa.Builtin); isB {
					if bi.Name() == "len" && len(x.Call.Args) == 1 && isParam(x.Call.Args[0]) {
						env[x] = constant.MakeInt64(0)
					}
					continue
				}
				if g := x.Call.StaticCallee(); g != nil && InModule(g) {
					for j, a := range x.Call.Args {
						if isParam(a) {
							if v, decided := evalOnEmpty(g, j, depth+1); decided {
								env[x] = constant.MakeBool(v)
							}
						}
					}
				}
			case *ssa.BinOp:
				a, okA := get(x.X)
				b, okB := get(x.Y)
				if !okA || !okB {
					continue
				}
				switch x.Op {
				case token.EQL, token.NEQ, token.LSS, token.LEQ, token.GTR, token.GEQ:
					if a.Kind() == b.Kind() && (a.Kind() == constant.Int || a.Kind() == constant.Bool && (x.Op == token.EQL || x.Op == token.NEQ)) {
						env[x] = constant.MakeBool(constant.Compare(a, x.Op, b))
					}
				case token.ADD, token.SUB:
					if a.Kind() == constant.Int && b.Kind() == constant.Int {
						env[x] = constant.BinaryOp(a, x.Op, b)
					}
				}
			case *ssa.UnOp:
				if x.Op == token.NOT {
					if a, okA := get(x.X); okA && a.Kind() == constant.Bool {
						env[x] = constant.MakeBool(!constant.BoolVal(a))
					}
				}
			case *ssa.Return:
				if len(x.Results) != 1 {
					return false, false
				}
				cv, has := get(x.Results[0])
				if !has || cv.Kind() != constant.Bool {
					return false, false
				}
				return constant.BoolVal(cv), true
			case *ssa.If:
				cv, has := get(x.Cond)
				if !has || cv.Kind() != constant.Bool {
					return false, false
				}
				prev = cur
				if constant.BoolVal(cv) {
					cur = cur.Succs[0]
				} else {
					cur = cur.Succs[1]
				}
			case *ssa.Jump:
				prev = cur
				cur = cur.Succs[0]
			case *ssa.Panic:
				return false, false
			}
		}
	}
	return false, false
}

// substFormula rebuilds f with every atom replaced by sub(atom) (nil: keep the atom).
func substFormula(f *Formula, sub func(a *Formula) *Formula) *Formula {
	switch f.Kind {
	case FAtom:
		if s := sub(f); s != nil {
			return s
		}
		return f
	case FNot:
		return fNot(substFormula(f.Sub[0], sub))
	case FAnd, FOr:
		var parts []*Formula
		for _, s := range f.Sub {
			parts = append(parts, substFormula(s, sub))
		}
		if f.Kind == FAnd {
			return fAnd(parts...)
		}
		return fOr(parts...)
	}
	return f
}

// checkNullableFields (C14-D7).
func checkNullableFields(p *Prog, r *Report, kp func(string, string) string) {
	rule := "a nullable (pointer, omitempty) field inside a message signable in amino JSON is either required, or rejected when present but empty: otherwise 'absent' and 'present with an empty value' are two different messages with the same sign bytes"
	done := map[string]bool{}
	n := 0
	for _, m := range p.LegacyMsgs() {
		if !strings.HasPrefix(m.Obj().Pkg().Path(), ModPath) {
			continue
		}
		vb := p.MethodOf(m, "ValidateBasic")
		if vb == nil || vb.Blocks == nil {
			continue
		}
		req := requiredFields(p, m)
		reach := p.ReachFrom([]*ssa.Function{vb}, func(f *ssa.Function) bool { return InModule(f) && !p.IsGenerated(f) })
		for _, nf := range nullableOmitemptyFields(m) {
			id := nf.owner.Obj().Name() + "." + nf.field.Name()
			key := kp("NULLABLE", m.Obj().Name()+":"+id+"#absent-vs-empty")
			if done[key] {
				continue
			}
			done[key] = true
			n++
			site := p.Fset.Position(nf.field.Pos()).String()
			site = strings.TrimPrefix(site, p.RepoDir+"/")
			if nf.owner == m && req[nf.field.Name()] {
				r.OK(key, rule, site, "ValidateBasic rejects the message when the field is absent")
				continue
			}
			// the validators that read the field: functions reachable from ValidateBasic with a parameter of the owner type
			var res []string
			collide, undecided := true, false
			nValidators := 0
			// candidates: what ValidateBasic reaches by definite call edges, plus every hand-written function of the owner's package
			// (a validator split into check methods that are called through a table of bound methods is reached by no definite edge)
			cands := append([]*ssa.Function{}, reach.Order...)
			seenC := map[*ssa.Function]bool{}
			for _, f := range cands {
				seenC[f] = true
			}
			for _, f := range p.ModFuncs {
				if !seenC[f] && f.Blocks != nil && !p.IsGenerated(f) && nf.owner.Obj().Pkg() != nil && pkgPathOf(f) == nf.owner.Obj().Pkg().Path() && f.Parent() == nil {
					cands = append(cands, f)
				}
			}
			for _, fn := range cands {
				pi := -1
				for i, prm := range fn.Params {
					t := prm.Type()
					if pt, ok := t.(*types.Pointer); ok {
						t = pt.Elem()
					}
					if nn, ok := t.(*types.Named); ok && nn == nf.owner {
						pi = i
					}
				}
				if pi < 0 || !readsField(fn, fn.Params[pi], nf.index) {
					continue
				}
				sig := fn.Signature.Results()
				if sig.Len() == 0 {
					continue
				}
				last := sig.At(sig.Len() - 1).Type()
				isBool := types.Identical(last.Underlying(), types.Typ[types.Bool])
				if !isBool && !isErrorType(last) {
					continue
				}
				nValidators++
				o := NewOrigin(p, fn)
				fa := NewFacts(p, fn, o)
				var acc []*Formula
				after := map[*ssa.BasicBlock]bool{}
				var work []*ssa.BasicBlock
				for _, b := range fn.Blocks {
					for _, in := range b.Instrs {
						switch x := in.(type) {
						case *ssa.FieldAddr:
							if x.Field == nf.index && baseIs(x.X, fn.Params[pi]) && !after[b] {
								after[b] = true
								work = append(work, b)
							}
						case *ssa.Field:
							if x.Field == nf.index && baseIs(x.X, fn.Params[pi]) && !after[b] {
								after[b] = true
								work = append(work, b)
							}
						}
					}
				}
				for len(work) > 0 {
					b := work[0]
					work = work[1:]
					for _, sc := range b.Succs {
						if !after[sc] {
							after[sc] = true
							work = append(work, sc)
						}
					}
				}
				for _, ret := range returnsOf(fn) {
					rv := unspill(ret.Results[len(ret.Results)-1])
					accepting := true
					var extra *Formula
					if c, isC := rv.(*ssa.Const); isC {
						if isBool {
							accepting = c.Value != nil && constant.BoolVal(c.Value)
						} else {
							accepting = c.IsNil()
						}
					} else if isBool {
						// `return pred(x)`: accepting when the returned value is true
						extra = fa.ValueFormula(rv)
					} else if !isBool {
						// `return err` of a failed helper, or a wrapped error: a rejecting return unless it is a success pass-through
						accepting = false
						for _, sr := range successReturns(fn) {
							if sr == ret {
								accepting = true
							}
						}
					}
					// only accepting returns that come after the field has been looked at: an accepting return before that (a
					// tombstone accepted at once) belongs to values the messages' own checks exclude
					if accepting && after[ret.Block()] {
						F := fa.At(ret.Block())
						if extra != nil {
							F = fAnd(F, extra)
						}
						acc = append(acc, F)
					}
				}
				A := fOr(acc...)
				isF := func(t *Term) bool {
					return t != nil && t.Op == "field" && t.Name == nf.field.Name() && len(t.Args) == 1 && t.Args[0].Contains(func(x *Term) bool { return x.Op == "param" && strings.HasPrefix(x.Name, fmt.Sprint(pi)+":") })
				}
				mentions := func(t *Term) bool { return t != nil && t.Contains(isF) }
				scenario := func(absent bool) (*Formula, bool) {
					good := true
					out := substFormula(A, func(a *Formula) *Formula {
						if !mentions(a.Term) {
							return nil
						}
						t := a.Term
						if t.Op == "eq" && len(t.Args) == 2 {
							x, y := t.Args[0], t.Args[1]
							if isF(y) {
								x, y = y, x
							}
							if isF(x) && y.Op == "const" && y.Name == "nil" {
								if absent {
									return fTrue
								}
								return fFalse
							}
						}
						if absent {
							// anything else about *F is never evaluated on a path where F is nil (a dereference would panic)
							return fFalse
						}
						// a length test on *F: len is 0
						if (t.Op == "eq" || t.Op == "lt") && len(t.Args) == 2 {
							intOf := func(x *Term) (int64, bool) {
								if x.Op == "const" {
									if v, err := strconv.ParseInt(x.Name, 10, 64); err == nil {
										return v, true
									}
								}
								if x.Op == "call" && x.Name == "builtin:len" && len(x.Args) == 1 && x.Args[0].Op == "deref" && len(x.Args[0].Args) == 1 && isF(x.Args[0].Args[0]) {
									return 0, true
								}
								return 0, false
							}
							if a, okA := intOf(t.Args[0]); okA {
								if b, okB := intOf(t.Args[1]); okB {
									if t.Op == "eq" && a == b || t.Op == "lt" && a < b {
										return fTrue
									}
									return fFalse
								}
							}
						}
						var call *ssa.Call
						argAt := -1
						ct := t
						if ct.Op == "res" && len(ct.Args) == 1 {
							ct = ct.Args[0]
						}
						if ct.Op == "call" {
							if c, isCall := ct.Val.(*ssa.Call); isCall {
								call = c
								off := len(ct.Args) - len(c.Call.Args)
								for i, at := range ct.Args {
									if at.Op == "deref" && len(at.Args) == 1 && isF(at.Args[0]) && i-off >= 0 {
										argAt = i - off
									}
								}
							}
						}
						if call != nil && argAt >= 0 {
							if g := call.Call.StaticCallee(); g != nil {
								pj := argAt
								if call.Call.IsInvoke() {
									pj = -1
								}
								if v, ok := evalOnEmpty(g, pj, 0); ok && pj >= 0 {
									if v {
										return fTrue
									}
									return fFalse
								}
							}
						}
						good = false
						return nil
					})
					return out, good
				}
				Aabs, okA := scenario(true)
				Aemp, okE := scenario(false)
				if !okA || !okE {
					undecided = true
					res = append(res, FuncName(fn)+": a condition on the field could not be evaluated on the empty value")
					continue
				}
				both := fAnd(Aabs, Aemp)
				sat := !Entails(both, fFalse)
				if !sat {
					collide = false
					res = append(res, FuncName(fn)+": not both of {absent, present-but-empty} are accepted")
				} else {
					res = append(res, FuncName(fn)+": accepts the field absent and present-but-empty alike")
				}
			}
			sort.Strings(res)
			switch {
			case nValidators == 0:
				r.Fail(key, rule, site, fmt.Sprintf("%s is a nullable omitempty field that no validator reachable from %s.ValidateBasic reads: absent and present-but-empty are both accepted and share their amino-JSON sign bytes", id, m.Obj().Name()))
			case undecided && collide:
				r.OKTrivial(key, rule, site, "not decided: "+strings.Join(res, "; "))
			case collide:
				r.Fail(key, rule, site, fmt.Sprintf("%s may be absent or present with an empty value, validation accepts both (%s), amino JSON drops both (omitempty after dereferencing): two different messages, one signature", id, strings.Join(res, "; ")))
			default:
				r.OK(key, rule, site, strings.Join(res, "; "))
			}
		}
	}
	r.Floor("nullable-omitempty-fields-in-signable-messages", n, 3)
}

func isErrorType(t types.Type) bool {
	n, ok := t.(*types.Named)
	return ok && n.Obj().Pkg() == nil && n.Obj().Name() == "error"
}

// readsField: fn loads field number idx of (the struct behind) its parameter prm.
func readsField(fn *ssa.Function, prm *ssa.Parameter, idx int) bool {
	for _, b := range fn.Blocks {
		for _, in := range b.Instrs {
			switch x := in.(type) {
			case *ssa.FieldAddr:
				if x.Field == idx && baseIs(x.X, prm) {
					return true
				}
			case *ssa.Field:
				if x.Field == idx && baseIs(x.X, prm) {
					return true
				}
			}
		}
	}
	return false
}

func baseIs(v ssa.Value, prm *ssa.Parameter) bool {
	for i := 0; i < 4; i++ {
		if v == ssa.Value(prm) {
			return true
		}
		switch x := v.(type) {
		case *ssa.UnOp:
			v = x.X
		case *ssa.Alloc:
			// a by-value receiver spilled into a local
			if refs := x.Referrers(); refs != nil {
				for _, rf := range *refs {
					if st, ok := rf.(*ssa.Store); ok && st.Addr == ssa.Value(x) && st.Val == ssa.Value(prm) {
						return true
					}
				}
			}
			return false
		default:
			return false
		}
	}
	return false
}


// checkNoNilVersusEmptyLists (C08): hand-written code of the stored types does not tell a nil list from an empty one. The two are
// the same value in the store (protobuf drops both) but not in a genesis file (amino/JSON writes `[]`, which decodes to an empty,
// non-nil slice), so a predicate that compares a repeated field with nil answers differently before and after an export/import.
func checkNoNilVersusEmptyLists(p *Prog, r *Report, kp func(string, string) string, pkgs ...string) {
	rule := "predicates over stored entries do not tell a nil list from an empty one (the genesis file's [] decodes to an empty, non-nil slice)"
	n, nBad := 0, 0
	// the entry-state predicates (Empty / Deactivated of the stored types) and what they call: they decide whether an entry is
	// absent, a tombstone or active, on both sides of an export/import. (A validator that refuses a nil list refuses an empty one
	// too on the next line or cannot meet one: transactions decode empty lists to nil.)
	var roots []*ssa.Function
	for _, fn := range p.ModFuncs {
		if fn.Blocks == nil || p.IsGenerated(fn) || !inExactPkgs(fn, pkgs...) || fn.Signature.Recv() == nil {
			continue
		}
		if fn.Name() == "Empty" || fn.Name() == "Deactivated" {
			roots = append(roots, fn)
		}
	}
	scope := p.ReachFrom(roots, func(f *ssa.Function) bool { return InModule(f) && !p.IsGenerated(f) })
	for _, fn := range scope.Order {
		if fn.Blocks == nil || p.IsGenerated(fn) || !inExactPkgs(fn, pkgs...) {
			continue
		}
		for _, b := range fn.Blocks {
			for _, in := range b.Instrs {
				bo, ok := in.(*ssa.BinOp)
				if !ok || (bo.Op != token.EQL && bo.Op != token.NEQ) {
					continue
				}
				x := bo.X
				if isNilConst(x) {
					x = bo.Y
				} else if !isNilConst(bo.Y) {
					continue
				}
				if _, isSl := x.Type().Underlying().(*types.Slice); !isSl {
					continue
				}
				// a field of a struct (receiver, parameter or a value reached from them)
				fname := ""
				switch y := x.(type) {
				case *ssa.UnOp:
					if fa, ok := y.X.(*ssa.FieldAddr); ok {
						fname = fieldAddrName(fa)
					}
				case *ssa.Field:
					if st, ok := y.X.Type().Underlying().(*types.Struct); ok && y.Field < st.NumFields() {
						fname = st.Field(y.Field).Name()
					}
				}
				if fname == "" {
					continue
				}
				n++
				nBad++
				r.Fail(kp("NULLABLE", FuncName(fn)+"#nil-vs-empty:"+fname), rule, p.Pos(bo.Pos()),
					fmt.Sprintf("%s compares the list %s with nil: an entry whose list is nil in the store comes back from a genesis file with an empty, non-nil list, so the predicate changes its answer across export/import", FuncName(fn), fname))
			}
		}
	}
	if nBad == 0 {
		r.OK(kp("NULLABLE", "nil-vs-empty-lists#none"), rule, strings.Join(pkgs, ", "), fmt.Sprintf("%d entry-state predicates (Empty/Deactivated), %d functions reachable from them: no comparison of a repeated field with nil", len(roots), len(scope.Order)))
	}
	r.Floor("entry-state-predicates", len(roots), 1)
	_ = n
}
