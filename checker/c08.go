package main

import (
	"fmt"
	"go/types"
	"sort"
	"strings"

	"golang.org/x/tools/go/ssa"
)

func init() { register("C08", checkC08) }

// fieldReadsOn collects, over the module call tree rooted at fn (depth <= 4), the fields read from values whose type is (a pointer to) named type T.
func fieldReadsOn(p *Prog, root *ssa.Function, T *types.Named) map[string]bool {
	reads := map[string]bool{}
	seen := map[*ssa.Function]bool{}
	isT := func(t types.Type) bool {
		if pt, ok := t.(*types.Pointer); ok {
			t = pt.Elem()
		}
		return types.Identical(t, T)
	}
	var walk func(fn *ssa.Function, depth int)
	walk = func(fn *ssa.Function, depth int) {
		if fn == nil || fn.Blocks == nil || seen[fn] || depth > 4 {
			return
		}
		seen[fn] = true
		for _, b := range fn.Blocks {
			for _, in := range b.Instrs {
				switch x := in.(type) {
				case *ssa.FieldAddr:
					if isT(x.X.Type()) && valueUsed(x) {
						// a FieldAddr that is only stored to is not a read
						onlyStore := true
						if refs := x.Referrers(); refs != nil {
							for _, rf := range *refs {
								if st, ok := rf.(*ssa.Store); ok && st.Addr == ssa.Value(x) {
									continue
								}
								if _, ok := rf.(*ssa.DebugRef); ok {
									continue
								}
								onlyStore = false
							}
						}
						if !onlyStore {
							reads[fieldName(x.X.Type(), x.Field)] = true
						}
					}
				case *ssa.Field:
					if isT(x.X.Type()) {
						reads[fieldName(x.X.Type(), x.Field)] = true
					}
				case ssa.CallInstruction:
					cc := x.Common()
					if sc := cc.StaticCallee(); sc != nil {
						if f, ok := isGeneratedGetter(p, sc); ok && len(cc.Args) == 1 && isT(cc.Args[0].Type()) {
							reads[f] = true
						}
						// passing the whole value to a marshaller reads every field
						if (strings.Contains(sc.Name(), "Marshal") && !strings.Contains(sc.Name(), "Unmarshal")) || sc.Name() == "NewAnyWithValue" {
							for _, a := range cc.Args {
								if isT(a.Type()) {
									reads["*"] = true
								}
							}
						}
						if InModule(sc) && !p.IsGenerated(sc) {
							walk(sc, depth+1)
						}
					} else if cc.IsInvoke() && strings.Contains(cc.Method.Name(), "Marshal") && !strings.Contains(cc.Method.Name(), "Unmarshal") {
						for _, a := range cc.Args {
							v := a
							if mi, ok := v.(*ssa.MakeInterface); ok {
								v = mi.X
							}
							if isT(v.Type()) {
								reads["*"] = true
							}
						}
					}
				}
			}
		}
	}
	walk(root, 0)
	return reads
}

// C08 — genesis export then import reproduces the custom-module state.
func checkC08(p *Prog, r *Report) {
	checkExportLoadsRequestedHeight(p, r, func(rule, rest string) string { return rule + ":C08:" + rest })
	checkNoDroppedErrors(p, r, "C08", "x/*", func(fn *ssa.Function) bool { return InPkgs(fn, "x") })
	checkNoNilWrap(p, r, "C08", "x/<module> (genesis code), x/<module>/types", func(fn *ssa.Function) bool {
		return inExactPkgs(fn, "x/aol", "x/did", "x/pnft", "x/burn", "x/aol/types", "x/did/types", "x/pnft/types", "x/burn/types")
	})
	r.Explain = "Decided statically: D1 for each custom module the store families written by message handlers are all read by ExportGenesis and all written by InitGenesis; D2 every field of every exported record type is consumed by the importer: AOL and DID entries are stored whole and untransformed, and on the PNFT import call tree every field of Denom and of Pnft is read (in particular the current Owner); D3 the import path contains no actor-vs-owner authorization guard (at import there is no actor; such a guard compares two independently mutable data and makes the import of a legitimately reached state panic); D4 per AOL family the exporter builds the map key with EncodeToString(&key, sep) from the key decoded from the very store entry whose value it exports, into the map field whose importer decodes with the same key type and writes through the same family's setter; the DID export key is the store key itself; D5 no exporter ranges over a Go map (export order = store iteration order, maps are marshalled with sorted keys) and import loops over maps only perform keyed writes derived from the iteration key (order-insensitive). D6 every in-loop decode target of the export/list paths is fresh per iteration; D7 each custom store key is handed to its own keeper constructor only (one exporting/importing module per store); D8 AOL genesis validation looks nothing up in a family whose entries a message handler deletes (referential integrity towards a deletable family is not an invariant of reachable states)."
	r.NotDec = []string{"equality of query answers before/after (runtime)", "JSON/amino/proto codec round trips", "module-manager ordering inside the SDK", "non-custom modules", "genesis Validate ⊇ reachable states beyond the field languages decided in C16"}
	r.Trusted = []string{"cosmos-sdk module manager InitGenesis/ExportGenesis dispatch", "gogoproto JSON marshalling (sorted map keys)"}
	kp := func(rule, rest string) string { return rule + ":C08:" + rest }
	r.Floor("in-loop-decode-targets(x/*)", checkLoopFreshDecode(p, r, "C08", func(fn *ssa.Function) bool { return InPkgs(fn, "x") }), 3)

	// ---------------- AOL ----------------
	m := buildAolModel(p)
	exp := p.Func(Rel("x/aol"), "ExportGenesis")
	imp := p.Func(Rel("x/aol"), "InitGenesis")
	if exp == nil || imp == nil {
		r.Fail(kp("WMC", "aol-genesis#anchor"), "anchor", "x/aol/genesis.go", "ExportGenesis/InitGenesis not found")
	} else {
		written := map[string]bool{}
		for _, fn := range m.handlers {
			o := NewOrigin(p, fn)
			for _, ac := range m.accessorCalls(fn, o) {
				if ac.acc.Op == "Set" || ac.acc.Op == "Delete" {
					written[ac.acc.Family] = true
				}
			}
		}
		exported := map[string]string{} // family -> genesis map field
		// each MapUpdate: map field, key built from which alloc, value from which GetAll call
		expUnits := genesisUnits(p, exp)
		for _, eu := range expUnits {
			eo := eu.o
			for _, b := range eu.fn.Blocks {
				for _, in := range b.Instrs {
					mu, ok := in.(*ssa.MapUpdate)
					if !ok {
						continue
					}
					fld, _ := rawFieldLoad(mu.Map)
					if fld == "" {
						// a per-family exporter that is handed the map to fill: the argument at its call site names the field
						if prm, isPrm := mu.Map.(*ssa.Parameter); isPrm {
							for _, cs := range callSites(exp) {
								if cs.Callee != eu.fn {
									continue
								}
								for i, fp := range eu.fn.Params {
									if fp == prm && i < len(cs.Instr.Common().Args) {
										fld, _ = rawFieldLoad(cs.Instr.Common().Args[i])
									}
								}
							}
						}
					}
					if eu.resultField != "" && returnedFreshMap(eu.fn, mu.Map) {
						// a per-family exporter: the map it builds and returns is what ExportGenesis stores into that field
						fld = eu.resultField
					}
					kt := eo.Of(mu.Key)
					site := p.Pos(mu.Pos())
					okKey := kt.IsCall("types/compkey.EncodeToString") && len(kt.Args) == 2
					var keySrc, valSrc *Term
					keyType := ""
					if okKey {
						ka := kt.Args[0]
						if ka.Op == "addr" {
							ka = ka.Args[0]
						}
						keySrc = ka
						if ka.Val != nil {
							keyType = shortPkg(ka.Val.Type().String())
						}
					}
					vt := eo.Of(mu.Value)
					valSrc = vt
					// both derive from the same GetAll* call: key = res#0(call)[i], value = &res#1(call)[i]
					var call *Term
					if keySrc != nil {
						keySrc.Walk(func(x *Term) {
							if x.Op == "call" && m.accessorByName(x.Name) != nil {
								call = x
							}
						})
					}
					fam := ""
					if call != nil {
						fam = m.accessorByName(call.Name).Family
					}
					sameCall := call != nil && valSrc.Contains(func(x *Term) bool { return x.Eq(call) })
					// ... and at the same position of the two parallel slices
					var ki, vi *Term
					if keySrc != nil {
						keySrc.Walk(func(x *Term) {
							if (x.Op == "index" || x.Op == "indexaddr") && len(x.Args) == 2 && x.Args[0].Contains(func(y *Term) bool { return y.Eq(call) }) {
								ki = x.Args[1]
							}
						})
					}
					valSrc.Walk(func(x *Term) {
						if (x.Op == "index" || x.Op == "indexaddr") && len(x.Args) == 2 && call != nil && x.Args[0].Contains(func(y *Term) bool { return y.Eq(call) }) {
							vi = x.Args[1]
						}
					})
					sameCall = sameCall && ki != nil && vi != nil && ki.Eq(vi)
					r.Check(okKey && call != nil && sameCall, kp("ORIGIN", "x/aol.ExportGenesis#"+fld+"-key+value-from-same-entry"),
						"export: the map key is EncodeToString of the key decoded from the very store entry whose value is exported", site,
						fmt.Sprintf("%s[%s] ← %s", fld, keyType, fam), fmt.Sprintf("key=%v value=%v", kt, vt))
					sep, _ := p.ConstVal(Rel(aolTypesPkg), "GenesisKeySeparator")
					r.Check(okKey && kt.Args[1].Op == "const" && kt.Args[1].Name == sep, kp("CONST", "x/aol.ExportGenesis#"+fld+"-separator"), "export uses the genesis separator constant", site, sep, fmt.Sprint(kt))
					if fam != "" {
						exported[fam] = fld
						// the family's plural field name
						r.Check(strings.HasPrefix(fld, fam), kp("AGREE", "x/aol.ExportGenesis#"+fam+"→"+fld), "each family is exported into its own genesis map", site, fam+" → "+fld, fmt.Sprintf("%s entries are exported into the %s map", fam, fld))
					}
				}
			}
		}
		// nothing takes an entry out of the exported maps again: a genesis map field is assigned at most once, from a per-family
		// exporter, and no export unit deletes from a map
		{
			stores := map[string]int{}
			var bad []string
			for _, eu := range expUnits {
				for _, b := range eu.fn.Blocks {
					for _, in := range b.Instrs {
						switch x := in.(type) {
						case *ssa.Store:
							fa, ok := x.Addr.(*ssa.FieldAddr)
							if !ok {
								continue
							}
							if _, isMap := x.Val.Type().Underlying().(*types.Map); !isMap {
								continue
							}
							f := fieldName(fa.X.Type(), fa.Field)
							stores[f]++
							fromUnit := false
							for _, u2 := range expUnits {
								if u2.call != nil && ssa.Value(u2.call) == x.Val && u2.resultField == f {
									fromUnit = true
								}
							}
							if !fromUnit || stores[f] > 1 {
								bad = append(bad, fmt.Sprintf("%s is (re)assigned at %s", f, p.Pos(x.Pos())))
							}
						case *ssa.Call:
							if bi, ok := x.Call.Value.(*ssa.Builtin); ok && (bi.Name() == "delete" || bi.Name() == "clear") {
								bad = append(bad, fmt.Sprintf("%s at %s", bi.Name(), p.Pos(x.Pos())))
							}
						}
					}
				}
			}
			r.Check(len(bad) == 0, kp("ORIGIN", "x/aol.ExportGenesis#maps-only-grow"), "export: an exported map is filled once and nothing is taken out of it again", p.FnPos(exp),
				fmt.Sprintf("%d export units, map fields assigned: %d", len(expUnits), len(stores)), strings.Join(bad, "; ")+": entries put into the genesis map can be dropped again before it is returned")
		}
		checkAolExportLoopBounds(p, r, kp)
		// every exported entry is put into the map on every iteration (no conditional skip)
		nExpLoops := 0
		for _, eu := range expUnits {
			has := false
			for _, b := range eu.fn.Blocks {
				for _, in := range b.Instrs {
					if _, ok := in.(*ssa.MapUpdate); ok {
						has = true
					}
				}
			}
			if has {
				nExpLoops++
				checkUnconditionalLoopEffect(p, r, kp("LOOP", "x/aol.ExportGenesis#every-entry-exported"), eu.fn,
					func(in ssa.Instruction) bool { _, ok := in.(*ssa.MapUpdate); return ok }, "export puts every stored entry into the genesis map, with no conditional skip")
			}
		}
		if nExpLoops == 0 {
			checkUnconditionalLoopEffect(p, r, kp("LOOP", "x/aol.ExportGenesis#every-entry-exported"), exp,
				func(in ssa.Instruction) bool { _, ok := in.(*ssa.MapUpdate); return ok }, "export puts every stored entry into the genesis map, with no conditional skip")
		}
		// the importer decodes with the same separator constant
		sepC, _ := p.ConstVal(Rel(aolTypesPkg), "GenesisKeySeparator")
		nDec := 0
		impUnits := genesisUnits(p, imp)
		var impCalls []CallSite
		for _, iu := range impUnits {
			impCalls = append(impCalls, callSites(iu.fn)...)
		}
		for _, cs := range impCalls {
			if cs.Callee != nil && pkgPathOf(cs.Callee) == Rel(compkeyPkg) && strings.Contains(cs.Callee.Name(), "DecodeFromString") {
				nDec++
				c, isC := cs.Instr.Common().Args[1].(*ssa.Const)
				r.Check(isC && c.Value != nil && c.Value.ExactString() == sepC, kp("CONST", "x/aol.InitGenesis#separator@"+p.Pos(cs.Instr.Pos())),
					"import splits genesis keys with the separator the exporter joined them with", p.Pos(cs.Instr.Pos()), sepC, "a different separator is used at import: keys written by export cannot be decoded (import panics)")
			}
		}
		r.Floor("aol-import-key-decodes", nDec, 4)
		// importer pairing
		imported := map[string]string{}
		var impAcc []accCall
		for _, iu := range impUnits {
			impAcc = append(impAcc, m.accessorCalls(iu.fn, iu.o)...)
		}
		for _, ac := range impAcc {
			if ac.acc.Op != "Set" {
				continue
			}
			fld := ""
			if ac.val != nil {
				ac.val.Walk(func(x *Term) {
					if x.Op == "range" && len(x.Args) == 1 && x.Args[0].Op == "field" {
						fld = x.Args[0].Name
					}
				})
				if M, _, isWalk := sortedKeyWalk(ac.val); isWalk && M.Op == "field" {
					fld = M.Name
				}
			}
			imported[ac.acc.Family] = fld
			r.Check(fld != "" && exported[ac.acc.Family] == fld, kp("AGREE", "x/aol.InitGenesis#"+ac.acc.Family+"←"+fld),
				"writer/reader agreement: the importer writes each genesis map through the setter (hence key type and prefix) of the family the exporter filled it from", p.Pos(ac.cs.Instr.Pos()),
				fmt.Sprintf("%s ← genesis.%s", ac.acc.Family, fld), fmt.Sprintf("importer stores genesis.%s with the %s setter, exporter filled %s for that family", fld, ac.acc.Family, exported[ac.acc.Family]))
		}
		var fams []string
		for f := range written {
			fams = append(fams, f)
		}
		sort.Strings(fams)
		for _, f := range fams {
			_, e := exported[f]
			_, i := imported[f]
			r.Check(e && i, kp("WMC", "aol-family:"+f+"#exported+imported"), "prefix coverage: every store family written by message handlers is exported and imported", "x/aol/genesis.go",
				"exported and imported", fmt.Sprintf("family %s is written by handlers but exported=%v imported=%v: that state is lost across export/import", f, e, i))
		}
		r.Floor("aol-families-written-by-handlers", len(fams), 4)
		// D6 genesis validation demands no referential integrity towards a family whose entries handlers delete:
		// "every A entry has its B entry" is not an invariant of reachable states when some handler deletes B entries and leaves
		// the A entries in place (records outlive their writer), so the chain's own export would be rejected.
		deletable := map[string]bool{}
		for _, fn := range m.handlers {
			o := NewOrigin(p, fn)
			for _, ac := range m.accessorCalls(fn, o) {
				if ac.acc.Op == "Delete" {
					deletable[ac.acc.Family] = true
				}
			}
		}
		r.Floor("aol-families-deleted-by-handlers", len(deletable), 1)
		if gsT := p.Named(Rel("x/aol/types"), "GenesisState"); gsT != nil {
			if val := p.MethodOf(gsT, "Validate"); val != nil {
				reach := p.ReachFrom([]*ssa.Function{val}, func(f *ssa.Function) bool { return InModule(f) && !p.IsGenerated(f) })
				nLook := 0
				for _, fn := range reach.Order {
					for _, b := range fn.Blocks {
						for _, in := range b.Instrs {
							lk, ok := in.(*ssa.Lookup)
							if !ok {
								continue
							}
							fld, ok := rawFieldLoad(lk.X)
							if !ok {
								continue
							}
							// the entry under a key taken from the list of all keys of the very same map (a walk in key order) is the walk's
							// own element, not a reference to another entry
							if _, _, own := sortedKeyWalk(&Term{Op: "deref", Args: []*Term{NewOrigin(p, fn).Of(lk)}}); own {
								continue
							}
							nLook++
							fam := strings.TrimSuffix(fld, "s")
							key := kp("VALIDATE", "aol-genesis-lookup:"+FuncName(fn)+"→"+fld)
							if deletable[fam] {
								r.Fail(key, "genesis validation requires the presence of another entry only in families whose entries are never deleted", p.Pos(lk.Pos()),
									fmt.Sprintf("%s (reached from GenesisState.Validate) looks an entry up in %s, but a message handler deletes %s entries while entries that refer to them stay: a state reached by ordinary transactions fails the chain's own genesis validation after export", FuncName(fn), fld, fam))
							} else {
								r.OK(key, "genesis validation requires the presence of another entry only in families whose entries are never deleted", p.Pos(lk.Pos()),
									fmt.Sprintf("lookup in %s: no handler deletes %s entries", fld, fam))
							}
						}
					}
				}
				r.Count("aol-genesis-validate-cross-lookups", nLook)
				// positive control (the expected count on the real tree is zero): the matcher recognises a lookup in a map field of a by-value receiver
				if fx, err := buildFixture(p, "gsfx", "package gsfx\n\ntype GS struct{ Writers map[string]*int }\n\nfunc (g GS) Has(k string) bool { return g.Writers[k] != nil }\n\nfunc (g *GS) HasP(k string) bool { _, ok := g.Writers[k]; return ok }\n"); err != nil {
					r.Undecided(kp("VALIDATE", "aol-genesis-lookups#control"), "positive control for the lookup matcher", "checker/c08.go", "fixture does not build: "+err.Error())
				} else {
					got := 0
					for _, fxfn := range fixtureMethods(fx, "GS") {
						for _, b := range fxfn.Blocks {
							for _, in := range b.Instrs {
								if lk, ok := in.(*ssa.Lookup); ok {
									if fld, ok := rawFieldLoad(lk.X); ok && fld == "Writers" {
										got++
									}
								}
							}
						}
					}
					r.Check(got == 2, kp("VALIDATE", "aol-genesis-lookups#control"), "positive control: the matcher recognises map lookups in a field of a by-value and of a pointer receiver", "checker/c08.go (in-memory fixture, not executed)",
						fmt.Sprintf("%d of 2 fixture lookups matched", got), fmt.Sprintf("%d of 2 fixture lookups matched: the matcher is broken", got))
				}
				r.OK(kp("VALIDATE", "aol-genesis-lookups#scan"), "genesis validation requires the presence of another entry only in families whose entries are never deleted", p.FnPos(val),
					fmt.Sprintf("%d functions reachable from GenesisState.Validate, %d map lookups into genesis families, deletable families: %v", len(reach.Order), nLook, keysOf(deletable)))
			} else {
				r.Fail(kp("VALIDATE", "aol-genesis#anchor"), "anchor", "x/aol/types/genesis.go", "GenesisState.Validate not found")
			}
		}
		// untransformed import + no skip (shared with C01/C13)
		aolRules(p, r, "C08", func(tag string) bool { return tag == "genesis" || tag == "family" })
	}

	checkStoredTypeValidationNotStricter(p, r, kp, "x/aol/types", []string{"Owner", "Topic", "Writer", "Record"})
	// every module's ValidateGenesis returns the verdict of its genesis validator
	checkValidateGenesisPropagates(p, r, kp, []string{"x/aol", "x/did", "x/pnft", "x/burn"})
	// one keeper (hence one exporting/importing module) per custom store
	{
		w := BuildWire(p)
		for _, pr := range w.Problems {
			r.Undecided(kp("WIRE", "config#"+pr), "application configuration must be a literal the checker can evaluate", "app/", pr)
		}
		wireKeyOwnership(p, r, w, "C08", "aol", []string{"x/aol/keeper.NewKeeper"}, "AOL data")
		wireKeyOwnership(p, r, w, "C08", "did", []string{"x/did/keeper.NewKeeper"}, "DID documents")
		wireKeyOwnership(p, r, w, "C08", "pnft", []string{"x/pnft/keeper.NewKeeper"}, "denoms and tokens")
	}

	// ---------------- DID ----------------
	dm := buildDidModel(p)
	didGenesisRules(p, r, dm, "C08")
	if dexp := p.Func(Rel("x/did"), "ExportGenesis"); dexp != nil {
		o := NewOrigin(p, dexp)
		for _, b := range dexp.Blocks {
			for _, in := range b.Instrs {
				mu, ok := in.(*ssa.MapUpdate)
				if !ok {
					continue
				}
				// only the map of DID entries (values are DIDDocumentWithSeq): a further family's map is not a DID-entry export
				if mt, isMap := mu.Map.Type().Underlying().(*types.Map); !isMap || !strings.HasSuffix(mt.Elem().String(), "DIDDocumentWithSeq") {
					continue
				}
				kt, vt := o.Of(mu.Key), o.Of(mu.Value)
				// value = &GetDIDDocument(ctx, did); key = did (possibly through the key type's Marshal)
				var get *Term
				vt.Walk(func(x *Term) {
					if x.Op == "call" && len(x.Args) == 3 {
						if fn := staticCalleeOfTerm(p, x); fn != nil && dm.getters[resolveBound(fn)] {
							get = x
						}
					}
				})
				ok2 := get != nil && (kt.Eq(get.Args[2]) || kt.Contains(func(x *Term) bool { return x.Eq(get.Args[2]) }))
				if !ok2 && get == nil {
					// one pass over the registry: (ids, entries) := lister(ctx); key from ids[i], value &entries[i] of the same call and index
					if L, okW := didParallelWalk(p, dm, kt, vt); okW {
						ok2 = true
						checkParallelResultsUntouched(p, r, kp("ORIGIN", FuncName(L)+"#parallel-results-untouched"), L)
					}
				}
				r.Check(ok2, kp("ORIGIN", "x/did.ExportGenesis#key=store-key-of-exported-entry"), "export: each entry is exported under the identifier it is stored under", p.Pos(mu.Pos()),
					"key ≡ did of GetDIDDocument(ctx, did)", fmt.Sprintf("key=%v value=%v", kt, vt))
			}
		}
	}

	// further families of the did store (a feature's own prefix): what handlers write there is exported and imported too
	if len(dm.extraOps) > 0 {
		reachOf := func(name string) map[*ssa.Function]bool {
			out := map[*ssa.Function]bool{}
			if f := p.Func(Rel("x/did"), name); f != nil {
				for _, g := range p.ReachFrom([]*ssa.Function{f}, func(g *ssa.Function) bool { return InModule(g) && !p.IsGenerated(g) }).Order {
					out[g] = true
				}
			}
			return out
		}
		expR, impR := reachOf("ExportGenesis"), reachOf("InitGenesis")
		var hroots []*ssa.Function
		for _, h := range dm.handlers {
			hroots = append(hroots, h)
		}
		hR := map[*ssa.Function]bool{}
		for _, g := range p.ReachFrom(hroots, func(g *ssa.Function) bool { return InModule(g) && !p.IsGenerated(g) }).Order {
			hR[g] = true
		}
		type st struct{ written, exported, imported bool }
		fams := map[string]*st{}
		for _, so := range dm.extraOps {
			f := familyOfPrefix(PrefixName(so.Prefix))
			if fams[f] == nil {
				fams[f] = &st{}
			}
			switch so.Op {
			case "Set", "Delete":
				if hR[so.Fn] {
					fams[f].written = true
				}
				if impR[so.Fn] {
					fams[f].imported = true
				}
			case "Get", "Iterator", "ReverseIterator":
				if expR[so.Fn] {
					fams[f].exported = true
				}
			}
		}
		for _, f := range keysOfSt(fams) {
			x := fams[f]
			if !x.written {
				continue
			}
			// a family the import writes without the export reading it is derived data: InitGenesis rebuilds it from the exported
			// entries (an index, a marker set). What is neither exported nor rebuilt is lost.
			r.Check(x.imported, kp("WMC", "did-family:"+f+"#exported+imported"), "every family of the did store that handlers write is written by InitGenesis too (from the exported family itself, or rebuilt from the exported entries)", "x/did/genesis.go",
				fmt.Sprintf("exported=%v imported=%v", x.exported, x.imported), fmt.Sprintf("family %s is written by handlers but exported=%v imported=%v: that state is lost across export/import", f, x.exported, x.imported))
		}
	}

	// ---------------- PNFT ----------------
	pexp := p.Func(Rel("x/pnft"), "ExportGenesis")
	pimp := p.Func(Rel("x/pnft"), "InitGenesis")
	if pexp == nil || pimp == nil {
		r.Fail(kp("WMC", "pnft-genesis#anchor"), "anchor", "x/pnft/genesis.go", "ExportGenesis/InitGenesis not found")
	} else {
		// D1: handlers write class + token/owner; importer writes class (SaveClass) and token+owner (Mint); exporter reads classes, tokens, owners
		w := pnftEffectsFrom(p, pimp)
		kinds := map[string]bool{}
		for _, e := range w.effects {
			kinds[e.Kind] = true
			// D3: no ownership guard on the import path
			guarded := ""
			for _, a := range e.Cond.Atoms() {
				if _, _, isO := ownerAtom(a.Term); isO {
					guarded = a.String()
				}
			}
			r.Check(guarded == "", kp("GUARD", "x/pnft.InitGenesis→"+e.Kind+"#no-authorization-on-import"),
				"the import path applies no actor-vs-owner guard (at import there is no actor: the denom owner may legitimately differ from a token's creator after a hand-over)", p.Pos(e.Instr.Pos()),
				"no ownership comparison on the chain "+strings.Join(e.Chain, " -> "),
				"import re-runs an authorization check ("+clip(guarded, 200)+"): after a denom hand-over or token transfer the exported state cannot be imported (panic) or is imported differently")
		}
		r.Check(kinds["nft:SaveClass"] && kinds["nft:Mint"], kp("WMC", "pnft.InitGenesis#writes-class+token"), "import restores denoms (classes) and tokens with their owners", p.FnPos(pimp),
			fmt.Sprint(keys(kinds)), fmt.Sprintf("import effects: %v", keys(kinds)))
		// exporter reads
		reach := p.ReachFrom([]*ssa.Function{pexp}, func(f *ssa.Function) bool { return InModule(f) && !p.IsGenerated(f) })
		readsNft := map[string]bool{}
		for _, f := range reach.Order {
			if n, ok := isNftKeeperMethod(f); ok {
				readsNft[n] = true
			}
		}
		r.Check(readsNft["GetClasses"] && readsNft["GetNFTsOfClass"] && readsNft["GetOwner"], kp("WMC", "pnft.ExportGenesis#reads-class+token+owner"),
			"export reads every class, every token of every class and each token's current owner", p.FnPos(pexp), fmt.Sprint(keys(readsNft)), fmt.Sprintf("x/nft reads on the export path: %v", keys(readsNft)))
		checkPnftImportReadsAllFields(p, r, kp, pimp)
		// a partial update of a stored denom never empties a field the genesis validation requires
		checkPartialUpdates(p, r, kp, "x/*/keeper", func(fn *ssa.Function) bool {
			return InPkgs(fn, "x/aol/keeper", "x/did/keeper", "x/pnft/keeper", "x/burn/keeper")
		})
		checkPnftExportLoop(p, r, kp, pexp)
		// every listing helper on the export path returns everything it iterates over
		for _, f := range reach.Order {
			if !InPkgs(f, "x/pnft/keeper") || p.IsGenerated(f) || f.Blocks == nil {
				continue
			}
			hasLoopAppend := false
			for _, b := range f.Blocks {
				for _, in := range b.Instrs {
					if c, ok := in.(*ssa.Call); ok && inCycle(b) {
						if bi, isB := c.Call.Value.(*ssa.Builtin); isB && bi.Name() == "append" {
							hasLoopAppend = true
						}
					}
				}
			}
			if hasLoopAppend {
				checkUnconditionalLoopEffect(p, r, kp("LOOP", FuncName(f)+"#every-entry-listed"), f, func(in ssa.Instruction) bool {
					c, ok := in.(*ssa.Call)
					if !ok || !inCycle(c.Block()) {
						return false
					}
					bi, isB := c.Call.Value.(*ssa.Builtin)
					return isB && bi.Name() == "append"
				}, "listing helpers on the export path return every entry they iterate over (no conditional skip)")
			}
		}
		// importer loops: no skip
		checkUnconditionalLoopEffectByCallee(p, r, kp("LOOP", "x/pnft.InitGenesis#every-denom-imported"), pimp, "SaveDenom")
		checkUnconditionalLoopEffectByCallee(p, r, kp("LOOP", "x/pnft.InitGenesis#every-pnft-imported"), pimp, "")
	}

	// positive control for D9: the write through a struct copy of a package-level variable is seen, a fresh literal is not
	{
		key := kp("STATE", "ExportGenesis#builds-fresh-containers:control#fixture")
		src := "package aliasfx\n\ntype GS struct{ W map[string]int }\n\nvar empty = GS{W: map[string]int{}}\n\nfunc Default() *GS { g := empty; return &g }\n\nfunc Fresh() *GS { return &GS{W: map[string]int{}} }\n\nfunc Shared(k string) *GS { g := empty; g.W[k] = 1; return &g }\n\nfunc Own(k string) *GS { g := GS{W: map[string]int{}}; g.W[k] = 1; return &g }\n"
		if fx, err := buildFixture(p, "aliasfx", src); err != nil {
			r.Undecided(key, "positive control for the shared-container rule", "checker/c08.go", "fixture does not build: "+err.Error())
		} else {
			count := func(name string) int {
				n := 0
				for _, a := range LAccesses(p, []*ssa.Function{fx[name]}) {
					if a.Write {
						n++
					}
				}
				return n
			}
			got := fmt.Sprintf("%d/%d", count("Shared"), count("Own"))
			r.Check(got == "1/0", key, "positive control: a map assignment through a struct copy of a package-level variable is reported as a write to that variable, one into a fresh literal is not", "checker/c08.go (in-memory fixture, not executed)",
				"fixture writes "+got, "fixture writes "+got+", expected 1/0: the matcher is broken")
		}
	}

	// D12b the typed keys' string and byte forms bind every position to its own field (FromStrings inverts Strings): the importer
	// re-keys every entry through them
	if ck := p.Iface(Rel(compkeyPkg), "CompositeKey"); ck != nil {
		for _, kt := range p.ImplementersOf(ck) {
			checkTypedKey(p, r, kp, kt)
		}
	}
	// D12 the string form of the AOL genesis keys splits back into its components: the separator occurs in no component
	if sepC, ok := p.ConstVal(Rel(aolTypesPkg), "GenesisKeySeparator"); ok {
		var sep string
		fmt.Sscanf(sepC, "%q", &sep)
		if len(sep) == 1 {
			checkSeparatorOutsideComponents(p, r, kp, sep)
		} else {
			r.Fail(kp("CONST", "GenesisKeySeparator"), "the genesis key separator is a one-character constant", aolTypesPkg, "value "+sepC)
		}
	}
	// D11 the application-level export parses foreign store keys with their owner's parser (rawkey.go, finding F15)
	checkForeignKeysParsedByOwner(p, r, "C08")

	// D10 hand-written JSON decoders of the exported types (jsondecode.go)
	checkNoLanguageDowngrade(p, r, "C08")
	checkGenesisJSONForms(p, r, "C08", []string{"x/aol", "x/did", "x/pnft", "x/burn"})
	checkModuleExtensionInterfaces(p, r, "C08", []string{"x/aol", "x/did", "x/pnft", "x/burn"})
	checkJSONDecoders(p, r, "C08")

	for _, mod := range []string{"x/aol", "x/did", "x/pnft", "x/burn"} {
		checkModuleGenesisGlue(p, r, kp, mod)
	}
	checkNoNilVersusEmptyLists(p, r, kp, "x/aol/types", "x/did/types", "x/pnft/types")
	checkNoUnseparatedCompositeMapKeys(p, r, kp, "x/aol", "x/did", "x/pnft")
	checkPnftClassDeleteGuard(p, r, kp)
	// the export goes through the per-denom lister: what it shows of a token is what the single-item view shows
	pnftViewsAgree(p, r, kp)
	checkPnftHandlersWriteExportedStateOnly(p, r, kp)
	// ---------------- D5 order independence ----------------
	for _, mod := range []string{"x/aol", "x/did", "x/pnft", "x/burn"} {
		e := p.Func(Rel(mod), "ExportGenesis")
		if e == nil {
			r.Fail(kp("ORDER", mod+".ExportGenesis#anchor"), "anchor", mod, "ExportGenesis not found")
			continue
		}
		reach := p.ReachFrom([]*ssa.Function{e}, func(f *ssa.Function) bool { return InModule(f) && !p.IsGenerated(f) })
		bad := ""
		for _, f := range reach.Order {
			if !InModule(f) || f.Blocks == nil {
				continue
			}
			for _, b := range f.Blocks {
				for _, in := range b.Instrs {
					if rg, ok := in.(*ssa.Range); ok {
						if _, isMap := rg.X.Type().Underlying().(*types.Map); isMap {
							// a range whose body only does keyed writes / validation is insensitive to the iteration order (C09's classification)
							if why := mapLoopOrderSensitive(p, f, rg); why != "" {
								bad = FuncName(f) + " at " + p.Pos(rg.Pos()) + " (" + why + ")"
							}
						}
					}
				}
			}
		}
		r.Check(bad == "", kp("ORDER", mod+".ExportGenesis#no-map-iteration"), "exporting the same state twice gives identical bytes: no exporter iterates over a Go map with an order-sensitive body", p.FnPos(e),
			fmt.Sprintf("%d functions on the export path, none ranges over a map with an order-sensitive body", len(reach.Order)), "map iteration on the export path: "+bad+" (export order would differ between runs/nodes)")
		checkExportBuildsFreshContainers(p, r, kp, mod)
	}
}

func (m *aolModel) accessorByName(name string) *aolAccessor {
	for fn, a := range m.acc {
		if FuncName(fn) == name {
			return a
		}
	}
	return nil
}

// checkUnconditionalLoopEffectByCallee: the call (to the named pnft keeper method; "" = any other pnft keeper call inside a loop) executes on every iteration.
func checkUnconditionalLoopEffectByCallee(p *Prog, r *Report, key string, fn *ssa.Function, name string) {
	checkUnconditionalLoopEffect(p, r, key, fn, func(in ssa.Instruction) bool {
		c, ok := in.(*ssa.Call)
		if !ok || c.Call.StaticCallee() == nil || !inCycle(c.Block()) {
			return false
		}
		sc := resolveBound(c.Call.StaticCallee())
		if !InPkgs(sc, "x/pnft/keeper") {
			return false
		}
		if name != "" {
			return sc.Name() == name
		}
		return sc.Name() != "SaveDenom"
	}, "import restores every genesis entry, with no conditional skip")
}

func keysOf(m map[string]bool) []string {
	var out []string
	for k := range m {
		out = append(out, k)
	}
	sort.Strings(out)
	return out
}

func keysOfSt[T any](m map[string]*T) []string {
	var out []string
	for k := range m {
		out = append(out, k)
	}
	sort.Strings(out)
	return out
}

// checkPnftImportReadsAllFields (C08-D2, shared with C12): every field of Denom and of Pnft is read on the import call tree.
func checkPnftImportReadsAllFields(p *Prog, r *Report, kp func(string, string) string, pimp *ssa.Function) {
	// D2: every field of Denom and Pnft is read on the import call tree
	for _, tn := range []string{"Denom", "Pnft"} {
		T := p.Named(Rel("x/pnft/types"), tn)
		if T == nil {
			r.Fail(kp("FIELDS", "pnft."+tn+"#anchor"), "anchor", "x/pnft/types", tn+" not found")
			continue
		}
		reads := fieldReadsOn(p, pimp, T)
		st := T.Underlying().(*types.Struct)
		n := 0
		for i := 0; i < st.NumFields(); i++ {
			f := st.Field(i).Name()
			if strings.HasPrefix(f, "XXX_") {
				continue
			}
			n++
			r.Check(reads[f] || reads["*"], kp("FIELDS", "x/pnft.InitGenesis#reads:"+tn+"."+f),
				"field agreement: every field the exporter writes into the genesis record is consumed by the importer", p.FnPos(pimp),
				"read on the import call tree", fmt.Sprintf("%s.%s is exported but never read on the import call tree: it is silently dropped (e.g. a token returns to its creator instead of its current owner)", tn, f))
		}
		r.Count("fields-of-"+tn, n)
	}
}

// checkPnftExportLoop (C08, shared with C06): the exporter collects the tokens of every denom.
func checkPnftExportLoop(p *Prog, r *Report, kp func(string, string) string, pexp *ssa.Function) {
	// exporter loop: tokens of every denom are exported, none skipped
	checkUnconditionalLoopEffect(p, r, kp("LOOP", "x/pnft.ExportGenesis#tokens-of-every-denom-exported"), pexp, func(in ssa.Instruction) bool {
		c, ok := in.(*ssa.Call)
		if !ok || !inCycle(c.Block()) {
			return false
		}
		if b, isB := c.Call.Value.(*ssa.Builtin); isB {
			return b.Name() == "append"
		}
		sc := c.Call.StaticCallee()
		return sc != nil && InPkgs(resolveBound(sc), "x/pnft/keeper")
	}, "export collects the tokens of every denom, with no conditional skip")
}


// checkExportBuildsFreshContainers (C08-D9; shared with C02: a writer removed from the stores must not come back through an
// export that still carries it).
func checkExportBuildsFreshContainers(p *Prog, r *Report, kp func(string, string) string, mod string) {
	e := p.Func(Rel(mod), "ExportGenesis")
	if e == nil {
		return
	}
	reach := p.ReachFrom([]*ssa.Function{e}, func(f *ssa.Function) bool { return InModule(f) && !p.IsGenerated(f) })
	// D9: the exported value is built from this call's own containers: nothing on the export path writes memory that outlives
	// the call (a package-level variable, also through a struct copy that shares its maps; a field of a long-lived struct)
	var pathFns []*ssa.Function
	for _, f := range reach.Order {
		if InModule(f) && f.Blocks != nil {
			pathFns = append(pathFns, f)
		}
	}
	wr := ""
	for _, a := range LAccesses(p, pathFns) {
		if a.Write && !isInitFunc(a.Fn) {
			wr = a.Loc + " (" + describeAccess(p, a) + ")"
			break
		}
	}
	r.Check(wr == "", kp("STATE", mod+".ExportGenesis#builds-fresh-containers"), "an export is a function of the stores only: the export path writes no memory that outlives the call (entries of an earlier export, or of another module's, cannot leak into this one)", p.FnPos(e),
		fmt.Sprintf("%d functions on the export path, no write to a package-level variable or long-lived field", len(pathFns)),
		"the export path writes "+wr+": what one export puts there is still there at the next export (entries deleted from the stores in between are exported again) and in every other value built from the same variable")
}
