package main

// EXTIFACE — a module's lifecycle methods are actually reachable from the module manager.
//
// Since SDK 0.47 the module manager discovers what a module can do by runtime type assertions on the registered value
// (`if m, ok := mod.(module.HasGenesis); ok { … }`). A method that exists but does not make the *registered* value implement the
// extension interface — a pointer receiver on a module registered by value, a parameter typed codec.Codec where the interface says
// codec.JSONCodec — is silently never called: the module is skipped by InitGenesis/ExportGenesis (its state is lost across an
// export/import), by BeginBlock/EndBlock (the burn never runs), by RegisterServices (messages cannot be routed). Rule: whenever
// the AppModule type of a custom module (T or *T) declares a method with the name of a distinctive method of an SDK extension
// interface, the value handed to module.NewManager implements that interface.

import (
	"fmt"
	"go/types"
	"sort"
	"strings"

	"golang.org/x/tools/go/ssa"
)

var moduleExtensionInterfaces = []string{"HasGenesis", "HasGenesisBasics", "HasServices", "HasInvariants", "HasConsensusVersion", "BeginBlockAppModule", "EndBlockAppModule", "HasName"}

// registeredModuleTypes: package path of the module -> dynamic type of the value handed to module.NewManager in app.New.
func registeredModuleTypes(p *Prog) map[string]types.Type {
	out := map[string]types.Type{}
	for _, fn := range p.ModFuncs {
		if !InPkgs(fn, "app") || fn.Blocks == nil {
			continue
		}
		for _, cs := range callSites(fn) {
			if !strings.HasSuffix(cs.Name, "types/module.NewManager") {
				continue
			}
			for _, a := range cs.Instr.Common().Args {
				elems, ok := sliceLiteralElems(a)
				if !ok {
					continue
				}
				for _, e := range elems {
					mi, ok := e.(*ssa.MakeInterface)
					if !ok {
						continue
					}
					t := mi.X.Type()
					base := t
					if pt, isP := base.(*types.Pointer); isP {
						base = pt.Elem()
					}
					if n, isN := base.(*types.Named); isN && n.Obj().Pkg() != nil {
						out[n.Obj().Pkg().Path()] = t
					}
				}
			}
		}
	}
	return out
}

func checkModuleExtensionInterfaces(p *Prog, r *Report, clause string, mods []string) {
	rule := "a lifecycle method of a custom module makes the value registered with the module manager implement the SDK extension interface it belongs to (otherwise the manager's type assertion fails and the method is silently never called)"
	reg := registeredModuleTypes(p)
	n := 0
	for _, mod := range mods {
		T := p.Named(Rel(mod), "AppModule")
		rt, ok := reg[Rel(mod)]
		if T == nil || !ok {
			r.Fail("EXTIFACE:"+clause+":"+mod+"#registered", "the custom module is handed to module.NewManager", "app/app.go", fmt.Sprintf("AppModule type found=%v, registered with the manager=%v", T != nil, ok))
			continue
		}
		// every method name declared on T or *T
		declared := map[string]bool{}
		ms := p.SSA.MethodSets.MethodSet(types.NewPointer(T))
		for i := 0; i < ms.Len(); i++ {
			declared[ms.At(i).Obj().Name()] = true
		}
		for _, in := range moduleExtensionInterfaces {
			iface := p.Iface(SDK+"/types/module", in)
			if iface == nil {
				r.Undecided("EXTIFACE:"+clause+":sdk."+in, "the SDK extension interface resolves", SDK+"/types/module", in+" not found")
				continue
			}
			var mine []string
			for i := 0; i < iface.NumExplicitMethods(); i++ {
				if m := iface.ExplicitMethod(i).Name(); declared[m] {
					mine = append(mine, m)
				}
			}
			if len(mine) == 0 {
				continue
			}
			sort.Strings(mine)
			n++
			okI := types.Implements(rt, iface)
			why := ""
			if !okI {
				// say which method is missing or mistyped
				if m, wrongType := types.MissingMethod(rt, iface, true); m != nil {
					if wrongType {
						why = fmt.Sprintf("method %s has another signature than %s.%s requires", m.Name(), in, m.Name())
					} else {
						why = fmt.Sprintf("method %s is not in the method set of the registered %s (pointer receiver on a module registered by value?)", m.Name(), shortPkg(rt.String()))
					}
				}
			}
			r.Check(okI, "EXTIFACE:"+clause+":"+mod+"#"+in, rule, p.Pos(T.Obj().Pos()),
				fmt.Sprintf("%s (registered as %s) implements module.%s through %s", mod, shortPkg(rt.String()), in, strings.Join(mine, ", ")),
				fmt.Sprintf("%s declares %s but the value registered with the module manager (%s) does not implement module.%s: %s — the manager skips the module there without any error", shortPkg(T.String()), strings.Join(mine, ", "), shortPkg(rt.String()), in, why))
		}
	}
	r.Floor("module-extension-interface-obligations("+clause+")", n, len(mods)*3)
}
