package main

// LIN — linear normal form of SSA integer expressions (DESIGN.md §2.2).

import (
	"fmt"
	"go/token"
	"sort"
	"strings"

	"golang.org/x/tools/go/ssa"
)

// Lin is  Σ coef[sym]·sym + C.  Symbols are SSA registers, except len(x) which is keyed by its operand.
type Lin struct {
	Coef map[string]int64
	C    int64
}

func linSym(v ssa.Value) string {
	if c, ok := v.(*ssa.Call); ok {
		if b, ok := c.Call.Value.(*ssa.Builtin); ok && b.Name() == "len" && len(c.Call.Args) == 1 {
			return "len(" + linSym(c.Call.Args[0]) + ")"
		}
	}
	if cv, ok := v.(*ssa.Convert); ok {
		// widening int conversions are transparent for the arithmetic
		return "int(" + linSym(cv.X) + ")"
	}
	if u, ok := v.(*ssa.UnOp); ok && u.Op == token.MUL {
		if g, ok := u.X.(*ssa.Global); ok {
			return "global " + g.Pkg.Pkg.Path() + "." + g.Name()
		}
		if ia, ok := u.X.(*ssa.IndexAddr); ok {
			return linSym(ia.X) + "[" + LinOf(ia.Index).String() + "]"
		}
	}
	return v.Name()
}

func LinOf(v ssa.Value) Lin {
	switch x := v.(type) {
	case *ssa.Const:
		if x.Value != nil {
			return Lin{Coef: map[string]int64{}, C: x.Int64()}
		}
	case *ssa.BinOp:
		if x.Op == token.ADD || x.Op == token.SUB {
			a, b := LinOf(x.X), LinOf(x.Y)
			out := Lin{Coef: map[string]int64{}, C: a.C}
			for k, c := range a.Coef {
				out.Coef[k] += c
			}
			sign := int64(1)
			if x.Op == token.SUB {
				sign = -1
			}
			out.C += sign * b.C
			for k, c := range b.Coef {
				out.Coef[k] += sign * c
			}
			out.clean()
			return out
		}
	}
	return Lin{Coef: map[string]int64{linSym(v): 1}}
}

func (l *Lin) clean() {
	for k, c := range l.Coef {
		if c == 0 {
			delete(l.Coef, k)
		}
	}
}

func (a Lin) Sub(b Lin) Lin {
	out := Lin{Coef: map[string]int64{}, C: a.C - b.C}
	for k, c := range a.Coef {
		out.Coef[k] += c
	}
	for k, c := range b.Coef {
		out.Coef[k] -= c
	}
	out.clean()
	return out
}

func (a Lin) Neg() Lin { return Lin{Coef: map[string]int64{}}.Sub(a) }

func (a Lin) AddC(c int64) Lin {
	out := a.Sub(Lin{Coef: map[string]int64{}})
	out.C += c
	return out
}

func (a Lin) String() string {
	var ks []string
	for k := range a.Coef {
		ks = append(ks, k)
	}
	sort.Strings(ks)
	var sb strings.Builder
	for _, k := range ks {
		c := a.Coef[k]
		switch {
		case c == 1:
			sb.WriteString("+" + k)
		case c == -1:
			sb.WriteString("-" + k)
		default:
			sb.WriteString(fmt.Sprintf("%+d*%s", c, k))
		}
	}
	if a.C != 0 || len(ks) == 0 {
		sb.WriteString(fmt.Sprintf("%+d", a.C))
	}
	return sb.String()
}

func (a Lin) Eq(b Lin) bool { return a.String() == b.String() }

// IsConst reports whether a is the constant c.
func (a Lin) IsConst(c int64) bool { return len(a.Coef) == 0 && a.C == c }

// CmpNormal turns an integer comparison into the normal form  e >= 0  (returned as e). ok=false for ==, != and non-comparisons.
func CmpNormal(b *ssa.BinOp) (Lin, bool) {
	l, r := LinOf(b.X), LinOf(b.Y)
	switch b.Op {
	case token.GTR: // l > r  ==  l-r-1 >= 0
		return l.Sub(r).AddC(-1), true
	case token.GEQ:
		return l.Sub(r), true
	case token.LSS: // l < r == r-l-1 >= 0
		return r.Sub(l).AddC(-1), true
	case token.LEQ:
		return r.Sub(l), true
	}
	return Lin{}, false
}

// NegNormal: not (e >= 0)  ==  -e-1 >= 0
func NegNormal(e Lin) Lin { return e.Neg().AddC(-1) }
