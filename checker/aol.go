package main

// AOL model: accessor families (by prefix / value type), handler schemas, signer bindings.
// Shared by C01 (append-only records), C02 (write authorization) and C13 (counters / listings).

import (
	"fmt"
	"go/types"
	"sort"
	"strings"

	"golang.org/x/tools/go/ssa"
)

const aolKeeperPkg = "x/aol/keeper"
const aolTypesPkg = "x/aol/types"

type aolAccessor struct {
	Fn          *ssa.Function
	Op          string // Set | Delete | Get | Has | Iterator
	Prefix      string // package-level prefix variable
	listValType string // list accessors: element type of the values list
	KeyType     string // type of the key parameter
	ValType     string // type of the value parameter / result ("" if none)
	Family      string // Owner | Topic | Writer | Record (from the key type)
	SO          StoreOp
}

type aolModel struct {
	p         *Prog
	acc       map[*ssa.Function]*aolAccessor
	byFamily  map[string][]*aolAccessor
	prefixOf  map[string]string // family -> prefix var
	rawOps    []StoreOp         // store ops on the aol store that are not accessor-shaped
	listings  []StoreOp         // prefix iterations with an extended prefix (listing queries)
	allOps    []StoreOp
	handlers  map[string]*ssa.Function // message type name -> handler
	msgOf     map[*ssa.Function]*types.Named
	signers   map[string][][]string // message type name -> per-return ordered signer fields
	problems  []string
	keeperTyp string
}

func familyOfKeyType(kt string) string {
	kt = strings.TrimPrefix(kt, aolTypesPkg+".")
	if strings.HasSuffix(kt, "CompositeKey") {
		return strings.TrimSuffix(kt, "CompositeKey")
	}
	return ""
}

var coreAolFamilies = []string{"Owner", "Topic", "Writer", "Record"}

func isCoreAolFamily(f string) bool {
	for _, c := range coreAolFamilies {
		if c == f {
			return true
		}
	}
	return false
}

// familyOfPrefix: x/aol/types.TopicKeyPrefix → Topic.
func familyOfPrefix(prefixVar string) string {
	n := prefixVar
	if i := strings.LastIndex(n, "."); i >= 0 {
		n = n[i+1:]
	}
	n = strings.TrimSuffix(n, "KeyPrefix")
	n = strings.TrimSuffix(n, "Prefix")
	return n
}

// accessorValueType: the named type of the entries an accessor stores (last parameter of a Set) or hands back (first result of a Get).
func accessorValueType(a *aolAccessor) string {
	var t types.Type
	sig := a.Fn.Signature
	switch a.Op {
	case "Set":
		if n := sig.Params().Len(); n > 0 {
			t = sig.Params().At(n - 1).Type()
		}
	case "Get":
		if sig.Results().Len() > 0 {
			t = sig.Results().At(0).Type()
		}
	}
	if t == nil {
		return ""
	}
	if pt, ok := t.(*types.Pointer); ok {
		t = pt.Elem()
	}
	if n, ok := t.(*types.Named); ok {
		return n.Obj().Name()
	}
	return ""
}

// extraFamilies: the families of the model beyond the four core ones, sorted.
func (m *aolModel) extraFamilies() []string {
	var out []string
	for f := range m.byFamily {
		if !isCoreAolFamily(f) {
			out = append(out, f)
		}
	}
	sort.Strings(out)
	return out
}

func buildAolModel(p *Prog) *aolModel {
	m := &aolModel{p: p, acc: map[*ssa.Function]*aolAccessor{}, byFamily: map[string][]*aolAccessor{},
		prefixOf: map[string]string{}, handlers: map[string]*ssa.Function{}, msgOf: map[*ssa.Function]*types.Named{},
		signers: map[string][][]string{}, keeperTyp: aolKeeperPkg + ".Keeper"}
	root := m.keeperTyp + ".storeKey"
	perFn := map[*ssa.Function][]StoreOp{}
	for _, so := range p.StoreOps() {
		if so.KeyRoot != root {
			continue
		}
		m.allOps = append(m.allOps, so)
		perFn[so.Fn] = append(perFn[so.Fn], so)
	}
	for fn, ops := range perFn {
		if len(ops) != 1 {
			m.rawOps = append(m.rawOps, ops...)
			continue
		}
		so := ops[0]
		pn := PrefixName(so.Prefix)
		if so.Op == "Iterator" && !so.Raw && pn != "" && so.Prefix.IsCall("builtin:append") {
			m.listings = append(m.listings, so) // checked by the listing rule (C13-D2)
			continue
		}
		if so.Raw || pn == "" || so.Prefix.Op != "gval" {
			m.rawOps = append(m.rawOps, so)
			continue
		}
		a := &aolAccessor{Fn: fn, Op: so.Op, Prefix: pn, SO: so}
		// key parameter: the store key must be MustEncode(&<param>) (Iterator: no key)
		if so.Op == "Iterator" || so.Op == "ReverseIterator" {
			// family from the decoded key type inside the loop is checked by C08/C18; derive from prefix later
		} else {
			k := so.Key
			if k == nil || !(k.IsCall("types/compkey.MustEncode")) || len(k.Args) != 1 || k.Args[0].Op != "addr" ||
				k.Args[0].Args[0].Op != "param" {
				m.rawOps = append(m.rawOps, so)
				continue
			}
			if k.Args[0].Args[0].Val != nil {
				a.KeyType = shortPkg(k.Args[0].Args[0].Val.Type().String())
			}
		}
		m.acc[fn] = a
	}
	// a family is a prefix variable (TopicKeyPrefix → Topic, TopicMetaKeyPrefix → TopicMeta): every accessor under one prefix uses
	// one key type; the four families the properties talk about use their own <Family>CompositeKey. Further families (a feature's
	// own prefix) are modelled the same way and are "extra": the append-only / authorization / counter rules do not constrain them.
	// key type and value type per prefix variable
	keyTypeOfPrefix, valTypeOfPrefix := map[string]string{}, map[string]string{}
	// a list accessor's key and value types are the element types of the two lists it returns
	for _, a := range m.acc {
		if a.Op != "Iterator" && a.Op != "ReverseIterator" {
			continue
		}
		res := a.Fn.Signature.Results()
		if res.Len() != 2 {
			continue
		}
		elem := func(t types.Type) string {
			if sl, ok := t.Underlying().(*types.Slice); ok {
				if n, ok := sl.Elem().(*types.Named); ok {
					return n.Obj().Name()
				}
			}
			return ""
		}
		if kt, vt := elem(res.At(0).Type()), elem(res.At(1).Type()); strings.HasSuffix(kt, "CompositeKey") && vt != "" && a.KeyType == "" {
			a.KeyType = shortPkg(res.At(0).Type().Underlying().(*types.Slice).Elem().String())
			a.listValType = vt
		}
	}
	for _, a := range m.acc {
		if a.listValType != "" {
			if prev, ok := valTypeOfPrefix[a.Prefix]; ok && prev != a.listValType {
				m.problems = append(m.problems, fmt.Sprintf("prefix %s holds %s entries but %s lists it as %s", a.Prefix, prev, FuncName(a.Fn), a.listValType))
			}
		}
	}
	for _, a := range m.acc {
		if a.KeyType != "" {
			if prev, ok := keyTypeOfPrefix[a.Prefix]; ok && prev != a.KeyType {
				m.problems = append(m.problems, fmt.Sprintf("prefix %s is accessed with two key types: %s and %s in %s", a.Prefix, prev, a.KeyType, FuncName(a.Fn)))
			}
			keyTypeOfPrefix[a.Prefix] = a.KeyType
		}
		if vt := accessorValueType(a); vt != "" {
			a.ValType = vt
			valTypeOfPrefix[a.Prefix] = vt
		}
	}
	// a core family is the prefix whose key type is <Family>CompositeKey — whatever the prefix variable is called; when a further
	// family reuses that key type under its own prefix, the core one is the prefix whose entries are of type <Family>
	famOf := map[string]string{}
	for _, x := range coreAolFamilies {
		var cands []string
		for pr, kt := range keyTypeOfPrefix {
			if familyOfKeyType(kt) == x {
				cands = append(cands, pr)
			}
		}
		sort.Strings(cands)
		switch {
		case len(cands) == 1:
			famOf[cands[0]] = x
		case len(cands) > 1:
			n := 0
			for _, pr := range cands {
				if valTypeOfPrefix[pr] == x {
					famOf[pr] = x
					n++
				}
			}
			if n != 1 {
				m.problems = append(m.problems, fmt.Sprintf("key type %sCompositeKey is used under %d prefixes (%s) and %d of them hold %s entries: the %s family cannot be told apart", x, len(cands), strings.Join(cands, ", "), n, x, x))
			}
		}
	}
	used := map[string]bool{}
	for _, f := range famOf {
		used[f] = true
	}
	for _, a := range m.acc {
		fam, ok := famOf[a.Prefix]
		if !ok {
			fam = valTypeOfPrefix[a.Prefix]
			if fam == "" || used[fam] || isCoreAolFamily(fam) {
				fam = familyOfPrefix(a.Prefix)
			}
			if isCoreAolFamily(fam) {
				fam = fam + "@" + familyOfPrefix(a.Prefix) // never let a further family take a core family's name
			}
		}
		if a.KeyType != "" && isCoreAolFamily(fam) && familyOfKeyType(a.KeyType) != fam {
			m.problems = append(m.problems, fmt.Sprintf("%s uses key type %s under prefix %s, which belongs to family %s", FuncName(a.Fn), a.KeyType, a.Prefix, fam))
		}
		a.Family = fam
		if prev, ok := m.prefixOf[fam]; ok && prev != a.Prefix {
			m.problems = append(m.problems, fmt.Sprintf("family %s is accessed under two prefixes: %s (e.g.) and %s in %s", fam, prev, a.Prefix, FuncName(a.Fn)))
		}
		m.prefixOf[fam] = a.Prefix
		m.byFamily[fam] = append(m.byFamily[fam], a)
	}
	sort.Strings(m.problems)
	for f := range m.byFamily {
		sort.Slice(m.byFamily[f], func(i, j int) bool { return m.byFamily[f][i].Fn.String() < m.byFamily[f][j].Fn.String() })
	}
	// handlers by message type
	if hs := p.ServerHandlers("MsgServer")["x/aol"]; hs != nil {
		for _, fn := range hs {
			if len(fn.Params) >= 3 {
				if pt, ok := fn.Params[2].Type().(*types.Pointer); ok {
					if n, ok := pt.Elem().(*types.Named); ok {
						m.handlers[n.Obj().Name()] = fn
						m.msgOf[fn] = n
					}
				}
			}
		}
	}
	return m
}

func (m *aolModel) accessor(fn *ssa.Function) *aolAccessor {
	if fn == nil {
		return nil
	}
	return m.acc[resolveBound(fn)]
}

// mutatorCalls lists, for a function, its calls to Set/Delete accessors.
type accCall struct {
	cs  CallSite
	acc *aolAccessor
	key *Term
	val *Term
}

func (m *aolModel) accessorCalls(fn *ssa.Function, o *Origin) []accCall {
	var out []accCall
	// accessor calls of fn itself and of the transparent helpers it delegates to (terms in fn's vocabulary; the call site used
	// for dominance and path conditions is the call in fn through which the accessor is reached)
	for _, vc := range o.VirtualCalls() {
		if vc.Direct {
			continue
		}
		a := m.accessor(vc.Callee)
		if a == nil || vc.Term == nil {
			continue
		}
		root, ok := vc.Root.(*ssa.Call)
		if !ok || !vc.Always {
			continue
		}
		ac := accCall{cs: CallSite{Fn: fn, Instr: root, Callee: vc.Callee, Name: vc.Name}, acc: a}
		t := vc.Term
		if t.Op == "call" && len(t.Args) >= 3 {
			ac.key = t.Args[2]
			if len(t.Args) >= 4 {
				ac.val = t.Args[3]
			}
		}
		out = append(out, ac)
	}
	for _, cs := range callSites(fn) {
		a := m.accessor(cs.Callee)
		if a == nil {
			continue
		}
		c, ok := cs.Instr.(*ssa.Call)
		if !ok {
			out = append(out, accCall{cs: cs, acc: a})
			continue
		}
		t := o.Of(c)
		ac := accCall{cs: cs, acc: a}
		// args: receiver, ctx, key[, value]
		if t.Op == "call" && len(t.Args) >= 3 {
			ac.key = t.Args[2]
			if len(t.Args) >= 4 {
				ac.val = t.Args[3]
			}
		}
		out = append(out, ac)
	}
	return out
}

// bech32Field: res#0(AccAddressFromBech32(<msg>.F)) -> F
func bech32Field(t *Term) (string, bool) {
	c, k := t.Res()
	if t.Op != "res" || k != 0 || !c.IsCall("sdk/types.AccAddressFromBech32") || len(c.Args) != 1 {
		return "", false
	}
	return msgField(c.Args[0])
}

// msgField: <param>.F -> F   (the parameter must be a pointer-to-message parameter)
func msgField(t *Term) (string, bool) {
	if t != nil && t.Op == "field" && len(t.Args) == 1 && t.Args[0].Op == "param" {
		return t.Name, true
	}
	return "", false
}

// SignerFields evaluates GetSigners of a message type: for each return instruction, the ordered list of message
// fields the returned addresses are parsed from (nil entry: not resolvable).
func SignerFields(p *Prog, msg *types.Named) ([][]string, []string) {
	fn := p.MethodOf(msg, "GetSigners")
	var notes []string
	if fn == nil || fn.Blocks == nil {
		return nil, []string{"GetSigners not found for " + msg.String()}
	}
	o := NewOrigin(p, fn)
	var out [][]string
	for _, r := range returnsOf(fn) {
		t := o.Of(r.Results[0])
		if t.Op != "slicelit" {
			notes = append(notes, fmt.Sprintf("GetSigners of %s returns a non-literal slice: %s", msg.Obj().Name(), t))
			out = append(out, nil)
			continue
		}
		var fs []string
		for _, e := range t.Args {
			f, ok := bech32Field(e)
			if !ok {
				notes = append(notes, fmt.Sprintf("GetSigners of %s returns an address not parsed from a message field: %s", msg.Obj().Name(), e))
				fs = nil
				break
			}
			fs = append(fs, f)
		}
		out = append(out, fs)
	}
	return out, notes
}

// inAllReturns reports whether field f is a signer on every return of GetSigners.
func inAllReturns(sf [][]string, f string) bool {
	if len(sf) == 0 {
		return false
	}
	for _, r := range sf {
		found := false
		for _, x := range r {
			if x == f {
				found = true
			}
		}
		if !found {
			return false
		}
	}
	return true
}

// counterUpdate classifies a stored value relative to a read of the same family:
// returns (readCall term, changedField, delta, ok) when val == read-result with exactly one uint field +-1
// and every other field of the struct copied from the same read.
func counterUpdate(val *Term, st *types.Struct) (*Term, string, int, string) {
	if val == nil || val.Op != "lit" {
		return nil, "", 0, "value is not a struct literal: " + val.String()
	}
	var read *Term
	changed, delta := "", 0
	for i := 0; i < st.NumFields(); i++ {
		f := st.Field(i)
		if strings.HasPrefix(f.Name(), "XXX_") {
			continue
		}
		ft := val.Field(f.Name())
		if ft == nil {
			return nil, "", 0, fmt.Sprintf("field %s is not carried over (left zero)", f.Name())
		}
		var src *Term
		d := 0
		switch {
		case ft.Op == "field" && ft.Name == f.Name():
			src = ft.Args[0]
		case ft.Op == "binop" && (ft.Name == "+" || ft.Name == "-") && len(ft.Args) == 2 &&
			ft.Args[0].Op == "field" && ft.Args[0].Name == f.Name() && ft.Args[1].Op == "const" && ft.Args[1].Name == "1":
			src = ft.Args[0].Args[0]
			d = 1
			if ft.Name == "-" {
				d = -1
			}
		default:
			return nil, "", 0, fmt.Sprintf("field %s is set to %s, neither a copy nor a +-1 update of the value read", f.Name(), ft)
		}
		if read == nil {
			read = src
		} else if !read.Eq(src) {
			return nil, "", 0, fmt.Sprintf("field %s is taken from a different read (%s) than the others (%s)", f.Name(), src, read)
		}
		if d != 0 {
			if changed != "" {
				return nil, "", 0, fmt.Sprintf("two counters change at once: %s and %s", changed, f.Name())
			}
			changed, delta = f.Name(), d
		}
	}
	if read == nil {
		return nil, "", 0, "no field derives from a read"
	}
	return read, changed, delta, ""
}

func structOf(p *Prog, pkgRel, name string) *types.Struct {
	n := p.Named(Rel(pkgRel), name)
	if n == nil {
		return nil
	}
	s, _ := n.Underlying().(*types.Struct)
	return s
}

// keyFields returns the component terms of a composite-key literal.
func keyFields(k *Term) map[string]*Term {
	out := map[string]*Term{}
	if k == nil || k.Op != "lit" {
		return nil
	}
	for _, a := range k.Args {
		out[a.Name] = a.Args[0]
	}
	return out
}

// sameKeyPrefix: every component of `short` equals the same-named component of `long`.
func sameComponents(short, long *Term, names ...string) (bool, string) {
	a, b := keyFields(short), keyFields(long)
	if a == nil || b == nil {
		return false, "key is not a literal"
	}
	for _, n := range names {
		if a[n] == nil || b[n] == nil || !a[n].Eq(b[n]) {
			return false, fmt.Sprintf("component %s differs: %s vs %s", n, a[n], b[n])
		}
	}
	return true, ""
}

// unconditionalOnSuccess: the call's block dominates every success return of fn.
func unconditionalOnSuccess(fn *ssa.Function, in ssa.Instruction, o *Origin) bool {
	exits := successExits(fn)
	if len(exits) == 0 {
		return false
	}
	for _, e := range exits {
		if !o.domExit(in, e) {
			return false
		}
	}
	return true
}

// ---------------------------------------------------------------------------------------------

type aolHandlerFacts struct {
	fn        *ssa.Function
	msg       string
	o         *Origin
	fa        *Facts
	calls     []accCall
	muts      []accCall
	extraMuts []accCall
	kind      string // create-topic | add-writer | delete-writer | add-record | update-topic | unknown
	problems  []string
}

func (m *aolModel) analyseHandler(msgName string, fn *ssa.Function) *aolHandlerFacts {
	h := &aolHandlerFacts{fn: fn, msg: msgName, o: NewOrigin(m.p, fn)}
	h.fa = NewFacts(m.p, fn, h.o)
	h.calls = m.accessorCalls(fn, h.o)
	var sig []string
	for _, c := range h.calls {
		if c.acc.Op == "Set" || c.acc.Op == "Delete" {
			if !isCoreAolFamily(c.acc.Family) {
				h.extraMuts = append(h.extraMuts, c) // a further family of the module: outside the schemas of the four core families
				continue
			}
			h.muts = append(h.muts, c)
			sig = append(sig, c.acc.Op+c.acc.Family)
		}
	}
	sort.Strings(sig)
	switch strings.Join(sig, ",") {
	case "SetOwner,SetTopic":
		h.kind = "create-topic"
	case "SetTopic,SetWriter":
		h.kind = "add-writer"
	case "DeleteWriter,SetTopic":
		h.kind = "delete-writer"
	case "SetRecord,SetTopic":
		h.kind = "add-record"
	case "SetTopic":
		h.kind = "update-topic"
	case "":
		h.kind = "read-only"
	default:
		h.kind = "unknown:" + strings.Join(sig, ",")
	}
	return h
}

func (h *aolHandlerFacts) mut(op, fam string) *accCall {
	for i := range h.muts {
		if h.muts[i].acc.Op == op && h.muts[i].acc.Family == fam {
			return &h.muts[i]
		}
	}
	return nil
}

// guard: a dominating Has-fact of the family on a key equal to `key`, with the wanted polarity.
func (m *aolModel) hasGuard(h *aolHandlerFacts, at ssa.Instruction, fam string, key *Term, want bool) (string, bool) {
	return h.fa.DominatingFact(at, want, func(t *Term) bool {
		if t.Op != "call" || len(t.Args) < 3 {
			return false
		}
		// resolve callee by name suffix among Has accessors of the family
		for _, a := range m.byFamily[fam] {
			if a.Op == "Has" && t.Name == FuncName(a.Fn) {
				return t.Args[2].Eq(key)
			}
		}
		return false
	})
}

func (m *aolModel) readOf(fam string, t *Term) (*Term, bool) {
	// t must be a call to a Get accessor of the family; returns its key argument
	if t == nil || t.Op != "call" || len(t.Args) < 3 {
		return nil, false
	}
	for _, a := range m.byFamily[fam] {
		if a.Op == "Get" && t.Name == FuncName(a.Fn) {
			return t.Args[2], true
		}
	}
	return nil, false
}
