package main

// Byte-class scanners: `func firstInvalid(s string) int` — walks every byte of s from 0 to len(s), returns the index of the first
// byte a predicate rejects and -1 after the loop. The set of accepted bytes is computed by running the loop body (and the
// predicate it calls) on each of the 256 byte values with a small concrete interpreter over the SSA form; the scanner then stands
// for the language [accepted bytes]*. Used by the C16 language classification when a validator replaces its regular expression by
// such a loop.

import (
	"fmt"
	"go/constant"
	"go/token"
	"go/types"
	"strings"

	"golang.org/x/tools/go/ssa"
)

// concreteStep interprets fn from block `start` with the given values bound, until it reaches block `stop` (returns "stop"), a
// return (returns "return" and the results) or something it cannot evaluate ("?").
func concreteStep(fn *ssa.Function, env map[ssa.Value]constant.Value, start, prev, stop *ssa.BasicBlock, depth int) (string, []constant.Value, []ssa.Value) {
	get := func(v ssa.Value) (constant.Value, bool) {
		if c, ok := v.(*ssa.Const); ok && c.Value != nil {
			return c.Value, true
		}
		cv, has := env[v]
		return cv, has
	}
	cur := start
	for steps := 0; steps < 400; steps++ {
		if cur == stop && steps > 0 {
			return "stop", nil, nil
		}
		for _, in := range cur.Instrs {
			switch x := in.(type) {
			case *ssa.Phi:
				for i, pr := range cur.Preds {
					if pr == prev {
						if cv, ok := get(x.Edges[i]); ok {
							env[x] = cv
						}
					}
				}
			case *ssa.Convert:
				if cv, ok := get(x.X); ok && cv.Kind() == constant.Int {
					env[x] = cv
				}
			case *ssa.ChangeType:
				if cv, ok := get(x.X); ok {
					env[x] = cv
				}
			case *ssa.UnOp:
				if x.Op == token.NOT {
					if cv, ok := get(x.X); ok && cv.Kind() == constant.Bool {
						env[x] = constant.MakeBool(!constant.BoolVal(cv))
					}
				}
			case *ssa.BinOp:
				a, okA := get(x.X)
				b, okB := get(x.Y)
				if !okA || !okB {
					continue
				}
				switch x.Op {
				case token.EQL, token.NEQ, token.LSS, token.LEQ, token.GTR, token.GEQ:
					if a.Kind() == b.Kind() && (a.Kind() == constant.Int || a.Kind() == constant.String || a.Kind() == constant.Bool && (x.Op == token.EQL || x.Op == token.NEQ)) {
						env[x] = constant.MakeBool(constant.Compare(a, x.Op, b))
					}
				case token.ADD, token.SUB, token.AND, token.OR, token.XOR:
					if a.Kind() == constant.Int && b.Kind() == constant.Int {
						env[x] = constant.BinaryOp(a, x.Op, b)
					}
				}
			case *ssa.Call:
				g := x.Call.StaticCallee()
				if g == nil || !InModule(g) || g.Blocks == nil || depth > 3 {
					continue
				}
				sub := map[ssa.Value]constant.Value{}
				all := true
				for i, a := range x.Call.Args {
					cv, ok := get(a)
					if !ok || i >= len(g.Params) {
						all = false
						break
					}
					sub[g.Params[i]] = cv
				}
				if !all {
					continue
				}
				how, vals, _ := concreteStep(g, sub, g.Blocks[0], nil, nil, depth+1)
				if how == "return" && len(vals) == 1 && vals[0] != nil {
					env[x] = vals[0]
				}
			case *ssa.If:
				cv, ok := get(x.Cond)
				if !ok || cv.Kind() != constant.Bool {
					return "?", nil, nil
				}
				prev = cur
				if constant.BoolVal(cv) {
					cur = cur.Succs[0]
				} else {
					cur = cur.Succs[1]
				}
			case *ssa.Jump:
				prev = cur
				cur = cur.Succs[0]
			case *ssa.Return:
				vals := make([]constant.Value, len(x.Results))
				for i, rv := range x.Results {
					if cv, ok := get(rv); ok {
						vals[i] = cv
					}
				}
				return "return", vals, x.Results
			case *ssa.Panic:
				return "?", nil, nil
			}
		}
	}
	return "?", nil, nil
}

var byteScanMemo = map[*ssa.Function]*[256]bool{}
var byteScanBad = map[*ssa.Function]bool{}

// byteScanAllowed: fn is a byte-class scanner; the set of bytes it lets pass.
func byteScanAllowed(fn *ssa.Function) (*[256]bool, bool) {
	if fn == nil || fn.Blocks == nil || len(fn.Params) != 1 {
		return nil, false
	}
	if a, ok := byteScanMemo[fn]; ok {
		return a, true
	}
	if byteScanBad[fn] {
		return nil, false
	}
	byteScanBad[fn] = true
	s := fn.Params[0]
	if b, ok := s.Type().Underlying().(*types.Basic); !ok || b.Info()&types.IsString == 0 {
		return nil, false
	}
	res := fn.Signature.Results()
	if res.Len() != 1 {
		return nil, false
	}
	if bt, ok := res.At(0).Type().Underlying().(*types.Basic); !ok || bt.Info()&types.IsInteger == 0 {
		return nil, false
	}
	// s[i]
	var read ssa.Value
	var idx ssa.Value
	for _, b := range fn.Blocks {
		for _, in := range b.Instrs {
			switch x := in.(type) {
			case *ssa.Lookup:
				if x.X == ssa.Value(s) {
					if read != nil {
						return nil, false
					}
					read, idx = x, x.Index
				}
			case *ssa.Index:
				if x.X == ssa.Value(s) {
					if read != nil {
						return nil, false
					}
					read, idx = x, x.Index
				}
			}
		}
	}
	phi, ok := idx.(*ssa.Phi)
	if read == nil || !ok {
		return nil, false
	}
	header := phi.Block()
	startsAtZero, stepsByOne := false, false
	for k, e := range phi.Edges {
		if header.Dominates(header.Preds[k]) {
			stepsByOne = LinOf(e).Sub(LinOf(phi)).IsConst(1)
		} else if c, isC := e.(*ssa.Const); isC && c.Value != nil && c.Value.ExactString() == "0" {
			startsAtZero = true
		}
	}
	hif, ok := header.Instrs[len(header.Instrs)-1].(*ssa.If)
	if !ok || !startsAtZero || !stepsByOne {
		return nil, false
	}
	hc, ok := hif.Cond.(*ssa.BinOp)
	if !ok || hc.Op != token.LSS || hc.X != ssa.Value(phi) {
		return nil, false
	}
	if lc, ok := hc.Y.(*ssa.Call); !ok || calleeName(&lc.Call) != "builtin:len" || lc.Call.Args[0] != ssa.Value(s) {
		return nil, false
	}
	// after the loop: return -1
	how, vals, _ := concreteStep(fn, map[ssa.Value]constant.Value{}, header.Succs[1], header, nil, 0)
	if how != "return" || len(vals) != 1 || vals[0] == nil || vals[0].ExactString() != "-1" {
		return nil, false
	}
	// the body on every byte value: back to the header (accepted) or return of the index (rejected)
	var allowed [256]bool
	for b := 0; b < 256; b++ {
		env := map[ssa.Value]constant.Value{read: constant.MakeInt64(int64(b))}
		how, _, rvs := concreteStep(fn, env, header.Succs[0], header, header, 0)
		switch how {
		case "stop":
			allowed[b] = true
		case "return":
			if len(rvs) != 1 || rvs[0] != ssa.Value(phi) {
				return nil, false
			}
		default:
			return nil, false
		}
	}
	byteScanMemo[fn] = &allowed
	delete(byteScanBad, fn)
	return &allowed, true
}

// byteClassPattern renders an accepted-byte set (ASCII only) as the anchored pattern ^[…]*$.
func byteClassPattern(allowed *[256]bool) (string, bool) {
	var sb strings.Builder
	sb.WriteString("^[")
	n := 0
	for b := 0; b < 256; b++ {
		if !allowed[b] {
			continue
		}
		if b >= 0x80 {
			return "", false
		}
		n++
		fmt.Fprintf(&sb, `\x%02x`, b)
	}
	if n == 0 {
		return "^$", true
	}
	sb.WriteString("]*$")
	return sb.String(), true
}
