package main

import (
	"fmt"

	"golang.org/x/tools/go/ssa"
)

// NILWRAP — `errors.Wrap(err, …)` / `Wrapf(err, …)` with an err that is nil at that point returns nil: a branch written as a
// refusal (`return nil, errors.Wrapf(err, "not found")`) reports success instead, and everything after the refused check is
// skipped. The rule flags every wrap call of module code whose first argument is definitely nil there: the nil constant (a
// declared-but-unassigned error variable), or a value the FACTS path condition at the call pins to nil (the `err` of an earlier
// call whose `err != nil` branch has already returned).

var wrapFuncs = map[string]bool{
	"cosmossdk.io/errors.Wrap":                                  true,
	"cosmossdk.io/errors.Wrapf":                                 true,
	"github.com/cosmos/cosmos-sdk/types/errors.Wrap":            true,
	"github.com/cosmos/cosmos-sdk/types/errors.Wrapf":           true,
	"github.com/pkg/errors.Wrap":                                true,
	"github.com/pkg/errors.Wrapf":                               true,
	"github.com/pkg/errors.WithMessage":                         true,
	"github.com/pkg/errors.WithMessagef":                        true,
	"github.com/pkg/errors.WithStack":                           true,
	"cosmossdk.io/errors.WithType":                              true,
	"github.com/cosmos/cosmos-sdk/types/errors.WithType":        true,
	"github.com/cosmos/cosmos-sdk/types/errors.ResponseCheckTx": false,
}

type nilWrap struct {
	Call ssa.CallInstruction
	Why  string
}

func nilWrapsIn(p *Prog, fn *ssa.Function) (nWraps int, out []nilWrap) {
	var o *Origin
	var fa *Facts
	for _, cs := range callSites(fn) {
		if cs.Callee == nil || cs.Callee.Pkg == nil {
			continue
		}
		full := cs.Callee.Pkg.Pkg.Path() + "." + cs.Callee.Name()
		if !wrapFuncs[full] {
			continue
		}
		args := cs.Instr.Common().Args
		if len(args) == 0 {
			continue
		}
		nWraps++
		v := unspill(args[0])
		if isNilConst(v) {
			out = append(out, nilWrap{cs.Instr, "the wrapped error is the nil constant (an error variable that was never assigned on this path)"})
			continue
		}
		if definitelyError(v, 0) {
			continue // a sentinel or a freshly made error: never nil
		}
		if o == nil {
			o = NewOrigin(p, fn)
			fa = NewFacts(p, fn, o)
		}
		in, ok := cs.Instr.(ssa.Instruction)
		if !ok {
			continue
		}
		F := fa.At(in.Block())
		atom := cmpAtom("==", o.Of(v), o.Of(ssa.NewConst(nil, v.Type())))
		if atom != nil && F != nil && F.Kind != FFalse && Entails(F, atom) {
			out = append(out, nilWrap{cs.Instr, "on every path to this call the wrapped error has already been tested and is nil (" + clip(atom.Atom, 120) + ")"})
		}
	}
	return
}

const nilWrapFixture = `package nwfx

import (
	"cosmossdk.io/errors"
	"strconv"
)

var ErrX = errors.Register("nwfx", 2, "x")

func Stale(s, t string) (int, error) {
	n, err := strconv.Atoi(s)
	if err != nil {
		return 0, err
	}
	if t == "" {
		return 0, errors.Wrapf(err, "t is empty")
	}
	return n, nil
}

func Unassigned(kind int) error {
	var err error
	switch kind {
	case 1:
		_, err = strconv.Atoi("1")
		if err != nil {
			return errors.Wrap(err, "atoi")
		}
	default:
		return errors.Wrapf(err, "kind %d", kind)
	}
	return nil
}

func Fine(s string) (int, error) {
	n, err := strconv.Atoi(s)
	if err != nil {
		return 0, errors.Wrap(err, "atoi")
	}
	if n < 0 {
		return 0, errors.Wrapf(ErrX, "negative %d", n)
	}
	return n, nil
}
`

// checkNoNilWrap reports nil wraps in the module functions selected by scope.
func checkNoNilWrap(p *Prog, r *Report, clause string, scopeName string, scope func(fn *ssa.Function) bool) {
	rule := "an error wrap never wraps a nil error: errors.Wrap(nil, …) is nil, so the branch that was written as a refusal reports success and the checks behind it are skipped"
	ckey := "NILWRAP:" + clause + ":control#fixture"
	if fx, err := buildFixture(p, "nwfx", nilWrapFixture); err != nil {
		r.Undecided(ckey, "positive control for the nil-wrap rule", "checker/nilwrap.go", "fixture does not build: "+err.Error())
	} else {
		cnt := func(n string) string { w, l := nilWrapsIn(p, fx[n]); return fmt.Sprintf("%d:%d", w, len(l)) }
		got := cnt("Stale") + "/" + cnt("Unassigned") + "/" + cnt("Fine")
		r.Check(got == "1:1/2:1/2:0", ckey, "positive control: a wrap of an error already tested to be nil and a wrap of a never-assigned error variable are reported; wraps of a live error and of a sentinel are not", "checker/nilwrap.go (in-memory fixture, not executed)",
			"fixture wraps:nil-wraps "+got, "fixture wraps:nil-wraps "+got+", expected 1:1/2:1/2:0: the matcher is broken")
	}
	nW, nBad, nFn := 0, 0, 0
	for _, fn := range p.ModFuncs {
		if fn.Blocks == nil || p.IsGenerated(fn) || InPkgs(fn, "types/testsuite") || !scope(fn) {
			continue
		}
		nFn++
		w, bad := nilWrapsIn(p, fn)
		nW += w
		for _, b := range bad {
			nBad++
			r.Fail(fmt.Sprintf("NILWRAP:%s:%s#%d", clause, FuncName(fn), nBad), rule, p.Pos(b.Call.Pos()),
				fmt.Sprintf("%s: %s — the call returns nil, so this return reports success", FuncName(fn), b.Why))
		}
	}
	if nBad == 0 {
		r.OK("NILWRAP:"+clause+":"+scopeName+"#none", rule, scopeName, fmt.Sprintf("%d functions, %d wrap calls, none wraps a definitely-nil error", nFn, nW))
	}
	r.Count("error-wrap-calls("+scopeName+")", nW)
}

func inExactPkgs(fn *ssa.Function, rels ...string) bool {
	pp := pkgPathOf(fn)
	for _, r := range rels {
		if pp == Rel(r) {
			return true
		}
	}
	return false
}
