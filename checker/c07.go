package main

import (
	"fmt"
	"go/types"
	"sort"
	"strings"

	"golang.org/x/tools/go/ssa"
)

func init() { register("C07", checkC07) }

// bankMutatorNames: methods of bankkeeper.Keeper that move, mint or burn coins (its method set minus the view methods).
var bankViewPrefixes = []string{"Get", "Has", "Iterate", "Validate", "Spendable", "Locked", "IsSendEnabled", "BlockedAddr", "AllBalances", "Balance",
	"TotalSupply", "SupplyOf", "Params", "DenomMetadata", "DenomsMetadata", "DenomOwners", "SendEnabled", "ExportGenesis", "WithMintCoinsRestriction", "GetAuthority", "GetBlockedAddresses"}

func isBankMutatorName(n string) bool {
	for _, p := range bankViewPrefixes {
		if strings.HasPrefix(n, p) {
			return false
		}
	}
	switch {
	case strings.HasPrefix(n, "Send"), strings.HasPrefix(n, "Mint"), strings.HasPrefix(n, "Burn"), strings.HasPrefix(n, "Delegate"),
		strings.HasPrefix(n, "Undelegate"), strings.HasPrefix(n, "InputOutput"), strings.HasPrefix(n, "Set"), strings.HasPrefix(n, "Delete"),
		strings.HasPrefix(n, "InitGenesis"), strings.HasPrefix(n, "Track"), strings.HasPrefix(n, "addCoins"), strings.HasPrefix(n, "subUnlockedCoins"),
		strings.HasPrefix(n, "MultiSend"), strings.HasPrefix(n, "UpdateParams"), strings.HasPrefix(n, "MigrateSendEnabled"):
		return true
	}
	return false
}

// bankCapable: the type's method set contains a coin-moving method with the bank keeper's signature shape (first parameter sdk.Context).
func bankCapable(T types.Type) []string {
	var out []string
	for _, cand := range []types.Type{T, types.NewPointer(T)} {
		ms := types.NewMethodSet(cand)
		for i := 0; i < ms.Len(); i++ {
			f, ok := ms.At(i).Obj().(*types.Func)
			if !ok {
				continue
			}
			n := f.Name()
			if !(strings.HasPrefix(n, "SendCoins") || n == "MintCoins" || n == "BurnCoins" || strings.HasPrefix(n, "DelegateCoins") ||
				strings.HasPrefix(n, "UndelegateCoins") || n == "InputOutputCoins") {
				continue
			}
			sig := f.Type().(*types.Signature)
			hasCoins := n == "InputOutputCoins"
			for k := 0; k < sig.Params().Len(); k++ {
				if strings.HasSuffix(sig.Params().At(k).Type().String(), "types.Coins") {
					hasCoins = true
				}
			}
			if hasCoins && sig.Params().Len() >= 2 && strings.HasSuffix(sig.Params().At(0).Type().String(), "types.Context") {
				has := false
				for _, x := range out {
					if x == n {
						has = true
					}
				}
				if !has {
					out = append(out, n)
				}
			}
		}
		if len(out) > 0 {
			break
		}
	}
	return out
}

// bankMutatorCalls lists, in hand-written module code, every call whose receiver type is bank-capable and whose method moves coins.
func bankMutatorCalls(p *Prog) []CallSite {
	var out []CallSite
	for _, fn := range p.ModFuncs {
		if p.IsGenerated(fn) {
			continue
		}
		for _, cs := range callSites(fn) {
			cc := cs.Instr.Common()
			var recvT types.Type
			var m string
			if cc.IsInvoke() {
				recvT, m = cc.Value.Type(), cc.Method.Name()
			} else if cs.Callee != nil && cs.Callee.Signature.Recv() != nil {
				recvT, m = cs.Callee.Signature.Recv().Type(), cs.Callee.Name()
			} else {
				continue
			}
			if len(bankCapable(recvT)) == 0 {
				continue
			}
			if strings.HasPrefix(m, "SendCoins") || m == "MintCoins" || m == "BurnCoins" || strings.HasPrefix(m, "DelegateCoins") ||
				strings.HasPrefix(m, "UndelegateCoins") || m == "InputOutputCoins" {
				out = append(out, cs)
			}
		}
	}
	return out
}

// C07 — burn address is a sink.
func checkC07(p *Prog, r *Report) {
	checkNoDroppedErrors(p, r, "C07", "x/burn", func(fn *ssa.Function) bool { return InPkgs(fn, "x/burn") })
	checkNoNilWrap(p, r, "C07", "x/burn", func(fn *ssa.Function) bool { return InPkgs(fn, "x/burn") })
	r.Explain = "Decided statically: D1 burn.AppModule.EndBlock calls, on every path, the keeper function that reaches bank BurnCoins with the constant burn address; its error is neither returned nor passed to panic and neither function contains an explicit panic; D2 in that keeper function the Coins sent to the module and the Coins burned are the same datum, the sender is the address parsed from the parameter, recipient and burning module are the same constant (the burn module's name), the amount is a *spendable*-balance read of that same address (SpendableCoins; a total-balance read makes bank refuse the whole send when coins are locked), the early return happens only when that datum is empty, the burn is dominated by a successful send; D3 the burn module account has the Burner permission, the module is in the module manager and in the end-blocker order, its keeper is built from the bank keeper; D4 coin-moving bank methods are called only from x/burn/keeper (and the test-support package), the burn function only from EndBlock. Also: no unguarded narrowing (Int64/Uint64) or division by a possibly-zero amount on the burn path; an invariant registered by module code does not read the burn address's balance while crisis' end-blocker precedes burn's; the burn module account's address is in the blocked set handed to the keepers."
	r.NotDec = []string{"bank accounting identity (supply = sum of balances)", "crisis invariants", "minting elsewhere in the block", "SpendableCoins/SendCoins internals"}
	r.Trusted = []string{"cosmos-sdk v0.47.12 x/bank keeper", "module manager EndBlock dispatch"}
	kp := func(rule, rest string) string { return rule + ":C07:" + rest }

	am := p.Named(Rel("x/burn"), "AppModule")
	if am == nil {
		r.Fail(kp("MUSTCALL", "burn.AppModule#anchor"), "anchor", "x/burn", "AppModule not found")
		return
	}
	end := p.delegateOf(p.MethodOf(am, "EndBlock")) // AppModule.EndBlock may be a thin wrapper around an EndBlocker function
	if end == nil || end.Blocks == nil {
		r.Fail(kp("MUSTCALL", "burn.AppModule.EndBlock#anchor"), "anchor", "x/burn/module.go", "EndBlock not found")
		return
	}
	// the burn function: a function of x/burn/keeper from which an invoke/call of BurnCoins on a bank-capable value happens directly
	burnFns := map[*ssa.Function]bool{}
	for _, cs := range bankMutatorCalls(p) {
		if InPkgs(cs.Fn, "x/burn/keeper") && strings.HasSuffix(cs.Name, "BurnCoins") {
			burnFns[cs.Fn] = true
		}
	}
	r.Floor("burn-functions", len(burnFns), 1)
	eo := NewOrigin(p, end)
	var burnCall *ssa.Call
	reachesBurn := func(f *ssa.Function) bool {
		if burnFns[f] {
			return true
		}
		if f == nil || f.Blocks == nil || !InModule(f) {
			return false
		}
		for _, vc := range NewOrigin(p, f).VirtualCallsX(nil, true) {
			if in, ok := vc.Instr.(ssa.Instruction); ok && burnFns[in.Parent()] {
				return true
			}
		}
		return false
	}
	findBurnCall := func(f *ssa.Function) *ssa.Call {
		for _, cs := range callSites(f) {
			if cs.Callee != nil && reachesBurn(resolveBound(cs.Callee)) {
				if c, ok := cs.Instr.(*ssa.Call); ok {
					return c
				}
			}
		}
		return nil
	}
	burnCall = findBurnCall(end)
	// EndBlock may hand the work to an EndBlocker function: follow module calls that are executed on every path through their
	// caller (the call dominates all returns) until the function that calls the burn is found
	var chain []*ssa.Function
	for depth := 0; burnCall == nil && depth < 3; depth++ {
		var next *ssa.Function
		co := NewOrigin(p, end)
		for _, cs := range callSites(end) {
			c, isCall := cs.Instr.(*ssa.Call)
			if !isCall || cs.Callee == nil || !InModule(cs.Callee) || p.IsGenerated(cs.Callee) {
				continue
			}
			always := len(returnsOf(end)) > 0
			for _, ret := range returnsOf(end) {
				if !co.dominates(c, ret) {
					always = false
				}
			}
			g := resolveBound(cs.Callee)
			if always && (findBurnCall(g) != nil || depth < 2) && g.Blocks != nil {
				if findBurnCall(g) != nil {
					next = g
					break
				}
				if next == nil {
					next = g
				}
			}
		}
		if next == nil {
			break
		}
		chain = append(chain, end)
		end = next
		eo = NewOrigin(p, end)
		burnCall = findBurnCall(end)
	}
	if burnCall == nil {
		r.Fail(kp("MUSTCALL", "burn.AppModule.EndBlock→burn"), "EndBlock always calls the burn", p.FnPos(end), "EndBlock does not call the function that burns coins")
		return
	}
	bfn := resolveBound(burnCall.Call.StaticCallee())
	// D1 must-call on all paths
	all := true
	for _, ret := range returnsOf(end) {
		if !eo.dominates(burnCall, ret) {
			all = false
		}
	}
	r.Check(all && len(returnsOf(end)) > 0, kp("MUSTCALL", "burn.AppModule.EndBlock→"+FuncName(bfn)), "must-call: every path through EndBlock executes the burn", p.Pos(burnCall.Pos()),
		"the call dominates every return", "some path through EndBlock skips the burn (a conditional or early return before it)")
	// address argument
	bt := eo.Of(burnCall)
	addrC, _ := p.ConstVal(Rel("x/burn/types"), "BurnAddress")
	okAddr := len(bt.Args) == 3 && bt.Args[2].Op == "const" && bt.Args[2].Name == addrC
	r.Check(okAddr, kp("ORIGIN", "burn.AppModule.EndBlock#address=BurnAddress"), "the address emptied is the designated burn address constant", p.Pos(burnCall.Pos()), addrC, fmt.Sprint(bt.Args))
	// the burn runs in the block's own context: the Context EndBlock received, unchanged (a context with another gas meter, header,
	// store or event manager makes the sweep see different balances, run out of gas half way, or write outside the block)
	okCtx := len(bt.Args) == 3 && bt.Args[1].Op == "param"
	r.Check(okCtx, kp("ORIGIN", "burn.AppModule.EndBlock#ctx=block-context"), "the burn runs with the very Context EndBlock was given", p.Pos(burnCall.Pos()), "ctx ≡ EndBlock's parameter",
		fmt.Sprintf("the burn is handed %s instead of EndBlock's own Context: its gas meter / header / stores are not the block's", clip(fmt.Sprint(bt.Args[min(1, len(bt.Args)-1)]), 160)))
	nRecover := 0
	for _, fn := range p.ModFuncs {
		if !InPkgs(fn, "x/burn") || p.IsGenerated(fn) || fn.Blocks == nil {
			continue
		}
		for _, cs := range callSites(fn) {
			if cs.Name == "builtin:recover" {
				nRecover++
				r.Fail(kp("PANIC", "burn#recover@"+FuncName(fn)), "the burn module recovers from no panic (a recovered panic leaves a half-done sweep behind: the send done, the burn not)", p.Pos(cs.Instr.Pos()),
					FuncName(fn)+" calls recover(): a panic in the middle of the sweep is swallowed and the block commits with the coins moved but not burned")
			}
		}
	}
	if nRecover == 0 {
		r.OK(kp("PANIC", "burn#recover#none"), "the burn module recovers from no panic", "x/burn", "no recover() in x/burn")
	}
	// no halt: no panic, error not returned
	noPanic := func(fn *ssa.Function) bool {
		for _, b := range fn.Blocks {
			for _, in := range b.Instrs {
				if _, ok := in.(*ssa.Panic); ok {
					return false
				}
			}
		}
		return true
	}
	chainOK := true
	for _, f := range chain {
		chainOK = chainOK && noPanic(f)
	}
	r.Check(noPanic(end) && noPanic(bfn) && chainOK, kp("PANIC", "burn.EndBlock#no-explicit-panic"), "processing a block never halts because of the burn: no explicit panic in EndBlock or the burn function", p.FnPos(end),
		"no panic instruction", "an explicit panic sits in EndBlock or "+FuncName(bfn)+": a failed burn (e.g. locked coins) would halt the chain")
	checkBurnGenesisIndependentOfBalances(p, r, kp)
	checkNoPlainAccountAtModuleAddress(p, r, kp)
	checkBurnWritesNoAccounts(p, r, kp)
	errUsedBad := false
	if refs := burnCall.Referrers(); refs != nil {
		for _, u := range *refs {
			switch x := u.(type) {
			case *ssa.Return, *ssa.Panic:
				errUsedBad = true
			case *ssa.MakeInterface:
				if mr := x.Referrers(); mr != nil {
					for _, uu := range *mr {
						if _, ok := uu.(*ssa.Panic); ok {
							errUsedBad = true
						}
					}
				}
			}
		}
	}
	r.Check(!errUsedBad, kp("PANIC", "burn.EndBlock#error-swallowed"), "the burn's error is logged, never returned or turned into a panic", p.Pos(burnCall.Pos()), "error only inspected/logged", "the burn error propagates out of EndBlock")

	// no implicit panic on unbounded amounts: over the module functions reachable from EndBlock, narrowing a math.Int to a machine
	// integer needs a dominating IsInt64/IsUint64 (a balance above the machine range would abort the burn of every denomination —
	// halting the block, or, behind a recover, silently leaving the address full)
	{
		reach := p.ReachFrom([]*ssa.Function{end}, func(f *ssa.Function) bool { return InModule(f) && !p.IsGenerated(f) })
		nNarrow := 0
		for _, fn := range reach.Order {
			if !InModule(fn) {
				continue
			}
			var o *Origin
			var fa *Facts
			for _, cs := range callSites(fn) {
				if isBigDivisionCall(cs.Name) {
					nNarrow++
					if o == nil {
						o = NewOrigin(p, fn)
						fa = NewFacts(p, fn, o)
					}
					ok, wit, dv := bigDivisionGuard(o, fa, cs.Instr.(ssa.Instruction), cs.Instr.Common())
					r.Check(ok, kp("PANIC", "burn.EndBlock→"+FuncName(fn)+"→"+cs.Name), "a division on the burn path has a divisor that cannot be zero (supplies and balances can: the burn itself empties them)", p.Pos(cs.Instr.Pos()),
						"divisor guarded: "+wit, fmt.Sprintf("%s divides by %v with no dominating non-zero test: when it is zero (a denomination burned completely) EndBlock panics and the chain halts", FuncName(fn), dv))
					continue
				}
				guard := isNarrowingIntCall(cs.Name)
				if guard == "" {
					continue
				}
				nNarrow++
				if o == nil {
					o = NewOrigin(p, fn)
					fa = NewFacts(p, fn, o)
				}
				ok, wit := false, ""
				if args := cs.Instr.Common().Args; len(args) > 0 {
					recv := o.Of(args[0])
					wit, ok = fa.DominatingFact(cs.Instr.(ssa.Instruction), true, func(t *Term) bool {
						return t.Op == "call" && strings.HasSuffix(t.Name, ")."+guard) && len(t.Args) > 0 && t.Args[0].Eq(recv)
					})
				}
				r.Check(ok, kp("PANIC", "burn.EndBlock→"+FuncName(fn)+"→"+cs.Name), "amounts at the burn address are unbounded: narrowing one to a machine integer on the burn path needs a dominating "+guard+"()", p.Pos(cs.Instr.Pos()),
					"dominated by "+wit, FuncName(fn)+" calls "+cs.Name+" with no dominating "+guard+"(): a spendable amount above the machine range aborts the burn before any coin is moved")
			}
		}
		r.OK(kp("PANIC", "burn.EndBlock#no-unguarded-narrowing"), "amounts at the burn address are unbounded: no unguarded narrowing to a machine integer on the burn path", p.FnPos(end),
			fmt.Sprintf("%d functions reachable from EndBlock, %d narrowing calls (each listed separately)", len(reach.Order), nNarrow))
	}

	// D2 inside the burn function
	o := NewOrigin(p, bfn)
	fa := NewFacts(p, bfn, o)
	var send, burn *ssa.Call
	var sendV, burnV *VCall
	vcs := o.VirtualCallsX(fa, true) // the two bank calls may sit in an extracted helper of the burn keeper
	for i := range vcs {
		vc := &vcs[i]
		cc := vc.Instr.Common()
		if !cc.IsInvoke() && vc.Callee == nil {
			continue
		}
		m := ""
		if cc.IsInvoke() {
			m = cc.Method.Name()
		} else {
			m = vc.Callee.Name()
		}
		c, _ := vc.Instr.(*ssa.Call)
		switch {
		case strings.HasPrefix(m, "SendCoins") && c != nil && len(bankCapable(recvType(cc))) > 0:
			send, sendV = c, vc
		case m == "BurnCoins" && c != nil && len(bankCapable(recvType(cc))) > 0:
			burn, burnV = c, vc
		}
	}
	if send == nil || burn == nil {
		r.Fail(kp("ORIGIN", FuncName(bfn)+"#send+burn"), "the burn function sends the coins to the module account and burns them there", p.FnPos(bfn), "send or burn call not found")
		return
	}
	st, bt2 := sendV.Term, burnV.Term
	// invoke term args: recv, ctx, ...
	if !strings.HasSuffix(st.Name, "SendCoinsFromAccountToModule") || len(st.Args) != 5 || len(bt2.Args) != 4 {
		r.Fail(kp("ORIGIN", FuncName(bfn)+"#send-shape"), "coins go from the burn address to the burn module account", p.Pos(send.Pos()), "unexpected send/burn call: "+st.Name)
		return
	}
	sender, smod, samt := st.Args[2], st.Args[3], st.Args[4]
	bmod, bamt := bt2.Args[2], bt2.Args[3]
	r.Check(samt.Eq(bamt), kp("ORIGIN", FuncName(bfn)+"#sent=burned"), "provenance: the Coins sent and the Coins burned are the same datum (supply shrinks by exactly what left the address)", p.Pos(burn.Pos()),
		"same datum", fmt.Sprintf("sent %v, burned %v", samt, bamt))
	modC, _ := p.ConstVal(Rel("x/burn/types"), "ModuleName")
	r.Check(smod.Eq(bmod) && smod.Op == "const" && smod.Name == modC, kp("ORIGIN", FuncName(bfn)+"#module"), "recipient module and burning module are the burn module itself", p.Pos(send.Pos()),
		modC, fmt.Sprintf("send to %v, burn from %v", smod, bmod))
	pf, okS := "", false
	if c, k := sender.Res(); sender.Op == "res" && k == 0 && c.IsCall("sdk/types.AccAddressFromBech32") && c.Args[0].Op == "param" {
		pf, okS = c.Args[0].Name, true
	}
	r.Check(okS, kp("ORIGIN", FuncName(bfn)+"#sender=address-parameter"), "the only sender is the address handed in by EndBlock (no other account's balance is touched)", p.Pos(send.Pos()), "sender ≡ AccAddressFromBech32($"+pf+")", fmt.Sprint(sender))
	// amount = spendable read of the same address (possibly behind a one-line accessor of the keeper: `return k.bank.SpendableCoins(ctx, a)`)
	amtRead := samt
	for i := 0; i < 2; i++ {
		c, isCall := amtRead.Val.(*ssa.Call)
		if amtRead.Op != "call" || !isCall || c.Call.StaticCallee() == nil {
			break
		}
		g := c.Call.StaticCallee()
		if !InModule(g) || g.Blocks == nil || len(g.Blocks) != 1 || len(returnsOf(g)) != 1 || len(returnsOf(g)[0].Results) != 1 || len(callSites(g)) != 1 {
			break
		}
		inner := o.subOrigin(c, g).Of(returnsOf(g)[0].Results[0])
		if inner == nil || inner.Op != "call" {
			break
		}
		// in the comparison below the sender term must be the caller's: the accessor's arguments were substituted
		amtRead = inner
	}
	okAmt := amtRead.Op == "call" && len(amtRead.Args) == 3 && amtRead.Args[2].Eq(sender) &&
		(strings.HasSuffix(amtRead.Name, ".SpendableCoins") || strings.HasSuffix(amtRead.Name, ".SpendableCoin"))
	r.Check(okAmt, kp("ORIGIN", FuncName(bfn)+"#amount=spendable"), "the amount is a spendable-balance read of the sender itself (table of reads bank's SendCoins will accept: SpendableCoins/SpendableCoin)", p.Pos(send.Pos()),
		"amount ≡ SpendableCoins(ctx, sender)", fmt.Sprintf("amount = %v — a total-balance read makes bank reject the whole send whenever part of the balance is locked (vesting account at the burn address), leaving every spendable coin there", samt))
	// the coins read are the coins sent: nothing writes into the slice between the spendable-balance read and the bank calls (a
	// filter that reuses its backing array — coins[:0] + append — or an in-place sort rewrites what the unchanged send then moves)
	if amtV, ok := samt.Val.(ssa.Instruction); ok && amtV.Parent() != nil {
		ws := writesThroughRoot(p, amtV.Parent(), samt.Val, 0, "", map[string]bool{})
		if len(ws) == 0 {
			r.OK(kp("ORIGIN", FuncName(bfn)+"#amount-not-modified"), "the spendable coins read are handed to the bank unmodified (no write into the slice in between)", p.Pos(send.Pos()), "no definite write into the amount's memory (call depth ≤ 3)")
		} else {
			w0 := ws[0]
			r.Fail(kp("ORIGIN", FuncName(bfn)+"#amount-not-modified"), "the spendable coins read are handed to the bank unmodified (no write into the slice in between)", p.Pos(w0.Instr.Pos()),
				fmt.Sprintf("the amount read from the bank is modified in place before it is sent: %s in %s (reached via %s) — the send then moves something else than what is spendable (duplicated or dropped denominations make bank reject the whole sweep, and the end-blocker only logs it)", w0.How, FuncName(w0.Fn), w0.Chain))
		}
	}
	// the send is skipped only when there is nothing to send (or the address handed in does not parse): every other condition
	// on the way to the send — a bank switch consulted first, a threshold, a height — leaves spendable coins at the address
	{
		var foreign []string
		for _, a := range sendV.Cond.Atoms() {
			t := a.Term
			if t == nil {
				continue
			}
			// does the condition depend on this atom at all?
			if Entails(fAnd(sendV.Cond, a), fFalse) || Entails(fAnd(sendV.Cond, fNot(a)), fFalse) {
				// the atom has a forced polarity on the way to the send: it is a real condition
			} else {
				continue
			}
			// allowed: the amount datum under Coins' own predicates (Empty, IsZero, Len, len()) and the result of parsing the address
			// handed in, compared with constants; anything else consulted on the way (another keeper call, a parameter, the
			// block height) is a foreign condition
			allowed := true
			var walk func(x *Term)
			walk = func(x *Term) {
				if x == nil || x.Eq(samt) {
					return
				}
				switch x.Op {
				case "call":
					if !strings.HasPrefix(x.Name, "(sdk/types.Coins).") && x.Name != "builtin:len" && x.Name != "sdk/types.AccAddressFromBech32" {
						allowed = false
					}
				case "const", "eq", "lt", "binop", "unop", "res":
				case "param":
					if !(okS && x.Name == pf) {
						allowed = false
					}
				default:
					allowed = false
				}
				for _, y := range x.Args {
					walk(y)
				}
			}
			walk(t)
			if allowed {
				continue
			}
			foreign = append(foreign, clip(a.String(), 100))
		}
		sort.Strings(foreign)
		r.Check(len(foreign) == 0, kp("GUARD", FuncName(bfn)+"#send-skipped-only-when-empty"), "the sweep is skipped only when the spendable amount is empty (or the configured address does not parse): no other condition stands between the end-blocker and the send", p.Pos(send.Pos()),
			"conditions on the way to the send: "+clip(sendV.Cond.String(), 200), "the send is reached only if "+strings.Join(foreign, " and ")+" has the required value: when it does not, everything spendable stays at the burn address (and the error, if any, is only logged by the end-blocker)")
	}
	// burn dominated by send success
	okOrder := false
	for _, a := range burnV.Cond.Atoms() {
		t := a.Term
		if t == nil || t.Op != "eq" {
			continue
		}
		x, y := t.Args[0], t.Args[1]
		if x.Op != "const" {
			x, y = y, x
		}
		if x.Op == "const" && x.Name == "nil" && y.Eq(st) && Entails(burnV.Cond, a) {
			okOrder = true
		}
	}
	r.Check(okOrder, kp("GUARD", FuncName(bfn)+"#burn-after-successful-send"), "the burn happens only after a successful send", p.Pos(burn.Pos()), "dominated by send err == nil", "BurnCoins is reachable without a successful send")
	// every nil return either passed both calls or is under Empty(amount)
	for i, ret := range returnsOf(bfn) {
		if !isNilConst(ret.Results[0]) {
			continue
		}
		if o.dominates(burnV.Root.(ssa.Instruction), ret) && o.dominates(sendV.Root.(ssa.Instruction), ret) && burnV.Always && sendV.Always {
			r.OK(kp("MUSTCALL", fmt.Sprintf("%s#return%d", FuncName(bfn), i)), "a nil return means the coins were sent and burned, or there was nothing spendable", p.Pos(ret.Pos()), "send and burn dominate")
			continue
		}
		_, okE := fa.DominatingFact(ret, true, func(t *Term) bool {
			return t.IsCall("(sdk/types.Coins).Empty") && len(t.Args) == 1 && t.Args[0].Eq(samt) || t.IsCall("(sdk/types.Coins).IsZero") && t.Args[0].Eq(samt)
		})
		r.Check(okE, kp("MUSTCALL", fmt.Sprintf("%s#return%d", FuncName(bfn), i)), "a nil return means the coins were sent and burned, or there was nothing spendable", p.Pos(ret.Pos()),
			"early return only when the amount datum is empty", "the function reports success without burning, on a path not guarded by amount.Empty()")
	}

	// D3 wiring
	w := BuildWire(p)
	for _, pr := range w.Problems {
		r.Undecided(kp("WIRE", "config#"+pr), "application configuration must be a literal the checker can evaluate", "app/", pr)
	}
	burnerC, _ := p.ConstVal(SDK+"/x/auth/types", "Burner")
	perms, present := w.MaccPerms[strings.Trim(modC, `"`)]
	r.Check(present && has(perms, strings.Trim(burnerC, `"`)), kp("WIRE", "maccPerms[burn]∋burner"), "the burn module account may burn", p.Pos(w.MaccPos), fmt.Sprint(perms),
		fmt.Sprintf("maccPerms[%s] = %v lacks the Burner permission: bank panics/refuses and nothing is ever burned", modC, perms))
	r.Check(has(w.Orders["SetOrderEndBlockers"], strings.Trim(modC, `"`)), kp("WIRE", "endblockers∋burn"), "the burn module is in the end-blocker order", "app/app.go", "present", "burn is missing from SetOrderEndBlockers")
	// burn runs after every module that can move coins in its own EndBlock (otherwise coins sent to the burn address later in the
	// same block — e.g. by an executed governance proposal — are still there when the block ends). Only modules without any
	// bank capability (C15-D1: aol, did, pnft) may follow it.
	eb := w.Orders["SetOrderEndBlockers"]
	bi := -1
	for i, n := range eb {
		if n == strings.Trim(modC, `"`) {
			bi = i
		}
	}
	var after []string
	okAfter := bi >= 0
	if bi >= 0 {
		for _, n := range eb[bi+1:] {
			after = append(after, n)
			if n != "aol" && n != "did" && n != "pnft" {
				okAfter = false
			}
		}
	}
	r.Check(okAfter, kp("WIRE", "endblockers#burn-after-coin-movers"), "the burn end-blocker runs after every module whose end-blocker can move coins (only the coin-less custom modules may follow it)", "app/app.go",
		fmt.Sprintf("modules after burn: %v", after), fmt.Sprintf("modules whose EndBlock runs after the burn: %v — coins they send to the burn address (executed proposals, unbonding, …) remain spendable there at the end of the block", after))
	// invariants registered by the module's own code are evaluated by x/crisis' end-blocker; crisis runs before burn, so an
	// invariant that reads the burn address's balance sees the block's deposits before they are burned
	{
		ci := indexOf(eb, "crisis")
		nInv := 0
		for _, fn := range p.ModFuncs {
			if !InPkgs(fn, "x") || p.IsGenerated(fn) {
				continue
			}
			for _, cs := range callSites(fn) {
				if !strings.HasSuffix(cs.Name, "InvariantRegistry.RegisterRoute") {
					continue
				}
				nInv++
				args := cs.Instr.Common().Args
				var roots []*ssa.Function
				if len(args) >= 3 {
					iv := args[2]
					for {
						if ct, ok := iv.(*ssa.ChangeType); ok {
							iv = ct.X
							continue
						}
						if mi, ok := iv.(*ssa.MakeInterface); ok {
							iv = mi.X
							continue
						}
						break
					}
					switch x := iv.(type) {
					case *ssa.MakeClosure:
						roots = append(roots, x.Fn.(*ssa.Function))
					case *ssa.Function:
						roots = append(roots, x)
					case *ssa.Call:
						if c := x.Call.StaticCallee(); c != nil {
							roots = append(roots, c)
							roots = append(roots, c.AnonFuncs...)
						}
					}
				}
				key := kp("INV", "invariant-registered-by:"+FuncName(fn)+"@"+blockTag(fn, cs.Instr.Block()))
				if len(roots) == 0 {
					r.Undecided(key, "an invariant registered by module code does not read the burn address's balance while crisis runs before burn", p.Pos(cs.Instr.Pos()), "the invariant function is not a closure, a function or the result of a module constructor")
					continue
				}
				reach := p.ReachFrom(roots, func(f *ssa.Function) bool { return InModule(f) })
				hit := ""
				for _, f := range reach.Order {
					if !InModule(f) {
						continue
					}
					fo := NewOrigin(p, f)
					for _, c2 := range callSites(f) {
						n := c2.Name
						if !(strings.HasSuffix(n, ".SpendableCoins") || strings.HasSuffix(n, ".SpendableCoin") || strings.HasSuffix(n, ".GetBalance") || strings.HasSuffix(n, ".GetAllBalances") || strings.HasSuffix(n, ".LockedCoins")) {
							continue
						}
						for _, a := range c2.Instr.Common().Args {
							if fo.Of(a).Contains(func(t *Term) bool { return t.Op == "const" && t.Name == addrC }) {
								hit = FuncName(f) + " reads " + n + " of the burn address at " + p.Pos(c2.Instr.Pos())
							}
						}
					}
				}
				bad := hit != "" && ci >= 0 && bi >= 0 && ci < bi
				r.Check(!bad, key, "an invariant registered by module code does not read the burn address's balance while crisis runs before burn", p.Pos(cs.Instr.Pos()),
					fmt.Sprintf("%d functions reachable from the invariant, no balance read of the burn address", len(reach.Order)),
					fmt.Sprintf("%s; x/crisis evaluates registered invariants in its end-blocker (position %d), before the burn end-blocker (position %d): whatever was deposited during the block is still there, the invariant is reported broken and the node panics", hit, ci, bi))
			}
		}
		r.Count("invariants-registered-by-custom-modules", nInv)
	}
	// the burn MODULE account (where coins are moved to be burned) stays a module account: nobody can create a plain account at its
	// address before the first burn creates it (bank refuses transfers to blocked addresses, feegrant/vesting refuse to create accounts
	// there). Otherwise auth's GetModuleAccount panics ("account is not a module account") inside the burn and every block halts.
	checkBurnAccountBlocked(p, r, kp, modC)
	// wherever module code itself constructs the burn module account (an upgrade handler "claiming" it, a genesis helper), it has
	// the Burner permission: bank's BurnCoins panics on a module account without it, inside EndBlock
	{
		nCtor := 0
		for _, fn := range p.ModFuncs {
			if fn.Blocks == nil || p.IsGenerated(fn) || InPkgs(fn, "types/testsuite") {
				continue
			}
			for _, cs := range callSites(fn) {
				if !strings.HasSuffix(cs.Name, "x/auth/types.NewEmptyModuleAccount") && !strings.HasSuffix(cs.Name, "x/auth/types.NewModuleAccount") {
					continue
				}
				args := cs.Instr.Common().Args
				isBurn := false
				for _, a := range args {
					if c, ok := a.(*ssa.Const); ok && c.Value != nil && c.Value.ExactString() == modC {
						isBurn = true
					}
				}
				if !isBurn {
					continue
				}
				nCtor++
				hasBurner := false
				if elems, ok := sliceLiteralElems(args[len(args)-1]); ok {
					for _, e := range elems {
						if c, ok := e.(*ssa.Const); ok && c.Value != nil && c.Value.ExactString() == `"burner"` {
							hasBurner = true
						}
					}
				}
				r.Check(hasBurner, kp("WIRE", "burn-module-account-constructed@"+FuncName(fn)), "a burn module account constructed by module code carries the Burner permission", p.Pos(cs.Instr.Pos()),
					"permissions include burner", FuncName(fn)+" constructs the burn module account without the Burner permission: once it is stored, the account keeper keeps it (maccPerms are only used when the account is first created), and bank's BurnCoins panics in EndBlock at the first deposit")
			}
		}
		r.Count("burn-module-account-constructions", nCtor)
	}
	checkModuleExtensionInterfaces(p, r, "C07", []string{"x/burn"})
	r.Check(has(w.Manager, Rel("x/burn")), kp("WIRE", "manager∋burn"), "the burn module is registered in the module manager", p.Pos(w.ManagerPos), "present", "burn.NewAppModule is not passed to module.NewManager")
	// keeper built from the bank keeper
	initK := p.Method(Rel("app/keepers"), "AppKeepersWithKey", "InitKeyAndKeepers")
	okK := false
	if initK != nil {
		// InitKeyAndKeepers itself or a set-up helper of the same package that it calls
		var sites []CallSite
		for _, f := range p.ReachFrom([]*ssa.Function{initK}, func(f *ssa.Function) bool { return InPkgs(f, "app/keepers") && !p.IsGenerated(f) }).Order {
			sites = append(sites, findCalls(f, "x/burn/keeper.NewKeeper")...)
		}
		for _, cs := range sites {
			// the bank-capable argument of the constructor (whatever its position) is the application's bank keeper
			for _, a := range cs.Instr.Common().Args {
				if f, ok := rawFieldLoad(a); ok && f == "BankKeeper" {
					okK = true
				}
			}
		}
	}
	r.Check(okK, kp("WIRE", "BurnKeeper←BankKeeper"), "the burn keeper is built from the application's bank keeper", "app/keepers/keepers.go", "NewKeeper(appKeepers.BankKeeper)", "burn keeper is not constructed from appKeepers.BankKeeper")

	// D4 who may move coins
	n := 0
	for _, cs := range bankMutatorCalls(p) {
		n++
		key := kp("WMC", "bank-mutator:"+cs.Name+"<-"+FuncName(cs.Fn))
		switch {
		case InPkgs(cs.Fn, "x/burn/keeper"):
			r.OK(key, "coin-moving bank methods are called only from the burn keeper", p.Pos(cs.Instr.Pos()), FuncName(cs.Fn))
		case InPkgs(cs.Fn, "types/testsuite"), InPkgs(cs.Fn, "cmd"):
			r.OKTrivial(key, "test-support / CLI package, not part of block processing", p.Pos(cs.Instr.Pos()), FuncName(cs.Fn))
		default:
			r.Fail(key, "coin-moving bank methods are called only from the burn keeper", p.Pos(cs.Instr.Pos()), FuncName(cs.Fn)+" moves coins through "+cs.Name)
		}
	}
	r.Floor("bank-mutator-call-sites", n, 2)
	callers, _ := p.CallersOf(bfn)
	for _, c := range callers {
		ok := c == end || InPkgs(c, "types/testsuite")
		r.Check(ok, kp("WMC", FuncName(bfn)+"<-"+FuncName(c)), "the burn is triggered only by EndBlock", p.FnPos(c), FuncName(c), FuncName(c)+" also burns coins")
	}
}

func recvType(cc *ssa.CallCommon) types.Type {
	if cc.IsInvoke() {
		return cc.Value.Type()
	}
	if sc := cc.StaticCallee(); sc != nil && sc.Signature.Recv() != nil {
		return sc.Signature.Recv().Type()
	}
	return types.Typ[types.Invalid]
}

// rawFieldLoad: v is (an interface conversion of) a load of <x>.F — returns F.
func rawFieldLoad(v ssa.Value) (string, bool) {
	for {
		switch x := v.(type) {
		case *ssa.MakeInterface:
			v = x.X
			continue
		case *ssa.ChangeInterface:
			v = x.X
			continue
		case *ssa.ChangeType:
			v = x.X
			continue
		}
		break
	}
	if u, ok := v.(*ssa.UnOp); ok {
		if fa, ok := u.X.(*ssa.FieldAddr); ok {
			return fieldName(fa.X.Type(), fa.Field), true
		}
	}
	if f, ok := v.(*ssa.Field); ok {
		return fieldName(f.X.Type(), f.Field), true
	}
	return "", false
}

// checkBurnAccountBlocked (shared by C07 and C17): the burn MODULE account stays a module account — its address is in the bank's
// blocked set (nobody can send to it or create a plain account there before the first burn creates the module account);
// otherwise auth's GetModuleAccount panics inside the burn and every block halts.
func checkBurnAccountBlocked(p *Prog, r *Report, kp func(string, string) string, modC string) {
	if ba := p.Func(Rel("app"), "BlockedAddresses"); ba != nil {
		bo := NewOrigin(p, ba)
		unblocked, nDel := []string{}, 0
		for _, cs := range callSites(ba) {
			if cs.Name != "builtin:delete" {
				continue
			}
			nDel++
			kt := bo.Of(cs.Instr.Common().Args[1])
			name := "?"
			kt.Walk(func(t *Term) {
				if t.Op == "const" && strings.HasPrefix(t.Name, `"`) {
					name = strings.Trim(t.Name, `"`)
				}
			})
			if name == "?" {
				// the names may come from a package-level list of constants that the function walks
				var list []string
				okList := false
				kt.Walk(func(t *Term) {
					if (t.Op == "gval" || t.Op == "global") && !okList {
						if i := strings.LastIndex(t.Name, "."); i > 0 {
							if vs, ok := globalStringListLit(p, Rel(t.Name[:i]), t.Name[i+1:]); ok && len(vs) > 0 {
								list, okList = vs, true
							}
						}
					}
				})
				if okList {
					unblocked = append(unblocked, list...)
					continue
				}
			}
			unblocked = append(unblocked, name)
		}
		// the exception may also be written as a skip inside the loop (`if addr == NewModuleAddress(gov).String() { continue }`):
		// every module name the function mentions by constant is one it treats specially
		nConst := 0
		for _, cs := range callSites(ba) {
			if !strings.HasSuffix(cs.Name, "types.NewModuleAddress") || len(cs.Instr.Common().Args) != 1 {
				continue
			}
			if c, isC := cs.Instr.Common().Args[0].(*ssa.Const); isC && c.Value != nil {
				nConst++
				if nm := strings.Trim(c.Value.ExactString(), `"`); !has(unblocked, nm) {
					unblocked = append(unblocked, nm)
				}
			}
		}
		okB := !has(unblocked, strings.Trim(modC, `"`)) && !has(unblocked, "?")
		r.Check(okB, kp("WIRE", "BlockedAddresses∌burn-module"), "the burn module account's address is blocked for incoming transfers and account creation", p.FnPos(ba),
			fmt.Sprintf("addresses removed from the blocked set: %v", unblocked),
			fmt.Sprintf("BlockedAddresses unblocks %v: a plain account can be created at the burn module's address before the first burn, after which auth.GetModuleAccount panics inside every burn", unblocked))
		// … and the only module account taken off the blocked set is one that is built to receive deposits: gov. Coins sent
		// straight to any other module account (distribution, the staking pools, mint, the fee collector) break that module's
		// registered account invariant, which x/crisis halts the chain on.
		govC, _ := p.ConstVal(SDK+"/x/gov/types", "ModuleName")
		var other []string
		for _, u := range unblocked {
			if u != strings.Trim(govC, `"`) && u != "?" {
				other = append(other, u)
			}
		}
		r.Check(len(other) == 0, kp("WIRE", "BlockedAddresses#only-gov-unblocked"), "only the gov module account is taken off the blocked set (the registered module-account invariants of the others do not survive direct deposits)", p.FnPos(ba),
			fmt.Sprintf("unblocked: %v", unblocked), fmt.Sprintf("BlockedAddresses also unblocks %v: a plain transfer to that module account is accepted and its module's registered invariant fails at the next crisis check — the chain halts", other))
		r.Floor("control:exceptions-in-BlockedAddresses", nDel+nConst, 1)
		passed := false
		if newFn := p.Func(Rel("app"), "New"); newFn != nil {
			no := NewOrigin(p, newFn)
			for _, cs := range callSites(newFn) {
				if strings.HasSuffix(cs.Name, ").InitKeyAndKeepers") {
					for _, a := range cs.Instr.Common().Args {
						if no.Of(a).IsCall("app.BlockedAddresses") {
							passed = true
						}
					}
				}
			}
		}
		r.Check(passed, kp("WIRE", "InitKeyAndKeepers←BlockedAddresses()"), "the keepers are built with the application's blocked-address set", p.FnPos(ba), "app.New passes BlockedAddresses()", "app.New does not pass BlockedAddresses() to InitKeyAndKeepers")
	} else {
		r.Fail(kp("WIRE", "BlockedAddresses#anchor"), "anchor", "app/app.go", "BlockedAddresses not found")
	}
}


// isAccountStateRead: a call that reads balances or accounts (what sits at an address — the burn address included).
func isAccountStateRead(name string) bool {
	for _, m := range []string{"SpendableCoins", "SpendableCoin", "GetBalance", "GetAllBalances", "LockedCoins", "HasBalance", "GetAccount", "HasAccount", "GetSupply", "HasSupply"} {
		if strings.HasSuffix(name, "."+m) || strings.HasSuffix(name, ")."+m) {
			return true
		}
	}
	return false
}

// checkBurnGenesisIndependentOfBalances: the burn module keeps no state; importing its genesis must not stop the chain because of
// what sits at some address (a vesting account at the burn address has spendable coins again when an exported chain is restarted
// later). Over the module functions reachable from x/burn's InitGenesis: no explicit panic stands under a condition, or is raised
// with a value, computed from a balance or account read.
func checkBurnGenesisIndependentOfBalances(p *Prog, r *Report, kp func(string, string) string) {
	var entries []*ssa.Function
	for _, fn := range p.ModFuncs {
		if InPkgs(fn, "x/burn") && !p.IsGenerated(fn) && fn.Blocks != nil && fn.Name() == "InitGenesis" {
			entries = append(entries, fn)
		}
	}
	reach := p.ReachFrom(entries, func(f *ssa.Function) bool { return InModule(f) && !p.IsGenerated(f) })
	nPanic, bad := 0, 0
	reads := func(t *Term) bool { return termReadsAccountState(p, t, 0) }
	for _, fn := range reach.Order {
		if !InModule(fn) || fn.Blocks == nil {
			continue
		}
		var o *Origin
		var fa *Facts
		for _, b := range fn.Blocks {
			for _, in := range b.Instrs {
				pn, ok := in.(*ssa.Panic)
				if !ok {
					continue
				}
				nPanic++
				if o == nil {
					o = NewOrigin(p, fn)
					fa = NewFacts(p, fn, o)
				}
				why := ""
				for _, a := range fa.At(b).Atoms() {
					if reads(a.Term) {
						why = "it is raised under the condition " + clip(a.String(), 160)
					}
				}
				if why == "" && reads(o.Of(pn.X)) {
					why = "its value is computed from " + clip(fmt.Sprint(o.Of(pn.X)), 160)
				}
				if why != "" {
					bad++
					r.Fail(kp("PANIC", "burn.InitGenesis#balance-dependent-panic@"+FuncName(fn)), "starting the chain never stops because of what sits at an address: no panic of the burn module's genesis import depends on a balance or account read", p.Pos(pn.Pos()),
						fmt.Sprintf("%s panics during InitChain and %s: a chain whose burn address regains spendable coins between export and restart (a vesting account there) cannot be started again", FuncName(fn), why))
				}
			}
		}
	}
	if bad == 0 {
		r.OK(kp("PANIC", "burn.InitGenesis#balance-dependent-panic#none"), "starting the chain never stops because of what sits at an address: no panic of the burn module's genesis import depends on a balance or account read", "x/burn",
			fmt.Sprintf("%d InitGenesis entry points, %d module functions reachable, %d explicit panics, none under a balance/account condition", len(entries), len(reach.Order), nPanic))
	}
	r.Floor("burn-genesis-entry-points", len(entries), 2)
}

// checkNoPlainAccountAtModuleAddress: the sweep sends to the burn module account, which the bank creates on first use; an account
// of another kind stored at a module address beforehand makes that lookup panic inside EndBlock. No module code hands an address
// computed by NewModuleAddress to the account keeper's account constructors or to SetAccount.
func checkNoPlainAccountAtModuleAddress(p *Prog, r *Report, kp func(string, string) string) {
	nSites, bad := 0, 0
	for _, fn := range p.ModFuncs {
		if p.IsGenerated(fn) || fn.Blocks == nil || InPkgs(fn, "types/testsuite") || InPkgs(fn, "testutil") {
			continue
		}
		var o *Origin
		for _, cs := range callSites(fn) {
			if !(strings.HasSuffix(cs.Name, ").SetAccount") || strings.HasSuffix(cs.Name, ").NewAccountWithAddress") || strings.HasSuffix(cs.Name, ").NewAccount") || strings.HasSuffix(cs.Name, "types.NewBaseAccountWithAddress") || strings.HasSuffix(cs.Name, "types.NewBaseAccount")) {
				continue
			}
			nSites++
			if o == nil {
				o = NewOrigin(p, fn)
			}
			for _, a := range cs.Instr.Common().Args {
				t := o.Of(a)
				if t != nil && t.Contains(func(x *Term) bool { return x.IsCall("types.NewModuleAddress") }) && !t.Contains(func(x *Term) bool {
					return x.Op == "call" && (strings.Contains(x.Name, "NewEmptyModuleAccount") || strings.Contains(x.Name, "NewModuleAccount"))
				}) {
					bad++
					r.Fail(kp("ORIGIN", "plain-account-at-module-address@"+FuncName(fn)), "no account other than a module account is stored at a module address (the sweep's destination is looked up as a module account inside EndBlock)", p.Pos(cs.Instr.Pos()),
						fmt.Sprintf("%s hands %s to %s: an ordinary account now sits at a module address, and the first sweep panics in the bank's module-account lookup — the chain halts", FuncName(fn), clip(fmt.Sprint(t), 140), cs.Name))
					break
				}
			}
		}
	}
	if bad == 0 {
		r.OK(kp("ORIGIN", "plain-account-at-module-address#none"), "no account other than a module account is stored at a module address (the sweep's destination is looked up as a module account inside EndBlock)", "app, x/*",
			fmt.Sprintf("%d account-constructing call sites in non-test module code, none with an address from NewModuleAddress", nSites))
	}
}


// termReadsAccountState: the value is computed from a balance or account read — directly, or as the k-th result of a module
// function whose k-th returned value is.
func termReadsAccountState(p *Prog, t *Term, depth int) bool {
	if t == nil || depth > 3 {
		return false
	}
	calleeResult := func(c *Term, k int) (bool, bool) {
		call, ok := c.Val.(*ssa.Call)
		if !ok || c.Op != "call" {
			return false, false
		}
		callee := call.Call.StaticCallee()
		if callee == nil || !InModule(callee) || callee.Blocks == nil {
			return false, false
		}
		o := NewOrigin(p, callee)
		for _, ret := range returnsOf(callee) {
			for i, rv := range ret.Results {
				if (k < 0 || i == k) && termReadsAccountState(p, o.Of(rv), depth+1) {
					return true, true
				}
			}
		}
		return false, true
	}
	switch {
	case t.Op == "res" && len(t.Args) == 1 && t.Args[0].Op == "call":
		k := 0
		fmt.Sscanf(t.Name, "#%d", &k)
		if hit, resolved := calleeResult(t.Args[0], k); resolved {
			return hit
		}
	case t.Op == "call":
		if isAccountStateRead(t.Name) {
			return true
		}
		if hit, resolved := calleeResult(t, -1); resolved && hit {
			return true
		}
	}
	for _, a := range t.Args {
		if termReadsAccountState(p, a, depth) {
			return true
		}
	}
	return false
}


// checkBurnWritesNoAccounts: what is spendable at the burn address is for the bank and the account's vesting schedule to say. The
// burn module replaces, creates or removes no account: rewriting a vesting account there as a plain one turns locked coins into
// spendable ones, and the sweep then removes more from the supply than was spendable.
func checkBurnWritesNoAccounts(p *Prog, r *Report, kp func(string, string) string) {
	n, nBad := 0, 0
	for _, fn := range p.ModFuncs {
		if fn.Blocks == nil || p.IsGenerated(fn) || !InPkgs(fn, "x/burn") {
			continue
		}
		n++
		for _, cs := range callSites(fn) {
			m := cs.Name
			if cs.Instr.Common().IsInvoke() {
				m = cs.Instr.Common().Method.Name()
			} else if i := strings.LastIndex(m, "."); i >= 0 {
				m = m[i+1:]
			}
			switch m {
			case "SetAccount", "RemoveAccount", "NewAccount", "NewAccountWithAddress", "SetModuleAccount":
				nBad++
				r.Fail(kp("WMC", "burn-writes-account@"+FuncName(fn)+"→"+m), "the burn module writes no account: what is spendable at the burn address is decided by the bank and the account's own schedule", p.Pos(cs.Instr.Pos()),
					fmt.Sprintf("%s calls %s: an account rewritten by the burn module (a vesting account turned into a plain one) makes locked coins spendable, and the sweep burns more than was spendable there", FuncName(fn), cs.Name))
			}
		}
	}
	if nBad == 0 {
		r.OK(kp("WMC", "burn-writes-account#none"), "the burn module writes no account: what is spendable at the burn address is decided by the bank and the account's own schedule", "x/burn", fmt.Sprintf("%d functions of x/burn, no account constructor, SetAccount or RemoveAccount call", n))
	}
}
