package main

import (
	"fmt"
	"sort"
	"strings"

	"golang.org/x/tools/go/ssa"
)

// aolRules evaluates the AOL rule instances; `want` selects which clause tags the calling property reports.
//
//	tags: family  — accessor families (one prefix <-> one key type; Set/Get/Has/Delete agree)
//	      wmc     — who may call the mutators
//	      schema  — every handler's set of mutations is one of the known schemas
//	      auth    — guards and signer binding (C02)
//	      counter — counter updates paired with entry writes (C13, C01-D3)
//	      record  — offset / record literal provenance (C01-D2)
func aolRules(p *Prog, r *Report, clause string, want func(tag string) bool) *aolModel {
	m := buildAolModel(p)
	em := func(tag string, ok bool, key, rule, site, whyOK, whyFail string, w ...interface{}) {
		wanted := false
		for _, t := range strings.Split(tag, "|") {
			if want(t) {
				wanted = true
			}
		}
		if wanted {
			r.Check(ok, key, rule, site, whyOK, whyFail, w...)
		}
	}
	kp := func(rule, rest string) string { return rule + ":" + clause + ":" + rest }

	// ---- family -------------------------------------------------------------------------------
	if want("family") {
		for _, pr := range m.problems {
			r.Fail(kp("FAMILY", "aol#"+pr), "accessor family: one prefix <-> one key type", "x/aol/keeper", pr)
		}
		for _, so := range m.rawOps {
			// a read that is not accessor-shaped (a lookup inside one topic, a range, a count) changes nothing: the append-only and
			// authorization arguments are about writes, and the guards they rely on are the accessor calls checked below
			if so.Op == "Get" || so.Op == "Has" || so.Op == "Iterator" || so.Op == "ReverseIterator" {
				r.Note("read-only store operation outside the accessor shape: %s %s (%s)", FuncName(so.Fn), so.Op, p.Pos(so.Instr.Pos()))
				continue
			}
			r.Undecided(kp("FAMILY", "aol-store-op-outside-accessor:"+FuncName(so.Fn)+"#"+so.Op),
				"every operation on the aol store goes through a single-operation accessor keyed by compkey.MustEncode(&key) under a prefix variable",
				p.Pos(so.Instr.Pos()), fmt.Sprintf("%s performs %s on the aol store (prefix %q, key %s) outside the accessor shape; its effect on the append-only/authorization argument cannot be classified",
					FuncName(so.Fn), so.Op, PrefixName(so.Prefix), so.Key))
		}
		n := 0
		core := []string{"Owner", "Topic", "Writer", "Record"}
		fams := append(append([]string(nil), core...), m.extraFamilies()...)
		for _, f := range fams {
			ops := map[string]int{}
			for _, a := range m.byFamily[f] {
				ops[a.Op]++
				n++
				r.OK(kp("FAMILY", FuncName(a.Fn)), "accessor family agreement", p.FnPos(a.Fn),
					fmt.Sprintf("%s %s under %s with key type %s", a.Op, f, a.Prefix, a.KeyType))
				if a.Op == "Iterator" && aolOnExportPath(p, a.Fn) {
					// list accessors return every entry under the prefix: the appends run on every iteration
					checkUnconditionalLoopEffect(p, r, kp("LOOP", FuncName(a.Fn)+"#every-entry-listed"), a.Fn, func(in ssa.Instruction) bool {
						c, ok := in.(*ssa.Call)
						if !ok {
							return false
						}
						b, ok := c.Call.Value.(*ssa.Builtin)
						return ok && b.Name() == "append"
					}, "the list accessor returns every entry it iterates over (no conditional skip)")
					// the two result lists are parallel (keys[i] belongs to values[i]): once the loop is over nothing touches one of
					// them — a sort, a filter or a reversal of the keys alone pairs every key with another entry's value
					checkParallelResultsUntouched(p, r, kp("ORIGIN", FuncName(a.Fn)+"#parallel-results-untouched"), a.Fn)
				}
				if a.Op != "Iterator" {
					checkAccessorShape(p, r, kp("SHAPE", FuncName(a.Fn)), "unconditional single operation on the marshalled parameter / unmarshalled store value", a.SO, 1)
				}
			}
			for _, need := range []string{"Set", "Get", "Has"} {
				if !isCoreAolFamily(f) {
					break // a further family of the module may have any accessor set
				}
				if ops[need] == 0 {
					r.Fail(kp("FAMILY", "missing:"+need+f), "each AOL family has Set/Get/Has accessors", "x/aol/keeper",
						fmt.Sprintf("no %s accessor found for family %s (anchor unresolved)", need, f))
				}
			}
		}
		// the four prefixes are constant, pairwise distinct and none is a prefix of another
		type pv struct {
			fam string
			val []byte
		}
		var pvs []pv
		for _, f := range fams {
			pp, name := splitGlobal(m.prefixOf[f])
			val, ok, re, pos := globalByteSliceLit(p, pp, name)
			if !ok || re > 0 || len(val) == 0 {
				r.Fail(kp("CONST", "prefix:"+f), "each family prefix is a non-empty byte-slice literal that is never reassigned", p.Pos(pos),
					fmt.Sprintf("prefix variable %s: literal=%v reassignments=%d value=%v", m.prefixOf[f], ok, re, val))
				continue
			}
			pvs = append(pvs, pv{f, val})
		}
		for i := range pvs {
			for j := range pvs {
				if i >= j {
					continue
				}
				a, b := pvs[i].val, pvs[j].val
				clash := strings.HasPrefix(string(a), string(b)) || strings.HasPrefix(string(b), string(a))
				r.Check(!clash, kp("CONST", "prefix-free:"+pvs[i].fam+"|"+pvs[j].fam), "family prefixes are prefix-free, so entries of one family can never be read as another's", "x/aol/types/keys.go",
					fmt.Sprintf("%x vs %x", a, b), fmt.Sprintf("prefix of %s (%x) and of %s (%x) overlap: the families share store keys", pvs[i].fam, a, pvs[j].fam, b))
			}
		}
		r.Floor("aol-accessors", n, 17)
		r.Floor("aol-listing-iterations", len(m.listings), 2)
		// positive control + expected-zero rule for deletes
		delW, delOther := 0, []string{}
		for _, so := range m.allOps {
			if so.Op == "Delete" {
				if a := m.acc[so.Fn]; a != nil && a.Family == "Writer" {
					delW++
				} else if a != nil && !isCoreAolFamily(a.Family) {
					// deleting from a further family of the module does not touch owners, topics, writers or records
				} else {
					delOther = append(delOther, FuncName(so.Fn)+" at "+p.Pos(so.Instr.Pos()))
				}
			}
		}
		r.Floor("aol-delete-under-writer-prefix(control)", delW, 1)
		em("family", len(delOther) == 0, kp("WMC", "store-delete-under:aol/{Owner,Topic,Record}#expected=0"),
			"nothing deletes owners, topics or records", "x/aol/keeper",
			"no Delete on the aol store outside the writer family", "Delete outside the writer family: "+strings.Join(delOther, "; "))
	}

	// ---- wmc ----------------------------------------------------------------------------------
	initGen := p.Func(Rel("x/aol"), "InitGenesis")
	if want("wmc") {
		if initGen == nil {
			r.Fail(kp("WMC", "anchor:aol.InitGenesis"), "anchor", "x/aol", "aol.InitGenesis not found")
		}
		allowed := map[string]map[string]bool{} // accessor name -> allowed caller names
		for _, f := range append([]string{"Owner", "Topic", "Writer", "Record"}, m.extraFamilies()...) {
			for _, a := range m.byFamily[f] {
				if a.Op != "Set" && a.Op != "Delete" {
					continue
				}
				callers, uses := p.CallersOf(a.Fn)
				for _, u := range uses {
					if !u.Call {
						r.Fail(kp("WMC", FuncName(a.Fn)+"#escapes-as-value:"+FuncName(u.In)), "mutators are only called directly", p.Pos(u.Instr.Pos()),
							fmt.Sprintf("%s is taken as a function value in %s; its callers can no longer be enumerated", FuncName(a.Fn), FuncName(u.In)))
					}
				}
				for _, c := range callers {
					isHandler := m.msgOf[c] != nil
					isGenesis := c == initGen || isGenesisUnit(p, initGen, c)
					isTestSupport := InPkgs(c, "types/testsuite")
					key := kp("WMC", FuncName(a.Fn)+"<-"+FuncName(c))
					// a transparent helper of a handler (an extracted tail of the handler): covered by the handler's own analysis, which
					// enters such helpers — provided every caller of the helper is a handler, the genesis import or such a helper again
					isHelper := false
					if !isHandler && !isGenesis && p.transparent(c) {
						isHelper = true
						seenH := map[*ssa.Function]bool{c: true}
						work := []*ssa.Function{c}
						for len(work) > 0 && isHelper {
							h := work[0]
							work = work[1:]
							hc, hu := p.CallersOf(h)
							if len(hc) == 0 {
								isHelper = false
							}
							for _, u := range hu {
								if !u.Call {
									isHelper = false
								}
							}
							for _, cc := range hc {
								switch {
								case m.msgOf[cc] != nil || cc == initGen || isGenesisUnit(p, initGen, cc):
								case p.transparent(cc) && !seenH[cc]:
									seenH[cc] = true
									work = append(work, cc)
								case seenH[cc]:
								default:
									isHelper = false
								}
							}
						}
					}
					switch {
					case isHandler || isGenesis || isHelper:
						r.OK(key, "who may call an AOL store mutator: message handlers and InitGenesis only", p.FnPos(c),
							fmt.Sprintf("%s is called by %s", FuncName(a.Fn), FuncName(c)))
					case isTestSupport:
						r.OKTrivial(key, "test-support package, not linked into the node", p.FnPos(c), "types/testsuite")
					default:
						r.Fail(key, "who may call an AOL store mutator: message handlers and InitGenesis only", p.FnPos(c),
							fmt.Sprintf("%s (%s %s) is called from %s, which is neither a MsgServer handler nor InitGenesis; the per-handler guard/pairing schema does not cover it",
								FuncName(a.Fn), a.Op, a.Family, FuncName(c)))
					}
					if allowed[FuncName(a.Fn)] == nil {
						allowed[FuncName(a.Fn)] = map[string]bool{}
					}
					allowed[FuncName(a.Fn)][FuncName(c)] = true
				}
			}
		}
	}

	// ---- list accessors walk their whole family (export, listings and counters see every entry) ----
	if want("genesis") || want("family") {
		checkAolListAccessorsWholeFamily(p, r, kp, m)
	}
	// ---- genesis import stores entries untransformed ---------------------------------------------
	if want("genesis") && initGen != nil {
		n := 0
		for _, u := range genesisUnits(p, initGen) {
			for _, ac := range m.accessorCalls(u.fn, u.o) {
				if ac.acc.Op != "Set" {
					if ac.acc.Op == "Delete" {
						r.Fail(kp("ORIGIN", "x/aol.InitGenesis→"+FuncName(ac.acc.Fn)), "genesis import only stores entries", p.Pos(ac.cs.Instr.Pos()), "import deletes entries")
					}
					continue
				}
				n++
				site := p.Pos(ac.cs.Instr.Pos())
				fam := ac.acc.Family
				okVal := ac.val != nil && ac.val.Op == "deref" && ac.val.Contains(func(x *Term) bool { return x.Op == "next" })
				okKey := ac.key != nil && ac.key.Op == "outparam" && strings.Contains(ac.key.Name, "DecodeFromString")
				if _, K, isWalk := sortedKeyWalk(ac.val); isWalk {
					// the walk over a sorted list of all the map's keys: the entry stored is the one under the key that is decoded
					okVal = true
					decodesK := false
					for _, cs := range callSites(u.fn) {
						if cs.Callee != nil && pkgPathOf(cs.Callee) == Rel(compkeyPkg) && strings.Contains(cs.Callee.Name(), "DecodeFromString") && okKey &&
							strings.HasSuffix(ac.key.Site, p.Pos(cs.Instr.Pos())) && len(cs.Instr.Common().Args) > 0 && u.o.Of(cs.Instr.Common().Args[0]).Eq(K) {
							decodesK = true
						}
					}
					okKey = okKey && decodesK
				}
				r.Check(okVal, kp("ORIGIN", "x/aol.InitGenesis#"+fam+"-stored-unchanged"),
					"genesis import stores each exported entry exactly as it is in the genesis map (no field is recomputed or rewritten on the way in)", site,
					"value ≡ *mapValue of the iteration", fmt.Sprintf("the %s written at import is %v — not the untouched genesis entry (counters/content recomputed at import diverge from what was exported)", fam, ac.val))
				r.Check(okKey, kp("ORIGIN", "x/aol.InitGenesis#"+fam+"-key-decoded"), "the key written at import is the one decoded from the genesis map key", site, "key ≡ DecodeFromString(mapKey)", fmt.Sprint(ac.key))
				checkUnconditionalLoopEffect(p, r, kp("LOOP", "x/aol.InitGenesis#every-"+fam+"-imported"), u.fn,
					func(in ssa.Instruction) bool { return in == ssa.Instruction(ac.cs.Instr.(*ssa.Call)) }, "import stores every genesis entry, with no conditional skip")
			}
		}
		r.Floor("aol-genesis-import-writes", n, 4)
	}

	// ---- handlers -----------------------------------------------------------------------------
	var names []string
	for n := range m.handlers {
		names = append(names, n)
	}
	sort.Strings(names)
	if want("schema") {
		r.Floor("aol-handlers", len(names), 4)
	}
	topicSt := structOf(p, aolTypesPkg, "Topic")
	ownerSt := structOf(p, aolTypesPkg, "Owner")
	nMutating := 0
	// a handler whose store accesses the checker cannot see (calls it cannot resolve) would be classified "read-only" and skip
	// every guard and pairing rule: the four message handlers must be recognised as mutating
	defer func() { r.Floor("aol-handlers-recognised-as-mutating", nMutating, 4) }()
	for _, msgName := range names {
		fn := m.handlers[msgName]
		h := m.analyseHandler(msgName, fn)
		hn := FuncName(fn)
		site := p.FnPos(fn)
		msgT := m.msgOf[fn]
		sf, notes := SignerFields(p, msgT)
		for _, n := range notes {
			em("auth", false, kp("SIGNER", msgName+"#unresolved"), "GetSigners returns addresses parsed from message fields only", site, "", n)
		}
		if strings.HasPrefix(h.kind, "unknown") {
			em("schema", false, kp("SCHEMA", hn), "every AOL handler's mutation set matches a known schema", site, "",
				fmt.Sprintf("handler performs the mutation set {%s}, which is none of create-topic{SetOwner,SetTopic}, add-writer{SetTopic,SetWriter}, delete-writer{SetTopic,DeleteWriter}, add-record{SetTopic,SetRecord}, update-topic{SetTopic}; its guards and pairings cannot be classified",
					strings.TrimPrefix(h.kind, "unknown:")))
			continue
		}
		em("schema", true, kp("SCHEMA", hn), "every AOL handler's mutation set matches a known schema", site, "schema "+h.kind, "")
		if h.kind == "read-only" {
			continue
		}
		nMutating++
		// every mutation happens on every success path (pairing) — counter & auth both rely on it
		for _, mc := range h.muts {
			ok := unconditionalOnSuccess(fn, mc.cs.Instr, h.o)
			em("counter", ok, kp("PAIR", hn+"→"+FuncName(mc.acc.Fn)+"#on-every-success-path"),
				"paired writes: each mutation of the schema executes on every path to a success return", p.Pos(mc.cs.Instr.Pos()),
				"call dominates every success return", fmt.Sprintf("%s is skipped on some successful path of %s (counter and entry would diverge)", FuncName(mc.acc.Fn), hn))
		}
		setTopic := h.mut("Set", "Topic")
		tk := setTopic.key
		tkf := keyFields(tk)
		if tkf == nil {
			em("schema", false, kp("ORIGIN", hn+"#topic-key"), "topic key is a literal built in the handler", site, "", "topic key term: "+tk.String())
			continue
		}
		// owner component of the topic key comes from a message field F
		ownerF, okOwner := bech32Field(tkf["OwnerAddress"])
		topicF, okTopic := msgField(tkf["TopicName"])
		em("auth", okOwner && okTopic, kp("ORIGIN", hn+"#topic-key-from-message"), "written key components are parsed from the message", p.Pos(setTopic.cs.Instr.Pos()),
			fmt.Sprintf("topic key = {AccAddressFromBech32(msg.%s), msg.%s}", ownerF, topicF), "topic key components do not come from message fields: "+tk.String())

		switch h.kind {
		case "create-topic":
			setOwner := h.mut("Set", "Owner")
			// authorization: topic is created under the signer's own address
			em("auth", okOwner && inAllReturns(sf, ownerF), kp("SIGNER", hn+"#owner-is-signer"),
				"a topic is created only under its signer's address: owner component = the field GetSigners returns", site,
				fmt.Sprintf("owner component parsed from msg.%s ∈ GetSigners(%s)=%v", ownerF, msgName, sf),
				fmt.Sprintf("owner component comes from msg.%s but GetSigners(%s) returns %v", ownerF, msgName, sf))
			// guard: HasTopic(K) == false
			w, ok := m.hasGuard(h, setTopic.cs.Instr, "Topic", tk, false)
			em("auth", ok, kp("GUARD", hn+"→"+FuncName(setTopic.acc.Fn)+"#HasTopic=false"),
				"guarded effect: a topic is written fresh only when no topic exists under the same key", p.Pos(setTopic.cs.Instr.Pos()), w,
				"SetTopic with a fresh value is not dominated by HasTopic(same key)==false: an existing topic (its counters, description) can be overwritten")
			if want("counter") {
				w2, ok2 := m.hasGuard(h, setOwner.cs.Instr, "Topic", tk, false)
				r.Check(ok2, kp("GUARD", hn+"→"+FuncName(setOwner.acc.Fn)+"#HasTopic=false"),
					"owner counter is bumped only when the topic is new", p.Pos(setOwner.cs.Instr.Pos()), w2,
					"TotalTopics is incremented without a dominating HasTopic(same key)==false: re-creating would double count")
			}
			// fresh topic value: counters zero
			fresh := setTopic.val != nil && setTopic.val.Op == "lit" && setTopic.val.Field("TotalRecords") == nil && setTopic.val.Field("TotalWriters") == nil
			em("counter", fresh, kp("ORIGIN", hn+"#fresh-topic-counters-zero"), "a new topic starts with zero counters", p.Pos(setTopic.cs.Instr.Pos()),
				"Topic literal sets no counter field", "new topic value sets a counter: "+setTopic.val.String())
			// stored content: the description stored is the message's own (the validated value, untransformed)
			if setTopic.val != nil && setTopic.val.Op == "lit" {
				d := setTopic.val.Field("Description")
				f, okD := msgField(d)
				em("content", okD && f == "Description", kp("ORIGIN", hn+"#topic.Description=msg.Description"), "what is stored is what was validated: the topic's description is the message field itself", p.Pos(setTopic.cs.Instr.Pos()),
					"msg.Description", fmt.Sprintf("topic.Description = %v: a value transformed after stateless validation is no longer bound by the validated limits", d))
			}
			// owner key and counter
			okf := keyFields(setOwner.key)
			sameOwner := okf != nil && okf["OwnerAddress"] != nil && okf["OwnerAddress"].Eq(tkf["OwnerAddress"])
			em("counter", sameOwner, kp("ORIGIN", hn+"#owner-key=topic-owner"), "the counter bumped belongs to the owner component of the topic key", p.Pos(setOwner.cs.Instr.Pos()),
				"same datum", fmt.Sprintf("owner key %s vs topic key %s", setOwner.key, tk))
			if ownerSt != nil {
				read, ch, d, why := counterUpdate(setOwner.val, ownerSt)
				okc := why == "" && ch == "TotalTopics" && d == 1
				if okc {
					rk, isRead := m.readOf("Owner", read)
					okc = isRead && rk.Eq(setOwner.key)
					if !okc {
						why = fmt.Sprintf("the value updated was not read from the same owner key (read %s)", read)
					}
				} else if why == "" {
					why = fmt.Sprintf("changed field %q by %d", ch, d)
				}
				em("counter", okc, kp("PAIR", hn+"#SetTopic⇔SetOwner(TotalTopics+1)"),
					"counter pairing: owner stored = owner read under the same key with TotalTopics+1, all other fields copied", p.Pos(setOwner.cs.Instr.Pos()),
					"GetOwner(sameKey) with TotalTopics+1", why)
			}
		case "add-writer", "delete-writer":
			op, fam := "Set", "Writer"
			if h.kind == "delete-writer" {
				op = "Delete"
			}
			wm := h.mut(op, fam)
			wk := wm.key
			wkf := keyFields(wk)
			same, why := sameComponents(tk, wk, "OwnerAddress", "TopicName")
			em("auth", same, kp("ORIGIN", hn+"#writer-key⊇topic-key"), "the writer entry and the counter belong to the same (owner, topic)", p.Pos(wm.cs.Instr.Pos()),
				"same datum", why)
			em("auth", okOwner && inAllReturns(sf, ownerF), kp("SIGNER", hn+"#owner-is-signer"),
				"the writer list changes only by the topic owner: owner component of the written keys = the field GetSigners returns", site,
				fmt.Sprintf("owner component parsed from msg.%s ∈ GetSigners(%s)=%v", ownerF, msgName, sf),
				fmt.Sprintf("owner component comes from msg.%s but GetSigners(%s) returns %v", ownerF, msgName, sf))
			if wkf != nil {
				wf, okW := bech32Field(wkf["WriterAddress"])
				em("auth", okW, kp("ORIGIN", hn+"#writer-component-from-message"), "writer component is parsed from the message", p.Pos(wm.cs.Instr.Pos()),
					"msg."+wf, "writer component: "+fmt.Sprint(wkf["WriterAddress"]))
			}
			if h.kind == "add-writer" && wm.val != nil && wm.val.Op == "lit" {
				for _, fld := range []string{"Moniker", "Description"} {
					v := wm.val.Field(fld)
					f, okF := msgField(v)
					em("content", okF && f == fld, kp("ORIGIN", hn+"#writer."+fld+"=msg."+fld), "what is stored is what was validated: the writer's "+strings.ToLower(fld)+" is the message field itself", p.Pos(wm.cs.Instr.Pos()),
						"msg."+fld, fmt.Sprintf("writer.%s = %v: a value transformed after stateless validation is no longer bound by the validated limits", fld, v))
				}
			}
			if h.kind == "add-writer" {
				w, ok := m.hasGuard(h, wm.cs.Instr, "Topic", tk, true)
				em("auth", ok, kp("GUARD", hn+"→"+FuncName(wm.acc.Fn)+"#HasTopic=true"), "a writer is added only to an existing topic of that owner", p.Pos(wm.cs.Instr.Pos()), w,
					"SetWriter is not dominated by HasTopic(owner, topic)==true")
				w2, ok2 := m.hasGuard(h, wm.cs.Instr, "Writer", wk, false)
				em("counter", ok2, kp("GUARD", hn+"→"+FuncName(wm.acc.Fn)+"#HasWriter=false"), "writer counter is bumped only when the writer is new", p.Pos(wm.cs.Instr.Pos()), w2,
					"SetWriter/TotalWriters+1 is not dominated by HasWriter(same key)==false: re-adding double counts and resets the writer entry")
			} else {
				w2, ok2 := m.hasGuard(h, wm.cs.Instr, "Writer", wk, true)
				em("counter|auth", ok2, kp("GUARD", hn+"→"+FuncName(wm.acc.Fn)+"#HasWriter=true"), "a writer is removed (and the counter decremented) only when that writer is listed: removal of a listed writer must be possible and take effect", p.Pos(wm.cs.Instr.Pos()), w2,
					"RemoveWriter/TotalWriters-1 is not dominated by HasWriter(same key)==true")
			}
			if topicSt != nil {
				wantD := 1
				if h.kind == "delete-writer" {
					wantD = -1
				}
				read, ch, d, why := counterUpdate(setTopic.val, topicSt)
				okc := why == "" && ch == "TotalWriters" && d == wantD
				if okc {
					rk, isRead := m.readOf("Topic", read)
					okc = isRead && rk.Eq(tk)
					if !okc {
						why = fmt.Sprintf("the topic updated was not read from the same topic key (read %s)", read)
					}
				} else if why == "" {
					why = fmt.Sprintf("changed field %q by %d, expected TotalWriters by %d", ch, d, wantD)
				}
				em("counter", okc, kp("PAIR", hn+"#"+op+"Writer⇔SetTopic(TotalWriters"+fmt.Sprintf("%+d", wantD)+")"),
					"counter pairing: topic stored = topic read under the same key with TotalWriters±1, all other fields copied", p.Pos(setTopic.cs.Instr.Pos()),
					"GetTopic(sameKey) with TotalWriters updated", why)
			}
		case "add-record":
			rm := h.mut("Set", "Record")
			rk := rm.key
			rkf := keyFields(rk)
			same, why := sameComponents(tk, rk, "OwnerAddress", "TopicName")
			em("record", same, kp("ORIGIN", hn+"#record-key⊇topic-key"), "record key and counter belong to the same (owner, topic)", p.Pos(rm.cs.Instr.Pos()), "same datum", why)
			// authorization: HasTopic(tk) and HasWriter({owner, topic, writer}) with writer ∈ signers
			w, ok := m.hasGuard(h, rm.cs.Instr, "Topic", tk, true)
			em("auth", ok, kp("GUARD", hn+"→"+FuncName(rm.acc.Fn)+"#HasTopic=true"), "a record is appended only to an existing topic", p.Pos(rm.cs.Instr.Pos()), w,
				"SetRecord is not dominated by HasTopic(owner, topic)==true")
			// find the dominating HasWriter fact and inspect its key
			var guardKey *Term
			wq, okq := h.fa.DominatingFact(rm.cs.Instr, true, func(t *Term) bool {
				if t.Op != "call" || len(t.Args) < 3 {
					return false
				}
				for _, a := range m.byFamily["Writer"] {
					if a.Op == "Has" && t.Name == FuncName(a.Fn) {
						if ok, _ := sameComponents(tk, t.Args[2], "OwnerAddress", "TopicName"); ok {
							guardKey = t.Args[2]
							return true
						}
					}
				}
				return false
			})
			em("auth", okq, kp("GUARD", hn+"→"+FuncName(rm.acc.Fn)+"#HasWriter=true"),
				"guarded effect: the record write (and the counter update) is dominated by membership of a writer key for the same (owner, topic)", p.Pos(rm.cs.Instr.Pos()), wq,
				"SetRecord is not dominated by HasWriter({same owner, same topic, writer})==true: anybody can append")
			if okq {
				_, okS := m.hasGuard(h, setTopic.cs.Instr, "Writer", guardKey, true)
				em("auth", okS, kp("GUARD", hn+"→"+FuncName(setTopic.acc.Fn)+"#HasWriter=true"), "the counter update is under the same guard", p.Pos(setTopic.cs.Instr.Pos()), wq,
					"SetTopic(TotalRecords+1) is not dominated by the writer-membership guard")
				gf := keyFields(guardKey)
				wf, okW := bech32Field(gf["WriterAddress"])
				em("auth", okW && inAllReturns(sf, wf), kp("SIGNER", hn+"#writer-is-signer"),
					"the address whose membership authorises the append is a signer of the message on every GetSigners path", site,
					fmt.Sprintf("guard's writer component parsed from msg.%s ∈ GetSigners(%s)=%v", wf, msgName, sf),
					fmt.Sprintf("guard's writer component is %s but GetSigners(%s) returns %v", gf["WriterAddress"], msgName, sf))
				// the stored record names the same writer
				if rm.val != nil {
					rw, okRW := msgField(rm.val.Field("WriterAddress"))
					em("record", okRW && rw == wf, kp("ORIGIN", hn+"#record.WriterAddress=authorised-writer"), "the stored writer is the authorised one", p.Pos(rm.cs.Instr.Pos()),
						"msg."+rw, fmt.Sprintf("record.WriterAddress = %s, authorised writer field = %s", rm.val.Field("WriterAddress"), wf))
				}
			}
			// offset provenance
			if rkf != nil && topicSt != nil {
				off := rkf["Offset"]
				read, ch, d, whyc := counterUpdate(setTopic.val, topicSt)
				okc := whyc == "" && ch == "TotalRecords" && d == 1
				var readKey *Term
				if okc {
					var isRead bool
					readKey, isRead = m.readOf("Topic", read)
					okc = isRead && readKey.Eq(tk)
					if !okc {
						whyc = fmt.Sprintf("the topic updated was not read from the same topic key (read %s)", read)
					}
				} else if whyc == "" {
					whyc = fmt.Sprintf("changed field %q by %d, expected TotalRecords by +1", ch, d)
				}
				em("counter", okc, kp("PAIR", hn+"#SetRecord⇔SetTopic(TotalRecords+1)"),
					"counter pairing: topic stored = topic read under the same key with TotalRecords+1, all other fields copied", p.Pos(setTopic.cs.Instr.Pos()),
					"GetTopic(sameKey) with TotalRecords+1", whyc)
				okOff := okc && off != nil && off.Op == "field" && off.Name == "TotalRecords" && off.Args[0].Eq(read)
				em("record", okOff, kp("ORIGIN", hn+"#offset=pre-append-TotalRecords"),
					"provenance: the record's offset is the TotalRecords field of the very topic value whose TotalRecords+1 is stored back", p.Pos(rm.cs.Instr.Pos()),
					"offset ≡ GetTopic(K).TotalRecords", fmt.Sprintf("offset term is %s, counter read is %s", off, read))
				// response offset
				for _, ret := range successReturns(fn) {
					rt := h.o.Of(ret.Results[0])
					ro := rt.Field("Offset")
					em("record", ro != nil && off != nil && ro.Eq(off), kp("ORIGIN", hn+"#response.Offset=record-offset"),
						"the reported offset is the one the record was stored under", p.Pos(ret.Pos()), "same datum",
						fmt.Sprintf("response offset %s vs key offset %s", ro, off))
				}
			}
			// record literal fields
			if rm.val != nil && rm.val.Op == "lit" {
				for _, fld := range []string{"Key", "Value"} {
					f, okF := msgField(rm.val.Field(fld))
					em("record", okF && f == fld, kp("ORIGIN", hn+"#record."+fld+"=msg."+fld), "record content comes from the same-named message field", p.Pos(rm.cs.Instr.Pos()),
						"msg."+f, fmt.Sprintf("record.%s = %s", fld, rm.val.Field(fld)))
				}
				ts := rm.val.Field("NanoTimestamp")
				okTs := ts != nil && ts.IsCall("(time.Time).UnixNano") && ts.Args[0].IsCall("(sdk/types.Context).BlockTime")
				em("record", okTs, kp("ORIGIN", hn+"#record.NanoTimestamp=BlockTime"), "the stored timestamp is the block time", p.Pos(rm.cs.Instr.Pos()),
					"ctx.BlockTime().UnixNano()", fmt.Sprintf("record.NanoTimestamp = %s", ts))
			} else {
				em("record", false, kp("ORIGIN", hn+"#record-literal"), "record value is a literal built in the handler", p.Pos(rm.cs.Instr.Pos()), "", "record value: "+fmt.Sprint(rm.val))
			}
		case "update-topic":
			// a handler that rewrites a topic only: counters must be carried over unchanged, key owner = signer, topic must exist
			em("auth", okOwner && inAllReturns(sf, ownerF), kp("SIGNER", hn+"#owner-is-signer"), "topic changes are owner-signed", site,
				"owner component ∈ GetSigners", fmt.Sprintf("owner component msg.%s ∉ GetSigners=%v", ownerF, sf))
			w, ok := m.hasGuard(h, setTopic.cs.Instr, "Topic", tk, true)
			em("auth", ok, kp("GUARD", hn+"→SetTopic#HasTopic=true"), "topic is rewritten only when it exists", p.Pos(setTopic.cs.Instr.Pos()), w, "no HasTopic==true guard")
			okc := false
			whyc := "value is not an update of the topic read"
			if setTopic.val != nil && setTopic.val.Op == "lit" {
				tr, tw := setTopic.val.Field("TotalRecords"), setTopic.val.Field("TotalWriters")
				if tr != nil && tw != nil && tr.Op == "field" && tw.Op == "field" && tr.Args[0].Eq(tw.Args[0]) {
					if rk, isRead := m.readOf("Topic", tr.Args[0]); isRead && rk.Eq(tk) {
						okc = true
					}
				}
			}
			em("counter", okc, kp("PAIR", hn+"#counters-carried-over"), "counters are copied from the topic read under the same key", p.Pos(setTopic.cs.Instr.Pos()), "copied", whyc)
		}
	}
	return m
}

func instrPos(p *Prog, in ssa.Instruction) string { return p.Pos(in.Pos()) }


// checkAolListAccessorsWholeFamily: a GetAll* accessor iterates its family's prefix store without bounds of its own — the prefix
// iterator with an empty prefix, or Iterator(nil, nil). A byte bound such as [0x00, 0xFF) leaves out the keys that start with
// 0xFF: a composite key's first byte is its first component's length, and 255 is a legal length.
func checkAolListAccessorsWholeFamily(p *Prog, r *Report, kp func(string, string) string, m *aolModel) {
	emptyBytes := func(t *Term) bool {
		if t == nil {
			return false
		}
		switch {
		case t.Op == "const" && t.Name == "nil":
			return true
		case t.Op == "slicelit" && len(t.Args) == 0:
			return true
		case t.Op == "makeslice":
			return len(t.Args) > 0 && t.Args[0].Op == "const" && t.Args[0].Name == "0"
		}
		return false
	}
	n := 0
	for _, fam := range append([]string{"Owner", "Topic", "Writer", "Record"}, m.extraFamilies()...) {
		for _, a := range m.byFamily[fam] {
			if a.Op != "Iterator" || !aolOnExportPath(p, a.Fn) {
				continue
			}
			cc := a.SO.Instr.Common()
			o := NewOrigin(p, a.SO.Fn)
			name := calleeName(cc)
			ok, what := false, ""
			switch {
			case strings.HasSuffix(name, "types.KVStorePrefixIterator") || strings.HasSuffix(name, "types.KVStoreReversePrefixIterator"):
				t := o.Of(cc.Args[1])
				ok, what = emptyBytes(t), "prefix "+t.String()
			case strings.HasSuffix(name, ".Iterator") || strings.HasSuffix(name, ".ReverseIterator"):
				args := cc.Args
				if !cc.IsInvoke() && len(args) == 3 {
					args = args[1:]
				}
				if len(args) == 2 {
					s0, s1 := o.Of(args[0]), o.Of(args[1])
					ok, what = emptyBytes(s0) && emptyBytes(s1), "bounds ["+s0.String()+", "+s1.String()+")"
				}
			default:
				continue // pagination helpers walk the store they are handed
			}
			n++
			r.Check(ok, kp("LOOP", FuncName(a.Fn)+"#whole-family"), "a list accessor iterates its whole family: no bounds of its own inside the family's prefix store", p.Pos(a.SO.Instr.Pos()),
				what, fmt.Sprintf("%s iterates %s with %s: entries outside these bounds (a key whose first length byte is 0xFF, say) are never listed — they are missing from the export and from what is counted", FuncName(a.Fn), fam, what))
		}
	}
	r.Count("aol-list-accessor-iterators", n)
	// every other iteration of an AOL family: bounded on both sides or on neither. One bound (Iterator(start, nil),
	// ReverseIterator(nil, end)) walks on into the entries of the neighbouring topics and owners.
	n2 := 0
	for _, so := range p.StoreOps() {
		if (so.Op != "Iterator" && so.Op != "ReverseIterator") || !InPkgs(so.Fn, "x/aol") || p.IsGenerated(so.Fn) {
			continue
		}
		cc := so.Instr.Common()
		name := calleeName(cc)
		if !(strings.HasSuffix(name, ".Iterator") || strings.HasSuffix(name, ".ReverseIterator")) {
			continue
		}
		args := cc.Args
		if !cc.IsInvoke() && len(args) == 3 {
			args = args[1:]
		}
		if len(args) != 2 {
			continue
		}
		n2++
		o := NewOrigin(p, so.Fn)
		e0, e1 := emptyBytes(o.Of(args[0])), emptyBytes(o.Of(args[1]))
		if !e0 && !e1 {
			// a two-sided range: each bound is an encoded (partial) key of the family, or the SDK's PrefixEndBytes of one — a
			// hand-made end ("last byte plus one") is not the end of the prefix when that byte is 0xFF
			okB, bad := true, ""
			for _, a := range args {
				t := o.Of(a)
				for t.Op == "res" && len(t.Args) == 1 {
					t = t.Args[0]
				}
				isEnc := t.Op == "call" && strings.Contains(t.Name, "types/compkey.") && strings.Contains(t.Name, "ncode")
				isEnd := t.Op == "call" && strings.HasSuffix(t.Name, "PrefixEndBytes")
				if !isEnc && !isEnd {
					okB, bad = false, t.String()
				}
			}
			r.Check(okB, kp("LOOP", FuncName(so.Fn)+"#"+so.Op+"-bounds-are-encoded-keys"), "the bounds of a range inside a family's store are encoded keys of the family or the SDK's PrefixEndBytes of one", p.Pos(so.Instr.Pos()),
				"encoded keys", fmt.Sprintf("%s bounds its walk with %s, which is neither an encoded key nor PrefixEndBytes of one: a hand-made end of a prefix (last byte plus one) is wrong for a prefix that ends in 0xFF — such owners' or topics' entries fall outside the range", FuncName(so.Fn), clip(bad, 160)))
		}
		r.Check(e0 == e1, kp("LOOP", FuncName(so.Fn)+"#"+so.Op+"-bounded-on-both-sides-or-neither"), "an iteration inside a family's store has both bounds or none (a one-sided range leaves the prefix it started in)", p.Pos(so.Instr.Pos()),
			"both or neither", fmt.Sprintf("%s calls %s(%s, %s): the walk is not confined to the entries that share the bounded side's prefix — the first entry it meets may belong to another topic or owner", FuncName(so.Fn), so.Op, o.Of(args[0]), o.Of(args[1])))
	}
	r.Count("aol-explicit-range-iterations", n2)
}


var aolExportReach map[*ssa.Function]bool

// aolOnExportPath: fn is reachable from x/aol's ExportGenesis — a list accessor there must return every entry of its family. (A
// lookup that iterates part of a family on purpose — the records of one topic, a range of offsets, capped — is a query helper.)
func aolOnExportPath(p *Prog, fn *ssa.Function) bool {
	if aolExportReach == nil {
		aolExportReach = map[*ssa.Function]bool{}
		if e := p.Func(Rel("x/aol"), "ExportGenesis"); e != nil {
			for _, g := range p.ReachFrom([]*ssa.Function{e}, func(f *ssa.Function) bool { return InModule(f) && !p.IsGenerated(f) }).Order {
				aolExportReach[g] = true
			}
		}
	}
	return aolExportReach[fn]
}
