package main

// STOREGET — bytes handed out by KVStore.Get are never written into.
//
// The SDK's store contract: "the returned value must not be modified". The cache-wrapping stores and the IAVL node cache hand out
// the very slice they keep; appending onto it (when it has spare capacity), splicing it with append(v[:i], v[j:]...) or assigning
// elements changes what the *process* holds for the committed value — before, and regardless of whether, the transaction's Set is
// ever written. A rolled-back transaction or a simulation then leaves a node that differs from its own database (and from a node
// that restarts). Rule: no definite write (msgmut.go) into memory reachable from the result of a Get on a KV store.

import (
	"fmt"
	"strings"

	"golang.org/x/tools/go/ssa"
)

func isStoreGet(cs CallSite) bool {
	cc := cs.Instr.Common()
	if cc.IsInvoke() {
		return cc.Method.Name() == "Get" && strings.HasSuffix(cc.Value.Type().String(), "types.KVStore")
	}
	return strings.HasSuffix(cs.Name, "store/prefix.Store).Get") || strings.HasSuffix(cs.Name, "KVStore).Get")
}

const storeGetFixture = `package storegetfx

import sdk "github.com/cosmos/cosmos-sdk/types"

func Splice(store sdk.KVStore, key []byte, i int) {
	v := store.Get(key)
	v = append(v[:i], v[i+1:]...)
	store.Set(key, v)
}

func Extend(store sdk.KVStore, key []byte, b byte) {
	v := store.Get(key)
	v = append(v, b)
	store.Set(key, v)
}

func Copy(store sdk.KVStore, key []byte, b byte) {
	v := store.Get(key)
	w := append(append(make([]byte, 0, len(v)+1), v...), b)
	store.Set(key, w)
}
`

func storeGetWrites(p *Prog, fn *ssa.Function) (nGets int, out []msgWrite) {
	for _, cs := range callSites(fn) {
		if !isStoreGet(cs) {
			continue
		}
		v := cs.Instr.Value()
		if v == nil {
			continue
		}
		nGets++
		out = append(out, writesThroughRoot(p, fn, v, 0, "", map[string]bool{})...)
		// appending onto the value itself may write into its spare capacity
		if refs := v.Referrers(); refs != nil {
			for _, rf := range *refs {
				if c, ok := rf.(*ssa.Call); ok {
					if bi, isB := c.Call.Value.(*ssa.Builtin); isB && bi.Name() == "append" && len(c.Call.Args) > 0 && c.Call.Args[0] == v {
						out = append(out, msgWrite{Fn: fn, Instr: c, How: "append onto the returned slice (writes into its spare capacity)", Chain: FuncName(fn)})
					}
				}
			}
		}
	}
	return
}

func checkStoreGetNotModified(p *Prog, r *Report, clause string) {
	rule := "the bytes a KV store hands out are not modified (SDK store contract): what the process holds for a committed value changes only through Set"
	ckey := "STOREGET:" + clause + ":control#fixture"
	if fx, err := buildFixture(p, "storegetfx", storeGetFixture); err != nil {
		r.Undecided(ckey, "positive control for the store-value rule", "checker/storeget.go", "fixture does not build: "+err.Error())
	} else {
		cnt := func(n string) int { _, w := storeGetWrites(p, fx[n]); return len(w) }
		got := fmt.Sprintf("%d/%d/%d", cnt("Splice"), cnt("Extend"), cnt("Copy"))
		r.Check(got == "1/1/0", ckey, "positive control: splicing and appending onto the returned slice are reported, building a copy is not", "checker/storeget.go (in-memory fixture, not executed)",
			"fixture findings "+got, "fixture findings "+got+", expected 1/1/0: the matcher is broken")
	}
	nGets, nBad := 0, 0
	for _, fn := range p.ModFuncs {
		if fn.Blocks == nil || p.IsGenerated(fn) || InPkgs(fn, "types/testsuite") {
			continue
		}
		g, ws := storeGetWrites(p, fn)
		nGets += g
		for i, w := range ws {
			nBad++
			r.Fail(fmt.Sprintf("STOREGET:%s:%s#%d", clause, FuncName(fn), i), rule, p.Pos(w.Instr.Pos()),
				fmt.Sprintf("%s modifies the slice a store Get returned (%s in %s): the cache layers and the IAVL node cache keep that very slice, so the committed value changes in process memory even if the transaction is rolled back or only simulated — a node that restarts reads the old bytes from disk and diverges", FuncName(fn), w.How, FuncName(w.Fn)))
		}
	}
	if nBad == 0 {
		r.OK("STOREGET:"+clause+":module#none", rule, "x/*, app/*", fmt.Sprintf("%d Get calls on KV stores in module code, none of the returned slices is written into", nGets))
	}
	r.Floor("kv-store-get-calls", nGets, 5)
}
