package main

// LOCK-ORDER — no cycle in the order in which blocking resources are acquired (C20 "cannot deadlock").
//
// Resources are the mutexes and the channels used as semaphores that live in package variables or struct fields; they are named by
// their declaration (Type.field / pkg.var), so two instances of one type share a name (an over-approximation that can only add
// edges between resources of the same declaration, which are ignored: only edges between DIFFERENT resources are used).
// Acquire: Mutex.Lock, RWMutex.Lock/RLock, a send on a resource channel. Release: Unlock/RUnlock, a receive from it.
// Wrappers are summarised: a function that acquires R and never releases it returns holding R; one that only releases R releases
// the caller's R. At every acquisition of R2 (directly or anywhere inside a called module function) each resource R1 held at that
// instruction gives an edge R1→R2; a deferred release holds until the function returns. A cycle R1→…→R1 means two goroutines can
// each hold one resource of the cycle and wait for the next: a deadlock that needs the right interleaving (and, for a counting
// semaphore, enough concurrent holders) and that no single-threaded test can show.

import (
	"fmt"
	"go/token"
	"sort"
	"strings"

	"golang.org/x/tools/go/ssa"
)

type lockEvent struct {
	at       ssa.Instruction
	res      string
	acquire  bool
	deferred bool
	via      string // "" primitive, else the callee that acquires/releases it
	inner    bool   // acquisition happens (and may end) inside the callee: orders the held set before res, but is not held afterwards
}

func lockResource(v ssa.Value) string {
	for i := 0; i < 6; i++ {
		switch x := v.(type) {
		case *ssa.FieldAddr:
			t := x.X.Type()
			return strings.TrimPrefix(shortPkg(strings.TrimPrefix(t.String(), "*")), "*") + "." + fieldName(t, x.Field)
		case *ssa.Field:
			return shortPkg(x.X.Type().String()) + "." + fieldName(x.X.Type(), x.Field)
		case *ssa.Global:
			return shortPkg(x.Pkg.Pkg.Path()) + "." + x.Name()
		case *ssa.UnOp:
			if x.Op == token.MUL {
				v = x.X
				continue
			}
			return ""
		case *ssa.ChangeType:
			v = x.X
			continue
		default:
			return ""
		}
	}
	return ""
}

type lockSummaries struct {
	prims  map[*ssa.Function][]lockEvent
	netAcq map[*ssa.Function]map[string]bool
	netRel map[*ssa.Function]map[string]bool
	allAcq map[*ssa.Function]map[string]string // resource -> witness chain
}

func staticTarget(cc *ssa.CallCommon) *ssa.Function {
	if f := cc.StaticCallee(); f != nil {
		return resolveBound(f)
	}
	if mc, ok := cc.Value.(*ssa.MakeClosure); ok {
		if f, ok := mc.Fn.(*ssa.Function); ok {
			return f
		}
	}
	return nil
}

func primitiveLockEvents(fn *ssa.Function) []lockEvent {
	var out []lockEvent
	for _, b := range fn.Blocks {
		for _, in := range b.Instrs {
			switch x := in.(type) {
			case *ssa.Send:
				if r := lockResource(x.Chan); r != "" {
					out = append(out, lockEvent{at: in, res: r, acquire: true})
				}
			case *ssa.UnOp:
				if x.Op == token.ARROW {
					if r := lockResource(x.X); r != "" {
						out = append(out, lockEvent{at: in, res: r, acquire: false})
					}
				}
			case ssa.CallInstruction:
				cc := x.Common()
				name := calleeName(cc)
				_, isDefer := x.(*ssa.Defer)
				switch name {
				case "(*sync.Mutex).Lock", "(*sync.RWMutex).Lock", "(*sync.RWMutex).RLock":
					if r := lockResource(cc.Args[0]); r != "" {
						out = append(out, lockEvent{at: in, res: r, acquire: true, deferred: isDefer})
					}
				case "(*sync.Mutex).Unlock", "(*sync.RWMutex).Unlock", "(*sync.RWMutex).RUnlock":
					if r := lockResource(cc.Args[0]); r != "" {
						out = append(out, lockEvent{at: in, res: r, acquire: false, deferred: isDefer})
					}
				}
			}
		}
	}
	return out
}

func buildLockSummaries(fns []*ssa.Function) *lockSummaries {
	ls := &lockSummaries{prims: map[*ssa.Function][]lockEvent{}, netAcq: map[*ssa.Function]map[string]bool{}, netRel: map[*ssa.Function]map[string]bool{}, allAcq: map[*ssa.Function]map[string]string{}}
	inSet := map[*ssa.Function]bool{}
	var all []*ssa.Function
	var add func(f *ssa.Function)
	add = func(f *ssa.Function) {
		if f == nil || inSet[f] || f.Blocks == nil {
			return
		}
		inSet[f] = true
		all = append(all, f)
		for _, a := range f.AnonFuncs {
			add(a)
		}
	}
	for _, f := range fns {
		add(f)
	}
	for _, f := range all {
		ls.prims[f] = primitiveLockEvents(f)
		ls.netAcq[f], ls.netRel[f], ls.allAcq[f] = map[string]bool{}, map[string]bool{}, map[string]string{}
	}
	// wrapper summaries (fixpoint, depth bounded by the number of functions)
	for round := 0; round < 8; round++ {
		changed := false
		for _, f := range all {
			acq, rel := map[string]bool{}, map[string]bool{}
			for _, e := range ls.prims[f] {
				if e.acquire {
					acq[e.res] = true
				} else {
					rel[e.res] = true
				}
			}
			for _, cs := range callSites(f) {
				g := staticTarget(cs.Instr.Common())
				if g == nil || !inSet[g] || g == f {
					continue
				}
				for r := range ls.netAcq[g] {
					acq[r] = true
				}
				for r := range ls.netRel[g] {
					rel[r] = true
				}
			}
			for r := range acq {
				if !rel[r] && !ls.netAcq[f][r] {
					ls.netAcq[f][r] = true
					changed = true
				}
			}
			for r := range rel {
				if !acq[r] && !ls.netRel[f][r] {
					ls.netRel[f][r] = true
					changed = true
				}
			}
			// everything acquired at some point inside f
			for _, e := range ls.prims[f] {
				if e.acquire {
					if _, ok := ls.allAcq[f][e.res]; !ok {
						ls.allAcq[f][e.res] = FuncName(f)
						changed = true
					}
				}
			}
			for _, cs := range callSites(f) {
				g := staticTarget(cs.Instr.Common())
				if g == nil || !inSet[g] || g == f {
					continue
				}
				for r, w := range ls.allAcq[g] {
					if _, ok := ls.allAcq[f][r]; !ok {
						ls.allAcq[f][r] = FuncName(f) + " → " + w
						changed = true
					}
				}
			}
		}
		if !changed {
			break
		}
	}
	return ls
}

func instrIndex(in ssa.Instruction) int {
	for i, x := range in.Block().Instrs {
		if x == in {
			return i
		}
	}
	return -1
}

func instrDominates(a, b ssa.Instruction) bool {
	if a.Block() == b.Block() {
		return instrIndex(a) < instrIndex(b)
	}
	return a.Block().Dominates(b.Block())
}

// eventsOf: primitive events plus the events calls to summarised module functions stand for.
func (ls *lockSummaries) eventsOf(f *ssa.Function) []lockEvent {
	out := append([]lockEvent{}, ls.prims[f]...)
	for _, cs := range callSites(f) {
		g := staticTarget(cs.Instr.Common())
		if g == nil || g == f {
			continue
		}
		if _, ok := ls.allAcq[g]; !ok {
			continue
		}
		_, isDefer := cs.Instr.(*ssa.Defer)
		in := cs.Instr.(ssa.Instruction)
		for r := range ls.netAcq[g] {
			out = append(out, lockEvent{at: in, res: r, acquire: true, deferred: isDefer, via: FuncName(g)})
		}
		for r := range ls.netRel[g] {
			out = append(out, lockEvent{at: in, res: r, acquire: false, deferred: isDefer, via: FuncName(g)})
		}
		if !isDefer {
			for r, w := range ls.allAcq[g] {
				if !ls.netAcq[g][r] {
					out = append(out, lockEvent{at: in, res: r, acquire: true, via: w, inner: true})
				}
			}
		}
	}
	return out
}

type lockEdge struct {
	from, to string
	witness  string
}

// lockOrderEdges computes the acquisition-order edges of the given functions.
func lockOrderEdges(p *Prog, fns []*ssa.Function) ([]lockEdge, int) {
	ls := buildLockSummaries(fns)
	var edges []lockEdge
	nAcq := 0
	var fl []*ssa.Function
	for f := range ls.prims {
		fl = append(fl, f)
	}
	sort.Slice(fl, func(i, j int) bool { return FuncName(fl[i]) < FuncName(fl[j]) })
	for _, f := range fl {
		evs := ls.eventsOf(f)
		for _, a := range evs {
			if !a.acquire || a.deferred {
				continue
			}
			nAcq++
			// held at a.at
			for _, h := range evs {
				if !h.acquire || h.deferred || h.inner || h.res == a.res || h.at == a.at || !instrDominates(h.at, a.at) {
					continue
				}
				released := false
				for _, rl := range evs {
					if rl.acquire || rl.deferred || rl.res != h.res {
						continue
					}
					if instrDominates(h.at, rl.at) && instrDominates(rl.at, a.at) {
						released = true
					}
				}
				if released {
					continue
				}
				pos := "?"
				if p != nil {
					pos = p.Pos(a.at.Pos())
				}
				how := "acquires " + a.res
				if a.via != "" {
					how = "calls " + a.via + ", which acquires " + a.res
				}
				edges = append(edges, lockEdge{from: h.res, to: a.res, witness: fmt.Sprintf("%s holds %s and %s (%s)", FuncName(f), h.res, how, pos)})
			}
		}
	}
	return edges, nAcq
}

// lockCycles returns the resource cycles of the edge set (each as a sorted key and a witness text).
func lockCycles(edges []lockEdge) map[string]string {
	adj := map[string]map[string]string{}
	for _, e := range edges {
		if adj[e.from] == nil {
			adj[e.from] = map[string]string{}
		}
		if _, ok := adj[e.from][e.to]; !ok {
			adj[e.from][e.to] = e.witness
		}
	}
	out := map[string]string{}
	var nodes []string
	for n := range adj {
		nodes = append(nodes, n)
	}
	sort.Strings(nodes)
	for _, start := range nodes {
		// DFS for a path back to start
		var path []string
		seen := map[string]bool{}
		var dfs func(n string) bool
		dfs = func(n string) bool {
			path = append(path, n)
			var succ []string
			for m := range adj[n] {
				succ = append(succ, m)
			}
			sort.Strings(succ)
			for _, m := range succ {
				if m == start {
					return true
				}
				if !seen[m] {
					seen[m] = true
					if dfs(m) {
						return true
					}
				}
			}
			path = path[:len(path)-1]
			return false
		}
		if dfs(start) {
			key := append([]string{}, path...)
			sort.Strings(key)
			k := strings.Join(key, "↔")
			if _, dup := out[k]; dup {
				continue
			}
			var w []string
			for i, n := range path {
				next := path[(i+1)%len(path)]
				w = append(w, adj[n][next])
			}
			out[k] = strings.Join(w, "; ")
		}
	}
	return out
}

const lockFixture = `package lockfx

import "sync"

type S struct {
	a, b sync.Mutex
	sem  chan struct{}
}

func (s *S) AB() { s.a.Lock(); defer s.a.Unlock(); s.b.Lock(); defer s.b.Unlock() }
func (s *S) BA() { s.b.Lock(); defer s.b.Unlock(); s.a.Lock(); defer s.a.Unlock() }

type T struct {
	m   sync.RWMutex
	sem chan struct{}
}

func (t *T) acquire() { t.sem <- struct{}{} }
func (t *T) release() { <-t.sem }
func (t *T) Save()    { t.acquire(); defer t.release(); t.m.Lock(); defer t.m.Unlock() }
func (t *T) work()    { t.acquire(); defer t.release() }
func (t *T) Load()    { t.m.RLock(); defer t.m.RUnlock(); t.work() }

type U struct {
	m   sync.Mutex
	sem chan struct{}
}

func (u *U) One() { u.sem <- struct{}{}; defer func() { <-u.sem }(); u.m.Lock(); defer u.m.Unlock() }
func (u *U) Two() { u.sem <- struct{}{}; u.m.Lock(); u.m.Unlock(); <-u.sem }
func (u *U) Seq() { u.m.Lock(); u.m.Unlock(); u.sem <- struct{}{}; <-u.sem }
`

// lockOrderControl: the analysis finds the two planted cycles (mutex/mutex, semaphore-wrapper/rwmutex) and none in the consistent type.
func lockOrderControl(p *Prog, r *Report, key string) {
	fx, err := buildFixture(p, "lockfx", lockFixture)
	if err != nil {
		r.Undecided(key, "positive control for the lock-order analysis", "checker/lockorder.go", "fixture does not build: "+err.Error())
		return
	}
	count := func(T string) int {
		edges, _ := lockOrderEdges(nil, fixtureMethods(fx, T))
		return len(lockCycles(edges))
	}
	got := fmt.Sprintf("%d/%d/%d", count("S"), count("T"), count("U"))
	r.Check(got == "1/1/0", key, "positive control: the lock-order analysis finds an AB/BA mutex cycle and a semaphore-wrapper vs RWMutex cycle, and none where the order is consistent", "checker/lockorder.go (in-memory fixture, not executed)",
		"cycles found "+got, "cycles found "+got+", expected 1/1/0: the analysis is broken")
}
