package main

// PNFT model: effects (x/nft mutator calls and raw store writes) reached from an entry function, with the path
// condition accumulated along the call chain, expressed in the entry function's vocabulary. Shared by C06, C08, C12.

import (
	"fmt"
	"go/types"
	"sort"
	"strings"

	"golang.org/x/tools/go/ssa"
)

const nftKeeperPath = SDK + "/x/nft/keeper"

// nftMutators: the x/nft keeper API that writes state, by what it writes (SDK symbols; verified against the
// loaded SDK source by nftMutatorTableCheck).
var nftMutators = map[string]string{
	"SaveClass": "class", "UpdateClass": "class",
	"Mint": "token+owner", "Update": "token", "Burn": "token+owner", "Transfer": "owner",
	"BatchMint": "token+owner", "BatchUpdate": "token", "BatchBurn": "token+owner", "BatchTransfer": "owner",
	"InitGenesis": "all", "Send": "owner",
}

type pnftEffect struct {
	Fn    *ssa.Function
	Instr ssa.CallInstruction
	Kind  string // nft:<Method> | raw:<Op>
	Term  *Term
	Cond  *Formula
	Chain []string
	Key   *Term // raw ops: key term
}

type pnftWalker struct {
	p       *Prog
	effects []pnftEffect
	calls   []pnftCall // module calls on the way (for C08-D3 / notes)
	seen    map[string]bool
}

type pnftCall struct {
	Callee *ssa.Function
	Term   *Term
	Cond   *Formula
}

func isNftKeeperMethod(f *ssa.Function) (string, bool) {
	if f == nil || pkgPathOf(f) != nftKeeperPath || f.Signature.Recv() == nil {
		return "", false
	}
	return f.Name(), true
}

// walk explores fn (with parameter environment in o) and records effects.
func (w *pnftWalker) walk(fn *ssa.Function, o *Origin, cond *Formula, depth int, chain []string) {
	fa := NewFacts(w.p, fn, o)
	for _, cs := range callSites(fn) {
		here := fAnd(cond, fa.At(cs.Instr.Block()))
		cc := cs.Instr.Common()
		// raw store operations
		if cc.IsInvoke() && isStoreType(shortPkg(cc.Value.Type().String())) {
			m := cc.Method.Name()
			if m == "Set" || m == "Delete" {
				e := pnftEffect{Fn: fn, Instr: cs.Instr, Kind: "raw:" + m, Cond: here, Chain: append(append([]string(nil), chain...), FuncName(fn))}
				if c, ok := cs.Instr.(*ssa.Call); ok {
					e.Term = o.Of(c)
					if len(cc.Args) > 0 {
						e.Key = o.Of(cc.Args[0])
					}
				}
				w.effects = append(w.effects, e)
			}
			continue
		}
		callee := cs.Callee
		if callee == nil {
			continue
		}
		callee = resolveBound(callee)
		if name, ok := isNftKeeperMethod(callee); ok {
			if _, isMut := nftMutators[name]; isMut {
				e := pnftEffect{Fn: fn, Instr: cs.Instr, Kind: "nft:" + name, Cond: here, Chain: append(append([]string(nil), chain...), FuncName(fn))}
				if c, ok := cs.Instr.(*ssa.Call); ok {
					e.Term = o.Of(c)
				}
				w.effects = append(w.effects, e)
			}
			continue
		}
		if callee.Signature.Recv() != nil && isStoreType(shortPkg(callee.Signature.Recv().Type().String())) && (callee.Name() == "Set" || callee.Name() == "Delete") {
			e := pnftEffect{Fn: fn, Instr: cs.Instr, Kind: "raw:" + callee.Name(), Cond: here, Chain: append(append([]string(nil), chain...), FuncName(fn))}
			if c, ok := cs.Instr.(*ssa.Call); ok {
				e.Term = o.Of(c)
				if len(cc.Args) > 1 {
					e.Key = o.Of(cc.Args[1])
				}
			}
			w.effects = append(w.effects, e)
			continue
		}
		if !InPkgs(callee, "x/pnft") || w.p.IsGenerated(callee) || callee.Blocks == nil || depth >= 3 {
			continue
		}
		c, ok := cs.Instr.(*ssa.Call)
		if !ok {
			continue
		}
		ct := o.Of(c)
		w.calls = append(w.calls, pnftCall{Callee: callee, Term: ct, Cond: here})
		if isPureFn(callee, 0) {
			continue
		}
		sub := NewOrigin(w.p, callee)
		sub.site = o.site + w.p.Pos(c.Pos()) + ">"
		sub.depth = o.depth
		actuals := cc.Args
		if cc.IsInvoke() {
			// devirtualised interface call: the receiver is not part of Args
			actuals = append([]ssa.Value{cc.Value}, cc.Args...)
		}
		for i, prm := range callee.Params {
			if i < len(actuals) {
				sub.env[prm] = o.argAt(actuals[i], c)
			}
		}
		w.walk(callee, sub, here, depth+1, append(append([]string(nil), chain...), FuncName(fn)))
	}
}

func pnftEffectsFrom(p *Prog, fn *ssa.Function) *pnftWalker {
	w := &pnftWalker{p: p, seen: map[string]bool{}}
	w.walk(fn, NewOrigin(p, fn), fTrue, 0, nil)
	return w
}

// ownerAtom: eq(actor, <lookup>(...)[0].Owner) — returns the lookup call term and the actor term.
func ownerAtom(t *Term) (lookup *Term, actor *Term, ok bool) {
	if t == nil || t.Op != "eq" || len(t.Args) != 2 {
		return nil, nil, false
	}
	for i := 0; i < 2; i++ {
		a, b := t.Args[i], t.Args[1-i]
		if a.Op == "field" && a.Name == "Owner" && len(a.Args) == 1 {
			c, k := a.Args[0].Res()
			if a.Args[0].Op == "res" && k == 0 && c.Op == "call" && strings.Contains(c.Name, "x/pnft/keeper") {
				return c, b, true
			}
		}
	}
	return nil, nil, false
}

func handlerMsgType(fn *ssa.Function) *types.Named {
	if len(fn.Params) >= 3 {
		if pt, ok := fn.Params[2].Type().(*types.Pointer); ok {
			if n, ok := pt.Elem().(*types.Named); ok {
				return n
			}
		}
	}
	return nil
}

// pnftAuthRules: C06-D1/D2/D3.
func pnftAuthRules(p *Prog, r *Report, clause string) {
	kp := func(rule, rest string) string { return rule + ":" + clause + ":" + rest }
	hs := p.ServerHandlers("MsgServer")["x/pnft"]
	r.Floor("pnft-handlers", len(hs), 7)
	lookups := map[string]*ssa.Function{}
	nGuarded := 0
	usedMut := map[string]int{}
	for _, fn := range sortedFuncs(hs) {
		hn := FuncName(fn)
		msg := handlerMsgType(fn)
		if msg == nil {
			r.Undecided(kp("SCHEMA", hn), "handler has a request parameter", p.FnPos(fn), "no *Msg parameter")
			continue
		}
		sf, notes := SignerFields(p, msg)
		for _, n := range notes {
			r.Fail(kp("SIGNER", msg.Obj().Name()+"#unresolved"), "GetSigners returns addresses parsed from message fields only", p.FnPos(fn), n)
		}
		w := pnftEffectsFrom(p, fn)
		if len(w.effects) == 0 {
			r.Undecided(kp("SCHEMA", hn+"#no-effect"), "every PNFT message handler reaches an x/nft mutator or a store write", p.FnPos(fn), "no effect found on the handler's call tree (depth 3)")
			continue
		}
		for _, e := range w.effects {
			site := p.Pos(e.Instr.Pos())
			ek := hn + "→" + e.Kind + "@" + FuncName(e.Fn)
			// a raw write under a prefix variable of the module's own (an index, a counter) changes no denom, token or owner
			// record: the ownership schema is about those records (whether such a family is kept in step is C08's question)
			if (e.Kind == "raw:Set" || e.Kind == "raw:Delete") && e.Key != nil && otherFamilyKey(p, e.Key) {
				r.Note("%s writes a store family of the module's own (%s in %s): not an x/nft record", hn, e.Kind, FuncName(e.Fn))
				continue
			}
			usedMut[e.Kind]++
			switch e.Kind {
			case "nft:SaveClass":
				// creating a denom: the owner recorded is the signer
				owner := findDenomMetaOwner(e.Term)
				f, ok := msgField(owner)
				r.Check(ok && inAllReturns(sf, f), kp("SIGNER", ek+"#owner=signer"), "a denom is created with its signer as owner", site,
					fmt.Sprintf("DenomMeta.Owner ← msg.%s ∈ GetSigners=%v", f, sf), fmt.Sprintf("DenomMeta.Owner = %v, GetSigners=%v", owner, sf))
				continue
			case "nft:Update", "nft:BatchUpdate", "nft:BatchMint", "nft:BatchBurn", "nft:BatchTransfer", "nft:InitGenesis", "nft:Send", "raw:Set":
				r.Fail(kp("WMC", ek), "PNFT handlers reach only SaveClass/UpdateClass/Mint/Burn/Transfer and the class delete", site,
					"unexpected state mutation "+e.Kind+" on the call tree of "+hn+" (chain: "+strings.Join(e.Chain, " -> ")+")")
				continue
			}
			// find a dominating ownership fact
			var lk, actor *Term
			wit, ok := "", false
			for _, a := range e.Cond.Atoms() {
				l, act, isO := ownerAtom(a.Term)
				if !isO {
					continue
				}
				if Entails(e.Cond, a) {
					lk, actor, wit, ok = l, act, a.String(), true
					break
				}
			}
			if !ok {
				r.Fail(kp("GUARD", ek+"#actor==current-owner"), "guarded effect: every x/nft mutation reached from a PNFT handler is dominated, along the whole call chain, by actor == owner read from the store", site,
					"no dominating `actor == <lookup>(...).Owner` fact on the path "+strings.Join(e.Chain, " -> ")+": anybody can perform "+e.Kind)
				continue
			}
			nGuarded++
			if len(wit) > 300 {
				wit = wit[:300] + "…"
			}
			r.OK(kp("GUARD", ek+"#actor==current-owner"), "guarded effect: every x/nft mutation reached from a PNFT handler is dominated, along the whole call chain, by actor == owner read from the store", site, wit)
			// actor is the signer
			f, okF := msgField(actor)
			r.Check(okF && inAllReturns(sf, f), kp("SIGNER", ek+"#actor=signer"), "the actor compared with the owner is the request field GetSigners returns", site,
				fmt.Sprintf("actor ← msg.%s ∈ GetSigners(%s)=%v", f, msg.Obj().Name(), sf), fmt.Sprintf("actor = %v, GetSigners(%s)=%v", actor, msg.Obj().Name(), sf))
			// the resource acted upon is the one whose owner was read
			if sc := staticCalleeOfTerm(p, lk); sc != nil {
				lookups[FuncName(sc)] = sc
			}
			ids := lk.Args[2:] // receiver, ctx, ids...
			okRes, why := sameResource(e, lk, ids)
			r.Check(okRes, kp("ORIGIN", ek+"#same-resource"), "the resource mutated is the one whose current owner was read (same ids / derived from the same read)", site, why, why)
			if e.Kind == "raw:Delete" && okRes {
				// … and the key builder really yields x/nft's key of that id: prefix ++ id, whole, in a buffer of exactly that size
				if kb := staticCalleeOfTerm(p, e.Key); kb != nil {
					okKB, whyKB := rawClassKeyBuilderShape(kb)
					r.Check(okKB, kp("LIN", FuncName(kb)+"#key=prefix++id"), "the hand-built x/nft class key is the class prefix followed by the whole id, in a buffer sized len(prefix)+len(id)", p.FnPos(kb), whyKB,
						FuncName(kb)+": "+whyKB+" — a fixed-size or otherwise bounded buffer truncates long ids, so the delete hits the denom named by the truncated prefix (another owner's denom, tokens and all) instead of the one that was checked")
				}
			}
			// fields of the looked-up resource overwritten before it is written back: never the id; the owner only alone (hand-over)
			if e.Kind == "nft:UpdateClass" {
				var stored []string
				for _, b := range e.Fn.Blocks {
					for _, in := range b.Instrs {
						st, ok := in.(*ssa.Store)
						if !ok {
							continue
						}
						fa2, ok := st.Addr.(*ssa.FieldAddr)
						if !ok {
							continue
						}
						if ex, ok := fa2.X.(*ssa.Extract); ok {
							if c, ok := ex.Tuple.(*ssa.Call); ok && lk.Val == ssa.Value(c) {
								stored = append(stored, fieldName(fa2.X.Type(), fa2.Field))
							}
						}
					}
				}
				sort.Strings(stored)
				okS := !has(stored, "Id") && (!has(stored, "Owner") || len(stored) == 1)
				r.Check(okS, kp("FIELDS", ek+"#overwritten-fields"), "an update never re-keys the denom (Id) and ownership changes only through the hand-over schema (Owner is the only field it overwrites)", site,
					fmt.Sprintf("fields overwritten on the denom read: %v", stored), fmt.Sprintf("fields overwritten on the denom read: %v — Id must never change and Owner only alone", stored))
			}
			// ids come from the request
			allReq := true
			for _, id := range ids {
				if _, ok := msgField(id); !ok {
					allReq = false
				}
			}
			r.Check(allReq, kp("ORIGIN", ek+"#ids-from-request"), "resource ids are request fields", site, fmt.Sprint(ids), fmt.Sprint(ids))
		}
	}
	r.Floor("guarded-nft-mutations", nGuarded, 6)
	// owner lookups read the store for the same ids
	for _, name := range sortedKeys(lookups) {
		checkOwnerLookup(p, r, kp, lookups[name])
	}
	r.Floor("owner-lookup-functions", len(lookups), 2)
	// D3: who may call x/nft mutators in the module (incl. positive control)
	uses := p.UsesOf(func(f *ssa.Function) bool {
		n, ok := isNftKeeperMethod(f)
		_, mut := nftMutators[n]
		return ok && mut
	})
	cnt := map[string]int{}
	for f, us := range uses {
		for _, u := range us {
			cnt[f.Name()]++
			if !InPkgs(u.In, "x/pnft/keeper") {
				r.Fail(kp("WMC", "nft."+f.Name()+"<-"+FuncName(u.In)), "x/nft mutators are called only from the pnft keeper", p.Pos(u.Instr.Pos()), "called from "+FuncName(u.In))
			}
		}
	}
	// D3b: the keeper's own mutating API (every keeper function from which an x/nft mutator or a raw store write is reached within
	// the keeper package) is driven only by message handlers, by other keeper functions and by the module's genesis import —
	// not by migrations, upgrade handlers, hooks of other modules or ante decorators (none of which checks the actor).
	mutating := map[*ssa.Function]bool{}
	for f, us := range uses {
		_ = f
		for _, u := range us {
			if InPkgs(u.In, "x/pnft/keeper") {
				mutating[u.In] = true
			}
		}
	}
	for _, so := range p.StoreOps() {
		// (a write under a prefix of the module's own — an index, a counter — changes no denom, token or owner record)
		if (so.Op == "Set" || so.Op == "Delete") && InPkgs(so.Fn, "x/pnft/keeper") && !(so.Key != nil && otherFamilyKey(p, so.Key)) {
			mutating[so.Fn] = true
		}
	}
	for changed := true; changed; {
		changed = false
		for _, fn := range p.ModFuncs {
			if !InPkgs(fn, "x/pnft/keeper") || mutating[fn] || p.IsGenerated(fn) {
				continue
			}
			for _, cs := range callSites(fn) {
				if cs.Callee != nil && mutating[resolveBound(cs.Callee)] {
					mutating[fn] = true
					changed = true
				}
			}
		}
	}
	nMutAPI := 0
	byName := map[string]*ssa.Function{}
	for fn := range mutating {
		byName[FuncName(fn)] = fn
	}
	for _, fn := range sortedFuncs(byName) {
		nMutAPI++
		callers, us := p.CallersOf(fn)
		_ = us
		for _, c := range callers {
			ok := InPkgs(c, "x/pnft/keeper") && !strings.Contains(strings.ToLower(c.Name()), "migrat") && !strings.Contains(strings.ToLower(FuncName(c)), "migrator") ||
				pkgPathOf(c) == Rel("x/pnft") && (c.Name() == "InitGenesis" || strings.HasPrefix(c.Name(), "Import") || strings.HasPrefix(c.Name(), "import")) ||
				InPkgs(c, "types/testsuite")
			if !ok {
				r.Fail(kp("WMC", "pnft-mutator:"+FuncName(fn)+"<-"+FuncName(c)), "the pnft keeper's mutating functions are driven only by message handlers, keeper functions and the genesis import", p.FnPos(c),
					FuncName(c)+" calls "+FuncName(fn)+", which changes denoms/tokens/owners, outside any message handler: no owner signed for it")
			}
		}
	}
	r.Floor("pnft-keeper-mutating-functions", nMutAPI, 6)
	r.Check(cnt["Update"] == 0 && cnt["BatchUpdate"] == 0, kp("WMC", "nft.Update#expected=0"), "nothing in the module rewrites a minted token's data (x/nft Update has no call site; control: Mint has one)", "x/pnft/keeper",
		fmt.Sprintf("call sites: %v", cnt), fmt.Sprintf("x/nft Update is called: %v", cnt))
	r.Floor("nft.Mint-call-sites(control)", cnt["Mint"], 1)
	nftMutatorTableCheck(p, r, kp)
}

func sortedKeys(m map[string]*ssa.Function) []string {
	var ks []string
	for k := range m {
		ks = append(ks, k)
	}
	sort.Strings(ks)
	return ks
}

func staticCalleeOfTerm(p *Prog, t *Term) *ssa.Function {
	if t == nil || t.Val == nil {
		return nil
	}
	if c, ok := t.Val.(*ssa.Call); ok {
		return c.Call.StaticCallee()
	}
	return nil
}

// findDenomMetaOwner digs the Owner given to DenomMeta inside a SaveClass/UpdateClass argument.
func findDenomMetaOwner(t *Term) *Term {
	var out *Term
	t.Walk(func(x *Term) {
		if out == nil && x.Op == "lit" && (strings.HasSuffix(x.Name, "Denom") || strings.HasSuffix(x.Name, "DenomMeta")) {
			if f := x.Field("Owner"); f != nil {
				out = f
			}
		}
	})
	return out
}

// sameResource: class effects must derive from the very lookup call; token effects must pass the lookup's ids.
func sameResource(e pnftEffect, lk *Term, ids []*Term) (bool, string) {
	switch e.Kind {
	case "nft:UpdateClass":
		if e.Term != nil && len(e.Term.Args) >= 3 && e.Term.Args[2].Contains(func(x *Term) bool { return x.Eq(lk) }) {
			return true, "the class written is built from the denom returned by the same lookup call"
		}
		return false, "the class written does not derive from the denom whose owner was compared: " + fmt.Sprint(e.Term)
	case "raw:Delete":
		if id := rawKeyID(e.Key); id != nil && len(ids) == 1 && id.Eq(ids[0]) {
			return true, "deleted key = " + e.Key.Name + "(" + ids[0].String() + ")"
		}
		return false, fmt.Sprintf("deleted key %v is not built from the id %v whose owner was compared", e.Key, ids)
	case "nft:Mint":
		if e.Term != nil && len(e.Term.Args) >= 3 && len(ids) == 1 {
			tok := e.Term.Args[2]
			if c := tok.Field("ClassId"); c != nil && c.Eq(ids[0]) {
				return true, "minted into class " + ids[0].String()
			}
			if c := tok.Field("ClassId"); c != nil && c.Op == "field" && c.Name == "Id" && c.Args[0].Op == "res" && c.Args[0].Args[0].Eq(lk) {
				return true, "minted into the class of the denom read"
			}
		}
		return false, fmt.Sprintf("minted token %v is not in the class %v whose owner was compared", e.Term, ids)
	case "nft:Transfer", "nft:Burn":
		if e.Term != nil && len(e.Term.Args) >= 4 && len(ids) == 2 && e.Term.Args[2].Eq(ids[0]) && e.Term.Args[3].Eq(ids[1]) {
			return true, "same (class, token) ids"
		}
		return false, fmt.Sprintf("%s acts on %v but the owner was read for %v", e.Kind, e.Term, ids)
	}
	return false, "unclassified effect " + e.Kind
}

// checkOwnerLookup: the function whose result's Owner is compared really reads the store for its id parameters.
func checkOwnerLookup(p *Prog, r *Report, kp func(string, string) string, fn *ssa.Function) {
	o := NewOrigin(p, fn)
	n := FuncName(fn)
	okAny := false
	for _, ret := range successReturns(fn) {
		t := o.Of(ret.Results[0])
		// token lookup: &Pnft{Owner: String(GetOwner(ctx, $class, $id))}
		var owner *Term
		if ow := t.Field("Owner"); ow != nil && t.Op == "addr" {
			owner = ow
		}
		if owner != nil && owner.Op == "field" && owner.Name == "Owner" && len(owner.Args) == 1 && owner.Args[0].Op == "outparam" && strings.Contains(owner.Args[0].Name, "Unmarshal") {
			// denom lookup with the unpacking constructor summarised: &Denom{Id: GetClass(ctx, $id).Id, …, Owner: meta.Owner}
			idt := t.Field("Id")
			okc := idt != nil && idt.Contains(func(x *Term) bool {
				return x.IsCall("(sdk/x/nft/keeper.Keeper).GetClass") && len(x.Args) == 3 && x.Args[2].Op == "param"
			})
			r.Check(okc, kp("ORIGIN", n+"#denom=GetClass(id)"), "the denom whose owner is compared is unpacked from the stored class of the id parameter", p.Pos(ret.Pos()),
				"denom ≡ unpack(nftKeeper.GetClass(ctx, $id))", "denom = "+t.String())
			r.OK(kp("ORIGIN", "x/pnft/types.NewDenomFromClass#Owner=DenomMeta.Owner"), "the denom's owner is the Owner of the DenomMeta unmarshalled from the class data", p.Pos(ret.Pos()), "Owner ≡ meta.Owner (constructor summarised)")
			okAny = true
			continue
		}
		if owner != nil {
			g := owner
			if g.IsCall("(sdk/types.AccAddress).String") {
				g = g.Args[0]
			}
			ok := g.IsCall("(sdk/x/nft/keeper.Keeper).GetOwner") && len(g.Args) == 4 && g.Args[2].Op == "param" && g.Args[3].Op == "param"
			r.Check(ok, kp("ORIGIN", n+"#Owner=nft.GetOwner(ids)"), "the token owner compared is x/nft's owner record for the same (class, token) parameters", p.Pos(ret.Pos()),
				"Owner ≡ nftKeeper.GetOwner(ctx, $denomId, $id).String()", "Owner = "+owner.String())
			okAny = true
			continue
		}
		// denom lookup: NewDenomFromClass(cdc, &GetClass(ctx, $id)[0])
		c, k := t.Res()
		if t.Op == "res" && k == 0 && c.Op == "call" {
			okc := c.Contains(func(x *Term) bool {
				return x.IsCall("(sdk/x/nft/keeper.Keeper).GetClass") && len(x.Args) == 3 && x.Args[2].Op == "param"
			})
			r.Check(okc, kp("ORIGIN", n+"#denom=GetClass(id)"), "the denom whose owner is compared is unpacked from the stored class of the id parameter", p.Pos(ret.Pos()),
				"denom ≡ unpack(nftKeeper.GetClass(ctx, $id))", "denom = "+t.String())
			okAny = true
			// the unpacking function maps Owner from the class's DenomMeta
			if sc := staticCalleeOfTerm(p, c); sc != nil {
				so := NewOrigin(p, sc)
				for _, r2 := range successReturns(sc) {
					t2 := so.Of(r2.Results[0])
					ow := t2.Field("Owner")
					ok2 := ow != nil && ow.Op == "field" && ow.Name == "Owner" && ow.Args[0].Op == "outparam" && strings.Contains(ow.Args[0].Name, "Unmarshal")
					r.Check(ok2, kp("ORIGIN", FuncName(sc)+"#Owner=DenomMeta.Owner"), "the denom's owner is the Owner of the DenomMeta unmarshalled from the class data", p.Pos(r2.Pos()),
						"Owner ≡ meta.Owner", "Owner = "+fmt.Sprint(ow))
				}
			}
		}
	}
	if !okAny {
		r.Undecided(kp("ORIGIN", n+"#owner-lookup"), "owner lookup reads the store", p.FnPos(fn), "result shape not recognised")
	}
}

// nftMutatorTableCheck: every method of the x/nft keeper from which a store Set/Delete is statically reachable
// (within x/nft/keeper) is in the frozen mutator table, so a mutator cannot be missed.
func nftMutatorTableCheck(p *Prog, r *Report, kp func(string, string) string) {
	n := p.Named(nftKeeperPath, "Keeper")
	if n == nil {
		r.Fail(kp("WMC", "nft-keeper#anchor"), "anchor", nftKeeperPath, "x/nft keeper type not loaded")
		return
	}
	var missing []string
	found := 0
	for i := 0; i < n.NumMethods(); i++ {
		m := n.Method(i)
		if !m.Exported() {
			continue
		}
		fn := p.SSA.FuncValue(m)
		if fn == nil {
			continue
		}
		reach := p.ReachFrom([]*ssa.Function{fn}, func(f *ssa.Function) bool { return pkgPathOf(f) == nftKeeperPath })
		writes := false
		for _, f := range reach.Order {
			if f.Signature.Recv() != nil && isStoreType(shortPkg(f.Signature.Recv().Type().String())) && (f.Name() == "Set" || f.Name() == "Delete") {
				writes = true
			}
		}
		for _, iv := range reach.Invokes {
			if (iv.Method == "Set" || iv.Method == "Delete") && isStoreType(iv.Iface) {
				writes = true
			}
		}
		if writes {
			found++
			if _, ok := nftMutators[m.Name()]; !ok {
				missing = append(missing, m.Name())
			}
		}
	}
	r.Check(len(missing) == 0 && found >= 6, kp("WMC", "nft-keeper#mutator-table-complete"),
		"every exported x/nft keeper method that can reach a store write is in the checker's mutator table", nftKeeperPath,
		fmt.Sprintf("%d writing methods, all tabled", found), fmt.Sprintf("writing methods not in the table: %v (found %d)", missing, found))
}

// rawClassKeyBuilderShape: fn(id string) []byte returns make([]byte, len(P)+len(id)) filled by copy(key, P) and
// copy(key[len(P):], id), with P a package-level byte slice (x/nft's ClassKey) — or append(P-copy, id...).
func rawClassKeyBuilderShape(fn *ssa.Function) (bool, string) {
	if fn == nil || fn.Blocks == nil || len(fn.Params) != 1 {
		return false, "unexpected signature"
	}
	id := fn.Params[0]
	rets := returnsOf(fn)
	if len(rets) != 1 || len(rets[0].Results) != 1 {
		return false, "more than one return"
	}
	v := rets[0].Results[0]
	// append form: append(<copy of the prefix variable>, id...) — a fresh slice that grows as needed
	if progForFacts != nil {
		t := NewOrigin(progForFacts, fn).Of(v)
		if t.IsCall("builtin:append") && len(t.Args) == 2 && t.Args[0].Op == "gval" {
			a := t.Args[1]
			if a.Op == "conv" && len(a.Args) == 1 {
				a = a.Args[0]
			}
			if a.Op == "param" {
				if c, isCall := v.(*ssa.Call); isCall {
					// the destination must be a copy of the prefix variable, not the variable itself (append may write into spare capacity)
					if inner, isInner := c.Call.Args[0].(*ssa.Call); isInner {
						if bi, isB := inner.Call.Value.(*ssa.Builtin); isB && bi.Name() == "append" {
							return true, "append(append(<empty>, prefix...), id...)"
						}
					}
				}
			}
		}
	}
	ms, ok := v.(*ssa.MakeSlice)
	if !ok {
		return false, fmt.Sprintf("the key returned is %s, not a buffer made for this id (make([]byte, len(prefix)+len(id)))", strings.SplitN(v.String(), "\n", 2)[0])
	}
	d := LinOf(ms.Len)
	want := "len(" + id.Name() + ")"
	if d.C != 0 || len(d.Coef) != 2 || d.Coef[want] != 1 {
		return false, "buffer length is " + d.String() + ", expected len(prefix)+len(id)"
	}
	var copies []*ssa.Call
	for _, b := range fn.Blocks {
		for _, in := range b.Instrs {
			if c, ok := in.(*ssa.Call); ok {
				if bi, isB := c.Call.Value.(*ssa.Builtin); isB && bi.Name() == "copy" {
					copies = append(copies, c)
				}
			}
		}
	}
	prefixCopied, idCopied := false, false
	for _, c := range copies {
		dst, src := c.Call.Args[0], c.Call.Args[1]
		isGlobalLoad := func(x ssa.Value) bool {
			u, ok := x.(*ssa.UnOp)
			if !ok {
				return false
			}
			_, isG := u.X.(*ssa.Global)
			return isG
		}
		switch {
		case dst == ssa.Value(ms) && isGlobalLoad(src):
			prefixCopied = true
		case src == ssa.Value(id) || isConvOf(src, id):
			if sl, ok := dst.(*ssa.Slice); ok && sl.X == ssa.Value(ms) && sl.Low != nil && sl.High == nil {
				lo := LinOf(sl.Low)
				if lo.C == 0 && len(lo.Coef) == 1 {
					idCopied = true
				}
			}
		}
	}
	if !prefixCopied || !idCopied {
		return false, fmt.Sprintf("prefix copied to the start=%v, whole id copied right behind it=%v", prefixCopied, idCopied)
	}
	return true, "make([]byte, len(prefix)+len(id)); copy(key, prefix); copy(key[len(prefix):], id)"
}

func isConvOf(v ssa.Value, x ssa.Value) bool {
	c, ok := v.(*ssa.Convert)
	return ok && c.X == x
}

// rawKeyID: the id a hand-built x/nft class key is made of — keyBuilder(id), or the builder inlined: append(<prefix variable>, id...).
func rawKeyID(key *Term) *Term {
	if key == nil || key.Op != "call" {
		return nil
	}
	if key.Name == "builtin:append" {
		if len(key.Args) == 2 && (key.Args[0].Op == "gval" || key.Args[0].Op == "global") {
			id := key.Args[1]
			if id.Op == "conv" && len(id.Args) == 1 {
				id = id.Args[0]
			}
			return id
		}
		return nil
	}
	if len(key.Args) == 1 {
		return key.Args[0]
	}
	return nil
}

// checkPnftViewsDoNotRewriteEntities: a keeper function that assigns to a field of a decoded denom or token is one that saves it
// (it reaches an x/nft mutator or a raw store write). A getter or lister that rewrites a field (a "canonical" owner spelling,
// an inherited uri) shows something the listings — which filter on the stored value — do not agree with.
func checkPnftViewsDoNotRewriteEntities(p *Prog, r *Report, kp func(string, string) string) {
	rule := "only the functions that save a denom or token assign its fields: what a getter returns is what is stored (listings filter on the stored value)"
	nFn, nBad := 0, 0
	for _, fn := range p.ModFuncs {
		if fn.Blocks == nil || p.IsGenerated(fn) || !inExactPkgs(fn, "x/pnft/keeper") {
			continue
		}
		var at ssa.Instruction
		fname := ""
		for _, b := range fn.Blocks {
			for _, in := range b.Instrs {
				st, ok := in.(*ssa.Store)
				if !ok {
					continue
				}
				fa, ok := st.Addr.(*ssa.FieldAddr)
				if !ok {
					continue
				}
				if _, isLocal := fa.X.(*ssa.Alloc); isLocal {
					continue // a literal under construction
				}
				pt, ok := fa.X.Type().Underlying().(*types.Pointer)
				if !ok {
					continue
				}
				n, ok := pt.Elem().(*types.Named)
				if !ok || n.Obj().Pkg() == nil || n.Obj().Pkg().Path() != Rel("x/pnft/types") || (n.Obj().Name() != "Denom" && n.Obj().Name() != "Pnft") {
					continue
				}
				at, fname = st, n.Obj().Name()+"."+fieldAddrName(fa)
			}
		}
		if at == nil {
			continue
		}
		nFn++
		savesFn := func(root *ssa.Function) bool {
			for _, g := range p.ReachFrom([]*ssa.Function{root}, func(f *ssa.Function) bool { return InModule(f) && !p.IsGenerated(f) }).Order {
				for _, cs := range callSites(g) {
					if cs.Callee != nil {
						if m, ok := isNftKeeperMethod(resolveBound(cs.Callee)); ok {
							if _, mut := nftMutators[m]; mut {
								return true
							}
						}
					}
					if strings.HasSuffix(cs.Name, "KVStore.Set") || strings.HasSuffix(cs.Name, "prefix.Store).Set") {
						return true
					}
				}
			}
			return false
		}
		saves := savesFn(fn)
		if !saves {
			// a helper that applies the changes for a caller that saves: every caller (two levels up) saves
			var allSave func(f *ssa.Function, depth int) bool
			allSave = func(f *ssa.Function, depth int) bool {
				callers, _ := p.CallersOf(f)
				if len(callers) == 0 || depth > 2 {
					return false
				}
				for _, c := range callers {
					if !InModule(c) || InPkgs(c, "types/testsuite") {
						continue
					}
					if !savesFn(c) && !allSave(c, depth+1) {
						return false
					}
				}
				return true
			}
			saves = allSave(fn, 0)
		}
		if !saves {
			nBad++
		}
		r.Check(saves, kp("WMC", FuncName(fn)+"#assigns-"+fname+"-only-to-save"), rule, p.Pos(at.Pos()), "the function saves what it changed",
			fmt.Sprintf("%s assigns %s of a decoded entity but never saves it: callers see a value that is not the stored one, while DenomsByOwner / PNFTsByDenomOwner compare the stored value — the single-item view and the listings disagree", FuncName(fn), fname))
	}
	r.Count("pnft-keeper-functions-assigning-entity-fields", nFn)
	_ = nBad
}
